"""Supporting runs of the real server over the real ssl_tcp_adaptor and OpenSSL on loopback sockets (cpp/h_tls.cpp).

The simulation transcribes the TLS adaptor's shape; these runs execute it, with a blocking client written directly on
OpenSSL that sees how every connection ends.  Judged: the response arrives complete and the stream is ended by
close_notify when the library closes; keep-alive exchanges complete; a peer that never answers the close_notify does not
stop other connections from being served; the server process survives a peer that resets in the middle of a response."""
import re
import vlib

LINE = re.compile(r"a=(\d+)/(\d+):(\S+) b=(\S+) bms=(-?\d+) conns=(\d+) disc=(\d+) alive=(\d) threw=(\S+)$")


def cases_for(chk):
    rng = chk.rng
    out = ["tls close 100 1", "tls close 3000000 0", "tls close 0 1", "tls keep 1000 3", "tls linger 2000", "tls linger 500000",
           "tls abort 8000000", "tls abort 8000000", "tls abort 20000000"]
    for _ in range(0 if chk.tier == "quick" else 40):
        k = rng.choice(["close", "close", "keep", "linger", "abort"])
        n = rng.choice([0, 1, 17000, 200000, 5000000, 12000000])
        out.append("tls %s %d %d" % (k, n, rng.randrange(2)) if k == "close" else "tls %s %d%s" % (k, n, " %d" % rng.randrange(1, 4) if k == "keep" else ""))
    return out


def judge(case, out, rc, err):
    """returns None or (message, signature)"""
    kind = case.split(" ")[1]
    m = LINE.match(out[0]) if out else None
    if out and out[0].startswith("HARNESS-ERROR"):
        return None
    if not m:
        if kind == "abort":
            return ("real TLS: the server process died after a peer reset its connection in the middle of a response (rc=%s %s)" % (rc, (err or "").strip()[-120:]),
                    "tls-peer-reset-crashes-the-server")
        return ("real TLS: the server process died or hung (rc=%s %s)" % (rc, (err or "").strip()[-160:]), "tls-crash")
    got, exp, how, b, bms, conns, disc, alive, threw = m.groups()
    got, exp, bms = int(got), int(exp), int(bms)
    if threw != "-":
        return ("real TLS: an exception escaped into the event loop: %s" % threw, "exception-into-event-loop")
    if alive != "1":
        return ("real TLS: the event loop ended by itself", "tls-crash")
    if kind == "close":
        if got != exp:
            return ("real TLS: %d of %d body bytes arrived before the stream ended (%s)" % (got, exp, how), "tls-response-truncated")
        if how != "close_notify":
            return ("real TLS: the library closed the connection after the response without close_notify (the stream ended by: %s)" % how, "tls-no-close-notify")
    elif kind == "keep":
        if got != exp:
            return ("real TLS: %d of %d body bytes arrived over a keep-alive connection (%s)" % (got, exp, how), "tls-response-truncated")
    elif kind == "linger":
        if got != exp:
            return ("real TLS: %d of %d body bytes arrived (%s)" % (got, exp, how), "tls-response-truncated")
        if b != "ok" or bms > 1500:
            return ("real TLS: while one peer left the library's close_notify unanswered, another connection was %s" %
                    ("served only after %d ms" % bms if b == "ok" else "not served at all (%d ms)" % bms), "tls-shutdown-blocks-the-server")
    elif kind == "abort":
        if b != "ok":
            return ("real TLS: after a peer reset its connection in the middle of a response the next connection was not served", "tls-peer-reset-crashes-the-server")
    return None


def run(chk):
    hb, hlog = vlib.build_harness("h_tls", "plain")
    if not hb:
        chk.broken.append("harness h_tls does not compile against the current tree: %s" % hlog[-800:])
        return
    cases = cases_for(chk)
    ok = 0
    for c in cases:
        out, rc, err = vlib.run_case_retry(hb, c, timeout=120)
        if out and out[0].startswith("HARNESS-ERROR"):
            chk.broken.append("harness h_tls could not set up its sockets: %s" % out[0][:200]); continue
        bad = judge(c, out, rc, err)
        if bad:
            chk.violation(bad[0], {"case": c, "harness": "h_tls", "result": out[:1], "stderr": (err or "")[-1500:]}, True, bad[1])
        else:
            ok += 1; chk.count_distinct(c)
    chk.cov["evaluations"] += len(cases)
    chk.cov["real_tls_runs"] = {"cases": len(cases), "clean": ok}
    chk.assumptions.append("real TLS runs are supporting evidence: OpenSSL, the kernel and the scheduler choose the interleaving (a crash that needs a particular timing shows in some runs only)")


def replay(body):
    r = body["replay"]
    hb, _ = vlib.build_harness("h_tls", "plain")
    bad = 0
    for i in range(5):
        out, rc, err = vlib.run_cases(hb, [r["case"]], timeout=120)
        j = judge(r["case"], out, rc, err)
        print("run %d: %s %s" % (i, out[:1] or ("rc=%s" % rc), "-> " + j[0] if j else ""))
        bad += 1 if j else 0
    print("%d of 5 runs showed the failure" % bad)
    return 1 if bad else 0
