"""httpgen.py — specification-level generator of well-formed HTTP/1.x requests and responses,
their expected deliveries, single-change malformed variants with their expected verdict, and
partitions of a byte string into reads.  Independent of the Coq model: this is the oracle."""
from vlib import hexs

LIMITS = {
    # inst: uri, method, hdr_num, hdr_len, line, ws      (request side)
    "D": dict(uri=8190, method=8, hnum=100, hlen=65534, line=1024, ws=8, status=65534, reason=65534),
    "T": dict(uri=8, method=4, hnum=3, hlen=40, line=24, ws=2, status=599, reason=8),
}
RSP_LIMITS = {
    "D": dict(hnum=65534, hlen=2 ** 63 - 1, line=65534, ws=254, status=65534, reason=65534),
    "T": dict(hnum=3, hlen=40, line=24, ws=2, status=599, reason=8),
}
TCHARS = b"!#$%&'*+-.^_`|~0123456789ABCDEFGHIJKLMNOPQRSTUVWXYZabcdefghijklmnopqrstuvwxyz"


class Cfg:
    def __init__(self, inst="D", strict=0, cont="s", concat=1, xlate=1, maxcontent=1048576, maxchunk=1048576):
        self.inst, self.strict, self.cont, self.concat, self.xlate = inst, strict, cont, concat, xlate
        self.maxcontent, self.maxchunk = maxcontent, maxchunk
        self.lim = LIMITS[inst]

    def req_prefix(self):
        return "req %s %d %s %d %d %d %d" % (self.inst, self.strict, self.cont, self.concat, self.xlate, self.maxcontent, self.maxchunk)

    def rsp_prefix(self):
        return "rsp %s %d %s %d %d" % (self.inst, self.strict, self.cont, self.maxcontent, self.maxchunk)


def rand_cfg(rng, inst=None):
    inst = inst or rng.choice("DDT")
    mc = rng.choice([1048576, 64, 16]) if inst == "T" else rng.choice([1048576, 1048576, 300])
    mk = rng.choice([1048576, 32, 8]) if inst == "T" else rng.choice([1048576, 1048576, 100])
    return Cfg(inst, rng.choice([0, 0, 1]), rng.choice("sv"), rng.choice([1, 1, 0]), rng.choice([1, 0]), mc, mk)


def eol(rng, strict):
    return b"\r\n" if strict or rng.random() < 0.8 else b"\n"


def token(rng, lo, hi, alpha=TCHARS):
    return bytes(rng.choice(alpha) for _ in range(rng.randint(lo, hi)))


def value(rng, lo, hi):
    # any bytes but CR/LF; no leading blank (leading OWS is not part of a value); NUL and >= 0x80 occasionally
    n = rng.randint(lo, hi)
    out = bytearray()
    for i in range(n):
        r = rng.random()
        if r < 0.03:
            c = rng.choice([0, 1, 127, 128, 200, 255])
        elif r < 0.1:
            c = rng.choice(b" \t:;,=")
        else:
            c = rng.choice(b"abcxyz0123456789-/._")
        out.append(c)
    while out and out[0] in b" \t":
        out[0] = ord('v')
    return bytes(out)


class Msg:
    """a generated message: pieces (bytes, label) in order; expected events; structural cut offsets"""

    def __init__(self):
        self.pieces = []
        self.events = []
        self.ok = True

    def add(self, b, label):
        self.pieces.append((b, label))

    def bytes(self):
        return b"".join(b for b, _ in self.pieces)

    def cut_classes(self):
        """offset -> label describing the position (only interesting positions)"""
        pos = {}
        off = 0
        for b, label in self.pieces:
            if label:
                # cuts inside / right before / right after this piece
                pos[off] = "before:" + label
                for k in range(1, len(b)):
                    pos[off + k] = "inside:" + label
                pos[off + len(b)] = "after:" + label
            off += len(b)
        pos.pop(0, None)
        pos.pop(off, None)
        return pos


def fmt_headers(hmap):
    l = sorted("%s:%s" % (hexs(k), hexs(v)) for k, v in hmap.items())
    return ",".join(l) if l else "-"


def add_header(hmap, name, val):
    k = name.lower()
    if k in hmap:
        hmap[k] = hmap[k] + (b";" if b"cookie" in k else b",") + val
    else:
        hmap[k] = val


def gen_header_lines(rng, m, cfg, lim, hmap, budget, extra=(), max_fields=None):
    """append header lines to m; returns nothing. budget dict: len (remaining name+value bytes), num (remaining distinct names)"""
    nfields = rng.choice([0, 1, 2, 3, 5]) if lim["hnum"] > 3 else rng.choice([0, 1, 2])
    names_pool = [b"X-A", b"Accept", b"Cookie", b"X-Cookie-Jar", b"Content-MD5", b"X_b.c", b"Via", b"A1", b"te", b"If-Match"]
    fields = list(extra)
    for _ in range(nfields):
        nm = rng.choice(names_pool) if rng.random() < 0.7 else token(rng, 1, 6)
        fields.append((nm, None))
    rng.shuffle(fields)
    for nm, fixed in fields:
        # keep within limits: line length, whitespace, total length, number of distinct names
        k = nm.lower()
        if k not in hmap and budget["num"] <= 0:
            continue
        lead = rng.choice([0, 1, 1, 1, min(2, lim["ws"])])
        if fixed is not None:
            parts = [fixed]
        else:
            nparts = 1 if rng.random() < 0.75 else rng.randint(2, 3)
            parts = [value(rng, 0, 10 if lim["line"] > 100 else 3) for _ in range(nparts)]
        wsused = lead
        foldws = []
        for _ in parts[1:]:
            w = 1 if wsused + 1 <= lim["ws"] else 0
            if w == 0:
                break
            if wsused + 2 <= lim["ws"] and rng.random() < 0.3:
                w = 2
            wsused += w
            foldws.append(w)
        parts = parts[:1 + len(foldws)]
        val = b" ".join(parts)
        eols = [eol(rng, cfg.strict) for _ in parts]
        linelen = len(nm) + 1 + lead + sum(len(p) for p in parts) + sum(foldws) + sum(len(e) for e in eols)
        joined_len = len(nm) + len(val)
        if linelen > lim["line"] or joined_len > budget["len"]:
            continue
        budget["len"] -= joined_len
        if k not in hmap:
            budget["num"] -= 1
        nm_sent = nm if rng.random() < 0.7 else bytes(c ^ 0x20 if chr(c).isalpha() and rng.random() < 0.5 else c for c in nm)
        m.add(nm_sent + b":", "header-name")
        m.add(b" " * lead if rng.random() < 0.8 else b"\t" * lead, "")
        m.add(parts[0], "header-value")
        m.add(eols[0], "header-eol")
        for p, w, e in zip(parts[1:], foldws, eols[1:]):
            m.add(rng.choice([b" ", b"\t"]) * w, "fold-blank")
            m.add(p, "header-value")
            m.add(e, "header-eol")
        add_header(hmap, nm, val)


def gen_request(rng, cfg, body_kind=None, expect=False, method=None, allow_pipeline_safe=False):
    lim = cfg.lim
    m = Msg()
    meth = method or rng.choice([b"GET", b"POST", b"PUT", b"HEAD", b"HEAD", b"DELETE", token(rng, 1, lim["method"], b"ABCDEFGHIJKLMNOPQRSTUVWXYZ")])
    if len(meth) > lim["method"]:
        meth = meth[:lim["method"]]
    if meth == b"TRACE":
        meth = b"GET"
    tgt = b"/" + bytes(rng.choice(b"abc/?=&%#.:;@\x00\x80~") if rng.random() < 0.3 else rng.choice(b"abcdef") for _ in range(rng.randint(0, min(12, lim["uri"] - 1))))
    ma, mi = rng.choice([(1, 1), (1, 1), (1, 1), (1, 0), (2, 0), (0, 9), (1, 2)])
    body_kind = body_kind or rng.choice(["none", "none", "cl", "cl", "chunked"])
    if meth in (b"GET", b"HEAD", b"DELETE") and body_kind == "cl" and rng.random() < 0.5:
        body_kind = "none"
    if meth == b"HEAD" and body_kind == "chunked":
        meth = b"POST"      # HEAD with a chunked body is outside the documented behaviour
    ws1 = rng.randint(1, min(2, lim["ws"]))
    ws2 = rng.randint(1, min(2, lim["ws"]))
    m.add(meth, "method")
    m.add(b" " * ws1, "")
    m.add(tgt, "target")
    m.add(b" " * ws2, "")
    m.add(b"HTTP/%d.%d" % (ma, mi), "version")
    m.add(eol(rng, cfg.strict), "request-line-eol")
    hmap = {}
    budget = {"len": lim["hlen"], "num": lim["hnum"]}
    extra = []
    if (ma, mi) == (1, 1) or rng.random() < 0.5:
        extra.append((b"Host", rng.choice([b"h", b"example.com", b"a:80"]) if lim["line"] > 30 else b"h"))
    body = b""
    chunks = []
    if body_kind == "cl":
        n = rng.choice([0, 1, 2, 5, 17, 100, 1000]) if cfg.inst == "D" else rng.choice([0, 1, 3, 9])
        n = min(n, cfg.maxcontent)
        body = bytes(rng.randrange(256) for _ in range(n))
        extra.append((b"Content-Length", b"%d" % n))
    elif body_kind == "chunked":
        extra.append((b"Transfer-Encoding", rng.choice([b"chunked", b"Chunked"]) if lim["line"] > 30 else b"c"))
        total = 0
        for _ in range(rng.randint(0, 3) if rng.random() < 0.85 else rng.randint(12, 40)):
            n = rng.choice([1, 2, 5, 16, 17, 255]) if cfg.inst == "D" else rng.choice([1, 2, 7])
            n = min(n, cfg.maxchunk)
            if cfg.concat and total + n > cfg.maxcontent:
                break
            total += n
            chunks.append(bytes(rng.randrange(256) for _ in range(n)))
    elif allow_pipeline_safe:
        extra.append((b"Content-Length", b"0"))
    if expect:
        extra.append((b"Expect", rng.choice([b"100-continue", b"100-Continue"])))
    # reserve budget for the mandatory fields
    for nm, v in extra:
        budget["len"] -= len(nm) + len(v)
        budget["num"] -= 1
    if budget["len"] < 0 or budget["num"] < 0:
        return None
    # give the mandatory ones back to the generator as fixed fields (it accounts for them again)
    for nm, v in extra:
        budget["len"] += len(nm) + len(v)
        budget["num"] += 1
    gen_header_lines(rng, m, cfg, lim, hmap, budget, extra)
    for nm, v in extra:
        if nm.lower() not in hmap:
            return None          # a mandatory field did not fit the limits
    m.add(eol(rng, cfg.strict), "blank-line")
    is_head = meth == b"HEAD"
    seen_meth = b"GET" if (is_head and cfg.xlate in (1, 3)) else meth
    ver = "%d%d" % (ma, mi)

    def vevent(b):
        return "V(%s,%s,%s,%s,%s,%d)" % (hexs(seen_meth), hexs(tgt), ver, fmt_headers(hmap), hexs(b), 1 if is_head else 0)

    if body_kind == "chunked":
        if not cfg.concat:
            # the head is delivered first; is_head / translation happen only when a body completes
            m.events.append("V(%s,%s,%s,%s,-,0)" % (hexs(meth), hexs(tgt), ver, fmt_headers(hmap)))
        for c in chunks:
            lead = rng.randint(0, min(1, lim["ws"]))
            ext = b"" if rng.random() < 0.6 else token(rng, 1, 4) + (b"=" + token(rng, 1, 3) if rng.random() < 0.5 else b"")
            hexs_ = (b"%x" if rng.random() < 0.7 else b"%X") % len(c)
            if rng.random() < 0.2:
                hexs_ = b"0" * rng.randint(1, 3) + hexs_
            extws = rng.randint(0, min(1, lim["ws"]))
            line = b" " * lead + hexs_ + ((b";" + b" " * extws + ext) if ext else b"")
            e1 = eol(rng, cfg.strict)
            if len(line) + len(e1) > lim["line"]:
                line = hexs_
                ext = b""
            m.add(line, "chunk-size-line")
            m.add(e1, "chunk-line-eol")
            m.add(c, "chunk-data")
            m.add(eol(rng, cfg.strict), "chunk-data-eol")
            if not cfg.concat:
                m.events.append("C(%d,%s,%s,-,0)" % (len(c), hexs(ext), hexs(c)))
        ext = b"" if rng.random() < 0.7 else token(rng, 1, 4)
        line = b"0" + ((b";" + ext) if ext else b"")
        m.add(line, "last-chunk-line")
        m.add(eol(rng, cfg.strict), "chunk-line-eol")
        tmap = {}
        tb = {"len": lim["hlen"], "num": lim["hnum"]}
        if rng.random() < 0.4:
            gen_header_lines(rng, m, cfg, lim, tmap, tb)
        m.add(eol(rng, cfg.strict), "trailer-blank-line")
        if cfg.concat:
            m.events.append(vevent(b"".join(chunks)))
        else:
            m.events.append("C(0,%s,-,%s,1)" % (hexs(ext), fmt_headers(tmap)))
    else:
        m.add(body, "body")
        m.events.append(vevent(body))
    return m


# ------------------------------------------------------------------------------------------
def partitions(rng, n, cuts_of_interest, how):
    """list of cut-offset tuples for a message of n bytes"""
    if n <= 1:
        return [()]
    if how == "single":
        return [()]
    if how == "bytewise":
        return [tuple(range(1, n))]
    if how == "structural1":
        return [(c,) for c in sorted(cuts_of_interest)]
    if how == "all1":
        return [(c,) for c in range(1, n)]
    if how == "all2":
        return [(a, b) for a in range(1, n) for b in range(a + 1, n)]
    if how == "random":
        k = rng.randint(1, min(6, n - 1))
        return [tuple(sorted(rng.sample(range(1, n), k)))]
    if how == "linewise":
        return [tuple(sorted(c for c, lab in cuts_of_interest.items() if lab.startswith("after:") and lab.endswith("eol")))]
    raise ValueError(how)


def frag_arg(data, cuts):
    if not data:
        return "-"
    prev = 0
    out = []
    for c in list(cuts) + [len(data)]:
        if c > prev:
            out.append(hexs(data[prev:c]))
            prev = c
    return ",".join(out)


def parse_out(line):
    """-> (calls, events list, state) or None"""
    if not line.startswith("calls="):
        return None
    try:
        a, rest = line[6:].split(" events=", 1)
        ev, st = rest.split(" state=", 1)
    except ValueError:
        return None
    if " maxret=" in st:
        st = st.split(" maxret=")[0]
    return a, ([] if ev == "-" else ev.split(";")), st


def maxret_of(line):
    return int(line.rsplit(" maxret=", 1)[1]) if " maxret=" in line else None


def no_continue(events):
    return [e for e in events if not e.startswith("X(")]


# ------------------------------------------------------------------------------------------
# responses (client side)
def gen_response(rng, cfg):
    lim = dict(RSP_LIMITS[cfg.inst])
    m = Msg()
    ma, mi = rng.choice([(1, 1), (1, 1), (1, 0), (2, 0)])
    status = rng.choice([200, 200, 404, 100, 204, 304, 500, 599, 7, 0]) if cfg.inst == "D" else rng.choice([200, 404, 599, 0, 7])
    status = min(status, lim["status"])
    reason = value(rng, 0, 12 if lim["reason"] > 20 else min(6, lim["reason"]))
    reason = reason.replace(b"\t", b"x").lstrip(b" ")
    body_kind = rng.choice(["cl", "cl", "chunked", "cl0"])
    lead = rng.randint(0, min(1, lim["ws"]))
    ws1 = rng.randint(1, min(2, lim["ws"]))
    ws2 = 1 if not reason else rng.randint(1, min(2, lim["ws"]))
    m.add(b" " * lead, "")
    m.add(b"HTTP/%d.%d" % (ma, mi), "version")
    m.add(b" " * ws1, "")
    m.add(b"%d" % status, "status")
    m.add(b" " * ws2, "")
    m.add(reason, "reason")
    m.add(eol(rng, cfg.strict), "status-line-eol")
    hmap = {}
    budget = {"len": lim["hlen"], "num": lim["hnum"]}
    extra = []
    body, chunks = b"", []
    if body_kind in ("cl", "cl0"):
        n = 0 if body_kind == "cl0" else (rng.choice([1, 2, 5, 17, 100, 1000]) if cfg.inst == "D" else rng.choice([1, 3, 9]))
        body = bytes(rng.randrange(256) for _ in range(n))
        extra.append((b"Content-Length", b"%d" % n))
    else:
        extra.append((b"Transfer-Encoding", rng.choice([b"chunked", b"Chunked"]) if lim["line"] > 30 else b"c"))
        for _ in range(rng.randint(0, 3) if rng.random() < 0.85 else rng.randint(12, 40)):
            n = rng.choice([1, 2, 5, 16, 17, 255]) if cfg.inst == "D" else rng.choice([1, 2, 7])
            n = min(n, cfg.maxchunk)
            chunks.append(bytes(rng.randrange(256) for _ in range(n)))
    gen_header_lines(rng, m, cfg, lim, hmap, budget, extra)
    for nm, v in extra:
        if nm.lower() not in hmap:
            return None
    m.add(eol(rng, cfg.strict), "blank-line")
    ver = "%d%d" % (ma, mi)
    head = "V(%d,%s,%s,%s," % (status, hexs(reason), ver, fmt_headers(hmap))
    if body_kind == "chunked":
        m.events.append(head + "-)")
        for c in chunks:
            ext = b"" if rng.random() < 0.6 else token(rng, 1, 4)
            hexs_ = (b"%x" if rng.random() < 0.7 else b"%X") % len(c)
            line = hexs_ + ((b";" + ext) if ext else b"")
            if len(line) + 2 > lim["line"]:
                line = hexs_; ext = b""
            m.add(line, "chunk-size-line")
            m.add(eol(rng, cfg.strict), "chunk-line-eol")
            m.add(c, "chunk-data")
            m.add(eol(rng, cfg.strict), "chunk-data-eol")
            m.events.append("C(%d,%s,%s,-,0)" % (len(c), hexs(ext), hexs(c)))
        m.add(b"0", "last-chunk-line")
        m.add(eol(rng, cfg.strict), "chunk-line-eol")
        tmap = {}
        if rng.random() < 0.4:
            gen_header_lines(rng, m, cfg, lim, tmap, {"len": lim["hlen"], "num": lim["hnum"]})
        m.add(eol(rng, cfg.strict), "trailer-blank-line")
        m.events.append("C(0,-,-,%s,1)" % fmt_headers(tmap))
    else:
        m.add(body, "body")
        m.events.append(head + hexs(body) + ")")
    return m
