"""C18 — the concurrent connection map is linearizable to an ordinary map."""
import itertools, json, sys


def seq_spec(ops):
    """ordinary-map semantics, independent of the Coq model"""
    d = {}
    out = []
    for o in ops:
        p = o.split(":")
        if p[0] == "i":
            d[int(p[1])] = int(p[2]); out.append("_")
        elif p[0] == "e":
            d.pop(int(p[1]), None); out.append("_")
        elif p[0] == "f":
            k = int(p[1]); out.append("%d:%d" % (k, d[k]) if k in d else "0:0")
        elif p[0] == "E":
            out.append("1" if not d else "0")
        elif p[0] == "D":
            out.append(frozenset(d.items()))
        elif p[0] == "C":
            d.clear(); out.append("_")
    return out


def parse_data(r):
    r = r.strip("[]")
    if not r:
        return frozenset()
    return frozenset(tuple(int(x) for x in kv.split(":")) for kv in r.split(","))


def check_seq(ops, impl_line):
    """returns None or (index, expected, got)"""
    got = impl_line.split(";")
    exp = seq_spec(ops)
    if len(got) != len(exp):
        return (-1, "len %d" % len(exp), impl_line)
    for i, (e, g) in enumerate(zip(exp, got)):
        if isinstance(e, frozenset):
            items = g.strip("[]")
            keys = [kv.split(":")[0] for kv in items.split(",")] if items else []
            if parse_data(g) != e or len(keys) != len(set(keys)):
                return (i, sorted(e), g)
        elif e != g:
            return (i, e, g)
    return None


def signature(ops, idx):
    """classify a sequential failure"""
    if idx >= 0 and any(o.startswith("e:") for o in ops[:idx + 1]):
        # an erase of an absent key precedes the wrong answer?
        d = {}
        for o in ops[:idx + 1]:
            p = o.split(":")
            if p[0] == "i": d[int(p[1])] = 1
            elif p[0] == "C": d.clear()
            elif p[0] == "e":
                if int(p[1]) not in d:
                    return "erase-absent-key-removes-neighbour"
                d.pop(int(p[1]))
    return "sequential-result-differs"


def linearizable(events):
    """Wing-Gong search. events: list of (thread, call, ret, op, result)"""
    n = len(events)
    sys.setrecursionlimit(10000)
    seen = set()

    def apply(state, op, res):
        p = op.split(":")
        d = dict(state)
        if p[0] == "i":
            d[int(p[1])] = int(p[2]); ok = True
        elif p[0] == "e":
            d.pop(int(p[1]), None); ok = True
        elif p[0] == "f":
            k = int(p[1]); ok = res == ("%d:%d" % (k, d[k]) if k in d else "0:0")
        elif p[0] == "E":
            ok = res == ("1" if not d else "0")
        elif p[0] == "D":
            ok = parse_data(res) == frozenset(d.items())
        elif p[0] == "C":
            d = {}; ok = True
        else:
            ok = False
        return ok, frozenset(d.items())

    def go(done, state):
        if len(done) == n:
            return True
        key = (done, state)
        if key in seen:
            return False
        seen.add(key)
        # minimal return time among not-done events
        min_ret = min(events[i][2] for i in range(n) if i not in done)
        for i in range(n):
            if i in done:
                continue
            if events[i][1] > min_ret:
                continue  # some other pending op returned before this one was called
            ok, st2 = apply(state, events[i][3], events[i][4])
            if ok and go(done | frozenset([i]), st2):
                return True
        return False
    return go(frozenset(), frozenset())


def gen_seq_cases(chk):
    keys = [1, 2, 3, 5]
    alpha = ["i:%d" % k for k in keys] + ["e:%d" % k for k in keys] + ["f:%d" % k for k in keys] + ["E", "D", "C"]
    cases = []
    L = 3 if chk.tier == "quick" else 4
    for n in range(1, L + 1):
        for seq in itertools.product(alpha, repeat=n):
            ops = []
            for j, o in enumerate(seq):
                ops.append(o + ":%d" % (10 * (j + 1)) if o.startswith("i:") else o)
            ops.append("D")
            for nbk in (1, 2, 19):
                cases.append("hmap %d %s" % (nbk, ",".join(ops)))
    rng = chk.rng
    nrand = 6000 if chk.tier == "quick" else 150000
    for _ in range(nrand):
        nk = rng.choice([3, 4, 6, 40])
        ks = [rng.randrange(-3, 60) for _ in range(nk)]
        ops = []
        for j in range(rng.randint(4, 14)):
            c = rng.random()
            k = rng.choice(ks)
            if c < 0.35: ops.append("i:%d:%d" % (k, rng.randrange(1, 1000)))
            elif c < 0.6: ops.append("e:%d" % k)
            elif c < 0.85: ops.append("f:%d" % k)
            elif c < 0.9: ops.append("E")
            elif c < 0.97: ops.append("D")
            else: ops.append("C")
        ops.append("D")
        cases.append("hmap %d %s" % (rng.choice([1, 2, 3, 19]), ",".join(ops)))
    return cases


def run(chk):
    chk.prove("Properties_C18")
    cases = gen_seq_cases(chk)
    pairs, diffs = chk.correspond("h_map", cases, label="h_map sequential")
    for c, m, i in pairs:
        ops = c.split(" ")[2].split(",")
        bad = check_seq(ops, i)
        if bad:
            chk.violation("sequential history: operation %d returned %s, an ordinary map returns %s" % (bad[0], bad[2], bad[1]),
                          {"case": c, "impl": i, "expected_index": bad[0], "expected": str(bad[1])}, True, signature(ops, bad[0]))
        if any(o.startswith("e:") for o in ops) and any(o.startswith("i:") for o in ops):
            chk.count_distinct(c)
    for c, m, i in diffs[:50]:
        chk.broken.append("correspondence h_map: case `%s` model=%s impl=%s" % (c, m[:160], i[:160]))
    # concurrent histories (supporting: the interleavings are whatever the scheduler produces)
    conc = []
    nh = 60 if chk.tier == "quick" else 1500
    for j in range(nh):
        conc.append("conc %d %d %d %d %d" % (chk.rng.choice([1, 2, 19]), chk.rng.choice([2, 3, 4, 8]), chk.seed * 100000 + j,
                                          chk.rng.choice([3, 4, 5]), chk.rng.choice([2, 3])))
    import vlib
    hb, hlog = vlib.build_harness("h_map")
    nonlin = 0
    overl = 0
    if hb:
        outs, crashes = vlib.run_cases_resilient(hb, conc)
        for c, line in zip(conc, outs):
            evs = []
            okparse = True
            for e in line.split(" "):
                p = e.split("/")
                if len(p) != 5:
                    okparse = False; break
                evs.append((p[0], int(p[1]), int(p[2]), p[3], p[4]))
            if not okparse:
                chk.violation("concurrent run did not complete: " + line[:200], {"case": c, "impl": line}, True, "concurrent-crash")
                continue
            # overlapping = some op called before another thread's op returned
            if any(a[0] != b[0] and a[1] < b[2] and b[1] < a[2] for a in evs for b in evs):
                overl += 1
            if not linearizable(evs):
                nonlin += 1
                chk.violation("recorded multi-threaded history is not linearizable to an ordinary map",
                              {"case": c, "history": line}, True, "non-linearizable-history")
        chk.cov["evaluations"] += len(conc)
        chk.cov["concurrent_histories"] = {"run": len(conc), "with_overlapping_calls": overl, "non_linearizable": nonlin}
    chk.cov["rule"] = ("sequential: every operation sequence of length <= 3 (4 thorough) over insert/erase/find on keys {1,2,3,5}, empty, data, clear, "
                       "each followed by data(), on 1, 2 and 19 buckets with an identity hash (exhaustive), plus random sequences of 4..14 operations over "
                       "3..40 keys incl. negative ones; model result compared exactly with the implementation, and the implementation compared with a "
                       "python dict (the oracle). non-trivial = the sequence contains both an insert and an erase; distinct = distinct case lines. "
                       "concurrent (supporting): 2..8 real threads, recorded call/return clocks, Wing-Gong linearizability search against a dict")
    chk.cov["exhaustive"] = True
    chk.cov["samples"] = [pairs[j][0] + " => " + pairs[j][2] for j in (7, len(pairs) // 2, len(pairs) - 1) if j < len(pairs)]
    chk.cov["traces_validated_against_impl"] = len(pairs)
    chk.assumptions += ["std::lower_bound on a sorted vector returns the first position whose key is >= the argument (libstdc++ modelled)",
                        "critical sections under a held bucket mutex are atomic; std::shared_mutex excludes writers from everyone and readers from writers"]


def replay(body):
    import vlib
    r = body["replay"]
    case = r.get("case")
    if not case:
        print("nothing to replay: " + json.dumps(r)[:500]); return 1
    hb, _ = vlib.build_harness("h_map")
    out, _, _ = vlib.run_cases(hb, [case])
    print("case: %s\nimpl: %s" % (case, out[0] if out else "?"))
    if case.startswith("hmap"):
        bad = check_seq(case.split(" ")[2].split(","), out[0])
        print("property violated: %s" % (bad,) if bad else "property holds on this case")
        return 1 if bad else 0
    return 0
