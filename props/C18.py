"""C18 — the concurrent connection map is linearizable to an ordinary map."""
import itertools, json, sys


def seq_spec(ops):
    """ordinary-map semantics, independent of the Coq model"""
    d = {}
    out = []
    for o in ops:
        p = o.split(":")
        if p[0] == "i":
            d[int(p[1])] = int(p[2]); out.append("_")
        elif p[0] == "e":
            d.pop(int(p[1]), None); out.append("_")
        elif p[0] == "f":
            k = int(p[1]); out.append("%d:%d" % (k, d[k]) if k in d else "0:0")
        elif p[0] == "E":
            out.append("1" if not d else "0")
        elif p[0] == "D":
            out.append(frozenset(d.items()))
        elif p[0] == "C":
            d.clear(); out.append("_")
    return out


def parse_data(r):
    r = r.strip("[]")
    if not r:
        return frozenset()
    return frozenset(tuple(int(x) for x in kv.split(":")) for kv in r.split(","))


def check_seq(ops, impl_line):
    """returns None or (index, expected, got)"""
    got = impl_line.split(";")
    exp = seq_spec(ops)
    if len(got) != len(exp):
        return (-1, "len %d" % len(exp), impl_line)
    for i, (e, g) in enumerate(zip(exp, got)):
        if isinstance(e, frozenset):
            items = g.strip("[]")
            keys = [kv.split(":")[0] for kv in items.split(",")] if items else []
            if parse_data(g) != e or len(keys) != len(set(keys)):
                return (i, sorted(e), g)
        elif e != g:
            return (i, e, g)
    return None


def signature(ops, idx):
    """classify a sequential failure"""
    if idx >= 0 and any(o.startswith("e:") for o in ops[:idx + 1]):
        # an erase of an absent key precedes the wrong answer?
        d = {}
        for o in ops[:idx + 1]:
            p = o.split(":")
            if p[0] == "i": d[int(p[1])] = 1
            elif p[0] == "C": d.clear()
            elif p[0] == "e":
                if int(p[1]) not in d:
                    return "erase-absent-key-removes-neighbour"
                d.pop(int(p[1]))
    return "sequential-result-differs"


def linearizable(events, init=None):
    """Wing-Gong search. events: list of (thread, call, ret, op, result)"""
    n = len(events)
    sys.setrecursionlimit(10000)
    seen = set()

    def apply(state, op, res):
        p = op.split(":")
        d = dict(state)
        if p[0] == "i":
            d[int(p[1])] = int(p[2]); ok = True
        elif p[0] == "e":
            d.pop(int(p[1]), None); ok = True
        elif p[0] == "f":
            k = int(p[1]); ok = res == ("%d:%d" % (k, d[k]) if k in d else "0:0")
        elif p[0] == "E":
            ok = res == ("1" if not d else "0")
        elif p[0] == "D":
            ok = parse_data(res) == frozenset(d.items())
        elif p[0] == "C":
            d = {}; ok = True
        else:
            ok = False
        return ok, frozenset(d.items())

    def go(done, state):
        if len(done) == n:
            return True
        key = (done, state)
        if key in seen:
            return False
        seen.add(key)
        # minimal return time among not-done events
        min_ret = min(events[i][2] for i in range(n) if i not in done)
        for i in range(n):
            if i in done:
                continue
            if events[i][1] > min_ret:
                continue  # some other pending op returned before this one was called
            ok, st2 = apply(state, events[i][3], events[i][4])
            if ok and go(done | frozenset([i]), st2):
                return True
        return False
    return go(frozenset(), frozenset((init or {}).items()))


def gen_seq_cases(chk):
    keys = [1, 2, 3, 5]
    alpha = ["i:%d" % k for k in keys] + ["e:%d" % k for k in keys] + ["f:%d" % k for k in keys] + ["E", "D", "C"]
    cases = []
    L = 3 if chk.tier == "quick" else 4
    for n in range(1, L + 1):
        for seq in itertools.product(alpha, repeat=n):
            ops = []
            for j, o in enumerate(seq):
                ops.append(o + ":%d" % (10 * (j + 1)) if o.startswith("i:") else o)
            ops.append("D")
            for nbk in (1, 2, 19):
                cases.append("hmap %d %s" % (nbk, ",".join(ops)))
    rng = chk.rng
    nrand = 6000 if chk.tier == "quick" else 150000
    for _ in range(nrand):
        nk = rng.choice([3, 4, 6, 40])
        ks = [rng.randrange(-3, 60) for _ in range(nk)]
        ops = []
        for j in range(rng.randint(4, 14)):
            c = rng.random()
            k = rng.choice(ks)
            if c < 0.35: ops.append("i:%d:%d" % (k, rng.randrange(1, 1000)))
            elif c < 0.6: ops.append("e:%d" % k)
            elif c < 0.85: ops.append("f:%d" % k)
            elif c < 0.9: ops.append("E")
            elif c < 0.97: ops.append("D")
            else: ops.append("C")
        ops.append("D")
        cases.append("hmap %d %s" % (rng.choice([1, 2, 3, 19]), ",".join(ops)))
    return cases


KEYS = {1: [0, 1, 2], 2: [0, 2, 1, 3], 3: [0, 3, 1, 4], 19: [0, 19, 1, 20, 5]}

# programs aimed at the case splits of the protocol: a reader of all buckets against a writer that moves an
# entry between buckets; two writers and a reader on one bucket; clear against writers; readers only
CORPUS = ["explore 19 2 8000 i:19:1 i:0:5,e:19|D", "explore 19 2 8000 i:1:1 i:0:5,e:1|D", "explore 19 2 8000 i:0:1 i:1:5,e:0|D",
          "explore 2 2 20000 i:1:1 i:0:5,e:1|D|C", "explore 2 3 20000 i:0:1 i:2:5|e:0,i:4:1", "explore 1 2 20000 i:0:1 i:2:5|e:0,i:4:1|f:2",
          "explore 1 3 20000 i:1:1,i:3:3 i:2:2|e:1|f:3", "explore 2 2 20000 i:0:1 E|e:0,i:1:1", "explore 3 2 20000 i:0:1,i:1:1 C|i:2:2|E",
          "explore 2 2 20000 - i:0:1,i:1:2|i:1:3,i:0:4", "explore 19 2 8000 i:0:1,i:19:2 e:0|e:19|f:19", "explore 3 3 20000 i:0:1 D|D|e:0,i:1:1",
          # whole-map queries against a writer that fills a bucket already scanned and then empties one not yet scanned
          "explore 2 2 20000 i:1:1 E|i:0:5,e:1", "explore 3 2 20000 i:2:1 E|i:0:5,e:2", "explore 19 2 8000 i:18:1 E|i:0:5,e:18",
          "explore 2 2 20000 i:1:1 D|i:0:5,e:1", "explore 3 2 20000 i:2:1 E|i:1:5,e:2|f:1"]


def gen_explore(chk):
    rng = chk.rng
    cases = list(CORPUS)
    n = 40 if chk.tier == "quick" else 900
    for _ in range(n):
        nb = rng.choice([1, 2, 3, 19])
        ks = KEYS[nb]

        def op(j):
            c = rng.random()
            k = rng.choice(ks)
            if c < 0.35: return "i:%d:%d" % (k, rng.randrange(1, 90))
            if c < 0.6: return "e:%d" % k
            if c < 0.75: return "f:%d" % k
            if c < 0.85: return "E"
            if c < 0.95: return "D"
            return "C"
        pre = ",".join("i:%d:%d" % (k, rng.randrange(1, 90)) for k in ks if rng.random() < 0.5) or "-"
        nt = rng.choice([2, 2, 3])
        prog = "|".join(",".join(op(j) for j in range(rng.choice([1, 2] if nt == 3 else [1, 2, 2, 3]))) for _ in range(nt))
        if not any(x in prog for x in ("i:", "e:", "C")):
            continue
        bound = 2 if chk.tier == "quick" else 3
        cap = (3000 if nb == 19 else 6000) if chk.tier == "quick" else 60000
        cases.append("explore %d %d %d %s %s" % (nb, bound, cap, pre, prog))
    return cases


def parse_history(line):
    evs = []
    for e in line.split(" "):
        p = e.split("/")
        if len(p) != 5:
            return None
        evs.append((p[0], int(p[1]), int(p[2]), p[3], p[4]))
    return evs


def init_of(prefill):
    d = {}
    if prefill != "-":
        for o in prefill.split(","):
            p = o.split(":")
            d[int(p[1])] = int(p[2])
    return d


def explore(chk):
    """systematic schedules over the real map (cpp/h_conc.cpp); every reported history is re-checked here"""
    import vlib
    from concurrent.futures import ThreadPoolExecutor
    hb, hlog = vlib.build_harness("h_conc")
    if not hb:
        chk.broken.append("harness h_conc does not compile against the current tree: " + hlog[-800:])
        return
    cases = gen_explore(chk)
    shards = [cases[i::14] for i in range(14)]
    with ThreadPoolExecutor(14) as ex:
        res = list(ex.map(lambda sh: vlib.run_cases_resilient(hb, sh, timeout=1500) if sh else ([], []), shards))
    total = bad = 0
    for sh, (outs, crashes) in zip(shards, res):
        for c, line in zip(sh, outs):
            f = c.split(" ")
            m = __import__("re").match(r"n=(\d+) bad=(\d+) dead=(\d+)(?: first=(\S+);(.*))?$", line)
            if not m:
                chk.violation("a schedule of the concurrent map crashed or did not finish: " + line[:200],
                              {"case": c, "impl": line}, True, "concurrent-crash")
                continue
            total += int(m.group(1))
            if int(m.group(2)) + int(m.group(3)) == 0:
                continue
            sched, hist = m.group(4), m.group(5)
            rc = "runsched %s %s %s %s" % (f[1], f[4], f[5], sched)
            dead = hist.startswith("DEADLOCK")
            evs = parse_history(hist.replace("DEADLOCK ", "").replace("LOCK-MISUSE ", ""))
            if dead:
                chk.violation("threads deadlock under schedule %s of program %s" % (sched, f[5]), {"case": rc, "history": hist, "prefill": f[4]}, True, "deadlock")
                bad += 1
            elif evs is not None and not linearizable(evs, init_of(f[4])):
                chk.violation("history of the real map under schedule %s is not linearizable to an ordinary map: %s" % (sched, hist[:300]),
                              {"case": rc, "history": hist, "prefill": f[4]}, True, "non-linearizable-history")
                bad += 1
            elif "LOCK-MISUSE" in hist:
                chk.violation("a shared_mutex is unlocked while free / locked while held under schedule %s" % sched,
                              {"case": rc, "history": hist, "prefill": f[4]}, True, "lock-misuse")
                bad += 1
            else:
                chk.broken.append("h_conc reported a history the oracle accepts: %s -> %s" % (c, line[:200]))
    chk.cov["evaluations"] += total
    chk.cov["schedules"] = {"programs": len(cases), "schedules_run": total, "failing_programs": bad}


def run(chk):
    chk.prove("Properties_C18")
    explore(chk)
    cases = gen_seq_cases(chk)
    pairs, diffs = chk.correspond("h_map", cases, label="h_map sequential")
    for c, m, i in pairs:
        ops = c.split(" ")[2].split(",")
        bad = check_seq(ops, i)
        if bad:
            chk.violation("sequential history: operation %d returned %s, an ordinary map returns %s" % (bad[0], bad[2], bad[1]),
                          {"case": c, "impl": i, "expected_index": bad[0], "expected": str(bad[1])}, True, signature(ops, bad[0]))
        if any(o.startswith("e:") for o in ops) and any(o.startswith("i:") for o in ops):
            chk.count_distinct(c)
    for c, m, i in diffs[:50]:
        chk.broken.append("correspondence h_map: case `%s` model=%s impl=%s" % (c, m[:160], i[:160]))
    # concurrent histories (supporting: the interleavings are whatever the scheduler produces)
    conc = []
    nh = 60 if chk.tier == "quick" else 1500
    for j in range(nh):
        conc.append("conc %d %d %d %d %d" % (chk.rng.choice([1, 2, 19]), chk.rng.choice([2, 3, 4, 8]), chk.seed * 100000 + j,
                                          chk.rng.choice([3, 4, 5]), chk.rng.choice([2, 3])))
    import vlib
    hb, hlog = vlib.build_harness("h_map")
    nonlin = 0
    overl = 0
    if hb:
        outs, crashes = vlib.run_cases_resilient(hb, conc)
        for c, line in zip(conc, outs):
            evs = []
            okparse = True
            for e in line.split(" "):
                p = e.split("/")
                if len(p) != 5:
                    okparse = False; break
                evs.append((p[0], int(p[1]), int(p[2]), p[3], p[4]))
            if not okparse:
                chk.violation("concurrent run did not complete: " + line[:200], {"case": c, "impl": line}, True, "concurrent-crash")
                continue
            # overlapping = some op called before another thread's op returned
            if any(a[0] != b[0] and a[1] < b[2] and b[1] < a[2] for a in evs for b in evs):
                overl += 1
            if not linearizable(evs):
                nonlin += 1
                chk.violation("recorded multi-threaded history is not linearizable to an ordinary map",
                              {"case": c, "history": line}, True, "non-linearizable-history")
        chk.cov["evaluations"] += len(conc)
        chk.cov["concurrent_histories"] = {"run": len(conc), "with_overlapping_calls": overl, "non_linearizable": nonlin}
    chk.cov["rule"] = ("sequential: every operation sequence of length <= 3 (4 thorough) over insert/erase/find on keys {1,2,3,5}, empty, data, clear, "
                       "each followed by data(), on 1, 2 and 19 buckets with an identity hash (exhaustive), plus random sequences of 4..14 operations over "
                       "3..40 keys incl. negative ones; model result compared exactly with the implementation, and the implementation compared with a "
                       "python dict (the oracle). non-trivial = the sequence contains both an insert and an erase; distinct = distinct case lines. "
                       "schedules: for %d small programs (2-3 threads, 1-3 operations each, keys chosen to share and not to share buckets) every "
                       "interleaving of the real map at lock/unlock granularity with a bounded number of preemptions (cpp/h_conc.cpp: coroutines, "
                       "simulated shared_mutex), each history checked for linearizability twice (harness, then the python Wing-Gong search); "
                       "real threads (supporting): 2..8 threads, recorded call/return clocks, Wing-Gong search against a dict" % chk.cov.get("schedules", {}).get("programs", 0))
    chk.cov["exhaustive"] = True
    chk.cov["samples"] = [pairs[j][0] + " => " + pairs[j][2] for j in (7, len(pairs) // 2, len(pairs) - 1) if j < len(pairs)]
    chk.cov["traces_validated_against_impl"] = len(pairs)
    chk.assumptions += ["std::lower_bound on a sorted vector returns the first position whose key is >= the argument (libstdc++ modelled)",
                        "critical sections under a held bucket mutex are atomic; std::shared_mutex excludes writers from everyone and readers from writers"]


def replay(body):
    import vlib
    r = body["replay"]
    case = r.get("case")
    if not case:
        print("nothing to replay: " + json.dumps(r)[:500]); return 1
    hb, _ = vlib.build_harness("h_map")
    out, _, _ = vlib.run_cases(hb, [case])
    print("case: %s\nimpl: %s" % (case, out[0] if out else "?"))
    if case.startswith("runsched"):
        hb, _ = vlib.build_harness("h_conc")
        out, _, _ = vlib.run_cases(hb, [case])
        hist = out[0] if out else "?"
        print("case: %s\nhistory: %s" % (case, hist))
        evs = parse_history(hist.replace("DEADLOCK ", "").replace("LOCK-MISUSE ", ""))
        ok = evs is not None and not hist.startswith("DEADLOCK") and "LOCK-MISUSE" not in hist and linearizable(evs, init_of(r.get("prefill", "-")))
        print("linearizable to an ordinary map" if ok else "property violated: not linearizable / deadlock")
        return 0 if ok else 1
    if case.startswith("hmap"):
        bad = check_seq(case.split(" ")[2].split(","), out[0])
        print("property violated: %s" % (bad,) if bad else "property holds on this case")
        return 1 if bad else 0
    return 0
