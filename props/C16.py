"""C16 — the built-in router dispatches by method and path pattern as documented."""
import json
from vlib import hexs, unhex

METHODS = [b"GET", b"PUT", b"POST", b"DELETE"]


def spec_dispatch(regs, method, target):
    """independent python statement of the documented behaviour.
    regs: list of (method, pattern, hid).  returns ('H', hid, params) | ('404',) | ('405', allow)"""
    # table: patterns in first-registration order, each with method -> first handler
    table = []
    for m, p, h in regs:
        for ent in table:
            if ent[0] == p:
                ent[1].setdefault(m, h)
                break
        else:
            table.append((p, {m: h}))
    path = target
    for sep in (b"?", b"#"):
        pass
    cut = len(path)
    for i, c in enumerate(path):
        if c in b"?#":
            cut = i
            break
    path = path[:cut]
    tsegs = path.split(b"/")
    for pat, methods in table:
        psegs = pat.split(b"/")
        if len(psegs) != len(tsegs):
            continue
        params = {}
        ok = True
        for ps, ts in zip(psegs, tsegs):
            if ps[:1] == b":":
                params.setdefault(ps[1:], ts)
            elif ps != ts:
                ok = False
                break
        if not ok:
            continue
        if method in methods:
            return ("H", methods[method], params)
        return ("405", b", ".join(sorted(methods)))
    return ("404",)


def show(res):
    if res[0] == "H":
        l = sorted("%s:%s" % (hexs(k), hexs(v)) for k, v in res[2].items())
        return "H %d %s" % (res[1], ",".join(l) if l else "-")
    if res[0] == "405":
        return "405 " + hexs(res[1])
    return "404"


def wf_pattern(p):
    if 0 in p:
        return False
    for i, c in enumerate(p):
        if c == 58 and (i == 0 or p[i - 1] != 47):
            return False
    return True


def gen(chk):
    rng = chk.rng
    n = 25000 if chk.tier == "quick" else 400000
    segk = [b"a", b"b", b":x", b":y", b"", b"ab", b":x", b"c"]
    tsegk = [b"a", b"b", b"c", b"", b"ab", b"1", b"a:b", b":x"]
    cases = []
    meta = []
    for _ in range(n):
        regs = []
        for hid in range(rng.randint(1, 4)):
            nseg = rng.randint(1, 4)
            pat = b"/" + b"/".join(rng.choice(segk) for _ in range(nseg))
            r = rng.random()
            if r < 0.04:
                pat = pat.replace(b"/:", b"/x:", 1)      # ':' inside a segment: not a well-formed pattern
            elif r < 0.06:
                pat = pat[1:] or b"a"                   # no leading slash
            regs.append((rng.choice(METHODS[:3]), pat, hid))
        # target: mostly derived from a registered pattern so that matches are common
        r = rng.random()
        if r < 0.6:
            base = rng.choice(regs)[1].split(b"/")
            t = b"/".join(rng.choice(tsegk) if (s[:1] == b":" or rng.random() < 0.12) else s for s in base)
            if rng.random() < 0.15:
                t += b"/" + rng.choice(tsegk)
            if rng.random() < 0.1 and b"/" in t:
                t = t.rsplit(b"/", 1)[0]
            if rng.random() < 0.15:
                t = b"/" + rng.choice(tsegk) + t        # the route's text appears later in the path
        else:
            t = b"/" + b"/".join(rng.choice(tsegk) for _ in range(rng.randint(1, 5)))
        if rng.random() < 0.2:
            t += b"?" + rng.choice([b"q=1", b"a/b", b"", b"x=1?y=2", b"?", b"r=/a?n=/b", b"?#"])
        if rng.random() < 0.15:
            t += b"#" + rng.choice([b"frag", b"x?y", b""])
        if t == b"":
            t = b"/"
        if rng.random() < 0.03:
            k = rng.randrange(len(t) + 1)
            t = t[:k] + b"\x00" + t[k:]            # a NUL byte is a legal target character for the parser
        m = rng.choice(METHODS)
        rs = ",".join("%s|%s|%d|-" % (hexs(mm), hexs(p), h) for mm, p, h in regs)
        cases.append("route %s %s %s" % (rs, hexs(m), hexs(t)))
        meta.append((regs, m, t))
    # split / request_uri / get_route_parameters directly
    for _ in range(n // 10):
        s = bytes(rng.choice(b"/ab:") for _ in range(rng.randint(0, 9)))
        cases.append("splitstr %s 47" % hexs(s)); meta.append(None)
        u = bytes(rng.choice(b"/a?#b\x00") for _ in range(rng.randint(0, 9)))
        cases.append("uripath %s" % hexs(u)); meta.append(None)
    return cases, meta


def signature(regs, t, exp, got):
    if got.startswith("THROW") or got.startswith("CRASH"):
        return "router-throws"
    if got.startswith("MULTI"):
        return "several-handlers"
    if exp.startswith("H") and got.startswith("H") and exp.split(" ")[1] == got.split(" ")[1]:
        return "wrong-bindings"
    if exp == "404" and got != "404":
        return "matched-although-no-pattern-matches"
    if exp != "404" and got == "404":
        return "not-matched-although-a-pattern-matches"
    return "other-route-or-status"


def run(chk):
    chk.prove("Properties_C16")
    cases, meta = gen(chk)
    pairs, diffs = chk.correspond("h_pure", cases)
    dist = {"H": 0, "404": 0, "405": 0, "wf": 0}
    for (c, m, i), md in zip(pairs, meta):
        if md is None:
            t = c.split(" ")
            if t[0] == "splitstr":
                exp = ",".join(hexs(x) for x in unhex(t[1]).split(b"/"))
                if i != exp:
                    chk.violation("split() does not return the pieces between the delimiters", {"case": c, "impl": i, "expected": exp}, True, "split-pieces")
            if t[0] == "uripath":
                u = unhex(t[1])
                cut = min([k for k, ch in enumerate(u) if ch in b"?#"] + [len(u)])
                exp = hexs(u[:cut]) or "-"
                if i != exp:
                    chk.violation("request_uri: the path of the target is %s, everything in front of the first '?' or '#' is %s" % (i, exp),
                                  {"case": c, "impl": i, "expected": exp}, True, "uri-path")
            continue
        regs, meth, tgt = md
        if not all(wf_pattern(p) for _, p, _ in regs):
            continue
        dist["wf"] += 1
        exp = show(spec_dispatch(regs, meth, tgt))
        dist[exp.split(" ")[0]] = dist.get(exp.split(" ")[0], 0) + 1
        if exp.startswith("H"):
            chk.count_distinct(c)
        if i != exp:
            chk.violation("router result %s, documented behaviour gives %s" % (i, exp),
                          {"case": c, "impl": i, "expected": exp, "routes": [(a.decode(), b.decode("latin-1"), h) for a, b, h in regs],
                           "method": meth.decode(), "target": tgt.decode("latin-1")}, True, signature(regs, tgt, exp, i))
    for c, m, i in diffs[:50]:
        chk.broken.append("correspondence h_pure(router): case `%s` model=%s impl=%s" % (c[:200], m[:120], i[:120]))
    chk.cov["rule"] = ("random tables of 1..4 registrations over segment kinds {a,b,ab,c,:x,:y,empty} (1..4 segments, 6% deliberately ill-formed), "
                       "targets derived from a registered pattern (parameters replaced, segments mutated/added/removed, route text shifted deeper into the path) "
                       "or random, with optional query/fragment, 4 methods; implementation compared with the extracted model on all cases and with an "
                       "independent python segment matcher on the well-formed tables. non-trivial = the specification selects a handler; distinct = distinct case lines")
    chk.cov["input_distribution"] = dist
    chk.cov["samples"] = [pairs[j][0] + " => " + pairs[j][2] for j in (0, len(pairs) // 3, len(pairs) // 2) if j < len(pairs)]
    chk.cov["traces_validated_against_impl"] = len(pairs)
    chk.assumptions += ["patterns are well-formed: no NUL, every ':' directly follows a '/'"]


def replay(body):
    import vlib
    case = body["replay"].get("case")
    if not case:
        print("nothing to replay: " + json.dumps(body["replay"])[:500]); return 1
    hb, _ = vlib.build_harness("h_pure")
    out, _, _ = vlib.run_cases(hb, [case])
    print("case: %s\nimpl: %s\nexpected: %s" % (case, out[0] if out else "?", body["replay"].get("expected")))
    bad = (out[0] if out else "") != body["replay"].get("expected")
    print("property violated" if bad else "property holds on this case")
    return 1 if bad else 0
