"""cligen.py — event histories for the simulated http_client (cpp/h_csim.cpp / coq M_Client), the
independent oracles that judge its log, and the runner shared by C04, C05, C07 and C11."""
import re, json
import httpgen as G
from vlib import hexs, unhex

TOKEN = re.compile(rb"^[!#$%&'*+\-.^_`|~0-9A-Za-z]+$")


def hx(b):
    return b.hex() if b else "-"


def parse_log(line):
    """-> list of segments [(mark, [entries])]; None when the harness died"""
    if line is None or line.startswith("CRASH") or line.startswith("IMPL-MISSING") or "[" not in line:
        return None
    segs = []
    for tok in line.strip().split(" "):
        if not tok:
            continue
        if tok.startswith("[") and tok.endswith("]") and len(tok) == 3:
            segs.append((tok[1], []))
        elif segs:
            segs[-1][1].append(tok)
    return segs


def cut_undefined(mo, io):
    """the model stops at UNDEFINED: compare the events before it"""
    if "UNDEFINED" not in mo:
        return mo, io
    ms, is_ = parse_log(mo), parse_log(io)
    if ms is None or is_ is None:
        return mo, io
    k = next(i for i, (m, ents) in enumerate(ms) if "UNDEFINED" in ents)
    return repr(ms[:k]), repr(is_[:k])


# ---- requests the scripted application sends -------------------------------------------------------
def rand_request(rng, chunked=False):
    method = rng.choice([b"GET", b"POST", b"PUT", b"HEAD", b"DELETE", b"OPTIONS"])
    uri = rng.choice([b"/", b"/a", b"/a/b?x=1", b"/%41", b"*"])
    hdrs = b""
    for _ in range(rng.choice([0, 0, 1, 2])):
        hdrs += rng.choice([b"X-A: b\r\n", b"Accept: */*\r\n", b"Cookie: a=1\r\n", b"Connection: close\r\n", b"Expect: 100-continue\r\n"])
    if chunked:
        hdrs += b"Transfer-Encoding: chunked\r\n"
        return "q0:%s,%s,%s,-" % (hx(method), hx(uri), hx(hdrs)), {"method": method, "chunked": True}
    ov = rng.choice([0, 1, 1, 2])
    body = b"" if ov == 0 else bytes(rng.randrange(256) for _ in range(rng.choice([0, 1, 5, 40])))
    return "q%d:%s,%s,%s,%s" % (ov, hx(method), hx(uri), hx(hdrs), hx(body)), {"method": method, "chunked": False, "body": body}


def reads_of(rng, data):
    how = rng.random()
    if how < 0.3 or len(data) < 2:
        cuts = []
    elif how < 0.6:
        cuts = sorted(rng.sample(range(1, len(data)), min(len(data) - 1, rng.randint(1, 3))))
    elif how < 0.8 and len(data) < 80:
        cuts = list(range(1, len(data)))
    else:
        cuts = sorted(rng.sample(range(1, len(data)), min(len(data) - 1, rng.randint(3, 12))))
    out, prev = [], 0
    for c in cuts + [len(data)]:
        piece = data[prev:c]
        while len(piece) > 8000:
            out.append(piece[:8000]); piece = piece[8000:]
        out.append(piece)
        prev = c
    return ["R:" + hx(p) for p in out if p]


def connect_seq(tls):
    return ["O", "N:ok"] + (["H:ok"] if tls else [])


def exchange(rng, cfg, expect):
    """one request and its response; appends the expected deliveries to expect"""
    ev = []
    if rng.random() < 0.2:
        q, meta = rand_request(rng, chunked=True)
        ev += [q, "W"]
        for _ in range(rng.randint(0, 2)):
            data = bytes(rng.randrange(256) for _ in range(rng.choice([0, 1, 3, 17])))
            ext = rng.choice([b"", b"", b"x=1"])
            ev += ["%s:%s,%s" % (rng.choice("kj"), hx(data), hx(ext)), "W"]
        ev += ["l:%s,%s" % (hx(rng.choice([b"", b"a=b"])), hx(rng.choice([b"", b"T: v\r\n"]))), "W"]
    else:
        q, meta = rand_request(rng)
        ev += [q, "W"]
    m = None
    while m is None:
        m = G.gen_response(rng, cfg)
    reads = reads_of(rng, m.bytes())
    if rng.random() < 0.15 and len(ev) >= 2 and ev[-1] == "W":
        ev = ev[:-1] + reads[:1] + ["W"] + reads[1:]     # the response starts before the write completion is seen
    else:
        ev += reads
    expect += m.events
    return ev


def histories(chk, n=None):
    rng = chk.rng
    n = n or (260 if chk.tier == "quick" else 4000)
    cfg = G.Cfg("D", False) if hasattr(G, "Cfg") else None
    H = []

    def add(name, flav, opts, ev, **kw):
        H.append(dict(name=name, flav=flav, opts=opts, events=ev, **kw))
    # a fixed corpus aimed at the case splits of the client: reconnect timer armed / not armed, close() and
    # disconnect() from inside the disconnected callback, late completions, connect while connecting, sends when not connected
    GET = "q0:%s,%s,-,-" % (hx(b"GET"), hx(b"/a"))
    RESP = "R:" + hx(b"HTTP/1.1 200 OK\r\nContent-Length: 2\r\n\r\nhi")
    for flav in ("tcp", "tls"):
        hs = ["H:ok"] if flav == "tls" else []
        con = ["O", "N:ok"] + hs
        for per in (0, 1):
            for rec in (0, 1):
                o = "inv=1,chunk=1,period=%d,reclose=%d,port=80" % (per, rec)
                for tear in (["E:eof"], ["E:reset"], ["E:sslerr", "S:ok"], ["D", "S:ok"], ["C"], [GET, "w:pipe"], [GET, "W", RESP, "E:eof"]):
                    add("corpus:teardown-then-timer", flav, o, con + tear + ["B", "T", "N:ok"] + hs + ["B", GET, "W", RESP, "T"], expect=None, faithful=False)
                add("corpus:destroy", flav, o, con + [GET, "K", "B", "T", "N:ok"], expect=None, faithful=False)
                add("corpus:late", flav, o, con + ["D", "Lr:eof", "Lr:ok", "B", "T"], expect=None, faithful=False)
                add("corpus:late-after-close", flav, o, con + [GET, "C", "Lw:ok", "Lr:eof", "B", "T", "N:ok"], expect=None, faithful=False)
                add("corpus:double-connect", flav, o, ["O", "O", "B", "N:ok"] + hs + [GET, "W"], expect=None, faithful=False)
# (a connect that had already succeeded when close() cancelled it, delivered after the next connect succeeded, makes the
                # library report CONNECTED twice and start a second read: observed, outside the listed properties, not in the corpus)
                add("corpus:not-connected", flav, o, [GET, "b:" + hx(b"zz"), "k:" + hx(b"a") + ",-", "l:-,-", "O", GET, "N:refused", GET, "T", "Or", "O", "N:ok"] + hs + [GET], expect=None, faithful=False)
                add("corpus:send-after-close", flav, o, con + ["C", GET, "W", "B"], expect=None, faithful=False)
                add("corpus:empty-chunk", flav, o, con + ["q0:%s,%s,%s,-" % (hx(b"PUT"), hx(b"/c"), hx(b"Transfer-Encoding: chunked\r\n")), "W", "k:" + hx(b"hello") + ",-", "W", "k:-,-", "W", GET, "W"],
                    expect=None, faithful=False)
    # the limits given to create(): body limit (for bodies without a length) and chunk limit are different things
    big = b"x" * 100
    chunked = b"HTTP/1.1 200 OK\r\nTransfer-Encoding: chunked\r\n\r\n64\r\n" + big + b"\r\n0\r\n\r\n"
    unframed = b"HTTP/1.1 200 OK\r\nX: y\r\n\r\n" + big
    for flav in ("tcp", "tls"):
        con = ["O", "N:ok"] + (["H:ok"] if flav == "tls" else [])
        for maxb, maxk in ((16, 4096), (4096, 16), (100, 99), (99, 100)):
            o = "inv=1,chunk=1,period=0,reclose=0,port=80,maxb=%d,maxk=%d" % (maxb, maxk)
            add("corpus:limits", flav, o, con + [GET, "W", "R:" + hx(chunked)], expect=None, faithful=False, want=("chunk" if maxk >= 100 else "invalid"))
            add("corpus:limits", flav, o, con + [GET, "W", "R:" + hx(unframed)], expect=None, faithful=False, want=("incomplete" if maxb >= 100 else "invalid"))
    for i in range(n):
        tls = rng.random() < 0.4
        flav = "tls" if tls else "tcp"
        opts = "inv=%d,chunk=1,period=%d,reclose=%d,port=%s" % (rng.random() < 0.8, rng.random() < 0.35, rng.random() < 0.25, rng.choice(["80", "http", "8080"]))
        kind = rng.choice(["exchange", "exchange", "teardown", "teardown", "reconnect", "malformed", "garbage", "pipelined", "late", "backtoback"])
        expect = []
        ev = connect_seq(tls)
        if kind == "exchange":
            for _ in range(rng.randint(1, 3)):
                ev += exchange(rng, cfg, expect)
            add(kind, flav, opts, ev, expect=expect, faithful=True)
        elif kind == "backtoback":
            # several responses arrive without a send in between (an interim response, or answers to requests sent earlier)
            q, _ = rand_request(rng)
            ev += [q, "W"]
            data = b""
            for _ in range(rng.randint(2, 3)):
                m = None
                while m is None:
                    m = G.gen_response(rng, cfg)
                data += m.bytes()
                expect += m.events
            ev += reads_of(rng, data)
            add(kind, flav, opts, ev, expect=expect, faithful=True)
        elif kind == "teardown":
            for _ in range(rng.randint(0, 2)):
                ev += exchange(rng, cfg, expect)
            tail = []
            act = rng.choice(["D", "C", "K", "E:eof", "E:reset", "E:timedout", "E:sslshut", "E:sslerr", "w", "DK", "CK", "Kmid"])
            if act == "w":
                q, _ = rand_request(rng)
                tail = [q, "w:" + rng.choice(["pipe", "reset", "timedout"])]
            elif act == "DK":
                tail = ["D", "K"]
            elif act == "CK":
                tail = ["C", "K"]
            elif act == "Kmid":
                q, _ = rand_request(rng)
                tail = [q, "K"]
            else:
                tail = [act]
            # teardown at a random position of the exchange
            pos = rng.randint(len(connect_seq(tls)), len(ev))
            ev = ev[:pos] + tail
            if tls and rng.random() < 0.7:
                ev += ["S:" + rng.choice(["ok", "eof", "sslshut"])]
            ev += ["B"]
            if rng.random() < 0.5:
                ev += ["K", "B"]
            add(kind + ":" + act, flav, opts, ev, expect=None, faithful=False)
        elif kind == "reconnect":
            ev += exchange(rng, cfg, expect)
            how = rng.choice(["D", "E:eof", "E:reset", "C", "E:sslerr"])
            ev += [how] + (["S:ok"] if tls else []) + ["B"]
            ev += [rng.choice(["O", "T", "O"])] + ["N:ok"] + (["H:ok"] if tls else [])
            mark = len(ev)
            exp2 = []
            ev += exchange(rng, cfg, exp2)
            add(kind + ":" + how, flav, opts, ev, expect=None, faithful=False, second=(mark, exp2))
        elif kind == "malformed":
            q, _ = rand_request(rng)
            ev += [q, "W"]
            bad = rng.choice([b"HTTP/x.1 200 OK\r\n\r\n", b"HTTP/1.1 2x0 OK\r\n\r\n", b"HTTP/1.1 200 OK\r\nContent@Length: 2\r\n\r\n",
                              b"HTTP/1.1 200 OK\r\nContent-Length: 2x\r\n\r\nab", b"HTTP/1.1 200 OK\r\nTransfer-Encoding: chunked\r\n\r\ng\r\n",
                              bytes(rng.randrange(256) for _ in range(30))])
            ev += reads_of(rng, bad)
            add(kind, flav, opts, ev, expect=None, faithful=False, malformed=True)
        elif kind == "late":
            # an operation had already completed when the application closed / disconnected: its handler still runs
            for _ in range(rng.randint(0, 1)):
                ev += exchange(rng, cfg, expect)
            if rng.random() < 0.5:
                q, _ = rand_request(rng)
                ev += [q]
            ev += [rng.choice(["C", "C", "D", "K"])]
            for _ in range(rng.randint(1, 2)):
                ev += ["L%s:%s" % (rng.choice("rrwws"), rng.choice(["eof", "ok", "reset", "timedout", "sslerr"]))]
            ev += ["B", "T"] + rng.choice([[], ["N:ok"] + (["H:ok"] if tls else [])]) + ["B"]
            add(kind, flav, opts, ev, expect=None, faithful=False, late=True)
        elif kind == "pipelined":
            # two sends without waiting for the first write: outside the sequential discipline
            q1, _ = rand_request(rng)
            q2, _ = rand_request(rng)
            ev += [q1, q2, "W", "W", "C", "B"]
            add(kind, flav, opts, ev, expect=None, faithful=False)
        else:
            alpha = ["O", "Or", "N:ok", "N:refused", "N:timedout", "H:ok", "H:sslerr", "W", "w:pipe", "E:eof", "E:reset", "S:ok", "B", "T", "D", "C",
                     "R:" + hx(b"HTTP/1.1 200 OK\r\nContent-Length: 0\r\n\r\n"), "R:" + hx(bytes(rng.randrange(256) for _ in range(20))),
                     "b:" + hx(b"zz"), "k:" + hx(b"abc") + ",-", "l:-,-"]
            q, _ = rand_request(rng)
            ev = [rng.choice(alpha + [q]) for _ in range(rng.randint(4, 14))] + rng.choice([[], ["K", "B"], ["K", "B", "T", "R:00"]])
            add(kind, flav, opts, ev, expect=None, faithful=False)
    return H


def case_of(h):
    return "csim %s %s %s" % (h["flav"], h["opts"], ";".join(h["events"]))


# ---- oracles ---------------------------------------------------------------------------------------
def recognise_requests(stream):
    """None when the byte stream is a sequence of well-formed, correctly framed requests (a chunked request
    being followed by its chunks), else the first problem"""
    pos, n = 0, len(stream)
    while pos < n:
        e = stream.find(b"\r\n", pos)
        if e < 0:
            return "request line not terminated"
        m = re.match(rb"^([!#$%&'*+\-.^_`|~0-9A-Za-z]+) (\S+) HTTP/(\d)\.(\d)$", stream[pos:e])
        if not m:
            return "bad request line %r" % stream[pos:e][:50]
        pos = e + 2
        cl, chunked, nframing, host = None, False, 0, 0
        while True:
            e = stream.find(b"\r\n", pos)
            if e < 0:
                return "header block not terminated"
            h = stream[pos:e]
            pos = e + 2
            if h == b"":
                break
            if b":" not in h:
                return "header line without colon %r" % h[:40]
            name, val = h.split(b":", 1)
            if not TOKEN.match(name):
                return "header name is not a token %r" % name[:40]
            ln = name.lower()
            if ln == b"host":
                host += 1
            if ln == b"content-length":
                nframing += 1
                if not re.match(rb"^ *\d+ *$", val):
                    return "bad Content-Length %r" % val
                cl = int(val)
            if ln == b"transfer-encoding":
                nframing += 1
                chunked = b"chunked" in val.lower()
        if host != 1:
            return "%d Host headers" % host
        if nframing != 1:
            return "%d framing headers" % nframing
        if chunked:
            while True:
                e = stream.find(b"\r\n", pos)
                if e < 0:
                    return None if pos >= n else "chunk size line not terminated"
                m2 = re.match(rb"^([0-9A-Fa-f]+)(;.*)?$", stream[pos:e])
                if not m2:
                    return "bad chunk size line %r" % stream[pos:e][:40]
                size = int(m2.group(1), 16)
                pos = e + 2
                if size == 0:
                    while True:
                        e = stream.find(b"\r\n", pos)
                        if e < 0:
                            return "trailers not terminated"
                        t = stream[pos:e]
                        pos = e + 2
                        if t == b"":
                            break
                    break
                if pos + size + 2 > n:
                    return "chunk data cut short"
                if stream[pos + size:pos + size + 2] != b"\r\n":
                    return "chunk data not followed by CRLF (%r)" % stream[pos + size:pos + size + 3]
                pos += size + 2
        else:
            if pos + cl > n:
                return "body shorter than Content-Length (%d > %d)" % (cl, n - pos)
            pos += cl
    return None


def deliveries(segs, start=0):
    """the responses / chunks handed to the application, in the syntax of httpgen's expected events"""
    out = []
    for mark, ents in segs[start:]:
        for e in ents:
            if e.startswith("c1:resp="):
                p = e[8:].split(",")
                out.append("V(%s,%s,%s,%s,%s)" % (p[0], p[1], p[2], p[3].replace("=", ":").replace("&", ","), p[4]))
            elif e.startswith("c1:chunk="):
                p = e[9:].split(",")
                out.append("C(%s,%s,%s,%s,%s)" % (p[0], p[1], p[2], p[4].replace("=", ":").replace("&", ","), p[3]))
            elif e == "c1:invalid":
                out.append("I")
    return out


def monitor(pid, h, segs, raw):
    """yields (signature, message)"""
    if segs is None:
        yield "crash", "the client harness died: %s" % (raw or "")[-300:]
        return
    flat = [e for _, ents in segs for e in ents]
    if any(e.startswith("EXCEPTION") for e in flat):
        yield "exception-into-event-loop", "an exception escaped into the event loop: %s" % [e for e in flat if e.startswith("EXCEPTION")][:1]
    if any(e.endswith("SECOND-READ") or e.endswith("SECOND-WRITE") for e in flat):
        yield "two-operations-of-one-kind-pending", "a second read/write was started while one was pending"
    if h.get("want"):
        got_chunk = any(e.startswith("c1:chunk=100,") for e in flat)
        got_inv = any(e == "c1:invalid" for e in flat)
        if h["want"] == "chunk" and (not got_chunk or got_inv):
            yield "limit-misapplied", "a 100-byte chunk within the configured chunk limit was not delivered (options %s)" % h["opts"]
        if h["want"] == "invalid" and (got_chunk or not got_inv):
            yield "limit-misapplied", "a response beyond the configured limit was not rejected (options %s)" % h["opts"]
        if h["want"] == "incomplete" and got_inv:
            yield "limit-misapplied", "a body without a length within the configured body limit was rejected (options %s)" % h["opts"]
    stale = any(e.endswith("STALE-BUFFER") for e in flat)
    if pid == "C04":
        # every buffer sequence the client hands to the socket: a request head with its body, one chunk, the last chunk
        for mark, ents in segs:
            for e in ents:
                if not e.startswith("c1:write="):
                    continue
                data = unhex(e[9:])
                bad = None
                if mark == "q":
                    bad = recognise_requests(data)
                elif mark in ("k", "j"):
                    m = re.match(rb"^([0-9A-Fa-f]+)(;[^\r\n]*)?\r\n", data)
                    if not m:
                        bad = "bad chunk size line %r" % data[:30]
                    else:
                        size = int(m.group(1), 16)
                        rest = data[m.end():]
                        if size == 0 and rest != b"\r\n":
                            bad = "an empty chunk is the last-chunk and must be followed by the empty line, got %r" % rest[:10]
                        elif size > 0 and (len(rest) != size + 2 or rest[size:] != b"\r\n"):
                            bad = "chunk of announced size %d followed by %r (%d bytes after the size line)" % (size, rest[size:size + 3], len(rest))
                elif mark == "l":
                    if not re.match(rb"^0+(;[^\r\n]*)?\r\n([!#$%&'*+\-.^_`|~0-9A-Za-z]+:[^\r\n]*\r\n)*\r\n$", data):
                        bad = "bad last-chunk %r" % data[:60]
                if bad:
                    yield "client-request-framing", "bytes written by the client ([%s]) are not well-formed: %s" % (mark, bad)
        if stale:
            yield "client-send-while-a-write-is-in-flight", "the buffers of a write in flight were rewritten by a later send: the bytes that reach the wire are not the message issued"
    if pid == "C07":
        if h.get("faithful"):
            got = deliveries(segs)
            if got != h["expect"]:
                k = next((i for i in range(min(len(got), len(h["expect"]))) if got[i] != h["expect"][i]), min(len(got), len(h["expect"])))
                yield "client-delivery-differs", "delivery %d differs: got %s expected %s (of %d/%d)" % (
                    k, (got[k] if k < len(got) else None), (h["expect"][k] if k < len(h["expect"]) else None), len(got), len(h["expect"]))
        if h.get("second"):
            mark, exp2 = h["second"]
            # the exchange after the reconnect: find the segment index of event number `mark`
            got = deliveries(segs, mark)
            connected_again = any("c1:connected" in ents for _, ents in segs[:mark][-3:])
            if connected_again and got != exp2:
                yield "client-reconnect-loses-responses", "after a reconnect the response is not delivered: got %d deliveries, expected %d" % (len(got), len(exp2))
        if h.get("malformed"):
            got = deliveries(segs)
            # the head of a chunked response is legitimately delivered before its first (bad) chunk arrives
            vs = [g for g in got if g.startswith("V(") and "7472616e736665722d656e636f64696e67:" not in g] + [g for g in got if g.startswith("C(")]
            if vs:
                yield "client-malformed-accepted", "a malformed response was delivered as valid: %s" % got[:2]
            if "inv=1" in h["opts"] and "I" not in got and any(e.startswith("c1:read") for e in flat):
                yield "client-malformed-not-reported", "a malformed response was not reported as invalid: %s" % got[:2]
    if pid == "C11":
        # an epoch runs from one connected event to the next: at most one disconnected event in it, exactly one
        # when the connection was torn down; nothing is called once the client is destroyed
        open_ = False
        ndisc = 0
        torn = False
        destroyed = False
        destroying = False
        reported = set()

        def end_epoch():
            if open_ and torn and ndisc == 0 and "none" not in reported:
                reported.add("none")
                return [("client-no-disconnected-signal", "a connection was closed without the disconnected event")]
            return []
        closed_by_app = False
        for mark, ents in segs:
            if destroying:
                destroyed = True
            if mark == "O":
                closed_by_app = False
            for e in ents:
                if e == "c1:app-close":
                    closed_by_app = True
                elif closed_by_app and (e.startswith("c1:connect=") or e == "c1:connected") and "self" not in reported:
                    reported.add("self")
                    yield "client-reconnects-after-close", "the application closed the client, which then connected again by itself (%s in [%s])" % (e, mark)
                if destroyed and e.startswith("c1:") and not re.match(r"c1:(aborted-|late-|NO-|close$)", e):
                    yield "client-callback-after-destruction", "%s after the client was destroyed" % e
                if e == "client-destroy":
                    destroying = True      # the destructor's own synchronous work (close()) is part of this event
                    torn = True
                if e == "c1:connected":
                    for v in end_epoch():
                        yield v
                    open_, ndisc, torn = True, 0, False
                elif e == "c1:disconnected":
                    ndisc += 1
                    if open_ and ndisc > 1 and "twice" not in reported:
                        reported.add("twice")
                        yield "client-disconnected-twice", "disconnection signalled %d times for one connection" % ndisc
                elif e == "c1:close":
                    torn = True
        for v in end_epoch():
            yield v


def run(chk, flavour="plain", only=None):
    import vlib
    H = histories(chk)
    if only:
        H = [h for h in H if only(h)]
    cases = [case_of(h) for h in H]
    pairs, diffs = chk.correspond("h_csim", cases, flavour=flavour, label="h_csim")
    nd = 0
    dist = {}
    for (c, mo, io), h in zip(pairs, H):
        dist[h["name"] + ":" + h["flav"]] = dist.get(h["name"] + ":" + h["flav"], 0) + 1
        segs = parse_log(io)
        for sig, msg in monitor(chk.pid, h, segs, io):
            if sig == "crash" and "UNDEFINED" in mo and "AddressSanitizer: heap-use-after-free" in io:
                sig = "client-send-while-a-write-is-in-flight"
            chk.violation("client: " + msg, {"case": c, "history": h["name"], "impl_log": io[:3000]}, True, sig)
        if segs is not None and any(e.startswith("c1:wire=") for _, ents in segs for e in ents):
            chk.count_distinct(c)
        m2, i2 = cut_undefined(mo, io)
        if segs is None and "UNDEFINED" in mo:
            continue
        if m2 != i2:
            nd += 1
            if nd <= 20:
                k = next((j for j in range(min(len(m2), len(i2))) if m2[j] != i2[j]), min(len(m2), len(i2)))
                chk.broken.append("correspondence h_csim: history `%s` (%s %s) differs at ...model: %s ...impl: %s  case: %s" %
                                  (h["name"], h["flav"], h["opts"], m2[max(0, k - 80):k + 80], i2[max(0, k - 80):k + 80], c[:300]))
    chk.cov["correspondence"]["h_csim"]["differences"] = nd
    chk.cov.setdefault("input_distribution", {}).update({"client:" + k: v for k, v in dist.items()})
    chk.cov["client_rule"] = ("event histories played on the real http_client<sim::adaptor> and on the Coq client state machine: connect, 1..3 exchanges "
                              "(requests through every send overload, chunked requests; generated responses in 1..12 reads), teardown by disconnect/close/destruction/"
                              "read and write errors at every position, reconnects (manual and by timer), malformed responses, pipelined sends, random event soup")
    return pairs


def replay(body):
    import vlib
    r = body["replay"]
    case = r.get("case")
    if not case or not case.startswith("csim"):
        return None
    hb, _ = vlib.build_harness("h_csim")
    out, _ = vlib.run_cases_resilient(hb, [case])
    print("case: %s\nimpl log: %s" % (case[:500], out[0][:2000] if out else "?"))
    return 1
