"""C17 — protected routes need valid credentials; any Authorization value is safe."""
import base64, json
from vlib import hexs, unhex


def users_arg(users):
    return ";".join(hexs(u) + ":" + hexs(p) for u, p in users) or "-"


def gen(chk):
    rng = chk.rng
    cases, meta = [], []
    # base64 round trip: every length 0..N (line-break boundaries at 57, 114, ...), all byte values
    maxlen = 200 if chk.tier == "quick" else 700
    for n in range(0, maxlen + 1):
        x = bytes(rng.randrange(256) for _ in range(n))
        cases.append("b64rt " + hexs(x)); meta.append(("rt", x))
    for n in (0, 1, 2, 3, 56, 57, 58, 59, 60, 113, 114, 115, 170, 171, 172, 228, 229):
        for fill in (0, 255, 0x3d):
            x = bytes([fill]) * n
            cases.append("b64rt " + hexs(x)); meta.append(("rt", x))
            cases.append("b64enc " + hexs(x)); meta.append(("enc", x))
    # decode on arbitrary input
    alpha = b"ABCDwxyz0189+/=\n\r \t-_.~\x00\xff"
    nd = 4000 if chk.tier == "quick" else 60000
    for _ in range(nd):
        r = rng.random()
        if r < 0.4:
            s = bytes(rng.choice(alpha) for _ in range(rng.randint(0, 12)))
        elif r < 0.7:
            s = base64.b64encode(bytes(rng.randrange(256) for _ in range(rng.randint(0, 9))))
            # damage: drop/add padding, insert whitespace, truncate
            k = rng.random()
            if k < 0.3: s = s.rstrip(b"=")
            elif k < 0.5: s = s + b"=" * rng.randint(1, 4)
            elif k < 0.7 and s: s = s[:rng.randrange(len(s))]
            elif k < 0.9 and s:
                j = rng.randrange(len(s) + 1); s = s[:j] + rng.choice([b"\n", b" ", b"\r\n", b"\t"]) + s[j:]
        else:
            s = bytes(rng.randrange(256) for _ in range(rng.randint(0, 8)))
        cases.append("b64dec " + hexs(s)); meta.append(("dec", s))
    for s in (b"=", b"==", b"===", b"====", b"=====", b"A", b"AA", b"AAA", b"A===", b"AA==", b"QUI", b"QUJD\n", b"\n", b" \n "):
        cases.append("b64dec " + hexs(s)); meta.append(("dec", s))
    # the decision
    na = 4000 if chk.tier == "quick" else 60000
    names = [b"u", b"user", b"Aladdin", b"", b"a b", b"x\xff"]
    pws = [b"p", b"", b"open sesame", b"a:b", b":", b"p\x00q", b"longer-password-" * 5]
    for _ in range(na):
        users = []
        for _ in range(rng.randint(0, 3)):
            users.append((rng.choice(names), rng.choice(pws)))
        realm = rng.choice([b"", b"", b"R", b"my realm"])
        r = rng.random()
        exp = None
        if r < 0.25 and users:
            u, p = rng.choice(users)
            # first registration of a name wins
            p = [pp for uu, pp in users if uu == u][0]
            v = b"Basic " + base64.b64encode(u + b":" + p)
            exp = 1 if b":" not in u else None
        elif r < 0.4 and users:
            u, p = rng.choice(users)
            p0 = [pp for uu, pp in users if uu == u][0]
            p2 = p0 + b"x" * rng.choice([1, 1, 2, 255, 256, 257, 512, 768, 65536]) if rng.random() < 0.7 else p0[:-1] if p0 else b"\x00"
            v = b"Basic " + base64.b64encode(u + b":" + p2)
            exp = 0 if b":" not in u else None
        elif r < 0.5:
            u = b"nobody"
            v = b"Basic " + base64.b64encode(u + b":" + rng.choice(pws))
            exp = 0 if all(uu != u for uu, _ in users) else None
        elif r < 0.55:
            v = None; exp = 0
        elif r < 0.75:
            v = rng.choice([b"Basic", b"Basi", b"Basic ", b"Basic  ", b"basic dTpw", b"Bearer x", b"", b"Basic=", b"xBasic", b"Basic\x00", b"Basic ====", b"Basic =", b"Basic dTpw=", b"Basic dT pw", b"BasicXdTpw"])
        elif r < 0.9:
            base = b"Basic " + base64.b64encode(rng.choice(names) + b":" + rng.choice(pws))
            k = rng.randrange(len(base) + 1)
            v = base[:k] + bytes([rng.randrange(256)]) * rng.randint(0, 2) + (base[k + rng.randint(0, 2):] if rng.random() < 0.7 else b"")
        else:
            v = bytes(rng.randrange(256) for _ in range(rng.randint(0, 20)))
            if rng.random() < 0.5:
                v = rng.choice([b"Basic", b"Basic "]) + v
        cases.append("basic %s %s %s" % (users_arg(users), hexs(realm), "NONE" if v is None else hexs(v)))
        meta.append(("basic", users, realm, v, exp))
    # protected and public methods sharing paths, through the router
    nr = 1500 if chk.tier == "quick" else 20000
    for _ in range(nr):
        users = [(b"u", b"p"), (b"admin", b"s3:cret")][:rng.randint(1, 2)]
        realm = rng.choice([b"", b"R"])
        paths = [b"/a", b"/a/:id", b"/b"]
        regs = []
        for hid in range(rng.randint(1, 5)):
            regs.append((rng.choice([b"GET", b"PUT", b"DELETE"]), rng.choice(paths), hid, rng.random() < 0.5))
        # effective table: first registration of (path, method) wins
        eff = {}
        for m_, p_, h_, prot in regs:
            eff.setdefault((p_, m_), (h_, prot))
        m_, p_, h_, prot = rng.choice(regs)
        h_, prot = eff[(p_, m_)]
        tgt = p_.replace(b":id", b"42")
        kind = rng.choice(["good", "bad", "none"])
        if kind == "good":
            u, pw = rng.choice(users); v = b"Basic " + base64.b64encode(u + b":" + pw)
        elif kind == "bad":
            v = b"Basic " + base64.b64encode(b"u:wrong")
        else:
            v = None
        chall = b"Basic" if not realm else b'Basic realm="' + realm + b'"'
        exp = ("H %d" % h_) if (not prot or kind == "good") else "401 " + hexs(chall)
        rs = ",".join("%s|%s|%d|%s" % (hexs(a), hexs(b), c, "0" if d else "-") for a, b, c, d in regs)
        cases.append("routeauth %s %s %s %s %s %s" % (rs, hexs(m_), hexs(tgt), "NONE" if v is None else hexs(v), users_arg(users), hexs(realm)))
        meta.append(("route", exp))
    return cases, meta


def run(chk):
    chk.prove("Properties_C17")
    cases, meta = gen(chk)
    pairs, diffs = chk.correspond("h_pure", cases, flavour="asan")
    dist = {}
    for (c, m, i), md in zip(pairs, meta):
        kind = md[0]
        dist[kind] = dist.get(kind, 0) + 1
        crashed = i.startswith("CRASH") or i.startswith("THROW") or i.startswith("TIMEOUT")
        if crashed:
            sig = {"dec": "decode-memory-error", "rt": "decode-memory-error", "enc": "encode-memory-error", "basic": "authorization-value-throws-or-crashes", "route": "protected-route-throws"}[kind]
            if kind == "basic" and "substr" in i:
                sig = "authorization-scheme-only-throws"
            chk.violation("exception / sanitizer report / crash: " + i[:160], {"case": c, "impl": i}, True, sig)
            continue
        if kind == "rt":
            chk.count_distinct(c)
            if unhex(i) != md[1]:
                chk.violation("base64 decode(encode(x)) != x for |x| = %d" % len(md[1]), {"case": c, "impl": i, "expected": hexs(md[1])}, True,
                              "roundtrip-fails-with-linebreaks" if len(md[1]) > 57 else "roundtrip-fails")
        elif kind == "enc":
            exp = base64.encodebytes(md[1]).rstrip(b"\n") if md[1] else b""
            # RFC 2045 style: 76 character lines; boost puts no line break before the padding
            body = base64.b64encode(md[1])
            nopad = body.rstrip(b"=")
            lines = [nopad[k:k + 76] for k in range(0, len(nopad), 76)]
            exp = b"\n".join(lines) + body[len(nopad):]
            if unhex(i) != exp:
                chk.violation("base64 encoding differs from RFC 4648 alphabet/padding", {"case": c, "impl": i, "expected": hexs(exp)}, True, "encode-wrong")
        elif kind == "route":
            if i.startswith("H "):
                chk.count_distinct(c)
            if not i.startswith(md[1]):
                chk.violation("protected route: router answered %s, expected %s" % (i[:60], md[1][:60]), {"case": c, "impl": i, "expected": md[1]}, True,
                              "handler-ran-without-valid-credentials" if i.startswith("H ") else "valid-credentials-refused-by-router")
        elif kind == "basic":
            _, users, realm, v, exp = md
            chall = b"Basic" if not realm else b'Basic realm="' + realm + b'"'
            if i.startswith("valid=1"):
                chk.count_distinct(c)
            if exp is not None and not i.startswith("valid=%d" % exp):
                chk.violation("authentication decision %s, expected valid=%d" % (i[:40], exp), {"case": c, "impl": i}, True,
                              "valid-credentials-rejected" if exp == 1 else "invalid-credentials-accepted")
            if i.startswith("valid=0") and unhex(i.split("challenge=")[1]) != chall:
                chk.violation("WWW-Authenticate challenge %s, expected %s" % (i, chall), {"case": c, "impl": i}, True, "wrong-challenge")
    for c, m, i in diffs[:50]:
        chk.broken.append("correspondence h_pure(auth): case `%s` model=%s impl=%s" % (c[:200], m[:120], i[:120]))
    chk.cov["rule"] = ("round trip for one random byte string of every length 0..200 (700 thorough) plus constant strings at the 57-byte line boundaries; decode on "
                       "damaged/whitespace-laden/arbitrary inputs over all bytes; the basic decision for tables of 0..3 users (empty password, ':' in password, "
                       "NUL, long) against valid, wrong-password, unknown-user, missing, scheme-only, truncated, mutated and arbitrary Authorization values; "
                       "implementation built with ASan+UBSan; compared with the extracted model on all cases, and with python's base64 / the construction's known "
                       "verdict as oracle. non-trivial = round trips and accepted credentials; distinct = distinct case lines")
    chk.cov["input_distribution"] = dist
    chk.cov["samples"] = [pairs[j][0] + " => " + pairs[j][2] for j in (3, len(pairs) // 2, len(pairs) - 1) if j < len(pairs)]
    chk.cov["traces_validated_against_impl"] = len(pairs)
    chk.assumptions += ["boost 1.83 archive iterators behave as the functional model in M_Auth.v (tied by this correspondence only)",
                        "unordered_map::insert keeps the first password registered for a user name"]


def replay(body):
    import vlib
    case = body["replay"].get("case")
    if not case:
        print("nothing to replay: " + json.dumps(body["replay"])[:500]); return 1
    hb, _ = vlib.build_harness("h_pure", "asan")
    out, _ = vlib.run_cases_resilient(hb, [case])
    print("case: %s\nimpl: %s\nrecorded: %s" % (case, out[0] if out else "?", body["replay"].get("impl")))
    bad = out and (out[0].startswith(("CRASH", "THROW")) or ("expected" in body["replay"] and out[0] != body["replay"]["expected"]))
    print("property violated" if bad else "property holds on this case")
    return 1 if bad else 0
