"""C07 — client-side response reception is faithful and fragmentation-invariant."""
import json
import httpgen as G
import cligen
from vlib import hexs, unhex


def malformed(rng, cfg):
    """single-change malformed variants of a small well-formed response; all must end in I"""
    lim = G.RSP_LIMITS[cfg.inst]
    base = b"HTTP/1.1 200 OK\r\nContent-Length: 2\r\n\r\nab"
    out = []
    def add(cls, data):
        out.append((cls, data))
    add("bad-version", base.replace(b"HTTP/1.1", b"HTTP/x.1"))
    add("bad-version", base.replace(b"HTTP/1.1", b"HTTQ/1.1"))
    add("no-blank-after-version", base.replace(b"HTTP/1.1 200", b"HTTP/1.1200"))
    add("non-digit-status", base.replace(b" 200 ", b" 2x0 "))
    add("status-over-limit", base.replace(b" 200 ", b" %d " % (lim["status"] + 1)))
    add("too-many-blanks", base.replace(b"HTTP/1.1 200", b"HTTP/1.1" + b" " * (lim["ws"] + 1) + b"200"))
    add("reason-too-long", base.replace(b"OK", b"R" * (lim["reason"] + 1)) if lim["reason"] < 100 else base.replace(b" 200 ", b" 2 0 0").replace(b"OK\r", b"\rK"))
    add("illegal-name-byte", base.replace(b"Content-Length", b"Content@Length"))
    add("bad-content-length", base.replace(b"Length: 2", b"Length: 2x"))
    add("cr-without-lf", base.replace(b"OK\r\n", b"OK\rX\n"))
    if cfg.strict:
        add("bare-lf", base.replace(b"OK\r\n", b"OK\n"))
    ch = b"HTTP/1.1 200 OK\r\nTransfer-Encoding: c\r\n\r\n" if lim["line"] < 40 else b"HTTP/1.1 200 OK\r\nTransfer-Encoding: chunked\r\n\r\n"
    add("bad-chunk-size", ch + b"g\r\n")
    add("bad-chunk-terminator", ch + b"2\r\nabXX")
    add("chunk-over-limit", ch + b"%x\r\n" % (cfg.maxchunk + 1))
    return out


def gen(chk):
    rng = chk.rng
    cases, meta = [], []
    nmsg = 160 if chk.tier == "quick" else 2000
    for k in range(nmsg):
        cfg = G.rand_cfg(rng)
        cfg.maxcontent = 2 ** 63 - 1
        m = None
        while m is None:
            m = G.gen_response(rng, cfg)
        data = m.bytes()
        cc = m.cut_classes()
        plist = [()] + G.partitions(rng, len(data), cc, "bytewise") + G.partitions(rng, len(data), cc, "linewise")
        structural = G.partitions(rng, len(data), cc, "structural1")
        plist += structural if len(structural) <= 80 else rng.sample(structural, 80)
        if len(data) <= 50:
            plist += G.partitions(rng, len(data), cc, "all1")
        for _ in range(5):
            plist += G.partitions(rng, len(data), cc, "random")
        seen = set()
        for cuts in plist:
            if cuts in seen:
                continue
            seen.add(cuts)
            cases.append(cfg.rsp_prefix() + " " + G.frag_arg(data, cuts))
            meta.append(("wf", cfg, m, cuts))
    for k in range(6 if chk.tier == "quick" else 40):
        cfg = G.rand_cfg(rng)
        cfg.maxcontent = 2 ** 63 - 1
        for cls, data in malformed(rng, cfg):
            n = len(data)
            plist = [(), tuple(range(1, n))] + [(c,) for c in range(1, n)]
            for cuts in plist:
                cases.append(cfg.rsp_prefix() + " " + G.frag_arg(data, cuts))
                meta.append(("bad", cfg, (cls, data), cuts))
    return cases, meta


def run(chk):
    chk.prove("Properties_C07")
    cases, meta = gen(chk)
    pairs, diffs = chk.correspond("h_stream", cases)
    dist = {}
    for (c, mo, io), (kind, cfg, m, cuts) in zip(pairs, meta):
        p = G.parse_out(io)
        if p is None:
            chk.violation("response receiver crashed or threw: " + io[:120], {"case": c, "impl": io}, True, "crash")
            continue
        chk.count_distinct(c)
        if kind == "wf":
            dist["well-formed"] = dist.get("well-formed", 0) + 1
            if p[1] != m.events:
                cc = m.cut_classes()
                lab = "one-read" if not cuts else ("single-cut " + cc.get(cuts[0], "inside:unlabelled") if len(cuts) == 1 else "several-cuts")
                chk.violation("well-formed response not delivered as sent under this partition",
                              {"case": c, "expected_events": m.events, "got_events": p[1], "message": m.bytes().decode("latin-1"), "cuts": list(cuts)}, True, lab)
        else:
            cls, data = m
            dist[cls] = dist.get(cls, 0) + 1
            got = []
            for e in p[1]:
                got.append(e)
                if e == "I":
                    break
            valid_before = any(e.startswith("V(") for e in got)
            if (not got) or got[-1] != "I" or (valid_before and not cls.startswith(("bad-chunk", "chunk-over"))):
                chk.violation("malformed response (%s) not reported invalid: %s" % (cls, got[:3]),
                              {"case": c, "class": cls, "got_events": got, "message": data.decode("latin-1"), "cuts": list(cuts)}, True, cls + ":not-invalid")
    for c, mo, io in diffs[:30]:
        chk.broken.append("correspondence h_stream(response): case `%s` model=%s impl=%s" % (c[:160], mo[:200], io[:200]))
    chk.cov["rule"] = ("well-formed responses from the grammar (status within the limit, any reason phrase, repeated/folded header fields, Content-Length bodies incl. 0, chunk "
                       "sequences with extensions and trailers) x {one read, byte-wise, line-wise, structural cuts, every single cut (<= 50 B), random}; single-change "
                       "malformed variants x every single cut and byte-wise; all instantiations. non-trivial = all; distinct = distinct (message, partition, configuration)")
    chk.cov["input_distribution"] = dist
    chk.cov["samples"] = [pairs[j][0][:300] + " => " + pairs[j][2][:160] for j in (0, len(pairs) // 2) if j < len(pairs)]
    chk.cov["traces_validated_against_impl"] = len(pairs)
    # the real http_client over the simulated socket: connection-level histories
    cligen.run(chk)
    chk.assumptions += ["responses framed by connection close (no Content-Length, not chunked) are outside the property"]


def replay(body):
    import vlib
    rc = cligen.replay(body)
    if rc is not None:
        return rc
    r = body["replay"]
    case = r.get("case")
    if not case:
        print("nothing to replay: " + json.dumps(r)[:500]); return 1
    hb, _ = vlib.build_harness("h_stream")
    out, _ = vlib.run_cases_resilient(hb, [case])
    p = G.parse_out(out[0]) if out else None
    print("case: %s\nimpl events: %s\nexpected: %s" % (case, p[1] if p else None, r.get("expected_events")))
    bad = p is None or ("expected_events" in r and p[1] != r["expected_events"]) or ("class" in r and "I" not in p[1])
    print("property violated" if bad else "property holds on this case")
    return 1 if bad else 0
