"""C02 — malformed or over-limit requests are never accepted, however fragmented."""
import json
import httpgen as G
from vlib import hexs, unhex


def build(meth=b"GET", tgt=b"/x", ver=b"HTTP/1.1", ws1=b" ", ws2=b" ", hdrs=None, body=b"", eol=b"\r\n", host=True, rl_eol=None):
    """returns (bytes, dict name->(start,end) of interesting spans)"""
    hdrs = list(hdrs or [])
    if host:
        hdrs = [(b"Host", b" ", b"h")] + hdrs
    out = bytearray()
    marks = {}
    out += meth; marks["method_end"] = len(out)
    out += ws1; marks["ws1_end"] = len(out)
    out += tgt; marks["target_end"] = len(out)
    out += ws2; marks["ws2_end"] = len(out)
    out += ver; marks["version_end"] = len(out)
    out += (rl_eol if rl_eol is not None else eol); marks["rl_end"] = len(out)
    for i, (n, sep, v) in enumerate(hdrs):
        out += n + b":" + sep + v
        marks["h%d_value_end" % i] = len(out)
        out += eol
        marks["h%d_end" % i] = len(out)
    marks["headers_end"] = len(out)
    out += eol
    marks["head_end"] = len(out)
    out += body
    return bytes(out), marks


def gen_classes(rng, cfg):
    """yield (class, data, expected_events_prefix, hot offsets) — expected: list of events up to the verdict"""
    lim = cfg.lim
    ws = lim["ws"]
    out = []

    def rej(cls, data, status, hot):
        out.append((cls, data, ["I(%d)" % status], hot))

    def acc(cls, data, ev, hot):
        out.append((cls, data, [ev], hot))

    def v(meth, tgt, ver, hmap, body=b"", head=0):
        return "V(%s,%s,%s,%s,%s,%d)" % (hexs(meth), hexs(tgt), ver, G.fmt_headers(hmap), hexs(body), head)
    eol = b"\r\n"
    # method length
    d, m = build(meth=b"A" * (lim["method"] + 1)); rej("method-too-long", d, 501, [m["method_end"]])
    d, m = build(meth=b"A" * lim["method"]); acc("method-at-limit", d, v(b"A" * lim["method"], b"/x", "11", {b"host": b"h"}), [m["method_end"]])
    # target length
    if lim["uri"] <= 64 or rng.random() < 0.2:
        t = b"/" + b"u" * lim["uri"]
        d, m = build(tgt=t); rej("target-too-long", d, 414, [m["target_end"]])
        t = b"/" + b"u" * (lim["uri"] - 1)
        d, m = build(tgt=t); acc("target-at-limit", d, v(b"GET", t, "11", {b"host": b"h"}), [m["target_end"]])
    # version
    for bad in (b"HTTP/x.1", b"HTTP/1.", b"HTTQ/1.1", b"HTTP/11.1", b"http/1.1", b"HTTP/1.1x", b"HTTP 1.1", b"HTTP/1,1"):
        d, m = build(ver=bad); rej("bad-version", d, 400, [m["version_end"], m["rl_end"]])
    # whitespace
    d, m = build(ws1=b" " * (ws + 1)); rej("too-many-blanks-after-method", d, 400, [m["ws1_end"], m["ws1_end"] - 1])
    d, m = build(ws1=b" " * ws); acc("blanks-after-method-at-limit", d, v(b"GET", b"/x", "11", {b"host": b"h"}), [m["ws1_end"]])
    d, m = build(ws2=b"\t" * (ws + 1)); rej("too-many-blanks-before-version", d, 400, [m["ws2_end"], m["ws2_end"] - 1])
    d, m = build(ws2=b" " * ws); acc("blanks-before-version-at-limit", d, v(b"GET", b"/x", "11", {b"host": b"h"}), [m["ws2_end"]])
    d, m = build(hdrs=[(b"A", b" " * (ws + 1), b"b")]); rej("too-many-blanks-before-value", d, 400, [m["h1_value_end"] - 1, m["h1_value_end"] - 2])
    d, m = build(hdrs=[(b"A", b" " * ws, b"b")]); acc("blanks-before-value-at-limit", d, v(b"GET", b"/x", "11", {b"host": b"h", b"a": b"b"}), [m["h1_value_end"] - 1])
    # illegal header-name byte
    for badc in (b"@", b" ", b"\x00", b"\x80", b"(", b"\x7f", b"\t", b"/"):
        nm = b"Ho" + badc + b"st2"
        d, m = build(hdrs=[(nm, b" ", b"a")])
        off = m["h0_end"] + 3
        rej("illegal-name-byte", d, 400, [off, off - 1, m["h1_end"]])
    d, m = build(hdrs=[(b"", b" ", b"a")]); rej("empty-name", d, 400, [m["h0_end"] + 1, m["h1_end"]])
    # line length: name ':' ' ' value CRLF
    L = lim["line"]
    val = b"v" * (L + 1 - 5)    # "A: " + val + CRLF = L + 1
    d, m = build(hdrs=[(b"A", b" ", val)]);
    if len(b"A") + len(val) + 1 <= lim["hlen"] - 5:
        rej("line-too-long", d, 400, [m["h1_end"], m["h1_end"] - 1, m["h1_end"] - 2])
        val2 = val[:-1]
        d, m = build(hdrs=[(b"A", b" ", val2)]); acc("line-at-limit", d, v(b"GET", b"/x", "11", {b"host": b"h", b"a": val2}), [m["h1_end"], m["h1_end"] - 1])
    # number of fields (distinct names)
    n = lim["hnum"]
    if n <= 20 or rng.random() < 0.3:
        hs = [(b"N%d" % i, b"", b"") for i in range(n)]          # n more besides Host -> n + 1
        d, m = build(hdrs=hs)
        if sum(len(a) for a, _, _ in hs) + 5 <= lim["hlen"]:
            rej("too-many-fields", d, 400, [m["h%d_end" % n], m["h%d_end" % n] - 1, m["headers_end"]])
            hs2 = hs[:-1]
            d, m = build(hdrs=hs2)
            hm = {b"host": b"h"}
            for a, _, _ in hs2:
                hm[a.lower()] = b""
            acc("fields-at-limit", d, v(b"GET", b"/x", "11", hm), [m["headers_end"]])
    # total size (name + value)
    H = lim["hlen"]
    if H <= 200 or rng.random() < 0.15:
        per = max(1, min(lim["line"] - 6, 900))
        remaining = H + 1 - 5      # Host h = 5
        hs, hm, i = [], {b"host": b"h"}, 0
        while remaining > 0 and i < lim["hnum"] - 1:
            take = min(per, remaining)
            nm = b"T%d" % i
            if take <= len(nm):
                nm = b"T"[:take] if take >= 1 else b"T"
                take = max(take, len(nm))
            vv = b"x" * (take - len(nm))
            hs.append((nm, b"", vv)); hm[nm.lower()] = vv
            remaining -= take; i += 1
        if remaining <= 0:
            d, m = build(hdrs=hs); rej("headers-too-large", d, 400, [m["h%d_end" % len(hs)], m["headers_end"]])
            # one byte less: at the limit
            nm, _, vv = hs[-1]
            if vv:
                hs2 = hs[:-1] + [(nm, b"", vv[:-1])]
                hm2 = dict(hm); hm2[nm.lower()] = vv[:-1]
                d, m = build(hdrs=hs2); acc("headers-at-limit", d, v(b"GET", b"/x", "11", hm2), [m["headers_end"]])
    # Host
    d, m = build(host=False, hdrs=[(b"A", b" ", b"b")]); rej("missing-host", d, 400, [m["head_end"] - 1, m["head_end"] - 2])
    d, m = build(host=False, ver=b"HTTP/1.0", hdrs=[(b"A", b" ", b"b")]); acc("no-host-needed-1.0", d, v(b"GET", b"/x", "10", {b"a": b"b"}), [m["head_end"] - 1])
    # Content-Length
    for bad in (b"12a", b"-1", b"1 2", b"0x10", b"99999999999999999999", b"+1", b"1,1", b"18446744073709551621", b"18446744073709551616",
                b"36893488147419103237", b"9223372036854775808", b"184467440737095516160"):
        if len(bad) + 19 > lim["line"] or len(bad) + 19 > lim["hlen"]:
            continue
        d, m = build(meth=b"POST", hdrs=[(b"Content-Length", b" ", bad)], body=b"z"); rej("bad-content-length", d, 400, [m["head_end"], m["head_end"] - 1])
    mc = cfg.maxcontent
    if len(b"%d" % (mc + 1)) + 19 <= min(lim["line"], lim["hlen"]):
        d, m = build(meth=b"POST", hdrs=[(b"Content-Length", b" ", b"%d" % (mc + 1))], body=b"zz"); rej("content-length-over-limit", d, 413, [m["head_end"], m["head_end"] - 1])
        if mc <= 2000:
            body = bytes(rng.randrange(256) for _ in range(mc))
            d, m = build(meth=b"POST", hdrs=[(b"Content-Length", b" ", b"%d" % mc)], body=body)
            acc("content-length-at-limit", d, v(b"POST", b"/x", "11", {b"host": b"h", b"content-length": b"%d" % mc}, body), [m["head_end"], len(d) - 1])
    # chunks (concatenated delivery so that nothing is delivered before the verdict)
    if cfg.concat and 24 <= min(lim["line"], lim["hlen"] - 5):
        te = [(b"Transfer-Encoding", b" ", b"c")]
        mk = cfg.maxchunk
        def chunked(parts):
            d0, m0 = build(meth=b"POST", hdrs=te)
            return d0 + b"".join(parts), m0
        d, m = chunked([b"%x\r\n" % (mk + 1)]); rej("chunk-over-limit", d, 400, [len(d), len(d) - 1, len(d) - 2])
        for bad in (b"g\r\n", b"\r\n", b";x\r\n", b"1" * 17 + b"\r\n", b"-1\r\n", b"1 2\r\n", b"FFFFFFFFFFFFFFFF\r\n"):
            if len(bad) > lim["line"]:
                continue
            d, m = chunked([bad]); rej("bad-chunk-size", d, 400, [len(d), len(d) - 1, m["head_end"] + 1])
        d, m = chunked([b"2\r\nab", b"XX"]); rej("bad-chunk-terminator", d, 400, [len(d) - 2, len(d) - 1])
        d, m = chunked([b"2\r\nab", b"\rX"]); rej("bad-chunk-terminator", d, 400, [len(d) - 1, len(d) - 2])
        for term in (b"\r\r\n", b"\n\r\n" if cfg.strict else b"\r\r", b"\rab", b"X\r\n", b"\r\r\r\n"):
            d, m = chunked([b"2\r\nab", term, b"0\r\n\r\n"]); rej("bad-chunk-terminator", d, 400, [len(d) - 5 - len(term) + i for i in range(len(term) + 1)])
        if mc <= 2000 and mk >= 1:
            parts, total = [], 0
            while total <= mc:
                n_ = min(mk, mc + 1 - total)
                parts.append(b"%x\r\n" % n_ + b"y" * n_ + b"\r\n"); total += n_
            d, m = chunked(parts); rej("chunks-exceed-content-limit", d, 413, [len(d), len(d) - 1])
        hm = {b"host": b"h", b"transfer-encoding": b"c"}
        d, m = chunked([b"1\r\nq\r\n", b"0\r\n", b"\r\n"]); acc("chunked-ok", d, v(b"POST", b"/x", "11", hm, b"q") if mc >= 1 else "I(413)", [len(d) - 2])
    # bare LF under strict CRLF
    if cfg.strict:
        d, m = build(rl_eol=b"\n"); rej("bare-lf-request-line", d, 400, [m["rl_end"]])
        d, m = build(eol=b"\n", rl_eol=b"\r\n"); rej("bare-lf-header-line", d, 400, [m["h0_end"]])
    else:
        d, m = build(eol=b"\n"); acc("lf-only-tolerated", d, v(b"GET", b"/x", "11", {b"host": b"h"}), [m["rl_end"], m["h0_end"]])
    # stray CR
    d, m = build(hdrs=[(b"A", b" ", b"b\rc")]); rej("cr-not-followed-by-lf", d, 400, [m["h1_value_end"] - 1, m["h1_value_end"] - 2])
    d0, m0 = build()
    d = d0[:m0["headers_end"]] + b"\rX\r\n"; rej("cr-not-followed-by-lf-in-blank-line", d, 400, [m0["headers_end"] + 1])
    # a doubled CR in the empty line that ends the head (and in the one that ends the trailers)
    d = d0[:m0["headers_end"]] + b"\r\r\n"; rej("double-cr-in-blank-line", d, 400, [m0["headers_end"] + 1, m0["headers_end"] + 2])
    d = d0[:m0["headers_end"]] + b"\r\r\r\n"; rej("double-cr-in-blank-line", d, 400, [m0["headers_end"] + 1, m0["headers_end"] + 2])
    if cfg.concat and 24 <= min(lim["line"], lim["hlen"] - 5):
        dc, mc_ = build(meth=b"POST", hdrs=[(b"Transfer-Encoding", b" ", b"c")])
        d = dc + b"1\r\nq\r\n0\r\n\r\r\n"; rej("double-cr-in-trailer-blank-line", d, 400, [len(d) - 2, len(d) - 1])
    # TRACE
    if 24 <= min(lim["line"], lim["hlen"] - 5):
        d, m = build(meth=b"TRACE"[:lim["method"]], hdrs=[(b"Content-Length", b" ", b"1")], body=b"z")
        if lim["method"] >= 5:
            rej("trace-with-body", d, 400, [m["head_end"]])
    if lim["method"] >= 5:
        d, m = build(meth=b"TRACE"); out.append(("trace-not-enabled", d, ["T(405)"], [m["head_end"] - 1]))
    # a header line folded over several physical lines: the limits apply to the whole line - each physical line is
    # within the line limit, together they are well beyond it (the cut between a line end and the blank that continues
    # the line is the interesting one); likewise the leading blanks of value and continuation together
    L = lim["line"]
    if L >= 24 and 3 * L <= lim["hlen"] - 8:
        part = b"v" * (L - 10)
        d0, m0 = build()
        folded = b"A: " + part + b"\r\n " + part + b"\r\n " + part + b"\r\n"
        d = d0[:m0["headers_end"]] + folded + b"\r\n"
        b0 = m0["headers_end"]
        cut1 = b0 + 3 + len(part) + 2      # between the first CRLF and the continuation blank
        cut2 = cut1 + 1 + len(part) + 2
        rej("folded-line-too-long", d, 400, [cut1, cut2, cut1 - 1, cut1 + 1, cut2 + 1])
    if ws >= 2 and 24 <= min(lim["line"], lim["hlen"] - 5):
        d0, m0 = build()
        folded = b"A:" + b" " * ws + b"b\r\n" + b" " * ws + b"c\r\n" + b" " * 2 + b"d\r\n"
        if len(folded) <= lim["line"]:
            d = d0[:m0["headers_end"]] + folded + b"\r\n"
            b0 = m0["headers_end"]
            cut1 = b0 + 2 + ws + 1 + 2
            cut2 = cut1 + ws + 1 + 2
            rej("folded-line-too-many-blanks", d, 400, [cut1, cut2, cut1 + 1, cut2 + 1, cut2 + 2])
    # the limits still hold for the second request of a connection (after the receiver has been cleared once)
    if cfg.concat and 24 <= min(lim["line"], lim["hlen"] - 5) and cfg.maxchunk < 1000000:
        first, _ = build(hdrs=[(b"Content-Length", b" ", b"0")])
        second, m2 = build(meth=b"POST", hdrs=[(b"Transfer-Encoding", b" ", b"c")])
        over = b"%x\r\n" % (cfg.maxchunk + 1)
        d = first + second + over
        out.append(("chunk-over-limit-on-the-second-request", d, [v(b"GET", b"/x", "11", {b"host": b"h", b"content-length": b"0"}), "I(400)"],
                    [len(first), len(d), len(d) - 1]))
        over2 = b"%x;e=1\r\n" % (cfg.maxchunk + 1)
        d = first + second + over2
        out.append(("chunk-over-limit-on-the-second-request", d, [v(b"GET", b"/x", "11", {b"host": b"h", b"content-length": b"0"}), "I(400)"],
                    [len(first), len(d), len(d) - 1]))
    return out


def verdict_prefix(events):
    """events up to and including the first verdict (I / T), or all when there is none"""
    out = []
    for e in events:
        if e.startswith("X("):
            continue
        out.append(e)
        if e.startswith("I(") or e.startswith("T("):
            break
    return out


def gen(chk):
    rng = chk.rng
    cases, meta = [], []
    ncfg = 10 if chk.tier == "quick" else 60
    for k in range(ncfg):
        cfg = G.rand_cfg(rng, "T" if k % 2 == 0 else "D")
        for cls, data, exp, hot in gen_classes(rng, cfg):
            n = len(data)
            plist = [()]
            big = n > 6000            # the extracted model is quadratic in the line length: fewer partitions for very long messages
            if n <= 1500:
                plist.append(tuple(range(1, n)))     # byte-wise
            elif not big:
                plist.append(tuple(range(16, n, 16)))
            for h in hot[:2] if big else hot:
                if 0 < h < n:
                    plist.append((h,))
            # line by line
            plist.append(tuple(i + 1 for i in range(n - 1) if data[i] == 10))
            if n <= 80:
                plist += [(c,) for c in range(1, n)]
            elif not big:
                plist += [(c,) for c in rng.sample(range(1, n), 25)]
            for _ in range(1 if big else 3):
                kk = rng.randint(1, min(5, n - 1))
                plist.append(tuple(sorted(rng.sample(range(1, n), kk))))
            seen = set()
            for cuts in plist:
                if cuts in seen:
                    continue
                seen.add(cuts)
                cases.append(cfg.req_prefix() + " " + G.frag_arg(data, cuts))
                meta.append((cls, cfg, data, exp, cuts))
    return cases, meta


def run(chk):
    chk.prove("Properties_C02")
    cases, meta = gen(chk)
    pairs, diffs = chk.correspond("h_stream", cases)
    dist = {}
    for (c, mo, io), (cls, cfg, data, exp, cuts) in zip(pairs, meta):
        dist[cls] = dist.get(cls, 0) + 1
        p = G.parse_out(io)
        if p is None:
            chk.violation("receiver crashed or threw: " + io[:120], {"case": c, "impl": io}, True, "crash")
            continue
        got = verdict_prefix(p[1])
        chk.count_distinct(c)
        if got != exp:
            accepted = any(e.startswith("V(") for e in got) and exp[0].startswith("I(")
            where = "single-buffer" if not cuts else ("cut@%s" % ("after-offending-byte" if len(cuts) == 1 else "several"))
            sig = "%s:%s" % (cls, "accepted" if accepted else "wrong-verdict")
            chk.violation("class %s: expected %s, got %s" % (cls, exp, got[:3]),
                          {"case": c, "class": cls, "expected_events": exp, "got_events": got, "message": data.decode("latin-1"), "cuts": list(cuts)}, True, sig)
    for c, mo, io in diffs[:30]:
        chk.broken.append("correspondence h_stream(request/malformed): case `%s` model=%s impl=%s" % (c[:160], mo[:200], io[:200]))
    chk.cov["rule"] = ("for each violation class of the property (and its at-the-limit accepted twin) a request built by construction, so the verdict is known: "
                       "method/target length, version syntax, blanks in three positions, illegal name bytes, empty name, line length, field count, total header size, "
                       "missing Host, Content-Length syntax/size, chunk size/terminator/concatenated size, bare LF when strict, stray CR, TRACE with/without body; "
                       "x partitions {one read, byte-wise, cut right after / before the offending byte or line, line-wise, every single cut (<= 80 B), random} x "
                       "default and tiny limits, strict on/off, containers, limit values. non-trivial = all; distinct = distinct (class, configuration, partition)")
    chk.cov["input_distribution"] = dist
    chk.cov["samples"] = [pairs[j][0][:300] + " => " + pairs[j][2][:160] for j in (0, len(pairs) // 2) if j < len(pairs)]
    chk.cov["traces_validated_against_impl"] = len(pairs)
    # the limits as the application configures them on http_server: they must reach every connection's receiver
    import simcheck
    simcheck.run_sim(chk, H=simcheck.limit_histories(chk), label="h_sim(configured limits)")


def replay(body):
    import vlib
    r = body["replay"]
    case = r.get("case")
    if not case:
        print("nothing to replay: " + json.dumps(r)[:500]); return 1
    if case.startswith("sim "):
        import simcheck
        return simcheck.replay(body)
    hb, _ = vlib.build_harness("h_stream")
    out, _ = vlib.run_cases_resilient(hb, [case])
    p = G.parse_out(out[0]) if out else None
    got = verdict_prefix(p[1]) if p else None
    print("case: %s\nimpl verdict: %s\nexpected: %s" % (case, got, r.get("expected_events")))
    bad = got != r.get("expected_events")
    print("property violated" if bad else "property holds on this case")
    return 1 if bad else 0
