"""C04 — server-level property decided on event histories (see simcheck.py / simgen.py)."""
import simcheck, cligen
from vlib import hexs, unhex


def chunk_size_lines(chk):
    """the chunk size line for sizes no test body can have: every power of two up to 2^63 and its neighbours, written by the
    real encoder and by the model, judged by the grammar (hexadecimal size, optional extension, CR LF)"""
    rng = chk.rng
    sizes = set([0, 1, 9, 10, 15, 16, 255, 256, 4095, 65535, 65536])
    for k in range(20, 64):
        sizes.update([2 ** k - 1, 2 ** k, 2 ** k + 1])
    sizes.update(rng.randrange(2 ** 63) for _ in range(40 if chk.tier == "quick" else 2000))
    sizes = sorted(x for x in sizes if x < 2 ** 63)
    cases = ["chunkhdr %d %s" % (n, hexs(rng.choice([b"", b"", b"x=1"]))) for n in sizes]
    pairs, diffs = chk.correspond("h_pure", cases, label="chunk size lines")
    for c, mo, io in pairs:
        n = int(c.split(" ")[1]); ext = unhex(c.split(" ")[2]) if len(c.split(" ")) > 2 and c.split(" ")[2] != "-" else b""
        want = b"%x" % n + (b"; " + ext if ext else b"") + b"\r\n"
        try:
            got = unhex(io)
        except Exception:
            got = None
        if got != want:
            chk.violation("the size line written for a chunk of %d bytes is %r (it must be %r)" % (n, got, want), {"case": c, "impl": io[:200]}, True, "chunk-size-line")
        else:
            chk.count_distinct(c)
    for c, mo, io in diffs[:10]:
        chk.broken.append("correspondence chunk size lines: case `%s` model=%s impl=%s" % (c, mo[:80], io[:80]))


def run(chk):
    chk.prove("Properties_C04")
    simcheck.run_sim(chk, flavour=FLAVOUR)
    cligen.run(chk, flavour=FLAVOUR)
    chunk_size_lines(chk)


def replay(body):
    case = body["replay"].get("case", "")
    if case.startswith("chunkhdr"):
        import vlib
        hb, _ = vlib.build_harness("h_pure")
        out, rc, err = vlib.run_cases(hb, [case])
        n = int(case.split(" ")[1])
        print("chunk of %d bytes: size line written %r" % (n, unhex(out[0]) if out else None))
        return 0 if out and unhex(out[0]).startswith(b"%x" % n) and (unhex(out[0])[len(b"%x" % n):][:1] in (b";", b"\r")) else 1
    r = cligen.replay(body)
    return simcheck.replay(body) if r is None else r


FLAVOUR = "plain"
