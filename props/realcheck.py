"""Supporting runs of the real server over the real tcp_adaptor on loopback sockets (cpp/h_real.cpp).

The simulation replaces the socket adaptor by a transcription; these runs execute the adaptor itself: a client with an
8 KiB receive buffer asks for multi-megabyte responses and reads them late, so that one write cannot complete in one
system call and a close races with unsent data.  Judged: every response arrives complete and in order, the server
closes exactly when HTTP/1.0 or Connection: close asks for it, and not before the bytes are delivered."""
import re
from concurrent.futures import ThreadPoolExecutor
import vlib

LINE = re.compile(r"got=(\d+) bytes=(\d+)/(\d+) eof=(\d) err=(\d+) sent=(\d+) disc=(\d+)$")


def cases_for(chk):
    rng = chk.rng
    n = 9 if chk.tier == "quick" else 60
    # (the last field: a send/receive timeout configured on the server - it must not change what is delivered)
    out = ["real 8000000 1 0 2 200", "real 8000000 0 0 1 300", "real 6000000 1 1 2 300", "real 100 1 0 3 0",
           "real 8000000 1 1 1 300 250", "real 6000000 0 0 1 300 999", "real 6000000 1 1 2 200 1500"]
    while len(out) < n:
        v11 = rng.randrange(2)      # the library closes after every HTTP/1.0 request, keep-alive or not: one request per 1.0 connection
        out.append("real %d %d %d %d %d %d" % (rng.choice([1, 4096, 70000, 1000000, 5000000, 12000000]), v11, rng.randrange(2),
                                               rng.randrange(1, 4) if v11 else 1, rng.choice([0, 20, 150, 400]), rng.choice([0, 0, 1, 250, 999, 1000, 30000])))
    return out


def run(chk):
    hb, hlog = vlib.build_harness("h_real", "plain")
    if not hb:
        chk.broken.append("harness h_real does not compile against the current tree: %s" % hlog[-800:])
        return
    cases = cases_for(chk)

    def one(c):
        return (c,) + vlib.run_case_retry(hb, c, timeout=120)
    with ThreadPoolExecutor(4) as ex:
        res = list(ex.map(one, cases))
    tot = {"cases": 0, "responses": 0, "bytes": 0}
    for c, out, rc, err in res:
        f = c.split(" ")
        v11, close_last, nreq = f[2] == "1", f[3] == "1", int(f[4])
        m = LINE.match(out[0]) if out else None
        rep = {"case": c, "harness": "h_real", "result": out[:1]}
        if out and out[0].startswith("HARNESS-ERROR"):
            chk.broken.append("harness h_real could not set up its sockets: %s" % out[0][:200])
            continue
        if not m:
            chk.violation("the server on real sockets crashed or hung: %s rc=%s %s" % (out[:1], rc, err[-300:]), dict(rep, stderr=err[-3000:]), True, "real-crash")
            continue
        got, nbytes, exp, eof, errno, sent, disc = map(int, m.groups())
        tot["cases"] += 1; tot["responses"] += got; tot["bytes"] += nbytes
        must_close = close_last or not v11
        if got != nreq or nbytes != exp or errno:
            chk.violation("real sockets: %d of %d responses arrived complete, %d of %d body bytes (errno %d, server closed: %d)" % (got, nreq, nbytes, exp, errno, eof),
                          rep, True, "real-response-truncated")
        elif bool(eof) != must_close:
            chk.violation("real sockets: the server %s the connection after the last response (HTTP/1.%d, Connection: close %s)" %
                          ("closed" if eof else "kept open", 1 if v11 else 0, "sent" if close_last else "not sent"), rep, True, "real-close-policy")
        if int(f[1]) >= 1000000:
            chk.count_distinct(c)
    chk.cov["evaluations"] += len(cases)
    chk.cov["real_socket_runs"] = tot
    chk.assumptions.append("real-socket runs are supporting evidence: the kernel's buffering and scheduling choose the interleaving")


RLINE = re.compile(r"threw=(\S+) conns=(\d+) disc=(\d+) witness=(\d+)/(\d+) held=(\d+)$")


def reset_bad(case, out):
    m = RLINE.match(out[0]) if out else None
    if out and out[0].startswith("HARNESS-ERROR"):
        return None
    if not m:
        return "the server on real sockets crashed or hung: %s" % out[:1], "real-crash"
    threw, conns, disc, wit, rounds, held = m.group(1), int(m.group(2)), int(m.group(3)), int(m.group(4)), int(m.group(5)), int(m.group(6))
    if threw != "-":
        return "real sockets: a peer reset followed by the application's %s raised an exception into the event loop: %s" % \
               ("disconnect()" if case.split(" ")[3] == "0" else "response", threw), "exception-into-event-loop"
    if conns != disc or held:
        return "real sockets: after peer resets, %d connected events but %d disconnected events, %d connection(s) still retained" % (conns, disc, held), "real-lifecycle-mismatch"
    if wit != rounds:
        return "real sockets: after peer resets on other connections, %d of %d ordinary connections were served" % (wit, rounds), "other-connection-disturbed"
    return None


def run_reset(chk):
    """peer resets racing the application's disconnect() / response, on the real adaptor"""
    hb, hlog = vlib.build_harness("h_real", "plain")
    if not hb:
        chk.broken.append("harness h_real does not compile against the current tree: %s" % hlog[-800:])
        return
    rng = chk.rng
    cases = ["reset 10 20 0", "reset 10 20 1", "reset 6 0 0"]
    while len(cases) < (5 if chk.tier == "quick" else 40):
        cases.append("reset %d %d %d" % (rng.choice([5, 10, 20]), rng.choice([0, 1, 5, 20, 40]), rng.randrange(2)))
    tot = 0
    for c in cases:
        out, rc, err = vlib.run_case_retry(hb, c, timeout=120)
        bad = reset_bad(c, out)
        if bad:
            chk.violation(bad[0], {"case": c, "harness": "h_real", "result": out[:1], "stderr": err[-2000:]}, True, bad[1])
        else:
            tot += 1; chk.count_distinct(c)
    chk.cov["evaluations"] += len(cases)
    chk.cov["real_socket_reset_runs"] = {"cases": len(cases), "clean": tot}
    chk.assumptions.append("real-socket runs are supporting evidence: the kernel's buffering and scheduling choose the interleaving")


def replay(body):
    r = body["replay"]
    hb, _ = vlib.build_harness("h_real", "plain")
    if r["case"].startswith("timeo"):
        out, rc, err = vlib.run_cases(hb, [r["case"]], timeout=120)
        print("events: %s\nsocket timeouts read back (rcv/snd per connection): %s\nrecorded: %s" % (r["case"], out[:1], r.get("result")))
        return 1
    if r["case"].startswith("reset"):
        bad = 0
        for i in range(3):
            out, rc, err = vlib.run_cases(hb, [r["case"]], timeout=120)
            print("run %d: %s" % (i, out[:1]))
            bad += 1 if reset_bad(r["case"], out) else 0
        print("%d of 3 runs showed the failure" % bad)
        return 1 if bad else 0
    bad = 0
    for i in range(3):
        out, rc, err = vlib.run_cases(hb, [r["case"]], timeout=120)
        print("run %d: %s" % (i, out[:1]))
        m = LINE.match(out[0]) if out else None
        f = r["case"].split(" ")
        if not m or int(m.group(1)) != int(f[4]) or m.group(2) != m.group(3) or int(m.group(5)) or bool(int(m.group(4))) != (f[3] == "1" or f[2] == "0"):
            bad += 1
    print("%d of 3 runs showed the failure" % bad)
    return 1 if bad else 0
