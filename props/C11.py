"""C11 — server-level property decided on event histories (see simcheck.py / simgen.py)."""
import simcheck, cligen


def run(chk):
    chk.prove("Properties_C11")
    simcheck.run_sim(chk, flavour=FLAVOUR)
    cligen.run(chk, flavour=FLAVOUR)


def replay(body):
    r = cligen.replay(body)
    return simcheck.replay(body) if r is None else r


FLAVOUR = "asan"
