"""C09 — server-level property decided on event histories (see simcheck.py / simgen.py)."""
import simcheck, realcheck


def run(chk):
    chk.prove("Properties_C09")
    simcheck.run_sim(chk, flavour=FLAVOUR)
    realcheck.run(chk)


replay = simcheck.replay
FLAVOUR = "plain"
