"""C10 — server-level property decided on event histories (see simcheck.py / simgen.py)."""
import simcheck, realcheck


def run(chk):
    chk.prove("Properties_C10")
    simcheck.run_sim(chk, flavour=FLAVOUR)
    # dozens of simultaneous connections, in the ordinary build and in the HTTP_THREAD_SAFE build (whose collections are threadsafe_hash_maps)
    H = simcheck.crowd_histories(chk)
    simcheck.run_sim(chk, flavour="plain", H=H, label="h_sim crowd")
    simcheck.run_sim(chk, flavour="plain", H=H, label="h_sim crowd -DHTTP_THREAD_SAFE", extra=["-DHTTP_THREAD_SAFE"])
    realcheck.run_reset(chk)


replay = simcheck.replay
FLAVOUR = "asan"
