"""C08 — what the encoders produce, the library's own receivers accept unchanged."""
import json
import httpgen as G
import vlib
from vlib import hexs, unhex

# megabyte chunks go through the extracted model, which recurses over lists: only where the stack limit can be raised (lib/vlib.run_cases)
def _deep_stack():
    import resource
    hard = resource.getrlimit(resource.RLIMIT_STACK)[1]
    return hard == resource.RLIM_INFINITY or hard >= (1 << 30)
DEEP_STACK = _deep_stack()

NIDS = 48


def gen_components(chk):
    rng = chk.rng
    comps = []
    n = 400 if chk.tier == "quick" else 6000
    # every header id of the enumeration, in a request and in a response
    for i in range(NIDS):
        comps.append(dict(kind="hdrid", id=i, value=G.value(rng, 0, 12).replace(b"\t", b"x")))
    for _ in range(n):
        kind = rng.choice(["req", "req", "rsp", "rsp", "chunk"])
        hdrs = []
        for _ in range(rng.randint(0, 4)):
            nm = G.token(rng, 1, 10) if rng.random() < 0.5 else rng.choice([b"Content-MD5", b"X_a.b", b"ETag", b"TE", b"Content-Type", b"Accept", b"A1"])
            if nm.lower() in (b"content-length", b"transfer-encoding", b"host"):
                continue
            v = G.value(rng, 0, 14)
            hdrs.append((nm, v))
        body = bytes(rng.randrange(256) for _ in range(rng.choice([0, 0, 1, 5, 100, 2000])))
        if kind == "req":
            meth = rng.choice([b"GET", b"POST", b"PUT", b"DELETE", b"OPTIONS", b"CONNECT", G.token(rng, 1, 8, b"ABCDEFGHIJKLMNOPQRSTUVWXYZ")])
            uri = b"/" + bytes(rng.choice(b"abc/?=&%.~-_:@") for _ in range(rng.randint(0, 20)))
            if rng.random() < 0.25:
                # text that is a header name elsewhere: in the target (or the reason phrase) it is just text
                uri += rng.choice([b"?q=Content-Length", b"/Transfer-Encoding", b"?Content-Length:%205", b"/wiki/Chunked_Transfer-Encoding:chunked",
                                   b"?h=Host:", b"/Expect:100-continue", b"?Connection:close"])
            comps.append(dict(kind="req", method=meth, uri=uri, ma=rng.choice([49, 49, 50]), mi=rng.choice([49, 48, 49]), hdrs=hdrs, body=body))
            if rng.random() < 0.5:
                comps[-1]["ops"], comps[-1]["explicit_cl"] = builder_ops(rng, hdrs, len(body), True)
        elif kind == "rsp":
            # non-standard codes too: three digits without a standard reason, and four / five digits up to the receiver's limit
            status = rng.choice([200, 201, 404, 500, 299, 599, 100 + rng.randrange(500), 600 + rng.randrange(400), 1000 + rng.randrange(64535)])
            reason = b"" if rng.random() < 0.6 and status < 600 else G.value(rng, 1, 10).replace(b"\t", b"x")
            if rng.random() < 0.15:
                reason = rng.choice([b"Content-Length: 3", b"Transfer-Encoding: chunked", b"No Content-Length", b"Connection: close"])
            comps.append(dict(kind="rsp", status=status, reason=reason, hdrs=hdrs, body=body))
            if rng.random() < 0.5:
                comps[-1]["ops"], comps[-1]["explicit_cl"] = builder_ops(rng, hdrs, len(body), False, status >= 200 and status not in (204, 304))
        else:
            nch = rng.randint(0, 3)
            long_stream = rng.random() < 0.04
            if long_stream:
                nch = rng.randint(300, 1500)      # a long stream through one receiver
            chunks = []
            for _ in range(nch):
                sz = rng.choice([1, 2, 9, 15, 16, 17, 255, 256, 4095, 4096, 65535, 70000]) if not long_stream else rng.choice([1, 2, 3])
                if not long_stream and rng.random() < 0.04 and DEEP_STACK:
                    sz = rng.choice([65536, 1048575, 1048576])      # six hex digits, up to the receiver's limit (the default maximum chunk size)
                ext = b"" if rng.random() < 0.6 else G.token(rng, 1, 5) + (b"=" + G.token(rng, 1, 4) if rng.random() < 0.5 else b"")
                chunks.append((bytes([rng.randrange(256)]) * sz, ext))
            lext = b"" if rng.random() < 0.7 else G.token(rng, 1, 5)
            trailers = [(G.token(rng, 1, 6), G.value(rng, 0, 8)) for _ in range(rng.randint(0, 2))]
            comps.append(dict(kind="chunk", chunks=chunks, lext=lext, trailers=trailers, dir=rng.choice(["req", "rsp"])))
    return comps


def hdr_string(hdrs):
    return b"".join(n + b": " + v + b"\r\n" for n, v in hdrs)


def builder_ops(rng, hdrs, body_len, is_req, may_state_length=True):
    """the same final header string reached through the builder interface: a constructor string, set_header_string
    (which discards what was there), add_header calls, an explicit add_content_length_header"""
    hdrs = ([(b"Host", b"h")] if is_req else []) + list(hdrs)
    ops = []
    k = rng.randint(0, len(hdrs))
    if rng.random() < 0.5:
        # something that is replaced later: it may well contain framing headers
        junk = rng.choice([b"", b"X-Old: 1\r\n", b"Content-Length: 77\r\n", b"Transfer-Encoding: chunked\r\n"])
        ops.append("C:" + hexs(junk))
        if rng.random() < 0.5:
            ops.append("L:%d" % rng.randrange(1000))
        if rng.random() < 0.5:
            ops.append("F:%s:%s" % (hexs(b"Content-Length"), hexs(b"5")))
        ops.append("S:" + hexs(hdr_string(hdrs[:k])))
    else:
        ops.append("C:" + hexs(hdr_string(hdrs[:k])))
    for n, v in hdrs[k:]:
        ops.append("F:%s:%s" % (hexs(n), hexs(v)))
    # (an explicit Content-Length on a response that may not have a body would announce bytes that are never written)
    explicit = may_state_length and rng.random() < 0.3
    if explicit:
        ops.append("L:%d" % body_len)
    return ";".join(ops), explicit


def encode_cases(c):
    """h_pure cases that produce the encoder output for the component"""
    if c["kind"] == "hdrid":
        return ["hdrid %d %s" % (c["id"], hexs(c["value"]))]
    if c["kind"] == "req" and c.get("ops"):
        return ["reqops %s %s %d %d %s %d" % (hexs(c["method"]), hexs(c["uri"]), c["ma"], c["mi"], c["ops"], len(c["body"]))]
    if c["kind"] == "rsp" and c.get("ops"):
        return ["respops %d %s %s %d" % (c["status"], hexs(c["reason"]), c["ops"], len(c["body"]))]
    if c["kind"] == "req":
        return ["reqmsg %s %s %d %d %s %d" % (hexs(c["method"]), hexs(c["uri"]), c["ma"], c["mi"], hexs(b"Host: h\r\n" + hdr_string(c["hdrs"])), len(c["body"]))]
    if c["kind"] == "rsp":
        return ["respmsg %d %s %s %d" % (c["status"], hexs(c["reason"]), hexs(hdr_string(c["hdrs"])), len(c["body"]))]
    out = []
    for data, ext in c["chunks"]:
        out.append("chunkhdr %d %s" % (len(data), hexs(ext)))
    out.append("lastchunk %s %s" % (hexs(c["lext"]), hexs(hdr_string(c["trailers"]))))
    return out


def expected_map(hdrs, extra=()):
    m = {}
    for n, v in list(extra) + list(hdrs):
        G.add_header(m, n, v)
    return m


def run(chk):
    chk.prove("Properties_C08")
    comps = gen_components(chk)
    enc_cases, owner = [], []
    for k, c in enumerate(comps):
        for ec in encode_cases(c):
            enc_cases.append(ec); owner.append(k)
    enc_pairs, enc_diffs = chk.correspond("h_pure", enc_cases, label="encoders")
    for c_, m_, i_ in enc_diffs[:20]:
        chk.broken.append("correspondence h_pure(encoders): case `%s` model=%s impl=%s" % (c_[:160], m_[:160], i_[:160]))
    enc_out = {}
    for (c_, m_, i_), k in zip(enc_pairs, owner):
        enc_out.setdefault(k, []).append(i_)
    # phase 2: feed what the real encoders produced to the real receivers
    rx_cases, meta = [], []
    cfgD = G.Cfg("D", 0, "s", 0, 0, 1048576, 1048576)
    cfgC = G.Cfg("D", 0, "s", 1, 0, 1048576, 1048576)
    for k, c in enumerate(comps):
        outs = enc_out.get(k, [])
        if not outs or any(o.startswith(("CRASH", "THROW", "HARNESS")) for o in outs):
            chk.violation("encoder crashed/threw: %s" % outs[:1], {"component": str(c)[:300]}, True, "encoder-crash")
            continue
        if c["kind"] == "hdrid":
            line = unhex(outs[0].split(" ")[0]); lc = unhex(outs[0].split(" ")[1])
            data = b"GET / HTTP/1.0\r\n" + line + b"\r\n"
            if lc == b"content-length" or lc == b"transfer-encoding":
                data = b"GET / HTTP/1.0\r\n" + line.split(b": ")[0] + b": 0\r\n\r\n" if lc == b"content-length" else b"GET / HTTP/1.0\r\n" + line.split(b": ")[0] + b": identity\r\n\r\n"
                exp = "V(474554,2f,10,%s,-,0)" % G.fmt_headers({lc: b"0" if lc == b"content-length" else b"identity"})
            else:
                exp = "V(474554,2f,10,%s,-,0)" % G.fmt_headers({lc: c["value"]})
            rx_cases.append(cfgC.req_prefix() + " " + hexs(data)); meta.append((k, [exp], "req"))
        elif c["kind"] == "req":
            data = unhex(outs[0]) + c["body"]
            hm = expected_map(c["hdrs"], [(b"Host", b"h")])
            G.add_header(hm, b"Content-Length", b"%d" % len(c["body"]))
            exp = "V(%s,%s,%s%s,%s,%s,0)" % (hexs(c["method"]), hexs(c["uri"]), chr(c["ma"]), chr(c["mi"]), G.fmt_headers(hm), hexs(c["body"]))
            rx_cases.append(cfgC.req_prefix() + " " + hexs(data)); meta.append((k, [exp], "req"))
        elif c["kind"] == "rsp":
            msg = unhex(outs[0].split("msg=")[1])
            permitted = c["status"] >= 200 and c["status"] not in (204, 304)
            body = c["body"] if permitted else b""
            data = msg + body
            hm = expected_map(c["hdrs"])
            if permitted:
                G.add_header(hm, b"Content-Length", b"%d" % len(c["body"]))
            reason = c["reason"] or {200: b"OK", 201: b"Created", 404: b"Not Found", 500: b"Internal Server Error"}.get(c["status"])
            exp = None
            if reason is not None:
                exp = "V(%d,%s,11,%s,%s)" % (c["status"], hexs(reason), G.fmt_headers(hm), hexs(body))
            rx_cases.append(cfgC.rsp_prefix().replace(" 1048576 ", " 9223372036854775807 ", 1) + " " + hexs(data)); meta.append((k, [exp] if exp else None, "rsp"))
        else:
            te = b"Transfer-Encoding: Chunked\r\n"
            if c["dir"] == "req":
                head = b"POST /c HTTP/1.1\r\nHost: h\r\n" + te + b"\r\n"
            else:
                head = b"HTTP/1.1 200 OK\r\n" + te + b"\r\n"
            data = head
            evs = []
            for (d, ext), line in zip(c["chunks"], outs):
                data += unhex(line) + d + b"\r\n"
                evs.append("C(%d,%s,%s,-,0)" % (len(d), hexs(ext), hexs(d)))
            data += unhex(outs[-1])
            evs.append("C(0,%s,-,%s,1)" % (hexs(c["lext"]), G.fmt_headers(expected_map(c["trailers"]))))
            if c["dir"] == "req":
                first = "V(504f5354,2f63,11,%s,-,0)" % G.fmt_headers({b"host": b"h", b"transfer-encoding": b"Chunked"})
                rx_cases.append(cfgD.req_prefix() + " " + hexs(data)); meta.append((k, [first] + evs, "req"))
            else:
                first = "V(200,4f4b,11,%s,-)" % G.fmt_headers({b"transfer-encoding": b"Chunked"})
                rx_cases.append(cfgD.rsp_prefix() + " " + hexs(data)); meta.append((k, [first] + evs, "rsp"))
    pairs, diffs = chk.correspond("h_stream", rx_cases, label="receivers on encoder output")
    for c_, m_, i_ in diffs[:20]:
        chk.broken.append("correspondence h_stream(encoder output): case `%s` model=%s impl=%s" % (c_[:160], m_[:160], i_[:160]))
    dist = {}
    for (c_, m_, i_), (k, exp, side) in zip(pairs, meta):
        comp = comps[k]
        dist[comp["kind"]] = dist.get(comp["kind"], 0) + 1
        chk.count_distinct(c_)
        p = G.parse_out(i_)
        if p is None:
            chk.violation("receiver crashed on encoder output", {"case": c_[:400], "impl": i_[:200]}, True, "crash")
            continue
        got = G.no_continue(p[1])
        if exp is None:
            ok = len(got) == 1 and got[0].startswith("V(")
        else:
            ok = got == exp
        if not ok:
            sig = "roundtrip:" + comp["kind"] + (":header-id-%d" % comp["id"] if comp["kind"] == "hdrid" else "")
            if comp["kind"] == "hdrid":
                sig = "roundtrip:standard-header-not-parsed-back"
            chk.violation("encoder output not accepted unchanged by the receiver: got %s expected %s" % (str(got)[:160], str(exp)[:160]),
                          {"case": c_[:1000], "component": {kk: (vv.decode("latin-1") if isinstance(vv, bytes) else str(vv)[:200]) for kk, vv in comp.items()},
                           "expected_events": exp, "got_events": got}, True, sig)
    chk.cov["rule"] = ("components -> real encoders (tx_request::message, tx_response::message, chunk_header::to_string, last_chunk::to_string, header_field::to_header for all 48 ids) "
                       "-> real receivers; the delivered start line, header map, body, chunk sizes/extensions/data and trailers must equal the components. token header names with digits and "
                       "punctuation, values over all bytes but CR/LF, bodies 0..2000, chunk sizes across the hex widths 1..6 (1..1048576 bytes = the receiver's limit), extensions, trailers. The model's encoders and "
                       "receivers run on the same inputs (two correspondences). non-trivial = all; distinct = distinct components")
    chk.cov["input_distribution"] = dist
    chk.cov["samples"] = [pairs[j][0][:200] + " => " + pairs[j][2][:200] for j in (0, len(pairs) // 2) if j < len(pairs)]
    chk.cov["traces_validated_against_impl"] = len(pairs)
    chk.assumptions += ["values have no leading blank (leading OWS is not part of a value) and no CR/LF; names are RFC 7230 tokens; receiver limits admit the sizes"]


def replay(body):
    r = body["replay"]
    case = r.get("case")
    if not case:
        print("nothing to replay: " + json.dumps(r)[:500]); return 1
    hb, _ = vlib.build_harness("h_stream")
    out, _ = vlib.run_cases_resilient(hb, [case])
    p = G.parse_out(out[0]) if out else None
    got = G.no_continue(p[1]) if p else None
    print("impl events: %s\nexpected: %s" % (str(got)[:500], str(r.get("expected_events"))[:500]))
    bad = got != r.get("expected_events")
    print("property violated" if bad else "property holds on this case")
    return 1 if bad else 0
