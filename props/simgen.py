"""simgen.py — event histories for the simulated server (cpp/h_sim.cpp, ocaml/ops_sim.ml), log parsing,
canonicalisation and the property monitors that read the implementation's own log."""
import re
from vlib import hexs, unhex

REASONS = {100: b"Continue", 200: b"OK", 201: b"Created", 204: b"No Content", 304: b"Not Modified", 400: b"Bad Request", 404: b"Not Found",
           405: b"Method Not Allowed", 411: b"Length Required", 413: b"Payload Too Large", 414: b"Request-URI Too Long", 417: b"Expectation Failed",
           500: b"Internal Server Error", 501: b"Not Implemented", 599: b"Custom", 299: b"Custom"}


class Req:
    """a request plus the response the scripted application will give"""

    def __init__(self, method=b"GET", status=200, blen=0, ov=1, ver=b"1.1", conn=None, body=b"", chunked=False, expect=False, hdrs=b"", extra=b"", host=True, expval=b"100-continue"):
        self.method, self.status, self.blen, self.ov, self.ver, self.conn = method, status, blen, ov, ver, conn
        self.body, self.chunked, self.expect, self.rhdrs, self.extra, self.host = body, chunked, expect, hdrs, extra, host
        self.expval = expval
        self.target = b"/s%db%do%d" % (status, blen, ov) + (b"h" + hdrs.hex().encode() if hdrs else b"")

    def head(self):
        h = self.method + b" " + self.target + b" HTTP/" + self.ver + b"\r\n"
        if self.host:
            h += b"Host: h\r\n"
        if self.conn is not None:
            h += b"Connection: " + self.conn + b"\r\n"
        if self.expect:
            h += b"Expect: " + self.expval + b"\r\n"
        if self.chunked:
            h += b"Transfer-Encoding: chunked\r\n"
        elif self.body or self.method in (b"POST", b"PUT") or True:
            h += b"Content-Length: %d\r\n" % len(self.body)
        h += self.extra + b"\r\n"
        return h

    def payload(self):
        if self.chunked:
            out = b""
            for i in range(0, len(self.body), 3):
                part = self.body[i:i + 3]
                out += b"%x\r\n" % len(part) + part + b"\r\n"
            return out + b"0\r\n\r\n"
        return self.body

    def bytes(self):
        return self.head() + self.payload()

    def keep_alive(self):
        if self.ver in (b"1.0", b"0.9"):
            return False
        return not (self.conn is not None and b"close" in self.conn.lower())

    def expected_response(self, reqno):
        """the bytes the peer must receive for this request (independent of the model)"""
        is_head = self.method == b"HEAD"
        body = bytes([97 + reqno % 26]) * self.blen
        reason = REASONS.get(self.status, b"Custom")
        line = b"HTTP/" + self.ver + b" %d " % self.status + reason + b"\r\n"
        permitted = self.status >= 200 and self.status not in (204, 304)
        if self.ov == 0:
            return line + self.rhdrs + (b"Content-Length: 0\r\n" if permitted and b"Content-Length" not in self.rhdrs and b"Transfer-Encoding" not in self.rhdrs else b"") + b"\r\n"
        if self.ov in (1, 2):
            cl = b"Content-Length: %d\r\n" % len(body) if permitted and b"Content-Length" not in self.rhdrs and b"Transfer-Encoding" not in self.rhdrs else b""
            return line + self.rhdrs + cl + b"\r\n" + (b"" if (is_head or not permitted) else body)
        if self.ov == 3:
            return (line + self.rhdrs + b"Transfer-Encoding: Chunked\r\n\r\n" + b"3; x=1\r\nlll\r\n" + b"3\r\nkkk\r\n" + b"0\r\nT: v\r\n\r\n")
        return None


# ------------------------------------------------------------------------------------------
def parse_log(line):
    """-> (entries list, pending string) ; entries: strings like 'c1:wire=..', '[A]', '#1/1'"""
    if " pending=" not in line:
        return None, None
    body, pend = line.rsplit(" pending=", 1)
    return body.split(" "), pend.strip()


def canon(line):
    """teardown of several connections happens in container (pointer) order: sort the entries of the
    segments [X], [C], [K], [B] by connection id (stably); after a stale buffer the bytes are garbage"""
    ents, pend = parse_log(line)
    if ents is None:
        return line
    out = []
    seg = []
    segname = None

    def flush():
        nonlocal seg
        if segname and segname[1:2] in ("X", "C", "K", "B") and seg:
            fixed = [e for e in seg if not re.match(r"c\d+:", e)]
            perconn = [e for e in seg if re.match(r"c\d+:", e)]
            perconn.sort(key=lambda e: int(e[1:e.index(":")]))
            # keep the non-connection entries (server-shutdown, sizes) where they were: first / last
            head = [e for e in fixed if not e.startswith("#")]
            tail = [e for e in fixed if e.startswith("#")]
            seg = head + perconn + tail
        out.extend(seg)
        seg = []
    stale = set()
    for e in ents:
        if e.startswith("[") and e.endswith("]"):
            flush()
            segname = e
            out.append(e)
            continue
        m = re.match(r"(c\d+):STALE-BUFFER", e)
        if m:
            stale.add(m.group(1))
        m = re.match(r"(c\d+):wire=", e)
        if m and m.group(1) in stale:
            e = m.group(1) + ":wire=?"
            stale.discard(m.group(1))
        seg.append(e)
    flush()
    return " ".join(out) + " pending=" + " ".join(sorted(pend.split())) if pend != "-" else " ".join(out) + " pending=-"


def cut_undefined(model_line, impl_line):
    """the model stops at UNDEFINED (outside the sequential discipline): compare up to that event"""
    if "UNDEFINED" not in model_line:
        return model_line, impl_line
    ments, _ = parse_log(model_line)
    ients, _ = parse_log(impl_line)
    if ments is None or ients is None:
        return model_line, impl_line
    # number of complete events before the one containing UNDEFINED
    k = ments.index("UNDEFINED")
    marks = [i for i, e in enumerate(ments[:k]) if e.startswith("[")]
    last_mark = marks[-1] if marks else 0
    nmarks = len(marks) - 1
    imarks = [i for i, e in enumerate(ients) if e.startswith("[")]
    icut = imarks[nmarks] if nmarks < len(imarks) and nmarks >= 0 else 0
    return " ".join(ments[:last_mark]) + " <undefined>", " ".join(ients[:icut]) + " <undefined>"


def per_conn(ents):
    d = {}
    for e in ents:
        m = re.match(r"c(\d+):(.*)", e)
        if m:
            d.setdefault(int(m.group(1)), []).append(m.group(2))
    return d


def wire_of(entries):
    return b"".join(unhex(e[5:]) for e in entries if e.startswith("wire=") and e != "wire=?")


# ------------------------------------------------------------------------------------------
# independent HTTP/1.1 response-stream recogniser (C04)
TOKEN = re.compile(rb"^[!#$%&'*+\-.^_`|~0-9A-Za-z]+$")


def recognise_responses(stream, head_requests=(), allow_incomplete_tail=False):
    """returns None when the byte stream is a sequence of well-formed, correctly framed responses,
    else a description of the first problem.  head_requests: indices of final responses answering HEAD."""
    r = _recognise(stream, head_requests)
    if r and allow_incomplete_tail and r.startswith("incomplete:"):
        return None
    return r


def _recognise(stream, head_requests):
    pos = 0
    nfinal = 0
    n = len(stream)
    while pos < n:
        e = stream.find(b"\r\n", pos)
        if e < 0:
            return "incomplete: status line not terminated at %d" % pos
        line = stream[pos:e]
        m = re.match(rb"^HTTP/(\d)\.(\d) (\d{3}) ([^\r\n]*)$", line)
        if not m:
            return "bad status line %r" % line[:40]
        status = int(m.group(3))
        pos = e + 2
        cl = None
        chunked = False
        nframing = 0
        while True:
            e = stream.find(b"\r\n", pos)
            if e < 0:
                return "incomplete: header block not terminated"
            h = stream[pos:e]
            pos = e + 2
            if h == b"":
                break
            if b":" not in h:
                return "header line without colon %r" % h[:40]
            name, val = h.split(b":", 1)
            if not TOKEN.match(name):
                return "header name is not a token %r" % name[:40]
            if b"\n" in val or b"\r" in val or b"\x00" in val:
                return "bad byte in header value"
            ln = name.lower()
            if ln == b"content-length":
                nframing += 1
                if not re.match(rb"^ *\d+ *$", val):
                    return "bad Content-Length %r" % val
                cl = int(val)
            if ln == b"transfer-encoding":
                nframing += 1
                chunked = b"chunked" in val.lower()
        if 100 <= status < 200:
            continue        # interim response: no body, not a final response
        body_permitted = status >= 200 and status not in (204, 304)
        is_head = nfinal in head_requests
        nfinal += 1
        if nframing > 1:
            return "more than one framing header"
        if body_permitted and nframing == 0:
            return "no framing although a body is permitted (status %d)" % status
        if is_head:
            continue
        if chunked:
            while True:
                e = stream.find(b"\r\n", pos)
                if e < 0:
                    return "incomplete: chunk size line not terminated"
                m2 = re.match(rb"^([0-9A-Fa-f]+)(;.*)?$", stream[pos:e])
                if not m2:
                    return "bad chunk size line %r" % stream[pos:e][:40]
                size = int(m2.group(1), 16)
                pos = e + 2
                if size == 0:
                    while True:      # trailers
                        e = stream.find(b"\r\n", pos)
                        if e < 0:
                            return "incomplete: trailers not terminated"
                        t = stream[pos:e]
                        pos = e + 2
                        if t == b"":
                            break
                    break
                if pos + size + 2 > n:
                    return "incomplete: chunk data cut short"
                if stream[pos + size:pos + size + 2] != b"\r\n":
                    return "chunk data not followed by CRLF (%r)" % stream[pos + size:pos + size + 3]
                pos += size + 2
        elif cl is not None:
            if pos + cl > n:
                return "incomplete: body shorter than Content-Length"
            pos += cl
    return None


# ------------------------------------------------------------------------------------------
# history generator
def reads_of(rng, data, how):
    if how == "one" or len(data) < 2:
        return [data]
    if how == "two":
        k = rng.randrange(1, len(data))
        return [data[:k], data[k:]]
    cuts = sorted(rng.sample(range(1, len(data)), min(3, len(data) - 1)))
    out, prev = [], 0
    for c in cuts + [len(data)]:
        out.append(data[prev:c]); prev = c
    return out


def rand_req(rng, allow_close=True):
    method = rng.choice([b"GET", b"GET", b"POST", b"HEAD", b"PUT"])
    status = rng.choice([200, 200, 200, 404, 204, 304, 500, 299, 103, 102])
    blen = rng.choice([0, 1, 5, 40])
    ov = rng.choice([0, 1, 1, 2, 3]) if status not in (204, 304, 103, 102) else rng.choice([0, 1, 2])
    if method == b"HEAD" and ov == 3:
        ov = 1
    ver = rng.choice([b"1.1", b"1.1", b"1.1", b"1.0"]) if allow_close else b"1.1"
    if ov == 3 and ver == b"1.0":
        ver = b"1.1"
    conn = None
    r = rng.random()
    if r < 0.15 and allow_close:
        conn = rng.choice([b"close", b"Close", b"keep-alive, close"])
    elif r < 0.3:
        conn = rng.choice([b"keep-alive", b"Keep-Alive"])
    if ov == 3 and conn and b"close" in conn.lower():
        conn = None
    body = bytes(rng.randrange(97, 123) for _ in range(rng.choice([0, 0, 3, 7]))) if method in (b"POST", b"PUT") else b""
    chunked = bool(body) and rng.random() < 0.3
    hdrs = rng.choice([b"", b"", b"X-A: b\r\n", b"X-A: b\r\nY: c\r\n"])
    return Req(method, status, blen, ov, ver, conn, body, chunked, False, hdrs)


def writes_for(req):
    """number of write completions the response needs"""
    return 4 if req.ov == 3 else 1


def sequential_history(rng, flav, nreq, frag="one", opts="app=sync"):
    """one connection, k requests, each answered and its writes completed before the next arrives"""
    ev = ["A"]
    if flav == "tls":
        ev.append("H1:ok")
    reqs = []
    alive = True
    for k in range(nreq):
        if not alive:
            break
        rq = rand_req(rng)
        reqs.append(rq)
        for part in reads_of(rng, rq.bytes(), frag):
            ev.append("R1:" + hexs(part))
        if "app=async" in opts:
            ev.append("P1")
        ev += ["W1"] * writes_for(rq)
        if not rq.keep_alive():
            alive = False
            if flav == "tls":
                ev.append("S1:ok")
    if alive:
        ev.append(rng.choice(["E1:eof", "E1:reset", "D1", "X", "C", "K", "E1:timedout"]))
        if flav == "tls" and ev[-1] in ("D1", "X"):
            ev.append("S1:ok")
    ev.append("B")
    return ev, reqs


def early_bytes(rng, ev, p=0.5):
    """mark reads whose connection has more bytes coming: by the time such a read completes the next bytes have arrived
    too, so the library's next read() finds them at once (asio tries a read when it is started; OpenSSL has them
    decrypted already) and the receive buffer is written before that read's completion is delivered"""
    out = list(ev)
    for i, e in enumerate(out):
        m = re.match(r"R(\d+):[0-9a-f]+$", e)
        if m and rng.random() < p and any(x.startswith("R%s:" % m.group(1)) for x in out[i + 1:]):
            out[i] = e + "+"
    return out


def perturb(rng, ev, flav):
    """insert a fault or a teardown action at a random position"""
    ev = list(ev)
    pos = rng.randrange(1, len(ev) + 1)
    ids = [1, 1, 1, 2]
    what = rng.choice(["E%d:eof", "E%d:reset", "E%d:timedout", "E%d:pipe", "w%d:pipe", "w%d:reset", "w%d:eof", "D%d", "X", "C", "K", "B", "T",
                       "W%d", "A", "Af", "At", "P%d", "E%d:cancel", "w%d:cancel"] + (["H%d:sslerr", "H%d:ok", "S%d:ok", "S%d:sslerr", "E%d:sslshut", "E%d:sslerr", "H%d:cancel", "H%d:eof", "H%d:reset"] if flav == "tls" else []))
    if "%d" in what:
        what = what % rng.choice(ids)
    ev.insert(pos, what)
    return ev


def multi_history(rng, flav, nconn):
    ev = []
    for i in range(nconn):
        ev.append("A")
        if flav == "tls":
            ev.append("H%d:ok" % (i + 1))
    pool = []
    for i in range(nconn):
        rq = rand_req(rng, allow_close=False)
        seq = ["R%d:%s" % (i + 1, hexs(rq.bytes()))] + ["W%d" % (i + 1)] * writes_for(rq)
        pool.append(seq)
    # random interleaving preserving per-connection order
    while any(pool):
        k = rng.choice([i for i, s in enumerate(pool) if s])
        ev.append(pool[k].pop(0))
    ev.append(rng.choice(["X", "C", "K", "E1:eof", "D2"]))
    if flav == "tls":
        for i in range(nconn):
            ev.append("S%d:ok" % (i + 1))
    ev.append("B")
    return ev


def special_histories(rng, flav):
    """targeted histories: expect-continue, chunked requests with a chunk handler, invalid requests,
    HEAD/GET pairs, close tokens, split header strings"""
    H = []
    hs = ["H1:ok"] if flav == "tls" else []
    tl = (["S1:ok"] if flav == "tls" else []) + ["B"]
    # Expect: 100-continue, head and body in separate reads / in one read, Content-Length and chunked
    for chunked in (False, True):
        for together in (False, True):
            for cont in (0, 1):
                for conn in (None, b"close"):
                    rq = Req(b"POST", 200, 3, 1, b"1.1", conn, b"hello", chunked, True)
                    reads = [rq.bytes()] if together else [rq.head(), rq.payload()]
                    ev = ["A"] + hs
                    for i, r in enumerate(reads):
                        ev.append("R1:" + hexs(r))
                        if i == 0 and not together:
                            ev.append("W1")      # the interim response
                    ev += ["W1", "W1"]
                    H.append(("expect chunked=%d together=%d cont=%d close=%d" % (chunked, together, cont, conn is not None),
                              "app=sync,cont=%d" % cont, ev + tl, [rq]))
    rq = Req(b"POST", 200, 3, 1, b"1.0", None, b"hello", False, True)
    H.append(("expect http/1.0", "app=sync", ["A"] + hs + ["R1:" + hexs(rq.head()), "R1:" + hexs(rq.payload()), "W1"] + tl, [rq]))
    for opts in ("app=sync", "app=sync,cont=1", "app=sync,chunk=1"):
        rq = Req(b"POST", 200, 3, 1, b"1.0", None, b"hello", True, True)
        H.append(("expect http/1.0", opts, ["A"] + hs + ["R1:" + hexs(rq.head()), "R1:" + hexs(rq.payload()), "W1"] + tl, None))
        H.append(("expect http/1.0", opts, ["A"] + hs + ["R1:" + hexs(rq.bytes()), "W1"] + tl, None))
    rq = Req(b"POST", 200, 3, 1, b"1.1", None, b"hello", False, True); rq.target = b"/no"
    H.append(("expect refused by handler", "app=sync,cont=1", ["A"] + hs + ["R1:" + hexs(rq.head()), "W1"] + tl, []))
    # chunked request delivered chunk by chunk
    rq = Req(b"POST", 200, 4, 1, b"1.1", None, b"abcdefg", True)
    H.append(("chunk handler", "app=sync,chunk=1", ["A"] + hs + ["R1:" + hexs(rq.bytes()), "W1", "E1:eof"] + tl, [rq]))
    H.append(("chunk handler fragmented", "app=sync,chunk=1", ["A"] + hs + ["R1:" + hexs(p) for p in reads_of(rng, rq.bytes(), "three")] + ["W1", "E1:eof"] + tl, [rq]))
    # invalid requests: every rejection class x default handling / handler / auto disconnect
    bads = [b"GET / HTTP/1.1\r\n\r\n", b"GET / HTTQ/1.1\r\n", b"A" * 9 + b" / HTTP/1.1\r\n", b"GET /" + b"u" * 8200 + b" HTTP/1.1\r\n",
            b"POST / HTTP/1.1\r\nHost: h\r\nContent-Length: x\r\n\r\n", b"POST / HTTP/1.1\r\nHost: h\r\nContent-Length: 9999999\r\n\r\n",
            b"GET / HTTP/1.1\r\nHo@st: h\r\n\r\n", b"POST / HTTP/1.1\r\nHost: h\r\nTransfer-Encoding: chunked\r\n\r\nzz\r\n", b"TRACE / HTTP/1.1\r\nHost: h\r\n\r\n",
            b"GET / HTTP/1.1\r\nHost: h\r\n\r\nextra"]
    for b in bads:
        for o in ("app=sync", "app=sync,inv=1", "app=sync,autod=1"):
            # a read cannot deliver more than the 8192 byte receive buffer
            ev = ["A"] + hs + ["R1:" + hexs(b[k:k + 8000]) for k in range(0, len(b), 8000)] + ["W1"]
            good = Req()
            ev += ["R1:" + hexs(good.bytes()), "W1", "E1:eof"]
            H.append(("invalid request", o, ev + tl, None))
    # HEAD / GET pairs, through each overload, translate on/off, neighbours
    for ov in (1, 2, 0):
        for xl in (0, 1):
            for blen in (0, 7):
                a = Req(b"HEAD", 200, blen, ov); b_ = Req(b"GET", 200, blen, ov); c = Req(b"HEAD", 404, blen, ov)
                ev = ["A"] + hs
                for rq in (a, b_, c, b_):
                    ev += ["R1:" + hexs(rq.bytes()), "W1"]
                H.append(("head/get pair", "app=sync,xlate=%d" % xl, ev + ["E1:eof"] + tl, [a, b_, c, b_]))
    # Connection header values
    for conn, ver in ((b"close", b"1.1"), (b"Close", b"1.1"), (b"keep-alive, close", b"1.1"), (b"keep-alive", b"1.1"), (b"keep-alive", b"1.0"), (None, b"1.0"), (None, b"1.1"),
                      (None, b"0.9"), (None, b"2.0"), (b"close ", b"1.1"), (b"close , TE", b"1.1"), (b"TE, Close\t", b"1.1"), (b"close,TE", b"1.1"), (b"TE,  cLoSe", b"1.1"),
                      (b"TE ,close", b"1.1"), (b"\tclose", b"1.1")):
        for blen in (0, 5, 3000):
            rq = Req(b"GET", 200, blen, 1, ver, conn, host=(ver != b"0.9" or True))
            nxt = Req()
            ev = ["A"] + hs + ["R1:" + hexs(rq.bytes()), "W1"] + (["S1:ok"] if flav == "tls" and not rq.keep_alive() else []) + ["R1:" + hexs(nxt.bytes()), "W1"]
            H.append(("close decision", "app=sync", ev + ["B"], [rq, nxt] if rq.keep_alive() else [rq]))
    # header strings that would split the response: refused, nothing written
    for bad in (b"\r\nX: y\r\n", b"X: y\r\n\r\nZ: w\r\n", b"X: y\n\nZ: w\r\n", b"\nX: y\r\n"):
        for ov in (0, 1, 2, 3):
            rq = Req(b"GET", 200, 4, ov, hdrs=bad)
            nxt = Req()
            H.append(("split headers refused", "app=sync", ["A"] + hs + ["R1:" + hexs(rq.bytes()), "W1", "R1:" + hexs(nxt.bytes()), "W1", "E1:eof"] + tl, None))
    # a HEAD request followed by every other kind of request on the same connection (the HEAD flag must not leak)
    for ov in (1, 2):
        for second in (Req(b"POST", 200, 6, ov, body=b"abcdefg", chunked=True), Req(b"POST", 200, 6, ov, body=b"xyz"), Req(b"GET", 200, 6, ov), Req(b"PUT", 201, 6, ov, body=b"q", chunked=True)):
            a = Req(b"HEAD", 200, 4, ov)
            third = Req(b"GET", 200, 3, ov)
            ev = ["A"] + hs
            for rq in (a, second, third):
                ev += ["R1:" + hexs(rq.bytes()), "W1"]
            H.append(("head then other", "app=sync", ev + ["E1:eof"] + tl, [a, second, third]))
    # a HEAD request that carries a body, the body arriving with the head / in a later read / after a 100 Continue:
    # still a HEAD when it completes (no response body, translated for the application when xlate is on)
    for ov in (1, 2):
        for xl in (0, 1):
            for how in ("together", "late", "expect", "bytewise-body"):
                a = Req(b"HEAD", 200, 7, ov, body=b"hello", expect=(how == "expect"))
                b_ = Req(b"GET", 200, 7, ov)
                ev = ["A"] + hs
                if how == "together":
                    ev += ["R1:" + hexs(a.bytes()), "W1"]
                elif how == "late":
                    ev += ["R1:" + hexs(a.head()), "R1:" + hexs(a.payload()), "W1"]
                elif how == "expect":
                    ev += ["R1:" + hexs(a.head()), "W1", "R1:" + hexs(a.payload()), "W1"]
                else:
                    ev += ["R1:" + hexs(a.head() + a.payload()[:1])] + ["R1:" + hexs(a.payload()[k:k + 1]) for k in range(1, len(a.payload()))] + ["W1"]
                ev += ["R1:" + hexs(b_.bytes()), "W1"]
                H.append(("head with body " + how, "app=sync,xlate=%d" % xl, ev + ["E1:eof"] + tl, [a, b_]))
    # the application answers on its own (its request timer fires: 408) while a request has arrived only in part - at
    # every prefix of the head - and the rest of the request arrives afterwards
    full = Req().bytes()
    for k in range(0, len(full) + 1):
        ev = ["A"] + hs + (["R1:" + hexs(full[:k])] if k else []) + ["P1", "W1"] + (["R1:" + hexs(full[k:]), "W1"] if k < len(full) else [])
        H.append(("unsolicited response at a stall point", "app=sync", ev + ["E1:eof"] + tl, None))
    # the application disconnects while a streamed (chunked) response is under way: before the head has been written,
    # and after each of its chunks - the write in flight completes, nothing further is started, then the shutdown
    for pos in range(0, 5):
        rq = Req(b"GET", 200, 3, 3)
        ws = ["W1"] * 4
        ev = ["A"] + hs + ["R1:" + hexs(rq.bytes())] + ws[:pos] + ["D1"] + ws[pos:] + ["W1"]
        H.append(("disconnect during a streamed response", "app=sync", ev + tl, None))
    # consecutive Expect requests on one connection, with and without a chunk handler; an Expect request that turns invalid
    for chunkh in (0, 1):
        for chunked in (False, True):
            r1 = Req(b"POST", 200, 3, 1, b"1.1", None, b"hello", chunked, True)
            r2 = Req(b"POST", 200, 3, 1, b"1.1", None, b"hello", chunked, True)
            ev = ["A"] + hs
            for rq in (r1, r2, r1):
                ev += ["R1:" + hexs(rq.head()), "W1", "R1:" + hexs(rq.payload()), "W1"]
            H.append(("expect twice chunkh=%d chunked=%d" % (chunkh, chunked), "app=sync,chunk=%d" % chunkh, ev + ["E1:eof"] + tl, None))
    # the Expect value as clients write it: any letter case, optional whitespace around the token
    for k, val in enumerate((b"100-Continue", b"100-continue ", b"100-continue\t", b"   100-continue", b"100-CONTINUE  ")):
        for chunked in (False, True):
            r1 = Req(b"POST", 200, 3, 1, b"1.1", None, b"hello", chunked, True, expval=val)
            ev = ["A"] + hs
            for rq in (r1, r1, r1):
                ev += ["R1:" + hexs(rq.head()), "W1", "R1:" + hexs(rq.payload()), "W1"]
            H.append(("expect twice value=%d chunked=%d" % (k, chunked), "app=sync", ev + ["E1:eof"] + tl, None))
    # the application's expect-continue handler refuses one request (417); the next one on the connection is asked about again
    for chunked in (False, True):
        no = Req(b"POST", 200, 3, 1, b"1.1", None, b"hello", chunked, True); no.target = b"/no"
        yes = Req(b"POST", 200, 3, 1, b"1.1", None, b"hello", chunked, True)
        ev = ["A"] + hs + ["R1:" + hexs(no.head()), "W1", "R1:" + hexs(yes.head()), "W1", "R1:" + hexs(yes.payload()), "W1", "E1:eof"]
        H.append(("expect refused then accepted chunked=%d" % chunked, "app=sync,cont=1", ev + tl, None))
    bad = Req(b"POST", 200, 3, 1, b"1.1", None, b"hello", True, True)
    good = Req(b"POST", 200, 3, 1, b"1.1", None, b"hello", False, True)
    H.append(("expect then invalid then expect", "app=sync", ["A"] + hs + ["R1:" + hexs(bad.head()), "W1", "R1:" + hexs(b"zz\r\n"), "W1",
                                                                     "R1:" + hexs(good.head()), "W1", "R1:" + hexs(good.payload()), "W1", "E1:eof"] + tl, None))
    # accepts that complete after the server has been closed / shut down / destroyed
    for act in ("C", "K", "X"):
        H.append(("accept after close", "app=sync", ["A"] + hs + [act, "A", "A"] + (["H2:ok"] if flav == "tls" else []) + ["B", "A", "B"], None))
        H.append(("accept after close", "app=sync", [act, "A", "B"], None))
    # a handshake that fails because the peer went away (disconnect class errors) or for any other reason
    if flav == "tls":
        for ec in ("eof", "reset", "aborted", "refused", "badf", "timedout", "sslerr", "sslshut", "pipe"):
            H.append(("handshake fails", "app=sync", ["A", "H1:" + ec, "A", "H2:ok", "R2:" + hexs(Req().bytes()), "W2", "A", "H3:" + ec, "B", "E2:eof", "B"], None))
    # idle connections and time
    H.append(("idle ticks", "app=sync", ["A"] + hs + ["T", "T", "T", "R1:" + hexs(Req().bytes()), "W1", "T", "T", "E1:eof"] + tl, [Req()]))
    return H
