"""C12 — thread-pool mode: per-connection handlers never overlap, no data races, guarantees hold for every interleaving.

Proof part: Properties_C12 (pool model over the executor facts regenerated from the AST of the HTTP_THREAD_SAFE build).
Tie / search part: (a) the deterministic simulation of the HTTP_THREAD_SAFE build against the server model (every
sequential history behaves as the model says also in this build); (b) the real server on loopback sockets with an
io_context run by 2..16 threads, plain and under ThreadSanitizer (cpp/h_pool.cpp): handler re-entrancy per connection,
response accounting, race reports."""
import re, json, os
from concurrent.futures import ThreadPoolExecutor
import vlib
import simcheck, simgen as S

LINE = re.compile(r"conns=(\d+) disc=(\d+) reqs=(\d+) resp=(\d+) lost=(\d+) busy=(\d+) refused=(\d+) overlap=(\d+) maxpar=(\d+) okinds=(\d+)$")
KIND = {1: "request handler", 2: "connected handler", 4: "disconnected handler", 8: "message-sent handler"}


def pool_cases(chk, n):
    rng = chk.rng
    cases = []
    for j in range(n):
        th = rng.choice([2, 3, 4, 8, 16])
        cl = rng.choice([4, 8, 12])
        rq = rng.choice([10, 30, 60])
        shut = [2, 0, 1][j % 3]
        cases.append("pool %d %d %d %d %d %d" % (th, cl, rq, 2, shut, chk.seed * 1000 + j))
    return cases


def tsan_reports(err):
    reps = []
    for blk in err.split("WARNING: ThreadSanitizer:")[1:]:
        head = blk.strip().split("\n")[0][:120]
        frames = re.findall(r"#\d+ ([^\n]*?via::[^\n]{0,200})", blk)
        reps.append({"kind": head, "frames": [f[:220] for f in frames[:6]], "text": blk[:3000]})
    return reps


def run_pool(chk, flavour, cases):
    hb, hlog = vlib.build_harness("h_pool", flavour)
    if not hb:
        chk.broken.append("harness h_pool (%s) does not compile against the current tree: %s" % (flavour, hlog[-800:]))
        return
    env = {"TSAN_OPTIONS": "halt_on_error=0 exitcode=0 report_signal_unsafe=0"}

    def one(c):
        out, rc, err = vlib.run_case_retry(hb, c, timeout=240, env=env)
        return c, out, rc, err
    with ThreadPoolExecutor(6) as ex:
        res = list(ex.map(one, cases))
    tot = {"cases": 0, "requests": 0, "responses": 0, "lost": 0, "busy_at_send": 0, "overlaps": 0, "max_parallel_handlers": 0, "race_reports": 0}
    for c, out, rc, err in res:
        shut = int(c.split(" ")[5])
        m = LINE.match(out[0]) if out else None
        if out and out[0].startswith("HARNESS-ERROR"):
            chk.broken.append("harness h_pool could not set up its sockets (%s): %s" % (flavour, out[0][:200]))
            continue
        if not m:
            chk.violation("the thread-pool server crashed or hung: %s rc=%s %s" % (out[:1], rc, err[-300:]),
                          {"case": c, "flavour": flavour, "stderr": err[-3000:]}, True, "pool-crash")
            continue
        conns, disc, reqs, resp, lost, busy, refused, overlap, maxpar, okinds = map(int, m.groups())
        tot["cases"] += 1; tot["requests"] += reqs; tot["responses"] += resp; tot["lost"] += lost
        tot["busy_at_send"] += busy; tot["overlaps"] += overlap; tot["max_parallel_handlers"] = max(tot["max_parallel_handlers"], maxpar)
        rep = {"case": c, "flavour": flavour, "result": out[0]}
        if lost:
            # a lost response with the connection still transmitting when send() was called is F07
            sig = "send-while-a-write-is-in-flight" if busy >= lost else "response-lost-in-thread-pool-mode"
            chk.violation("%d request(s) got no response within 3 s (%d send() calls found the previous write's completion not yet run)" % (lost, busy),
                          rep, True, sig)
        if overlap:
            kinds = [KIND[b] for b in KIND if okinds & b]
            sig = "shutdown-runs-connection-work-outside-its-strand" if (shut in (0, 1) and okinds & 4) else "handlers-of-one-connection-overlap"
            chk.violation("handlers of one connection ran on two threads at once (%s), %d time(s)" % (" + ".join(kinds), overlap), rep, True, sig)
        if conns != disc:
            chk.violation("%d connected events but %d disconnected events after the pool was stopped" % (conns, disc), rep, True, "pool-lifecycle-mismatch")
        if flavour == "tsan":
            for r in tsan_reports(err):
                tot["race_reports"] += 1
                fr = " <- ".join(r["frames"][:2]) or r["kind"]
                chk.violation("ThreadSanitizer: %s at %s" % (r["kind"], fr[:300]), dict(rep, report=r["text"]), True,
                              "tsan:" + re.sub(r"0x[0-9a-f]+|\d+", "", fr)[:200])
        if reqs > 0 and maxpar > 1:
            chk.count_distinct(c)
    chk.cov["evaluations"] += len(cases)
    chk.cov.setdefault("pool_runs", {})[flavour] = tot


def run(chk):
    # the pool model takes the two connection collections to be a linearizable map (collections_concurrent): that is C18's
    # concurrent half - the lock protocol read off the source and what it gives - plus the systematic schedules of the real map
    chk.prove("Properties_C12", extra_modules=("Properties_C18",))
    import C18
    C18.explore(chk)
    # (a) the HTTP_THREAD_SAFE build, simulated: same behaviour as the model on sequential histories
    H = simcheck.histories(chk)
    H = H[:: max(1, len(H) // (300 if chk.tier == "quick" else 2000))]
    cases = [simcheck.case_of(h) for h in H]
    pairs, diffs = chk.correspond("h_sim", cases, canon=lambda c, x: S.canon(x), label="h_sim -DHTTP_THREAD_SAFE", extra=["-DHTTP_THREAD_SAFE"])
    nd = 0
    for (c, mo, io), h in zip(pairs, H):
        m2, i2 = S.cut_undefined(mo, io)
        if m2 != i2:
            nd += 1
            if nd <= 10:
                k = next((j for j in range(min(len(m2), len(i2))) if m2[j] != i2[j]), min(len(m2), len(i2)))
                chk.broken.append("correspondence h_sim -DHTTP_THREAD_SAFE: history `%s` differs at ...model: %s ...impl: %s" %
                                  (h["name"], m2[max(0, k - 80):k + 80], i2[max(0, k - 80):k + 80]))
    chk.cov["correspondence"]["h_sim -DHTTP_THREAD_SAFE"]["differences"] = nd
    # (b) the real thing
    run_pool(chk, "plain", pool_cases(chk, 9 if chk.tier == "quick" else 90))
    run_pool(chk, "tsan", pool_cases(chk, 6 if chk.tier == "quick" else 60))
    chk.cov["exhaustive"] = False
    chk.cov["rule"] = ("proof: pool model (any threads, any connections, every schedule) over executor facts regenerated from the AST. "
                       "simulation: event histories on http_server<sim::adaptor> compiled with HTTP_THREAD_SAFE vs the Coq server model. "
                       "real runs (supporting, nondeterministic): io_context run by 2..16 threads, 4..12 blocking clients x 2 connections x 10..60 sequential "
                       "requests, shutdown() after / during / without the traffic; per-connection re-entrancy counter in the handlers (relaxed atomics), "
                       "response accounting with a 3 s timeout, ThreadSanitizer reports. non-trivial = at least two handlers ran in parallel")
    chk.cov["traces_validated_against_impl"] = len(pairs)
    chk.assumptions += ["asio: a handler with no associated executor of its own runs on its I/O object's executor; a strand never runs two of its handlers at once",
                        "ThreadSanitizer only sees the interleavings that happen; the pool model, not these runs, covers every schedule of the library's per-connection work",
                        "memory-level data-race freedom of the library is not proved: the model's tasks are atomic units bound to executors"]
    chk.notes.append("model level: partial (per-connection non-overlap proved for library work; full statement refuted by shutdown()/close(): F43)")


def replay(body):
    r = body["replay"]
    case = r.get("case")
    if case and (case.startswith("runsched") or case.startswith("explore")):
        import C18
        return C18.replay(body)
    if not case or not case.startswith("pool"):
        return simcheck.replay(body)
    hb, _ = vlib.build_harness("h_pool", r.get("flavour", "plain"))
    bad = 0
    for i in range(5):
        out, rc, err = vlib.run_cases(hb, [case], timeout=240, env={"TSAN_OPTIONS": "halt_on_error=0 exitcode=0"})
        print("run %d: %s %s" % (i, out[:1], "tsan-reports=%d" % err.count("WARNING: ThreadSanitizer")))
        m = LINE.match(out[0]) if out else None
        if not m or int(m.group(5)) or int(m.group(8)) or "WARNING: ThreadSanitizer" in err:
            bad += 1
    print("the schedule is the operating system's: %d of 5 runs showed a loss, an overlap or a race report" % bad)
    return 1 if bad else 0
