"""C19 — server-level property decided on event histories (see simcheck.py / simgen.py)."""
import simcheck, tlscheck


def run(chk):
    chk.prove("Properties_C19")
    simcheck.run_sim(chk, flavour=FLAVOUR)
    tlscheck.run(chk)


def replay(body):
    if body["replay"].get("harness") == "h_tls":
        return tlscheck.replay(body)
    return simcheck.replay(body)

FLAVOUR = "plain"
