"""C05 — arbitrary bytes never crash, corrupt memory, throw or hang the receivers."""
import json
import httpgen as G
import cligen
from vlib import hexs, unhex

ALPHA = b"GETPOSTHEAD /HTTP/1.1\r\n\r\n:: \t;=,0123456789abcdefABCDEF-_.Host Content-Length Transfer-Encoding chunked Expect 100-continue\x00\x7f\x80\xff"


def rand_stream(rng, n):
    out = bytearray()
    mode = rng.random()
    while len(out) < n:
        r = rng.random()
        if mode < 0.35:            # near-valid: pieces of real messages, damaged
            piece = rng.choice([b"GET / HTTP/1.1\r\n", b"POST /a HTTP/1.0\r\n", b"Host: h\r\n", b"Content-Length: 5\r\n", b"Transfer-Encoding: chunked\r\n",
                                b"\r\n", b"5\r\nabcde\r\n", b"0\r\n\r\n", b"Expect: 100-continue\r\n", b"X: y\r\n z\r\n", b"HTTP/1.1 200 OK\r\n", b"1;x=y\r\nq\r\n",
                                b"ffffffffffffffff\r\n", b"7fffffffffffffff\r\n", b"Content-Length: 9223372036854775807\r\n", b"Content-Length: 18446744073709551616\r\n"])
            if r < 0.3 and piece:
                k = rng.randrange(len(piece)); piece = piece[:k] + bytes([rng.randrange(256)]) + piece[k + 1:]
            out += piece
        elif mode < 0.7:
            out.append(rng.choice(ALPHA))
        else:
            out.append(rng.randrange(256))
    return bytes(out[:n])


def gen(chk):
    rng = chk.rng
    cases = []
    n = 3000 if chk.tier == "quick" else 60000
    for _ in range(n):
        cfg = G.rand_cfg(rng)
        cfg.xlate = rng.choice([0, 1, 2, 3])      # bit 1: the application answers EXPECT_CONTINUE later, not from inside the callback
        data = rand_stream(rng, rng.choice([1, 3, 10, 40, 120, 400]))
        how = rng.random()
        if how < 0.25 or len(data) < 2:
            cuts = ()
        elif how < 0.4:
            cuts = tuple(range(1, len(data)))
        else:
            cuts = tuple(sorted(rng.sample(range(1, len(data)), rng.randint(1, min(8, len(data) - 1)))))
        kind = "req" if rng.random() < 0.65 else "rsp"
        pre = cfg.req_prefix() if kind == "req" else cfg.rsp_prefix()
        cases.append(pre + " " + G.frag_arg(data, cuts))
    # well-formed messages (mostly chunked, with extensions and trailers) with one byte damaged somewhere - weighted
    # towards the end: last chunk and trailers - and more bytes following the damage
    for _ in range(n // 2):
        cfg = G.rand_cfg(rng)
        cfg.xlate = rng.choice([0, 1, 2, 3])
        kind = "req" if rng.random() < 0.5 else "rsp"
        m = None
        while m is None:
            m = G.gen_request(rng, cfg, body_kind=rng.choice(["chunked", "chunked", None])) if kind == "req" else G.gen_response(rng, cfg)
        data = bytearray(m.bytes())
        if len(data) < 4:
            continue
        lo = 0 if rng.random() < 0.4 else max(0, len(data) - 40)
        for _ in range(rng.choice([1, 1, 2])):
            pos = rng.randrange(lo, len(data))
            data[pos] = rng.choice([0, 32, 64, 127, 128, 255, 13, 10, 58, 59, rng.randrange(256)])
        data = bytes(data) + rng.choice([b"", b"x", b"\r\n", b"GET / HTTP/1.1\r\n\r\n", bytes(rng.randrange(256) for _ in range(rng.randint(1, 12)))])
        how = rng.random()
        if how < 0.4 or len(data) < 2:
            cuts = ()
        elif how < 0.5 and len(data) < 200:
            cuts = tuple(range(1, len(data)))
        else:
            cuts = tuple(sorted(rng.sample(range(1, len(data)), rng.randint(1, min(6, len(data) - 1)))))
        pre = cfg.req_prefix() if kind == "req" else cfg.rsp_prefix()
        cases.append(pre + " " + G.frag_arg(data, cuts))
    # Expect: 100-continue with an application that answers later: the body may arrive before any interim response
    for chunked in (False, True):
        for ver in (b"1.1", b"1.0"):
            head = b"POST /e HTTP/" + ver + b"\r\nHost: h\r\nExpect: 100-continue\r\n" + (b"Transfer-Encoding: chunked\r\n\r\n" if chunked else b"Content-Length: 5\r\n\r\n")
            body = b"5\r\nhello\r\n0\r\n\r\n" if chunked else b"hello"
            data = head + body + b"GET / HTTP/1.1\r\nHost: h\r\nContent-Length: 0\r\n\r\n"
            for xl in (2, 3, 0):
                for concat in (0, 1):
                    cfg = G.Cfg("D", 0, "s", concat, xl)
                    for cuts in ((), (len(head),), (len(head), len(head) + 2), (len(head) - 1,), tuple(range(1, len(data)))):
                        cases.append(cfg.req_prefix() + " " + G.frag_arg(data, cuts))
    # boundary values of the length fields: every length a ptrdiff_t / size_t can hold that no allocation can, announced
    # and then followed by a few bytes of body in the same and in a later read
    huge = [2 ** 31 - 1, 2 ** 31, 2 ** 32, 2 ** 32 + 1, 2 ** 48, 2 ** 62, 2 ** 63 - 2, 2 ** 63 - 1, 2 ** 63, 2 ** 64 - 1, 2 ** 64]
    for v in huge:
        for kind in ("req", "rsp"):
            for cfg in (G.rand_cfg(rng), G.rand_cfg(rng)):
                head = (b"POST /u HTTP/1.1\r\nHost: h\r\n" if kind == "req" else b"HTTP/1.1 200 OK\r\n")
                for framing in (b"Content-Length: %d\r\n\r\n" % v, b"Transfer-Encoding: chunked\r\n\r\n%x\r\n" % v, b"Transfer-Encoding: chunked\r\n\r\n%x;e=1\r\n" % v):
                    data = head + framing + b"xyz"
                    pre = cfg.req_prefix() if kind == "req" else cfg.rsp_prefix()
                    for cuts in ((), (len(data) - 3,), (len(data) - 3, len(data) - 2), (len(head), len(data) - 1)):
                        cases.append(pre + " " + G.frag_arg(data, cuts))
    return cases


def run(chk):
    chk.prove("Properties_C05")
    cases = gen(chk)
    pairs, diffs = chk.correspond("h_stream", cases, flavour="asan")
    outcomes = {}
    maxratio = 0.0
    for c, mo, io in pairs:
        p = G.parse_out(io)
        if p is None:
            chk.violation("crash / sanitizer report / exception on arbitrary bytes: " + io[:160], {"case": c, "impl": io}, True, "memory-error-or-exception")
            continue
        calls = p[0]
        if "OVERRUN" in calls:
            chk.violation("receive() moved the iterator beyond the end of the read (it looked at bytes behind its input)", {"case": c, "impl": io[:300]}, True, "read-behind-the-end")
        if "LOOP" in calls:
            chk.violation("the read loop does not finish in a linear number of steps", {"case": c, "impl": io[:300]}, True, "loop-not-linear")
        frags = c.split(" ")[-1].split(",")
        for fr, cl in zip(frags, calls.split("|")):
            ncalls = len(cl.split(","))
            nbytes = len(fr) // 2
            maxratio = max(maxratio, ncalls / max(1, nbytes))
            if ncalls > nbytes + 1:
                chk.violation("more receive() calls than bytes + 1 in one read", {"case": c, "calls": cl}, True, "loop-not-linear")
            for one in cl.split(","):
                outcomes[one[0]] = outcomes.get(one[0], 0) + 1
        if len(p[1]) > 0:
            chk.count_distinct(c)
    for c, mo, io in diffs[:30]:
        chk.broken.append("correspondence h_stream(arbitrary bytes): case `%s` model=%s impl=%s" % (c[:160], mo[:200], io[:200]))
    chk.cov["rule"] = ("byte strings of 1..400 bytes: damaged pieces of real messages, bytes drawn from the grammar's alphabet, and uniformly random octets (incl. NUL and >= 0x80), "
                       "in one read, byte-wise or 1..8 random cuts, through request and response receivers in all eight instantiations; the implementation runs under "
                       "ASan+UBSan; full receiver state compared with the model after the last read. non-trivial = at least one event (delivery or rejection) occurred")
    chk.cov["outcomes_per_receive_call"] = outcomes
    chk.cov["max_calls_per_byte_in_a_read"] = round(maxratio, 3)
    chk.cov["samples"] = [pairs[j][0][:200] + " => " + pairs[j][2][:160] for j in (0, len(pairs) // 2) if j < len(pairs)]
    chk.cov["traces_validated_against_impl"] = len(pairs)
    # the real http_client over the simulated socket under ASan: arbitrary bytes and arbitrary event orders
    cligen.run(chk, flavour="asan")
    chk.assumptions += ["<cctype> on a negative char is glibc's table lookup (compared for all 256 values by C13/C16 runs of h_pure `ctype`)"]


def replay(body):
    import vlib
    rc = cligen.replay(body)
    if rc is not None:
        return rc
    r = body["replay"]
    case = r.get("case")
    if not case:
        print("nothing to replay: " + json.dumps(r)[:500]); return 1
    hb, _ = vlib.build_harness("h_stream", "asan")
    out, _ = vlib.run_cases_resilient(hb, [case])
    print("case: %s\nimpl: %s" % (case, out[0][:300] if out else "?"))
    bad = (not out) or G.parse_out(out[0]) is None or "LOOP" in out[0] or "OVERRUN" in out[0]
    print("property violated" if bad else "property holds on this case")
    return 1 if bad else 0
