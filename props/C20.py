"""C20 — a configured idle timeout actually closes silent connections (refuted: open finding F31)."""
import re, os
import simcheck, simgen as S
import vlib


def source_has_timer():
    """the only timeout mechanism in the connection: setsockopt(SO_RCVTIMEO/SO_SNDTIMEO); a repair would add a timer"""
    src = open(os.path.join(vlib.REPO, "include/via/comms/connection.hpp")).read()
    src = re.sub(r"//[^\n]*", "", src)
    return bool(re.search(r"steady_timer|deadline_timer|ASIO_TIMER|expires_after|expires_from_now|async_wait", src)), bool(re.search(r"SO_RCVTIMEO", src))


def run(chk):
    chk.prove("Properties_C20")
    pairs = simcheck.run_sim(chk, only=lambda h: h["name"].startswith("idle ticks") or h["name"] == "sequential")
    timer, sockopt = source_has_timer()
    chk.cov["source"] = {"connection_has_a_timer": timer, "uses_SO_RCVTIMEO": sockopt}
    # the property demands that a silent connection is closed; in the model and in the simulated server
    # nothing happens on a tick.  While the source has no timer this is the listed finding F31.
    silent_closed = False
    for c, mo, io in pairs:
        ents, _ = S.parse_log(io)
        if ents is None:
            continue
        for i, e in enumerate(ents):
            if e == "[T]":
                seg = []
                for f in ents[i + 1:]:
                    if f.startswith("["):
                        break
                    seg.append(f)
                if any(x.endswith(":shutdown") or x.endswith(":close") or x.endswith(":disconnected") for x in seg):
                    silent_closed = True
    if not timer and not silent_closed:
        chk.violation("no transition of the connection is driven by time: a silent connection is never closed, whatever timeout is configured",
                      {"history": "A;T;T;T (accept, then silence)", "source": "include/via/comms/connection.hpp: tcp_timeouts() only sets SO_RCVTIMEO/SO_SNDTIMEO on an asynchronous socket"},
                      True, "no-idle-timer")
    chk.assumptions += ["SO_RCVTIMEO / SO_SNDTIMEO do not complete reactor-driven (non-blocking) asynchronous operations on Linux"]


replay = simcheck.replay
