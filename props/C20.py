"""C20 — a configured idle timeout actually closes silent connections (refuted: open finding F31)."""
import re, os
import simcheck, simgen as S
import vlib


def source_has_timer():
    """the only timeout mechanism in the connection: setsockopt(SO_RCVTIMEO/SO_SNDTIMEO); a repair would add a timer"""
    src = open(os.path.join(vlib.REPO, "include/via/comms/connection.hpp")).read()
    src = re.sub(r"//[^\n]*", "", src)
    return bool(re.search(r"steady_timer|deadline_timer|ASIO_TIMER|expires_after|expires_from_now|async_wait", src)), bool(re.search(r"SO_RCVTIMEO", src))


def plumbing(chk):
    """the configured timeout reaches every accepted socket (it is the only thing the library does with it): the real
    server over the simulated adaptor with real descriptors, socket options read back from the kernel"""
    rng = chk.rng
    hb, hlog = vlib.build_harness("h_sim")
    if not hb:
        chk.broken.append("harness h_sim does not compile against the current tree: " + hlog[-600:])
        return
    vals = [0, 1, 5, 300, 999, 1000, 1001, 1500, 59999, 2147483, 2147484, 2700000, 3600000, 4300000, 86400000]
    cases, exps = [], []
    for _ in range(40 if chk.tier == "quick" else 600):
        ev, exp, cur = [], [], 0
        for _ in range(rng.randint(2, 8)):
            r = rng.random()
            if r < 0.4:
                cur = rng.choice(vals)
                ev.append("Z%d" % cur)
            elif r < 0.55:
                ev.append("Y%d" % rng.randrange(2))      # TCP keep-alive on / off: independent of the timeouts
            else:
                ev.append("A")
                exp.append(cur)
        cases.append("sim tcp timeo=1 %s" % ";".join(ev))
        exps.append(exp)
    outs, _ = vlib.run_cases_resilient(hb, cases)
    n = 0
    for c, exp, line in zip(cases, exps, outs):
        got = re.findall(r"c\d+:timeo=(\d+)\.(\d+)/(\d+)\.(\d+)", line)
        if len(got) != len(exp):
            chk.violation("accepted sockets whose timeouts could be read back: %d, connections accepted: %d" % (len(got), len(exp)), {"case": c, "impl_log": line[:2000]}, True, "timeout-not-applied")
            continue
        for k, (g, want) in enumerate(zip(got, exp)):
            n += 1
            for sec, usec in ((int(g[0]), int(g[1])), (int(g[2]), int(g[3]))):
                ms = sec * 1000 + usec / 1000.0
                if (want == 0) != (ms == 0) or abs(ms - want) > 10:
                    chk.violation("connection %d was accepted with set_timeout(%d) in force but its socket timeout is %d.%06d s" % (k + 1, want, sec, usec),
                                  {"case": c, "impl_log": line[:2000]}, True, "timeout-not-applied")
                    break
    chk.cov["evaluations"] += len(cases)
    chk.cov.setdefault("timeout_plumbing", {}).update({"histories": len(cases), "sockets_read_back": n, "values_ms": vals})


def plumbing_real(chk):
    """the same through the public interface only, on real sockets (cpp/h_real.cpp): the server is already listening when
    set_timeout() is called, a client connects, the handler reads the options back from the accepted socket"""
    rng = chk.rng
    vals = [0, 1, 5, 300, 999, 1000, 1001, 1500, 59999, 2147483, 2147484, 2700000, 3600000, 4300000, 86400000]
    hr, hlog = vlib.build_harness("h_real")
    if not hr:
        chk.broken.append("harness h_real does not compile against the current tree: " + hlog[-600:])
        return
    rcases, rexps = [], []
    for _ in range(6 if chk.tier == "quick" else 60):
        ev, exp, cur = [], [], 0
        for _ in range(rng.randint(3, 8)):
            r = rng.random()
            if r < 0.4:
                cur = rng.choice(vals); ev.append("Z%d" % cur)
            elif r < 0.55:
                ev.append("Y%d" % rng.randrange(2))
            else:
                ev.append("A"); exp.append(cur)
        rcases.append("timeo " + ",".join(ev)); rexps.append(exp)
    m = 0
    for c, exp in zip(rcases, rexps):
        out, rc, err = vlib.run_case_retry(hr, c, timeout=120)
        line = out[0] if out else ""
        got = re.findall(r"(\d+)\.(\d+)/(\d+)\.(\d+)", line)
        if len(got) != len(exp):
            chk.violation("real sockets: timeouts read back from %d accepted sockets, %d connections made" % (len(got), len(exp)), {"case": c, "harness": "h_real", "result": line[:500]}, True, "timeout-not-applied")
            continue
        for k, (g, want) in enumerate(zip(got, exp)):
            m += 1
            bad = False
            for sec, usec in ((int(g[0]), int(g[1])), (int(g[2]), int(g[3]))):
                ms = sec * 1000 + usec / 1000.0
                bad = bad or (want == 0) != (ms == 0) or abs(ms - want) > 10
            if bad:
                chk.violation("real sockets: connection %d was accepted with set_timeout(%d) in force but its socket timeouts are %s.%s s / %s.%s s" % ((k + 1, want) + g),
                              {"case": c, "harness": "h_real", "result": line[:500]}, True, "timeout-not-applied")
                break
    chk.cov["evaluations"] += len(rcases)
    chk.cov.setdefault("timeout_plumbing", {})["real_socket_histories"] = len(rcases)
    chk.cov["timeout_plumbing"]["real_sockets_read_back"] = m


def run(chk):
    chk.prove("Properties_C20")
    plumbing_real(chk)
    pairs = simcheck.run_sim(chk, only=lambda h: h["name"].startswith("idle ticks") or h["name"] == "sequential")
    timer, sockopt = source_has_timer()
    chk.cov["source"] = {"connection_has_a_timer": timer, "uses_SO_RCVTIMEO": sockopt}
    # the property demands that a silent connection is closed; in the model and in the simulated server
    # nothing happens on a tick.  While the source has no timer this is the listed finding F31.
    silent_closed = False
    for c, mo, io in pairs:
        ents, _ = S.parse_log(io)
        if ents is None:
            continue
        for i, e in enumerate(ents):
            if e == "[T]":
                seg = []
                for f in ents[i + 1:]:
                    if f.startswith("["):
                        break
                    seg.append(f)
                if any(x.endswith(":shutdown") or x.endswith(":close") or x.endswith(":disconnected") for x in seg):
                    silent_closed = True
    if not timer and not silent_closed:
        chk.violation("no transition of the connection is driven by time: a silent connection is never closed, whatever timeout is configured",
                      {"history": "A;T;T;T (accept, then silence)", "source": "include/via/comms/connection.hpp: tcp_timeouts() only sets SO_RCVTIMEO/SO_SNDTIMEO on an asynchronous socket"},
                      True, "no-idle-timer")
    plumbing(chk)
    chk.assumptions += ["SO_RCVTIMEO / SO_SNDTIMEO do not complete reactor-driven (non-blocking) asynchronous operations on Linux"]


replay = simcheck.replay
