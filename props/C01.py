"""C01 — valid requests are delivered intact however their bytes are fragmented."""
import json
import httpgen as G
from vlib import hexs, unhex


def gen(chk):
    rng = chk.rng
    cases, meta = [], []
    nmsg = 220 if chk.tier == "quick" else 2500
    for k in range(nmsg):
        cfg = G.rand_cfg(rng)
        m = None
        while m is None:
            m = G.gen_request(rng, cfg, expect=(rng.random() < 0.08))
        data = m.bytes()
        cc = m.cut_classes()
        plist = [()] + G.partitions(rng, len(data), cc, "bytewise") + G.partitions(rng, len(data), cc, "linewise")
        structural = G.partitions(rng, len(data), cc, "structural1")
        if len(data) <= 60:
            plist += G.partitions(rng, len(data), cc, "all1")
        else:
            plist += structural if len(structural) <= 80 else rng.sample(structural, 80)
        if len(data) <= 26 and chk.tier != "quick":
            plist += G.partitions(rng, len(data), cc, "all2")
        elif len(data) <= 40:
            allp = G.partitions(rng, len(data), cc, "all2")
            plist += rng.sample(allp, min(len(allp), 40))
        for _ in range(6):
            plist += G.partitions(rng, len(data), cc, "random")
        seen = set()
        for cuts in plist:
            if cuts in seen:
                continue
            seen.add(cuts)
            cases.append(cfg.req_prefix() + " " + G.frag_arg(data, cuts))
            meta.append((k, cfg, m, cuts))
    # two requests back to back (each says how it is framed): the read that completes the first body may also carry
    # the beginning of the second request
    class Pair:
        def __init__(self, a, b):
            self.a, self.b = a, b
            self.pieces = a.pieces + b.pieces
            self.events = a.events + b.events

        def bytes(self):
            return self.a.bytes() + self.b.bytes()

        def cut_classes(self):
            ca = self.a.cut_classes()
            n = len(self.a.bytes())
            cb = {k + n: v for k, v in self.b.cut_classes().items()}
            ca[n] = "between-requests"
            ca.update(cb)
            return ca
    for k in range(nmsg // 4):
        cfg = G.rand_cfg(rng)
        a = b = None
        while a is None:
            a = G.gen_request(rng, cfg, body_kind=rng.choice(["cl", "cl", "chunked"]), allow_pipeline_safe=True)
        while b is None:
            b = G.gen_request(rng, cfg, allow_pipeline_safe=True)
        m = Pair(a, b)
        data = m.bytes()
        na = len(a.bytes())
        cc = m.cut_classes()
        plist = [(), (na,)]
        body_lo = max(1, na - 60)
        for _ in range(24):
            c1 = rng.randrange(body_lo, na) if na > body_lo else na
            c2 = rng.randrange(na, len(data)) if len(data) > na else na
            cuts = tuple(sorted({c for c in (c1, c2) if 0 < c < len(data)}))
            plist.append(cuts)
        for _ in range(4):
            plist += G.partitions(rng, len(data), cc, "random")
        seen = set()
        for cuts in plist:
            if cuts in seen:
                continue
            seen.add(cuts)
            cases.append(cfg.req_prefix() + " " + G.frag_arg(data, cuts))
            meta.append((nmsg + k, cfg, m, cuts))
    return cases, meta


def classify(m, cuts, cfg, run_one):
    """signature of a failing partition: try each cut alone"""
    cc = m.cut_classes()
    data = m.bytes()
    for c in cuts:
        out = run_one(cfg.req_prefix() + " " + G.frag_arg(data, (c,)))
        p = G.parse_out(out)
        if p is None or G.no_continue(p[1]) != m.events:
            return "single-cut " + cc.get(c, "inside:unlabelled"), (c,)
    return "several-cuts", cuts


def run(chk):
    chk.prove("Properties_C01")
    cases, meta = gen(chk)
    pairs, diffs = chk.correspond("h_stream", cases)
    import vlib
    hb, _ = vlib.build_harness("h_stream")

    def run_one(case):
        out, _ = vlib.run_cases_resilient(hb, [case])
        return out[0] if out else ""
    nfail = 0
    dist = {}
    for (c, mo, io), (k, cfg, m, cuts) in zip(pairs, meta):
        p = G.parse_out(io)
        kind = "chunked" if any(l == "chunk-data" or l == "last-chunk-line" for _, l in m.pieces) else ("cl" if any(l == "body" and b for b, l in m.pieces) else "none")
        dist[kind] = dist.get(kind, 0) + 1
        chk.count_distinct(c)
        if p is None:
            chk.violation("receiver crashed or threw on a well-formed request: " + io[:120], {"case": c, "impl": io}, True, "crash")
            continue
        got = G.no_continue(p[1])
        if got != m.events:
            # F39: Expect: 100-continue + chunked body + per-chunk delivery: the head is never delivered
            if (not cfg.concat) and kind == "chunked" and any(e.startswith("X(") for e in p[1]) and got == m.events[1:]:
                chk.violation("chunked request with Expect: 100-continue and a chunk handler: the request head is never delivered as VALID",
                              {"case": c, "expected_events": m.events, "got_events": got}, True, "expect-continue-chunked-per-chunk-head-not-delivered")
                continue
            nfail += 1
            if nfail <= 60:
                sig, mincuts = classify(m, cuts, cfg, run_one)
            else:
                sig, mincuts = "unclassified (more than 60 failures)", cuts
            chk.violation("well-formed request not delivered as sent under this partition",
                          {"case": cfg.req_prefix() + " " + G.frag_arg(m.bytes(), mincuts), "expected_events": m.events, "got_events": got,
                           "message": m.bytes().decode("latin-1"), "cuts": list(mincuts)}, True, sig)
    for c, mo, io in diffs[:30]:
        chk.broken.append("correspondence h_stream(request): case `%s` model=%s impl=%s" % (c[:160], mo[:200], io[:200]))
    chk.cov["rule"] = ("well-formed requests drawn from the grammar (methods, targets with any non-blank bytes, versions 0.9..2.0, token header names incl. "
                       "digits/underscore/dot, repeated and folded fields, LF-only line ends when tolerated, Content-Length bodies, chunk sequences with "
                       "extensions and trailers) x {one read, byte-wise, line-wise, every structural cut, every single cut (<= 60 B), sampled/all 2-cuts, random} "
                       "x parser configurations (default and tiny limits, strict on/off, string/vector, concatenation on/off, HEAD translation on/off); "
                       "expected deliveries are known by construction. non-trivial = every case (each reaches a delivery); distinct = distinct (message, partition, configuration)")
    chk.cov["input_distribution"] = dist
    chk.cov["samples"] = [pairs[j][0][:300] + " => " + pairs[j][2][:200] for j in (0, len(pairs) // 2) if j < len(pairs)]
    chk.cov["traces_validated_against_impl"] = len(pairs)


def replay(body):
    import vlib
    r = body["replay"]
    case = r.get("case")
    if not case:
        print("nothing to replay: " + json.dumps(r)[:500]); return 1
    hb, _ = vlib.build_harness("h_stream")
    out, _ = vlib.run_cases_resilient(hb, [case])
    p = G.parse_out(out[0]) if out else None
    got = G.no_continue(p[1]) if p else None
    print("case: %s\nimpl events: %s\nexpected: %s" % (case, got, r.get("expected_events")))
    bad = got != r.get("expected_events")
    print("property violated" if bad else "property holds on this case")
    return 1 if bad else 0
