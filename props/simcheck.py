"""simcheck.py — shared runner of the server-level properties: histories -> model and real http_server
(through the simulated socket adaptor) -> canonical logs compared; per-property monitors read the
implementation's own log."""
import json, re
import simgen as S
from vlib import hexs, unhex


def histories(chk, emphasis=None):
    rng = chk.rng
    H = []
    n = 60 if chk.tier == "quick" else 700
    for flav in ("tcp", "tls"):
        for k in range(n):
            frag = rng.choice(["one", "one", "two", "three"])
            opts = rng.choice(["app=sync", "app=sync", "app=async"])
            ev, reqs = S.sequential_history(rng, flav, rng.randint(1, 4), frag, opts)
            H.append(dict(name="sequential", flav=flav, opts=opts, events=ev, reqs=reqs))
            # the same history with one fault / teardown action inserted (several variants)
            for _ in range(3):
                H.append(dict(name="perturbed", flav=flav, opts=opts, events=S.perturb(rng, ev, flav), reqs=None))
            if k % 3 == 0:
                ev2 = S.perturb(rng, S.perturb(rng, ev, flav), flav)
                H.append(dict(name="perturbed2", flav=flav, opts=opts, events=ev2, reqs=None))
        for k in range(n // 3):
            ev = S.multi_history(rng, flav, rng.randint(2, 3))
            H.append(dict(name="multi", flav=flav, opts="app=sync", events=ev, reqs=None))
            H.append(dict(name="multi-perturbed", flav=flav, opts="app=sync", events=S.perturb(rng, ev, flav), reqs=None))
        for name, opts, ev, reqs in S.special_histories(rng, flav):
            H.append(dict(name=name, flav=flav, opts=opts, events=ev, reqs=reqs))
            if chk.tier != "quick" or rng.random() < 0.3:
                H.append(dict(name=name + " perturbed", flav=flav, opts=opts, events=S.perturb(rng, ev, flav), reqs=None))
        # teardown at every position of a few histories (crash points)
        for k in range(4 if chk.tier == "quick" else 30):
            ev, reqs = S.sequential_history(rng, flav, 2, "two", "app=sync")
            for pos in range(1, len(ev) + 1):
                for act in ("X", "C", "K", "D1"):
                    e2 = ev[:pos] + [act] + ev[pos:] + (["S1:ok", "B"] if flav == "tls" else ["B"])
                    H.append(dict(name="teardown-at-every-point", flav=flav, opts="app=sync", events=e2, reqs=None))
        # the same without a socket_disconnected_event handler (the optional handler): the server must forget its
        # connections all the same, and go on serving after close()
        for k in range(3 if chk.tier == "quick" else 20):
            ev, reqs = S.sequential_history(rng, flav, 2, "two", "app=sync")
            tl = (["S1:ok", "B"] if flav == "tls" else ["B"])
            for pos in sorted(set([len(ev)] + [rng.randint(1, len(ev)) for _ in range(3)])):
                for act in ("X", "C", "K", "D1"):
                    H.append(dict(name="no-disconnected-handler", flav=flav, opts="app=sync,nodisc=1", events=ev[:pos] + [act] + ev[pos:] + tl, reqs=None))
            ev2 = S.multi_history(rng, flav, rng.randint(2, 3))
            ev3, _ = S.sequential_history(rng, flav, 1, "one", "app=sync")
            H.append(dict(name="no-disconnected-handler", flav=flav, opts="app=sync,nodisc=1", events=ev2 + ["C"] + tl + ["X"] + tl, reqs=None))
            H.append(dict(name="no-disconnected-handler", flav=flav, opts="app=sync,nodisc=1", events=ev2 + ["C"] + tl, reqs=None))
    # in about a third of the histories the bytes of a later read have arrived by the time an earlier one completes
    for h in H:
        if rng.random() < 0.35:
            h["events"] = S.early_bytes(rng, h["events"])
    return H


def case_of(h):
    return "sim %s %s %s" % (h["flav"], h["opts"], ";".join(h["events"]))


# ---- monitors: each returns a list of (signature, message) ------------------------------------
def mon_basic(h, ents, pend, raw):
    out = []
    if ents is None:
        out.append(("crash", "the server crashed / threw / sanitizer report: " + raw[:200]))
        return out
    if any(e.startswith("THROW:") for e in ents):
        out.append(("exception-into-event-loop", "an exception left the library: " + [e for e in ents if e.startswith("THROW:")][0]))
    return out


def mon_C03(h, ents, pend, raw):
    out = mon_basic(h, ents, pend, raw)
    if ents is None:
        return out
    pc = S.per_conn(ents)
    for cid, es in pc.items():
        if any(e == "STALE-BUFFER" for e in es):
            out.append(("response-built-from-a-reused-buffer", "c%d: a write referenced a buffer that was overwritten before it completed" % cid))
        # every completed write carries exactly the bytes that were issued
        writes = [e[6:] for e in es if e.startswith("write=")]
        wires = [e[5:] for e in es if e.startswith("wire=")]
        for a, b in zip(writes, wires):
            if b != "?" and a != b:
                out.append(("wire-differs-from-issued-bytes", "c%d: bytes on the wire differ from the bytes issued" % cid))
    if h["reqs"] is not None and (h["name"] in ("sequential", "head/get pair", "close decision", "idle ticks", "head then other") or h["name"].startswith("head with body")):
        es = pc.get(1, [])
        exp = b""
        for k, rq in enumerate(h["reqs"]):
            r = rq.expected_response(k + 1)
            if r is None:
                exp = None
                break
            exp += r
        if exp is not None:
            got = S.wire_of(es)
            if any(rq.expect for rq in h["reqs"]):
                got = re.sub(rb"HTTP/1\.1 100 Continue\r\n(?:[^\r\n]+\r\n)*\r\n", b"", got)     # interim responses are not part of the answer
            if got != exp:
                out.append(("responses-not-the-ordered-concatenation", "c1: wire is not the ordered concatenation of the responses issued: got %r... expected %r..." % (got[:120], exp[:120])))
        sends = [e for e in es if e.startswith("send=")]
        if len(sends) != len(h["reqs"]):
            out.append(("response-count", "c1: %d requests but %d responses issued" % (len(h["reqs"]), len(sends))))
    return out


def head_indices(h):
    """indices, among the final responses, of those that answer a HEAD request.  The scripted application answers
    some requests with a 1xx status as its only response; such a response is not a final one for the recogniser,
    so the requests it answers do not count"""
    if h["reqs"] is None:
        return None
    out, k = set(), 0
    for rq in h["reqs"]:
        if 100 <= rq.status < 200:
            continue
        if rq.method == b"HEAD":
            out.add(k)
        k += 1
    return out


def mon_C04(h, ents, pend, raw):
    out = mon_basic(h, ents, pend, raw)
    if ents is None:
        return out
    pc = S.per_conn(ents)
    for cid, es in pc.items():
        if any(e == "STALE-BUFFER" or e == "TRUNCATED-WRITE" for e in es):
            continue
        stream = S.wire_of(es)
        mine = b"".join(unhex(ev.split(":", 1)[1].rstrip("+")) for ev in h["events"] if re.match(r"R%d:" % cid, ev))
        if cid == 1 and head_indices(h) is not None:
            hi = head_indices(h)
        elif b"HEAD" in mine:
            continue        # which responses answer HEAD is not known for this history
        else:
            hi = set()
        # expect/continue histories answer 100 first: interim responses are allowed by the recogniser
        # a message may be left unfinished only when the application or the peer tore the connection down
        torn = any(ev[0] in "XCKDEw" for ev in h["events"])
        prob = S.recognise_responses(stream, hi, allow_incomplete_tail=torn)
        if prob:
            out.append(("ill-formed-message-on-the-wire", "c%d: %s" % (cid, prob)))
    return out


def mon_C09(h, ents, pend, raw):
    out = mon_basic(h, ents, pend, raw)
    if ents is None:
        return out
    pc = S.per_conn(ents)
    for cid, es in pc.items():
        if "TRUNCATED-WRITE" in es:
            out.append(("shutdown-while-write-in-flight", "c%d: the socket was shut down while a response write was still pending" % cid))
    # the library closes a socket on its own initiative (not after an error on that connection, not because the
    # application closed or destroyed the server) while a response write is still pending on it
    pendw = {}
    cur = ""
    for e in ents:
        if e.startswith("["):
            cur = e
            continue
        m = re.match(r"c(\d+):(.*)", e)
        if not m:
            continue
        cid, what = int(m.group(1)), m.group(2)
        if what.startswith("write="):
            pendw[cid] = True
        elif what.startswith("wire=") or what.startswith("aborted-w"):
            pendw[cid] = False
        elif what == "close" and pendw.get(cid):
            own_error = cur[1:2] in ("w", "E", "H", "S") and cur[2:].split(":")[0].rstrip("]") == str(cid)
            if not own_error and cur[1:2] not in ("C", "K") and "UNDEFINED" not in raw:
                out.append(("closed-while-write-in-flight", "c%d: the library closed the socket in %s while a response write was still pending on it" % (cid, cur)))
            pendw[cid] = False
    if h["name"].startswith("expect chunked") and "perturbed" not in h["name"]:
        es = pc.get(1, [])
        closed_at = next((i for i, e in enumerate(es) if e in ("shutdown", "tls-shutdown")), None)
        final_at = next((i for i, e in enumerate(es) if e.startswith("wire=485454502f312e312032")), None)
        if closed_at is not None and (final_at is None or closed_at < final_at) and "UNDEFINED" not in raw:
            out.append(("closed-before-the-final-response", "c1: the connection was shut down after the interim response, before the final response was written"))
    if h["reqs"] is not None and h["name"] in ("close decision", "sequential"):
        # segments of the log by event; the close decision is visible in the segment of the write completion
        segs = []
        for e in ents:
            if e.startswith("["):
                segs.append([e])
            elif segs:
                segs[-1].append(e)
        wsegs = [sg for sg in segs if sg[0] == "[W1]"]
        k = 0
        for rq in h["reqs"]:
            need = S.writes_for(rq)
            mine = wsegs[k:k + need]
            k += need
            if len(mine) < need or not all(any(e.startswith("c1:wire=") for e in sg) for sg in mine):
                break
            for sg in mine[:-1]:
                if any(e in ("c1:shutdown", "c1:tls-shutdown") for e in sg):
                    out.append(("closed-before-the-response-was-out", "c1: shutdown before the response was completely written"))
            last = mine[-1]
            closes = any(e in ("c1:shutdown", "c1:tls-shutdown") for e in last)
            if closes and rq.keep_alive():
                out.append(("closed-although-keep-alive", "c1: connection closed after a response although the request asked to keep it alive"))
            if not closes and not rq.keep_alive():
                out.append(("not-closed-although-close-requested", "c1: connection left open after the response although HTTP/1.0 or Connection: close"))
    return out


def mon_C10(h, ents, pend, raw):
    out = mon_basic(h, ents, pend, raw)
    if ents is None:
        return out
    connected, disconnected = set(), set()
    started = set()
    closed = set()
    told = "nodisc=1" not in h["opts"]       # otherwise no handler is registered for the disconnected event
    for e in ents:
        m = re.match(r"c(\d+):(.*)", e)
        if m:
            cid, what = int(m.group(1)), m.group(2)
            if what == "start":
                started.add(cid)
            if what == "close":
                closed.add(cid)
            if what == "connected":
                if cid in connected:
                    out.append(("connected-twice", "c%d connected twice" % cid))
                connected.add(cid)
            elif what == "disconnected":
                if cid not in connected:
                    out.append(("disconnected-without-connected", "c%d disconnected without connected" % cid))
                if cid in disconnected:
                    out.append(("disconnected-twice", "c%d disconnected twice" % cid))
                disconnected.add(cid)
            elif what.split("=")[0] in ("req", "chunk", "sent", "continue", "invalid"):
                if cid not in connected:
                    out.append(("event-before-connected", "c%d: %s before connected" % (cid, what[:20])))
                if cid in disconnected:
                    out.append(("event-after-disconnected", "c%d: %s after disconnected" % (cid, what[:20])))
        m = re.match(r"#(\d+)/(\d+)$", e)
        if m:
            nh, nc = int(m.group(1)), int(m.group(2))
            opened = len(connected) - len(disconnected)
            if told and nh != opened:
                out.append(("http-collection-size", "http_server retains %d connections, %d are open" % (nh, opened)))
            if not told and nh > len(started - closed):
                out.append(("http-collection-size", "http_server retains %d connections, only %d sockets are not closed" % (nh, len(started - closed))))
            if nc < nh:
                out.append(("comms-collection-size", "comms::server retains %d connections, fewer than http_server's %d" % (nc, nh)))
            if nc > len(started - closed):
                out.append(("closed-connection-retained", "comms::server retains %d connections, only %d sockets are not closed" % (nc, len(started - closed))))
    if h["flav"] == "tcp" and told:
        # a read or a write that completes with an error (any code but the one of a cancelled operation) ends the
        # connection: the application is told, once - whatever else is in flight
        cur, failed = None, {}
        seen_conn, seen_disc = set(), set()
        for e in ents:
            m = re.match(r"\[([Ew])(\d+):(\w+)\]$", e)
            if e.startswith("["):
                cur = (int(m.group(2)), m.group(1), m.group(3)) if m and m.group(3) != "cancel" else None
                if cur and cur[0] in seen_conn and cur[0] not in seen_disc:
                    failed[cur[0]] = "%s%d:%s" % (cur[1], cur[0], cur[2])
                continue
            m2 = re.match(r"c(\d+):(.*)", e)
            if not m2:
                continue
            cid, what = int(m2.group(1)), m2.group(2)
            if what == "connected":
                seen_conn.add(cid)
            elif what == "disconnected":
                seen_disc.add(cid)
            elif cur and cid == cur[0] and what in ("NO-READ", "NO-WRITE"):
                failed.pop(cid, None)      # nothing was pending: the event was not delivered
        quiet = sorted(c for c in failed if c not in seen_disc)
        if quiet:
            out.append(("error-without-disconnected-event", "c%d: an operation completed with an error (%s) but the application was never told that the connection is gone" % (quiet[0], failed[quiet[0]])))
    if h["name"] == "crowd":
        # every request in these histories is a complete valid one on an open connection, and every connection is closed in the end:
        # each must be served whatever happened to the others, and each must be told of its own disconnection
        asked, served = {}, {}
        for ev in h["events"]:
            m = re.match(r"R(\d+):", ev)
            if m:
                asked[int(m.group(1))] = asked.get(int(m.group(1)), 0) + 1
        for e in ents:
            m = re.match(r"c(\d+):req=", e)
            if m:
                served[int(m.group(1))] = served.get(int(m.group(1)), 0) + 1
        lost = sorted(c for c in asked if served.get(c, 0) < asked[c])
        if lost:
            out.append(("other-connection-disturbed", "after other connections were closed, %d connection(s) no longer get their requests delivered (first: c%d, %d of %d)" %
                        (len(lost), lost[0], served.get(lost[0], 0), asked[lost[0]])))
        gone = sorted(int(m.group(1)) for m in (re.match(r"[ED](\d+)", ev) for ev in h["events"]) if m)
        quiet = [c for c in gone if c in connected and c not in disconnected]
        if quiet:
            out.append(("no-disconnected-event", "%d connection(s) were closed but never got the disconnected event (first: c%d)" % (len(quiet), quiet[0])))
    return out


def mon_C11(h, ents, pend, raw):
    out = mon_C10(h, ents, pend, raw)
    if ents is None:
        return out
    marks = [e for e in ents if e.startswith("[")]
    if any(m in ("[C]", "[K]") for m in marks) and marks and marks[-1] == "[B]":
        # everything the library started has completed or been aborted
        tail_after = ents[max(i for i, e in enumerate(ents) if e in ("[C]", "[K]")):]
        if pend != "-" and not any(e == "[A]" for e in tail_after):
            out.append(("operation-left-pending-after-close", "operations still pending after close/destroy: " + pend))
    # nothing is accepted once the server has been closed or destroyed
    if any(m in ("[C]", "[K]") for m in marks):
        cut = min(i for i, e in enumerate(ents) if e in ("[C]", "[K]"))
        late = [e for e in ents[cut:] if re.match(r"c\d+:(start|connected)$", e)]
        if late:
            out.append(("connection-accepted-after-close", "a connection was set up after the server had been closed: " + " ".join(late[:3])))
    # after close / destroy every connected connection has had its disconnected event
    if any(m in ("[C]", "[K]") for m in marks) and "nodisc=1" not in h["opts"]:
        pc = S.per_conn(ents)
        cut = max(i for i, e in enumerate(ents) if e in ("[C]", "[K]"))
        conn_before = {int(m.group(1)) for m in (re.match(r"c(\d+):connected$", e) for e in ents[:cut]) if m}
        disc = {int(m.group(1)) for m in (re.match(r"c(\d+):disconnected$", e) for e in ents) if m}
        missing = conn_before - disc
        if missing:
            out.append(("no-disconnected-event-at-close", "connections %s were open at close()/destruction and got no disconnected event" % sorted(missing)))
    return out


def mon_C13(h, ents, pend, raw):
    out = mon_basic(h, ents, pend, raw)
    if ents is None or not h["name"].startswith("split headers refused"):
        return out
    pc = S.per_conn(ents)
    es = pc.get(1, [])
    sends = [e for e in es if e.startswith("send=")]
    if h["name"] == "split headers refused":
        if not sends or sends[0] != "send=0":
            out.append(("split-response-not-refused", "send() did not refuse a response whose headers contain an empty line"))
        for w in [unhex(e[6:]) for e in es if e.startswith("write=")]:
            head = w.split(b"\r\n\r\n")[0]
            if b"\n\n" in w[:w.find(b"\r\n\r\n") if b"\r\n\r\n" in w else len(w)] or b"X: y" in w or b"Z: w" in w:
                out.append(("split-response-written", "bytes of a refused (split) response reached the socket"))
    return out


def mon_C14(h, ents, pend, raw):
    out = mon_C03(h, ents, pend, raw)
    if ents is None or h["reqs"] is None or not (h["name"] == "head/get pair" or h["name"].startswith("head with body")):
        return out
    xl = "xlate=1" in h["opts"]
    reqs_seen = [e for e in S.per_conn(ents).get(1, []) if e.startswith("req=")]
    for rq, e in zip(h["reqs"], reqs_seen):
        m = unhex(e[4:].split(",")[0])
        want = b"GET" if (rq.method == b"HEAD" and xl) else rq.method
        if m != want:
            out.append(("head-translation", "handler saw method %r, expected %r" % (m, want)))
    return out


def mon_C15(h, ents, pend, raw):
    out = mon_basic(h, ents, pend, raw)
    if ents is None or not h["name"].startswith("expect"):
        return out
    es = S.per_conn(ents).get(1, [])
    if h["name"].startswith("expect refused then accepted"):
        if "perturbed" in h["name"]:
            return out
        ws = [unhex(e[5:]) for e in es if e.startswith("wire=") and e != "wire=?"]
        kinds = [w[9:12] for w in ws]
        if kinds != [b"417", b"100", b"200"]:
            out.append(("no-interim-response-after-a-refused-one", "after the handler refused one Expect request, the next one on the connection was answered %s (expected 417, then 100 and 200)" % [k.decode() for k in kinds]))
        return out
    if h["name"].startswith("expect twice") or h["name"].startswith("expect then invalid"):
        if "perturbed" in h["name"]:
            return out
        n100 = sum(1 for e in es if e.startswith("wire=485454502f312e312031303020"))
        want = 3 if h["name"].startswith("expect twice") else 2
        if n100 != want:
            out.append(("no-interim-response-for-a-later-request", "%d interim responses on the wire for %d Expect requests on one connection" % (n100, want)))
        return out
    wires = [unhex(e[5:]) for e in es if e.startswith("wire=") and e != "wire=?"]
    n100 = sum(1 for w in wires if w.startswith(b"HTTP/1.1 100 ") or w.startswith(b"HTTP/1.0 100 "))
    name = h["name"]
    if name == "expect http/1.0":
        if n100:
            out.append(("continue-for-http-1.0", "100 Continue sent to an HTTP/1.0 request"))
        return out
    if name == "expect refused by handler":
        if not any(w.startswith(b"HTTP/1.1 417") for w in wires):
            out.append(("continue-handler-response-missing", "the expect-continue handler's response did not reach the wire"))
        return out
    together = "together=1" in name
    if n100 > 1:
        out.append(("more-than-one-100", "%d interim 100 responses for one request" % n100))
    if not together and "perturbed" not in name:
        # the interim response must be on the wire before the body is supplied: i.e. before the 2nd R
        ridx = [i for i, e in enumerate(ents) if e.startswith("[R1:")]
        if len(ridx) >= 2:
            before = ents[ridx[0]:ridx[1]]
            if not any(e.startswith("c1:write=485454502f312e312031303020") for e in before):
                out.append(("no-interim-response-before-waiting", "no 100 Continue was issued before the server went back to waiting for the body"))
        finals = [e for e in es if e.startswith("req=")]
        if len(finals) != 1 or not finals[0].endswith("68656c6c6f"):
            out.append(("body-not-delivered-after-continue", "the request was not delivered (once, with its body) after the interim response: %s" % finals[:2]))
        if "close=1" in name and not any(w.startswith(b"HTTP/1.1 200") for w in wires):
            out.append(("closed-after-interim-response", "the final response never reached the wire (connection closed after the 100?)"))
    return out


def mon_C19(h, ents, pend, raw):
    out = mon_basic(h, ents, pend, raw)
    if ents is None or h["flav"] != "tls":
        return out
    # "the same guarantees as over plain TCP": every server monitor applies to the TLS histories
    for mon in (mon_C09, mon_C03, mon_C04, mon_C10, mon_C11, mon_C14, mon_C15):
        out += [x for x in mon(h, ents, pend, raw) if x not in out]
    # a shutdown that answers the peer's own TLS shutdown / alert (read error event) is not the library's initiative
    peer_initiated = {}
    cur = None
    for e in ents:
        if e.startswith("["):
            cur = e
        m = re.match(r"c(\d+):cancel$", e)
        if m and cur and cur.startswith("[E"):
            peer_initiated[int(m.group(1))] = True
    pc = S.per_conn(ents)
    for cid, es in pc.items():
        # close_notify (tls-shutdown) only with no write pending, and before close
        pending_write = False
        shut = False
        for e in es:
            if e.startswith("write="):
                pending_write = True
            elif e.startswith("wire=") or e == "aborted-w":
                pending_write = False
            elif e == "cancel" and pending_write and not peer_initiated.get(cid):
                out.append(("tls-write-cancelled-by-shutdown", "c%d: a pending response write was cancelled by a TLS shutdown the library started itself" % cid))
            elif e == "tls-shutdown":
                shut = True
    return out


def mon_C20(h, ents, pend, raw):
    return mon_basic(h, ents, pend, raw)


def limit_histories(chk):
    """limits configured on the server (set_max_content_length / set_max_chunk_size) reach the receiver of every
    connection: chunked and Content-Length requests around both limits, with and without a chunk handler"""
    rng = chk.rng
    H = []

    def chunked(sizes):
        b = b"POST /p HTTP/1.1\r\nHost: h\r\nTransfer-Encoding: chunked\r\n\r\n"
        for n in sizes:
            b += b"%x\r\n" % n + b"x" * n + b"\r\n"
        return b + b"0\r\n\r\n"

    def with_length(n):
        return b"POST /p HTTP/1.1\r\nHost: h\r\nContent-Length: %d\r\n\r\n" % n + b"y" * n

    for flav in ("tcp", "tls"):
        hs = ["H1:ok"] if flav == "tls" else []
        tl = (["S1:ok"] if flav == "tls" else []) + ["B"]
        for maxc, maxk in ((64, 16), (16, 64), (100, 99), (99, 100), (32, 32), (200, 20)):
            for handler in (0, 1):
                lo, hi = min(maxc, maxk), max(maxc, maxk)
                plans = [[[lo]], [[lo + 1]], [[hi]], [[hi + 1]], [[(lo + hi) // 2 + 1]], [[maxk], [maxk + 1]], [[1, 2], [maxk, 1]],
                         [[maxk] * (maxc // maxk + 1)], [[maxk - 1] * (maxc // max(1, maxk - 1))], [("cl", maxc)], [("cl", maxc + 1)],
                         [[2], ("cl", maxc), [maxk + 1]]]
                for plan in plans:
                    ev = ["A"] + hs
                    for rq in plan:
                        data = with_length(rq[1]) if isinstance(rq, tuple) else chunked(rq)
                        if len(data) > 6 and rng.random() < 0.4:
                            k = rng.randint(1, len(data) - 1)
                            ev += ["R1:" + hexs(data[:k]), "R1:" + hexs(data[k:])]
                        else:
                            ev.append("R1:" + hexs(data))
                        ev.append("W1")
                    ev += ["E1:eof"] + tl
                    H.append(dict(name="configured limits", flav=flav, opts="app=sync,maxc=%d,maxk=%d%s" % (maxc, maxk, ",chunk=1" if handler else ""),
                                  events=ev, reqs=None, limits=dict(maxc=maxc, maxk=maxk, handler=handler, plan=plan)))
    return H


def mon_C02(h, ents, pend, raw):
    """the configured limits decide: a chunk above the chunk limit or a body above the body limit is refused with a 4xx
    and never handed to the application; everything at or below them is delivered and answered"""
    out = mon_basic(h, ents, pend, raw)
    lim = h.get("limits")
    if ents is None or not lim:
        return out
    maxc, maxk, handler = lim["maxc"], lim["maxk"], lim["handler"]
    expected = []                       # per request: True = accepted
    for rq in lim["plan"]:
        if isinstance(rq, tuple):
            ok = rq[1] <= maxc
        else:
            ok = all(n <= maxk for n in rq) and (handler or sum(rq) <= maxc)
        expected.append(ok)
        if not ok:
            break
    statuses = []
    for e in ents:
        if e.startswith("c1:write="):       # what the library hands to the socket (the wire itself can show F07's stale buffer)
            try:
                m = re.match(rb"HTTP/1\.[01] (\d\d\d)", unhex(e.split("=", 1)[1]))
            except ValueError:
                m = None
            statuses.append(int(m.group(1)) if m else -1)
    want = [200 if ok else 400 for ok in expected]
    got = statuses[:len(want)]
    bad = len(got) != len(want) or any((w == 200) != (g == 200) or (w != 200 and not 400 <= g < 500) for w, g in zip(want, got))
    if bad:
        out.append(("configured-limit-not-applied", "limits configured on the server (body %d, chunk %d, chunk handler %d), requests %s: expected %s, the responses were %s" %
                    (maxc, maxk, handler, lim["plan"], ["accepted" if ok else "refused" for ok in expected], statuses)))
    for e in ents:
        if e.startswith("c1:chunk="):
            n = int(e.split("=", 1)[1].split(",")[0])
            if n > maxk:
                out.append(("over-limit-chunk-delivered", "a chunk of %d bytes was handed to the application, the configured chunk limit is %d" % (n, maxk)))
        if e.startswith("c1:req=") and not handler:
            body = e.split("=", 1)[1].split(",")[3]
            if body != "-" and len(body) // 2 > maxc:
                out.append(("over-limit-body-delivered", "a body of %d bytes was handed to the application, the configured body limit is %d" % (len(body) // 2, maxc)))
    return out


MONITORS = {"C02": mon_C02, "C03": mon_C03, "C04": mon_C04, "C09": mon_C09, "C10": mon_C10, "C11": mon_C11, "C13": mon_C13, "C14": mon_C14,
            "C15": mon_C15, "C19": mon_C19, "C20": mon_C20}


def crowd_histories(chk):
    """many connections at once, closed one at a time, the survivors served in between: the connection collections
    (std::set / std::map, or threadsafe_hash_map in the HTTP_THREAD_SAFE build) hold dozens of entries"""
    rng = chk.rng
    H = []
    for k in range(2 if chk.tier == "quick" else 12):
        n = rng.choice([40, 60, 90])
        ev = ["A"] * n
        order = list(range(1, n + 1))
        if k % 2:
            rng.shuffle(order)
        alive = list(order)
        for j, c in enumerate(order):
            ev.append(rng.choice(["E%d:eof", "E%d:reset", "D%d"]) % c)
            alive.remove(c)
            if j % 10 == 9 or j == 0:
                for a in alive:
                    ev += ["R%d:%s" % (a, hexs(S.Req().bytes())), "W%d" % a]
        ev.append("B")
        H.append(dict(name="crowd", flav="tcp", opts="app=sync", events=ev, reqs=None))
    return H


F07_EXPLAINS = {"wire-differs-from-issued-bytes", "responses-not-the-ordered-concatenation", "response-count", "response-built-from-a-reused-buffer",
                "ill-formed-message-on-the-wire", "not-closed-although-close-requested", "closed-before-the-final-response", "closed-although-keep-alive",
                "no-interim-response-for-a-later-request", "no-interim-response-before-waiting", "more-than-one-100", "body-not-delivered-after-continue",
                "closed-after-interim-response", "continue-handler-response-missing", "head-translation", "closed-before-the-response-was-out"}


def run_sim(chk, flavour="plain", only=None, H=None, extra=None, label="h_sim"):
    keep = H is not None
    H = H if keep else histories(chk)
    if only:
        H = [h for h in H if only(h)]
    cases = [case_of(h) for h in H]
    pairs, diffs = chk.correspond("h_sim", cases, flavour=flavour, canon=lambda c, x: S.canon(x), label=label, extra=extra)
    mon = MONITORS[chk.pid]
    dist = {}
    ndiff = 0
    for (c, mo, io), h in zip(pairs, H):
        dist[h["name"].split(" ")[0] + ":" + h["flav"]] = dist.get(h["name"].split(" ")[0] + ":" + h["flav"], 0) + 1
        ents, pend = S.parse_log(io)
        for sig, msg in mon(h, ents, pend, io):
            if sig == "crash" and "UNDEFINED" in mo and "AddressSanitizer: heap-use-after-free" in io:
                # the harness reads, as asio would, a transmit buffer the library has already reassigned
                sig = "send-while-a-write-is-in-flight"
            elif sig in F07_EXPLAINS and chk.pid in ("C03", "C04", "C09", "C14", "C15", "C19"):
                # open findings that make these histories fail: classify what they explain (a response lost, late, built from
                # a reused buffer, its close decision lost), and nothing else - a socket shut down or closed under a pending
                # write, lifecycle and collection errors are not consequences of F07 / F10 and stay what they are
                if "UNDEFINED" in mo:
                    sig = "send-while-a-write-is-in-flight"
                elif "app=async" in h["opts"]:
                    sig = "response-after-the-handler-returned"
            chk.violation(msg, {"case": c, "history": h["name"], "impl_log": io[:3000], "signature": sig,
                                "h": {"name": h["name"], "flav": h["flav"], "opts": h["opts"], "events": h["events"], "limits": h.get("limits")},
                                "flavour": flavour, "extra": extra}, True, sig)
        if ents is not None and any(e.startswith("c1:wire=") for e in ents):
            chk.count_distinct(c)
        m2, i2 = S.cut_undefined(mo, io)
        if ents is None and "UNDEFINED" in mo and "AddressSanitizer: heap-use-after-free" in io:
            continue        # the use-after-free of F07, reported above; the model stops at UNDEFINED
        if m2 != i2:
            ndiff += 1
            if ndiff <= 20:
                k = next((j for j in range(min(len(m2), len(i2))) if m2[j] != i2[j]), min(len(m2), len(i2)))
                chk.broken.append("correspondence " + label + ": history `%s` (%s %s) differs at ...model: %s ...impl: %s  case: %s" %
                                  (h["name"], h["flav"], h["opts"], m2[max(0, k - 80):k + 80], i2[max(0, k - 80):k + 80], c[:400]))
    chk.cov["correspondence"][label]["differences"] = ndiff
    if keep:
        chk.cov.setdefault("extra_histories", {})[label] = dist
        return pairs
    chk.cov["input_distribution"] = dist
    chk.cov["samples"] = [pairs[j][0][:300] + " => " + pairs[j][2][:300] for j in (0, len(pairs) // 2) if j < len(pairs)]
    chk.cov["traces_validated_against_impl"] = len(pairs)
    chk.cov["rule"] = ("event histories played on http_server<sim::adaptor> (the real library over a recording socket adaptor) and on the Coq state machine: "
                       "sequential keep-alive / closing exchanges with 1..4 requests in 1..3 reads, sync and async responses through every send overload and chunked "
                       "responses; each with 1-2 faults or teardown actions inserted at random (read/write errors of every class, aborted completions, application "
                       "disconnect, server shutdown/close/destruction, refused/failed accepts, TLS handshake and shutdown outcomes); 2-3 interleaved connections; "
                       "targeted histories (Expect, chunk handler, every rejection class, HEAD/GET pairs, Connection values, split header strings, idle ticks); teardown "
                       "at every position of a history. TCP and TLS adaptor shapes. non-trivial = at least one response reached the wire; distinct = distinct histories")
    return pairs


def replay(body):
    import vlib
    r = body["replay"]
    case = r.get("case")
    if not case:
        print("nothing to replay: " + json.dumps(r)[:500]); return 1
    if r.get("harness") == "h_real":
        import realcheck
        return realcheck.replay(body)
    hd = r.get("h")
    kw = {}
    if r.get("flavour"):
        kw["flavour"] = r["flavour"]
    if r.get("extra"):
        kw["extra"] = r["extra"]
    try:
        hb, _ = vlib.build_harness("h_sim", **kw)
    except TypeError:
        hb, _ = vlib.build_harness("h_sim")
    out, _ = vlib.run_cases_resilient(hb, [case])
    print("case: %s\nimpl log: %s" % (case[:500], out[0][:2000] if out else "?"))
    pid = body.get("property")
    if hd and pid in MONITORS and out:
        # judge the log of this run with the property's monitor, as the check did
        h = dict(name=hd["name"], flav=hd["flav"], opts=hd["opts"], events=hd["events"], reqs=None, limits=hd.get("limits"))
        ents, pend = S.parse_log(out[0])
        found = MONITORS[pid](h, ents, pend, out[0])
        for sig, msg in found:
            print("monitor: [%s] %s" % (sig, msg[:300]))
        want = r.get("signature")
        bad = [x for x in found if want is None or x[0] == want] or (found if want not in F07_EXPLAINS else [])
        print("property violated on this history" if bad else "property holds on this history")
        return 1 if bad else 0
    print("compare with the recorded log in the replay file")
    return 1
