"""C06 — per-connection buffering is bounded by the configured limits."""
import json
import httpgen as G
from vlib import hexs, unhex


def bound(cfg):
    lim = cfg.lim
    bmap = 2 * (lim["hlen"] + lim["line"] + 1)
    # = ret_bound of coq/P_C06b.v (C06_connection_retains_bounded): request line, header block, body, chunk size line, chunk data, trailers
    return (lim["method"] + 1) + (lim["uri"] + 1) + 2 * (bmap + lim["line"] + 1) + cfg.maxcontent + cfg.maxchunk + lim["line"] + 1


def reject_bound(cfg):
    """bytes an attacker can feed before a request that never completes is rejected (very generous)"""
    lim = cfg.lim
    return (lim["method"] + lim["uri"] + 3 * lim["ws"] + 16) + 2 * (lim["hlen"] + 2) * (lim["line"] + 2) + cfg.maxcontent * (lim["line"] + 20) + cfg.maxchunk + 64


def streams(rng, cfg):
    """adversarial endless streams, as (name, list of reads)"""
    lim = cfg.lim
    head = b"POST /x HTTP/1.1\r\nHost: h\r\n"
    n = 6000 if cfg.inst == "T" else 1500
    out = []
    out.append(("empty-name-lines", [head] + [b":\r\n"] * n))
    out.append(("empty-name-lines-lf", [head] + [b":\n"] * n))
    out.append(("repeated-name-empty-value", [head] + [b"a:\r\n"] * n))
    out.append(("repeated-name", [head] + [b"a: b\r\n"] * n))
    out.append(("distinct-names", [head] + [b"n%d:\r\n" % i for i in range(n)]))
    out.append(("endless-fold", [head + b"a: b\r\n"] + [b" c\r\n"] * n))
    out.append(("endless-fold-empty", [head + b"a:\r\n"] + [b" \r\n"] * n))
    out.append(("endless-blanks-in-value", [head + b"a:"] + [b" "] * n))
    out.append(("endless-blanks-before-uri", [b"GET"] + [b" "] * n))
    out.append(("endless-method", [b"A"] * n))
    out.append(("endless-uri", [b"GET /"] + [b"u" * 7] * n))
    out.append(("endless-header-name", [head] + [b"n" * 7] * n))
    out.append(("endless-header-value", [head + b"a: "] + [b"v" * 7] * n))
    out.append(("huge-content-length", [head + b"Content-Length: 99999999999\r\n\r\n"] + [b"b" * 50] * 50))
    te = b"Transfer-Encoding: c\r\n\r\n" if lim["line"] < 40 else b"Transfer-Encoding: chunked\r\n\r\n"
    out.append(("endless-chunks", [head + te] + [b"1\r\nz\r\n"] * n))
    if cfg.maxchunk < 5000:
        # every chunk as large as the chunk limit allows (larger than the body limit when that is the smaller one)
        k = cfg.maxchunk
        out.append(("endless-chunks-at-the-chunk-limit", [head + te] + [b"%x\r\n" % k + b"z" * k + b"\r\n"] * min(n, 1500)))
        k = min(cfg.maxchunk, cfg.maxcontent + 1)
        out.append(("endless-chunks-just-above-the-body-limit", [head + te] + [b"%x\r\n" % k + b"z" * k + b"\r\n"] * min(n, 1500)))
    out.append(("endless-chunk-extension", [head + te + b"1;"] + [b"e" * 7] * n))
    out.append(("endless-chunk-ext-blanks", [head + te + b"1;"] + [b" "] * n))
    out.append(("endless-chunk-size-digits", [head + te] + [b"0"] * n))
    out.append(("endless-chunk-leading-blanks", [head + te] + [b" "] * n))
    out.append(("endless-trailers", [head + te + b"0\r\n"] + [b"t: u\r\n"] * n))
    out.append(("endless-empty-name-trailers", [head + te + b"0\r\n"] + [b":\r\n"] * n))
    out.append(("huge-chunk", [head + te + b"7fffffff\r\n"] + [b"d" * 50] * 50))
    out.append(("huge-chunk-with-extension", [head + te + b"7fffffff;a=b\r\n"] + [b"d" * 50] * 50))
    out.append(("huge-chunk-with-empty-extension", [head + te + b"7fffffff;\r\n"] + [b"d" * 50] * 50))
    out.append(("huge-chunk-after-small-ones", [head + te + b"1\r\nz\r\n1;x\r\nz\r\n7ffffff0 ; q\r\n"] + [b"d" * 50] * 50))
    # the configured limits still hold for later requests of the connection (after the receiver has been cleared)
    first = b"GET / HTTP/1.1\r\nHost: h\r\nContent-Length: 0\r\n\r\n"
    if cfg.maxchunk < 0xf0000:
        out.append(("second-request-huge-chunk", [first, head + te + b"f0000\r\n"] + [b"d" * 4096] * 240))
        out.append(("third-request-huge-chunk", [first, first + head + te + b"f0000;x\r\n"] + [b"d" * 4096] * 240))
    out.append(("second-request-endless-line", [first, head] + [b"b: " + b"c" * 60] + [b"c" * 64] * n))
    out.append(("endless-cr", [head] + [b"\r"] * n))
    out.append(("body-over-content-length-pipelined", [head + b"Content-Length: 3\r\n\r\nabc"] + [b"GET / HTTP/1.1\r\nHost: h\r\nContent-Length: 0\r\n\r\n"] * 200))
    return out


def gen(chk):
    rng = chk.rng
    cases, meta = [], []
    cfgs = []
    for inst in ("T", "T", "D") if chk.tier == "quick" else ("T", "T", "T", "D", "D"):
        cfg = G.rand_cfg(rng, inst)
        if inst == "T":
            cfg.maxcontent = rng.choice([16, 64]); cfg.maxchunk = rng.choice([8, 32])
            if not cfgs:
                cfg.maxcontent, cfg.maxchunk = 16, 32      # a chunk limit above the body limit
        else:
            cfg.maxcontent = 300; cfg.maxchunk = 100
        cfgs.append(cfg)
    for cfg in cfgs:
        for name, reads in streams(rng, cfg):
            cases.append(cfg.req_prefix() + " " + ",".join(hexs(r) for r in reads))
            meta.append((name, cfg, sum(len(r) for r in reads), "linewise"))
            # the same stream in one read and re-cut at random
            data = b"".join(reads)
            if len(data) <= 20000:
                cases.append(cfg.req_prefix() + " " + hexs(data))
                meta.append((name, cfg, len(data), "one-read"))
                cuts = tuple(sorted(rng.sample(range(1, len(data)), min(40, len(data) - 1))))
                cases.append(cfg.req_prefix() + " " + G.frag_arg(data, cuts))
                meta.append((name, cfg, len(data), "random-cuts"))
    return cases, meta


def run(chk):
    chk.prove("Properties_C06")
    cases, meta = gen(chk)
    pairs, diffs = chk.correspond("h_stream", cases, timeout=1500)
    dist = {}
    worst = {}
    for (c, mo, io), (name, cfg, total, how) in zip(pairs, meta):
        p = G.parse_out(io)
        if p is None:
            chk.violation("receiver crashed on an adversarial stream: " + io[:120], {"case": c[:300], "impl": io[:300]}, True, "crash")
            continue
        dist[name] = dist.get(name, 0) + 1
        chk.count_distinct(c)
        mr = G.maxret_of(io)
        B = bound(cfg)
        worst[name] = max(worst.get(name, 0), mr)
        if mr is None or mr > B:
            chk.violation("stream `%s` (%s): %s bytes retained, bound from the limits is %d" % (name, how, mr, B),
                          {"case": c[:2000] + ("..." if len(c) > 2000 else ""), "stream": name, "fed": how, "retained": mr, "bound": B,
                           "config": cfg.req_prefix()}, True, "unbounded:" + name)
        # a stream that never completes a request must be rejected in bounded time
        if name not in ("body-over-content-length-pipelined", "endless-chunks", "endless-chunks-at-the-chunk-limit", "endless-chunks-just-above-the-body-limit") and total > reject_bound(cfg):
            if not any(e.startswith("I(") for e in p[1]):
                chk.violation("stream `%s` fed %d bytes without being rejected" % (name, total), {"stream": name, "config": cfg.req_prefix()}, True, "never-rejected:" + name)
    for c, mo, io in diffs[:30]:
        chk.broken.append("correspondence h_stream(adversarial): case `%s` model=%s impl=%s" % (c[:160], mo[-200:], io[-200:]))
    chk.cov["rule"] = ("24 adversarial endless streams of the property (empty-name / repeated-name / distinct-name lines, endless folds, blanks, method, target, header name/value, "
                       "huge Content-Length, endless chunks / extensions / size digits / trailers, huge chunk, endless CR) fed line by line (thousands of reads), in one read and "
                       "re-cut at random, on tiny and default limits; the bytes retained after every read (method+target+header map+field in progress+body+chunk data/size/extension+trailers) "
                       "are measured on the real members and compared with the bound computed from the limits; the model computes the same figure")
    chk.cov["input_distribution"] = dist
    chk.cov["max_retained_per_stream"] = worst
    chk.cov["samples"] = [pairs[j][0][:200] + " ... => " + pairs[j][2][-80:] for j in (0, len(pairs) // 2) if j < len(pairs)]
    chk.cov["traces_validated_against_impl"] = len(pairs)


def replay(body):
    import vlib
    r = body["replay"]
    case = r.get("case")
    if not case or case.endswith("..."):
        print("replay by stream name: " + json.dumps({k: r.get(k) for k in ("stream", "fed", "config", "retained", "bound")})); return 1
    hb, _ = vlib.build_harness("h_stream")
    out, _ = vlib.run_cases_resilient(hb, [case])
    mr = G.maxret_of(out[0]) if out else None
    print("retained: %s bound: %s" % (mr, r.get("bound")))
    bad = mr is None or mr > r.get("bound", 0)
    print("property violated" if bad else "property holds on this case")
    return 1 if bad else 0
