"""C13 — application-supplied headers can never split a response."""
import itertools
from vlib import hexs, unhex

ALPHA = [13, 10, ord('a'), ord(':')]


def has_empty(b):
    """independent statement: some LF is directly followed by LF or CR LF"""
    for i, c in enumerate(b):
        if c == 10 and (b[i + 1:i + 2] == b"\n" or b[i + 1:i + 3] == b"\r\n"):
            return True
    return False


def starts_empty(b):
    return b[:1] == b"\n" or b[:2] == b"\r\n"


def gen_cases(chk):
    cases = []
    maxlen = 7 if chk.tier == "quick" else 8
    for n in range(0, maxlen + 1):
        for t in itertools.product(ALPHA, repeat=n):
            cases.append("split " + hexs(bytes(t)))
    mlen = 5 if chk.tier == "quick" else 7
    for n in range(0, mlen + 1):
        for t in itertools.product(ALPHA, repeat=n):
            for st in (200, 204):
                cases.append("respmsg %d - %s 3" % (st, hexs(bytes(t))))
    rng = chk.rng
    nrand = 3000 if chk.tier == "quick" else 60000
    for _ in range(nrand):
        # lines with random terminators, sometimes empty lines, any byte values
        parts = []
        for _ in range(rng.randint(0, 5)):
            kind = rng.random()
            if kind < 0.6:
                name = bytes(rng.choice(b"XYZabc-") for _ in range(rng.randint(1, 6)))
                val = bytes(rng.choice([rng.randrange(256), ord('v'), 32, 13, 10]) if rng.random() < 0.15 else ord('v') for _ in range(rng.randint(0, 8)))
                parts.append(name + b": " + val)
            elif kind < 0.8:
                parts.append(b"")
            else:
                parts.append(bytes(rng.randrange(256) for _ in range(rng.randint(0, 6))))
            parts.append(rng.choice([b"\r\n", b"\r\n", b"\n", b"\r", b"", b"\n\r", b"\r\r\n"]))
        hs = b"".join(parts)
        st = rng.choice([200, 200, 404, 204, 304, 100, 599])
        reason = rng.choice([b"", b"", b"Custom Reason"])
        cases.append("respmsg %d %s %s %d" % (st, hexs(reason), hexs(hs), rng.choice([0, 7, 123456])))
        if rng.random() < 0.3:
            nvs = []
            for _ in range(rng.randint(1, 3)):
                nm = bytes(rng.choice(b"AB-\r\n") for _ in range(rng.randint(0, 4)))
                v = bytes(rng.choice(b"v \r\n") for _ in range(rng.randint(0, 5)))
                nvs.append(hexs(nm) + ":" + hexs(v))
            cases.append("respadd %d %d %s" % (st if st in (200, 404, 204, 304, 100) else 200, rng.choice([0, 9]), ",".join(nvs)))
    # sequences of builder operations on ONE response object, is_valid() asked in between (Q): a verdict given earlier
    # must not outlive a later change of the headers
    good = [b"X-A: 1\r\n", b"X-Data: abcdefgh\r\n", b"Server: s\r\n", b""]
    bad = [b"X-A: 1\r\n\r\nHTTP/1.1 200 OK\r\n", b"\r\nX: y\r\n", b"A: b\n\nC: d\r\n", b"X-Data: a\r\n\r\n", b"A: b\r\n\nC: d\r\n"]
    for _ in range(400 if chk.tier == "quick" else 8000):
        ops = []
        if rng.random() < 0.3:
            ops.append("C:" + hexs(rng.choice(good + bad)))
        for _ in range(rng.randint(1, 6)):
            k = rng.random()
            if k < 0.3:
                ops.append("Q")
            elif k < 0.5:
                ops.append("S:" + hexs(rng.choice(good + bad + bad)))
            elif k < 0.75:
                v = rng.choice([b"v", b"abc", b"a\r\n\r\nb", b"x\n\ny", b"long-value-0123456789"])
                ops.append("F:%s:%s" % (hexs(rng.choice([b"X-B", b"Y", b"X-Data"])), hexs(v)))
            elif k < 0.85:
                ops.append("L:%d" % rng.choice([0, 5, 123]))
            else:
                ops.append(rng.choice(["V", "H", "I:%d:%s" % (rng.randrange(0, 40), hexs(rng.choice([b"v", b"a\r\n\r\nb"])))]))
        cases.append("respops %d - %s %d" % (rng.choice([200, 404]), ";".join(ops), rng.choice([0, 7])))
    return cases


def oracle(chk, case, impl):
    """property stated on the implementation's own output"""
    t = case.split(" ")
    if t[0] not in ("respmsg", "respadd", "respops") or not impl.startswith("valid="):
        return
    valid = impl[6] == "1"
    msg = unhex(impl.split("msg=")[1])
    if t[0] == "respmsg":
        hs = unhex(t[3])
    else:
        hs = None
    if valid and has_empty(msg[:-1]):
        # where is it?
        first_lf = msg.index(b"\n")
        sig = "empty-line-at-start-of-header-block" if starts_empty(msg[first_lf + 1:]) and len(msg) > first_lf + 3 else "empty-line-inside-header-block"
        chk.violation("response accepted for sending although its head has an empty line before the end",
                      {"case": case, "impl": impl, "message_bytes": msg.decode("latin-1")}, True, sig)
    if hs is not None and (has_empty(hs) or starts_empty(hs)) and valid:
        pass  # already reported above (the message then contains the early empty line)
    if hs is not None and valid and (hs == b"" or hs.endswith(b"\n")):
        # exactly one empty line, completed by the last byte
        if not (msg.endswith(b"\n\r\n") or msg.endswith(b"\n\n")):
            chk.violation("head does not end with an empty line", {"case": case, "impl": impl}, True, "no-terminal-empty-line")


def run(chk):
    chk.prove("Properties_C13", extra_modules=("Properties_C13b",))
    # connection level: every send overload refuses a split response and writes nothing
    import simcheck
    simcheck.run_sim(chk, only=lambda h: h["name"].startswith("split headers refused") or h["name"] == "sequential")
    sim_cov = dict(chk.cov.get("correspondence", {}))
    cases = gen_cases(chk)
    pairs, diffs = chk.correspond("h_pure", cases)
    for c, m, i in pairs:
        oracle(chk, c, i)
        t = c.split(" ")
        arg = t[1] if t[0] == "split" else (t[3] if len(t) > 3 else t[-1])
        if "0a" in arg:
            chk.count_distinct(c)
    for c, m, i in diffs[:50]:
        chk.broken.append("correspondence h_pure: case `%s` model=%s impl=%s" % (c, m[:120], i[:120]))
    chk.cov.setdefault("correspondence", {}).update(sim_cov)
    chk.cov["rule"] = ("connection level: histories in which the application answers with a header string containing an empty line, through send(response), "
                       "send(response, body), send(response, buffers) and the chunked path, on the real http_server over the simulated socket: send() must return false and nothing may be written; "
                       "encoder level: all strings of length <= 7 (8 thorough) over {CR,LF,'a',':'} through are_headers_split; all of length <= 5 (7) through "
                       "tx_response(code, header_string).message() for a body-permitting and a bodiless status; random header blocks over all "
                       "256 byte values with mixed terminators through the (reason,status,headers) constructor and add_header; "
                       "non-trivial = the header input contains at least one LF; distinct = distinct case lines")
    chk.cov["exhaustive"] = True
    chk.cov["samples"] = [pairs[i][0] + " => " + pairs[i][2] for i in (5, len(pairs) // 2, len(pairs) - 1) if i < len(pairs)]
    chk.cov["traces_validated_against_impl"] = len(pairs)
    chk.assumptions += ["reason phrase and version bytes contain no LF (outside the property: it quantifies over headers)",
                        "status >= 0 (std::to_string of a negative int is not modelled)"]


def replay(body):
    import vlib
    case = body["replay"].get("case")
    if not case:
        print("nothing to replay: " + json.dumps(body["replay"])[:500]); return 1
    hb, _ = vlib.build_harness("h_pure")
    out, _, _ = vlib.run_cases(hb, [case])
    print("case: %s\nimpl: %s" % (case, out[0] if out else "?"))
    msg = unhex(out[0].split("msg=")[1]) if out and "msg=" in out[0] else b""
    bad = out and out[0].startswith("valid=1") and has_empty(msg[:-1])
    print("property violated" if bad else "property holds on this case")
    return 1 if bad else 0
