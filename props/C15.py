"""C15 — server-level property decided on event histories (see simcheck.py / simgen.py)."""
import simcheck


def run(chk):
    chk.prove("Properties_C15")
    simcheck.run_sim(chk, flavour=FLAVOUR)


replay = simcheck.replay
FLAVOUR = "plain"
