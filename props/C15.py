"""C15 — 100-continue: server-level histories (simcheck.py / simgen.py) and, at receiver level, an application whose
expect-continue handler answers later (so that continue_sent is not set at once)."""
import simcheck
import httpgen as G


def deferred_expect(chk):
    """requests with Expect: 100-continue and a body, cut anywhere; the application's handler defers its answer:
    the receiver must report EXPECT_CONTINUE at most once per request however the body is fragmented"""
    rng = chk.rng
    cases, metas = [], []
    for _ in range(120 if chk.tier == "quick" else 2500):
        cfg = G.rand_cfg(rng)
        cfg.xlate = rng.choice([2, 3])
        m = None
        while m is None:
            m = G.gen_request(rng, cfg, body_kind=rng.choice(["cl", "cl", "chunked"]), expect=True)
        data = m.bytes()
        cc = m.cut_classes()
        plist = [()] + G.partitions(rng, len(data), cc, "bytewise") + G.partitions(rng, len(data), cc, "structural1")[:40]
        for _ in range(4):
            plist += G.partitions(rng, len(data), cc, "random")
        seen = set()
        for cuts in plist:
            if cuts in seen:
                continue
            seen.add(cuts)
            cases.append(cfg.req_prefix() + " " + G.frag_arg(data, cuts))
            metas.append(m)
    pairs, diffs = chk.correspond("h_stream", cases, label="h_stream deferred expect-continue")
    for c, mo, io in diffs[:20]:
        chk.broken.append("correspondence h_stream(deferred expect): case `%s` model=%s impl=%s" % (c[:200], mo[:200], io[:200]))
    for (c, mo, io), m in zip(pairs, metas):
        p = G.parse_out(io)
        if p is None:
            chk.violation("receiver crashed on an Expect request: " + io[:160], {"case": c, "impl": io}, True, "memory-error-or-exception")
            continue
        nx = sum(1 for e in p[1] if e.startswith("X("))
        if nx > 1:
            chk.violation("EXPECT_CONTINUE reported %d times for one request (the application would send %d interim responses)" % (nx, nx),
                          {"case": c, "impl": io[:600]}, True, "expect-continue-repeated")
        if any(e.startswith("V(") for e in p[1]):
            chk.count_distinct(c)


def run(chk):
    chk.prove("Properties_C15")
    simcheck.run_sim(chk, flavour=FLAVOUR)
    deferred_expect(chk)


replay = simcheck.replay
FLAVOUR = "plain"
