(* M_Str.v — how tx_response::message and tx_request::message put a head together, as clang's AST gives them: a local
   std::string that is initialised, appended to, and returned; boolean locals that say whether the header string
   lacks a given header name; one conditional append.  The pieces are the start line (line::to_string(), the model's
   response_line_string / request_line_string), the header string, the Content-Length line
   (header_field::content_length(n)) and CR LF; content_permitted is the regenerated table function. *)
From Via Require Import M_Char M_Parse M_Encode.
From Coq Require Import List NArith Bool.
Import ListNotations.
Local Open Scope N_scope.

Inductive spiece := SLineString | SHeaderString | SContentLengthLine | SCRLF.
Inductive sbexp :=
  | SNotFound (name : str)                   (* std::string::npos == header_string_.find(name) *)
  | SLocal (k : nat)
  | SAndB (a b : sbexp)
  | SContentPermitted.                       (* response_status::content_permitted(status()) *)
Inductive sstmt :=
  | SInitOut (p : spiece)                    (* std::string output(p) *)
  | SAppendOut (p : spiece)                  (* output += p *)
  | SLetB (k : nat) (e : sbexp)              (* bool local_k(e) *)
  | SIfS (c : sbexp) (t : sstmt)
  | SSeqS (a b : sstmt)
  | SReturnOut.

Record senv := mk_senv { se_line : str; se_headers : str; se_status : N; se_content_length : N }.
Record sstate := mk_sst { ss_out : str; ss_locals : list bool }.

Definition spiece_eval (e : senv) (p : spiece) : str :=
  match p with
  | SLineString => se_line e
  | SHeaderString => se_headers e
  | SContentLengthLine => content_length_line (se_content_length e)
  | SCRLF => CRLF
  end.

Fixpoint sbeval (e : senv) (s : sstate) (b : sbexp) : bool :=
  match b with
  | SNotFound name => negb (contains name (se_headers e))
  | SLocal k => nth k (ss_locals s) false
  | SAndB a c => sbeval e s a && sbeval e s c
  | SContentPermitted => content_permitted (se_status e)
  end.

Fixpoint set_nth_b (l : list bool) (k : nat) (v : bool) : list bool :=
  match k, l with
  | O, [] => [v]
  | O, _ :: t => v :: t
  | S k', [] => false :: set_nth_b [] k' v
  | S k', x :: t => x :: set_nth_b t k' v
  end.

(* the value returned, if the body returns *)
Fixpoint sexec (e : senv) (st : sstmt) (s : sstate) : sstate * option str :=
  match st with
  | SInitOut p => (mk_sst (spiece_eval e p) (ss_locals s), None)
  | SAppendOut p => (mk_sst (ss_out s ++ spiece_eval e p) (ss_locals s), None)
  | SLetB k b => (mk_sst (ss_out s) (set_nth_b (ss_locals s) k (sbeval e s b)), None)
  | SIfS c t => if sbeval e s c then sexec e t s else (s, None)
  | SSeqS a b => match sexec e a s with (s1, None) => sexec e b s1 | r => r end
  | SReturnOut => (s, Some (ss_out s))
  end.

Definition srun (e : senv) (body : sstmt) : option str := snd (sexec e body (mk_sst [] [])).
