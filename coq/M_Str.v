(* M_Str.v — how tx_response::message and tx_request::message put a head together, as clang's AST gives them: a local
   std::string that is initialised, appended to, and returned; boolean locals that say whether the header string
   lacks a given header name; one conditional append.  The pieces are the start line (line::to_string(), the model's
   response_line_string / request_line_string), the header string, the Content-Length line
   (header_field::content_length(n)) and CR LF; content_permitted is the regenerated table function. *)
From Via Require Import M_Char M_Parse M_Encode.
From Coq Require Import List NArith Bool.
Import ListNotations.
Local Open Scope N_scope.

Inductive spiece := SLineString | SHeaderString | SContentLengthLine | SCRLF.
Inductive sbexp :=
  | SNotFound (name : str)                   (* std::string::npos == header_string_.find(name) *)
  | SLocal (k : nat)
  | SAndB (a b : sbexp)
  | SContentPermitted.                       (* response_status::content_permitted(status()) *)
Inductive sstmt :=
  | SInitOut (p : spiece)                    (* std::string output(p) *)
  | SAppendOut (p : spiece)                  (* output += p *)
  | SLetB (k : nat) (e : sbexp)              (* bool local_k(e) *)
  | SIfS (c : sbexp) (t : sstmt)
  | SSeqS (a b : sstmt)
  | SReturnOut.

Record senv := mk_senv { se_line : str; se_headers : str; se_status : N; se_content_length : N }.
Record sstate := mk_sst { ss_out : str; ss_locals : list bool }.

Definition spiece_eval (e : senv) (p : spiece) : str :=
  match p with
  | SLineString => se_line e
  | SHeaderString => se_headers e
  | SContentLengthLine => content_length_line (se_content_length e)
  | SCRLF => CRLF
  end.

Fixpoint sbeval (e : senv) (s : sstate) (b : sbexp) : bool :=
  match b with
  | SNotFound name => negb (contains name (se_headers e))
  | SLocal k => nth k (ss_locals s) false
  | SAndB a c => sbeval e s a && sbeval e s c
  | SContentPermitted => content_permitted (se_status e)
  end.

Fixpoint set_nth_b (l : list bool) (k : nat) (v : bool) : list bool :=
  match k, l with
  | O, [] => [v]
  | O, _ :: t => v :: t
  | S k', [] => false :: set_nth_b [] k' v
  | S k', x :: t => x :: set_nth_b t k' v
  end.

(* the value returned, if the body returns *)
Fixpoint sexec (e : senv) (st : sstmt) (s : sstate) : sstate * option str :=
  match st with
  | SInitOut p => (mk_sst (spiece_eval e p) (ss_locals s), None)
  | SAppendOut p => (mk_sst (ss_out s ++ spiece_eval e p) (ss_locals s), None)
  | SLetB k b => (mk_sst (ss_out s) (set_nth_b (ss_locals s) k (sbeval e s b)), None)
  | SIfS c t => if sbeval e s c then sexec e t s else (s, None)
  | SSeqS a b => match sexec e a s with (s1, None) => sexec e b s1 | r => r end
  | SReturnOut => (s, Some (ss_out s))
  end.

Definition srun (e : senv) (body : sstmt) : option str := snd (sexec e body (mk_sst [] [])).

(* ---- the to_string() members of request_line, response_line, chunk_header and last_chunk ----------------------------------
   A local std::string that is initialised, appended to (output += e, where e is built with std::operator+ from string
   members of *this, character and string literals, CRLF, http_version(major_version_, minor_version_) and
   std::to_string(status_)), one `if (!member.empty())` around an append, and returned.  The string members of the class
   are numbered by the translator in a fixed order (request_line: method_, uri_; response_line: reason_phrase_;
   chunk_header: hex_size_, extension_; last_chunk: extension_, trailer_string_).  std::to_string(int) of the (never
   negative) status_ is the model's to_dec_string.
   The same terms carry the free functions header_field::to_header(name, value), content_length(size) and
   chunked_encoding() - { return e; } is XSeq (XInit e) XReturn; the string-valued parameters are numbered like members,
   the size_t parameter sits in the numeric slot (XNumDec), the named constants are those of the regenerated Gen_Tables. *)
Inductive xexp :=
  | XMem (k : nat)                           (* a std::string member of *this *)
  | XChr (c : byte)                          (* 'c' *)
  | XLit (s : str)                           (* "..." *)
  | XCrLf                                    (* CRLF *)
  | XCat (a b : xexp)                        (* a + b *)
  | XHttpVersion                             (* http_version(major_version_, minor_version_) *)
  | XStatusDec                               (* std::to_string(status_) *)
  | XNumDec.                                 (* std::to_string(size), size the size_t parameter of a free function *)
Inductive xstmt :=
  | XInit (e : xexp)                         (* std::string output(e) *)
  | XAppend (e : xexp)                       (* output += e *)
  | XIfNotEmpty (k : nat) (t : xstmt)        (* if (!member_k.empty()) t *)
  | XSeq (a b : xstmt)
  | XReturn.

Record xenv := mk_xenv { xe_strs : list str; xe_major : byte; xe_minor : byte; xe_status : N }.

Fixpoint xeval (e : xenv) (x : xexp) : str :=
  match x with
  | XMem k => nth k (xe_strs e) []
  | XChr c => [c]
  | XLit s => s
  | XCrLf => CRLF
  | XCat a b => xeval e a ++ xeval e b
  | XHttpVersion => http_version (xe_major e) (xe_minor e)
  | XStatusDec => to_dec_string (xe_status e)
  | XNumDec => to_dec_string (xe_status e)
  end.

Fixpoint xexec (e : xenv) (st : xstmt) (out : str) : str * option str :=
  match st with
  | XInit x => (xeval e x, None)
  | XAppend x => (out ++ xeval e x, None)
  | XIfNotEmpty k t => match nth k (xe_strs e) [] with [] => (out, None) | _ => xexec e t out end
  | XSeq a b => match xexec e a out with (o1, None) => xexec e b o1 | r => r end
  | XReturn => (out, Some out)
  end.

Definition xrun (e : xenv) (body : xstmt) : option str := snd (xexec e body []).
