(* Properties_C17.v — C17: protected routes need valid credentials; any Authorization value is safe. *)
From Via Require Import M_Char M_Router M_Auth P_C17.
Local Open Scope N_scope.

(* base64 decode (encode x) = x for every byte string, of any length (line breaks included) *)
Theorem C17_roundtrip : forall x, Forall is_byte x -> b64_decode (b64_encode x) = x.
Proof. exact decode_encode. Qed.

(* totality: for every table of users and every set of header fields - hence every possible
   Authorization value - the decision is reached without an exception (both substr calls are in
   range), and the protected branch of the router never throws *)
Theorem C17_total : forall users headers, basic_is_valid users headers <> AuthThrow.
Proof. exact basic_never_throws. Qed.

(* the handler runs iff the authenticator accepts; otherwise 401 with the challenge; no throw *)
Theorem C17_decision : forall realm users headers,
  (authenticate_route realm users headers = PRun <-> basic_is_valid users headers = AuthOk true) /\
  (basic_is_valid users headers = AuthOk false ->
     authenticate_route realm users headers = PUnauthorised (basic_challenge realm)) /\
  authenticate_route realm users headers <> PThrow.
Proof. exact route_decision. Qed.

(* accepted only if the decoded value is user ":" password of a registered pair ... *)
Theorem C17_accepts_only_registered : forall users headers,
  basic_is_valid users headers = AuthOk true ->
  exists a pos u p,
    assoc hf_LC_AUTHORIZATION headers = Some a /\ find_sub tok_BASIC a = Some pos /\
    b64_decode (skipn (pos + 6) a) = u ++ 58 :: p /\ ~ In 58 u /\ assoc u users = Some p.
Proof. exact basic_accepts_only_registered. Qed.

(* ... and the base64 of every registered user:password is accepted (empty password and ':' in the
   password included; the user name cannot contain ':') *)
Theorem C17_accepts_registered : forall users u p,
  assoc u users = Some p -> ~ In 58 u -> Forall is_byte (u ++ 58 :: p) ->
  basic_is_valid users [(hf_LC_AUTHORIZATION, basic_header u p)] = AuthOk true.
Proof. exact basic_accepts_registered. Qed.

Theorem C17_challenge_names_realm : forall realm, realm <> [] ->
  basic_challenge realm = tok_BASIC ++ tok_REALM ++ tok_QUOTE ++ realm ++ tok_QUOTE.
Proof. exact challenge_names_realm. Qed.

(* non-vacuity and the historical failing inputs *)
Example C17_example_long_roundtrip :   (* 60 bytes: the encoding contains a line break *)
  let x := map N.of_nat (seq 0 60) in
  In 10 (b64_encode x) /\ b64_decode (b64_encode x) = x.
Proof. vm_compute. split; [|reflexivity]. do 76 right. left. reflexivity. Qed.

Example C17_example_scheme_only :       (* "Basic" alone: five characters *)
  basic_is_valid [([97], [98])] [(hf_LC_AUTHORIZATION, tok_BASIC)] = AuthOk false.
Proof. vm_compute. reflexivity. Qed.

Example C17_example_all_padding : b64_decode [61; 61; 61; 61] = [].
Proof. vm_compute. reflexivity. Qed.

Example C17_example_accept :
  basic_is_valid [([117], [])] [(hf_LC_AUTHORIZATION, basic_header [117] [])] = AuthOk true.
Proof. vm_compute. reflexivity. Qed.

Print Assumptions C17_roundtrip.
Print Assumptions C17_total.
Print Assumptions C17_accepts_only_registered.
Print Assumptions C17_accepts_registered.
