(* Properties_C13b.v — C13, connection level: a split response is refused by the send overloads. *)
From Via Require Import M_Char M_Encode M_Parse M_Receive M_Server P_Server.
Local Open Scope N_scope.

Theorem C13_send_refuses_split_response : forall o w c rp,
  tx_response_is_valid
    (tx_response_of_reason (match reason_phrase (rp_status rp) with [] => custom_reason | _ => [] end) (rp_status rp) (rp_hdrs rp)) = false ->
  (rp_ov rp = 0 \/ rp_ov rp = 1 \/ rp_ov rp = 2) ->
  snd (app_respond o w c rp) = [LSend (c_id c) 0 false].
Proof. exact split_response_refused. Qed.

Theorem C13_split_headers_invalid : forall reason st hs,
  are_headers_split hs = true -> tx_response_is_valid (tx_response_of_reason reason st hs) = false.
Proof. exact split_headers_make_invalid. Qed.

Print Assumptions C13_send_refuses_split_response.
