(* Properties_C15.v — C15: Expect: 100-continue is answered before the server waits for the body. *)
From Via Require Import M_Char M_Encode M_Parse M_Receive M_Server P_Server.
From Via Require Import M_Imp M_Query Gen_Parse P_Query.
From Via Require Import M_Loop M_Hdr M_Msg M_Chunk M_Recv P_Imp P_Loop P_Hdr P_Msg P_Frag P_C05 P_C06b P_Chunk P_Recv.
Local Open Scope N_scope.

Theorem C15_at_most_one_continue_content_length : forall cfg rp v b,
  rv_continue_sent v = true -> snd (receive_cl cfg rp v b) <> RX_EXPECT_CONTINUE.
Proof. exact no_second_continue_cl. Qed.

Theorem C15_at_most_one_continue_chunked : forall cfg rp v b,
  rv_continue_sent v = true -> snd (receive_chunked cfg rp v b) <> RX_EXPECT_CONTINUE.
Proof. exact no_second_continue_chunked. Qed.

Theorem C15_none_for_http_1_0 : forall q,
  is_http_1_0_or_earlier (rl_major (rq_line q)) (rl_minor (rq_line q)) = true -> rq_expect_continue q = false.
Proof. exact no_continue_for_http_1_0. Qed.

(* a Content-Length request whose head alone has arrived asks for the interim response *)
Example C15_example_content_length :
  let cfg := mk_rcfg (mk_limits 8190 8 100 65534 1024 8 65534 65534 false) 1048576 1048576 true true false in
  let head := [80;79;83;84;32;47;32;72;84;84;80;47;49;46;49;13;10;72;111;115;116;58;32;104;13;10;
               67;111;110;116;101;110;116;45;76;101;110;103;116;104;58;32;53;13;10;
               69;120;112;101;99;116;58;32;49;48;48;45;99;111;110;116;105;110;117;101;13;10;13;10] in
  snd (receive cfg (rv_init cfg) head) = RX_EXPECT_CONTINUE.
Proof. vm_compute. reflexivity. Qed.

Print Assumptions C15_at_most_one_continue_content_length.

(* ---- the tie to the source, as a theorem ----
   The queries on a received request are translated from clang's AST on every run (translate/parse.py -> Gen_Parse.v,
   terms of M_Query.v: functions of the request line as M_Imp expressions over its members; queries of the header block
   as "which header, which token, what a hit means", their common frame - look up, false if empty, lower-case, search -
   checked by the translator).  The model's decision is, for EVERY received request, the translated one. *)
Theorem C15_expect_continue_is_the_source : forall q, rq_ev q rq_expect_continue_src = rq_expect_continue q.
Proof. exact rq_expect_continue_is_the_source. Qed.
Theorem C15_is_chunked_is_the_source : forall q, rq_ev q rq_is_chunked_src = hd_is_chunked (rq_headers q).
Proof. exact rq_is_chunked_is_the_source. Qed.
Print Assumptions C15_expect_continue_is_the_source.
Print Assumptions C15_is_chunked_is_the_source.

(* the function that decides the interim response is the translated source as a whole (see Properties_C02.v) *)
Theorem C15_receive_is_the_source : forall cfg v buf fuel,
  body_inv v ->
  hd_ok (rq_headers (rv_req v)) -> rc_inv (c_lim cfg) (rv_chunk v) -> hd_ok (rc_trailers (rv_chunk v)) ->
  small (ck_max (rc_hdr (rv_chunk v))) -> small (c_max_content cfg) -> small (nlen (rv_body v)) ->
  (length buf + 2 <= fuel)%nat ->
  rrun (rl_lim (c_lim cfg)) (fl_lim (c_lim cfg)) (hd_lim (c_lim cfg)) (ck_lim (c_lim cfg)) (rcode_of (c_lim cfg))
       (c_max_content cfg) (c_translate_head cfg) (c_concat cfg) rv_clear_src fuel rv_receive_src (rv_store v) buf =
  (let '(v', rest, r) := receive cfg v buf in
   match rx_of r with Some c => Some (c, rv_store v', rest) | None => None end).
Proof. exact receive_is_the_source. Qed.
Print Assumptions C15_receive_is_the_source.
