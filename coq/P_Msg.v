(* P_Msg.v — the hand-written models of rx_request::parse and rx_response::parse (M_Receive.rq_parse, rp_parse) compute,
   for every state of the message and every input, what the bodies of the C++ functions compute - the bodies as
   translated from clang's AST on this run (Gen_Parse.rq_parse_src, rs_parse_src), under the meaning of M_Msg.v, whose
   calls run the translated functions of the start line and of the header block (P_Loop.v, P_Hdr.v). *)
From Via Require Import M_Char M_Parse M_Receive M_Imp M_Loop M_Hdr M_Msg Gen_Parse P_Imp P_Loop P_Frag P_Hdr P_Term P_TermC.
From Coq Require Import List NArith Bool Lia.
Import ListNotations.
Local Open Scope N_scope.

Ltac mstep := cbn [negb mexec meval m_store m_in ms_line ms_hdr ms_valid lc_valid lc_pc lc_parse hc_field hc_parse hc_valid is_done].

Definition hd_code_of (L : limits) : hdr_code := mk_hdc (fl_code_of L) hd_parse_src hd_valid_src hd_clear_src hd_fail_src.

(* ---- rx_request ---- *)
Definition rq_store (q : rx_request) : mstore := mk_ms (rl_store (rq_line q)) (hd_store (rq_headers q)) (b2n (rq_valid q)).
Definition rl_code_of (L : limits) : line_code := mk_lnc (rl_src L) rl_parse_src rl_valid_src rl_clear_src rl_fail_src.

Lemma hd_valid_eval L fuel h buf :
  heval (fl_lim L) (hd_lim L) (fl_code_of L) fuel hd_valid_src (mk_hst (hd_store h) buf) = Some (hd_valid h, mk_hst (hd_store h) buf).
Proof. destruct h as [flds f v fa cr len]; destruct v; reflexivity. Qed.

Theorem rq_parse_is_the_source L q buf fuel : hd_ok (rq_headers q) -> (length buf + 2 <= fuel)%nat ->
  mrun (rl_lim L) (fl_lim L) (hd_lim L) (rl_code_of L) (hd_code_of L) fuel rq_parse_src (rq_store q) buf =
  Some (let '(q', rest, p) := rq_parse L q buf in (is_done p, rq_store q', rest)).
Proof.
  intros Hok Hf. destruct q as [l h v]. unfold mrun, rq_parse_src, rq_parse, rq_store.
  cbn [rq_line rq_headers rq_valid] in *.
  unfold rl_code_of, hd_code_of. mstep.
  replace (fst (beval (rl_lim L) 0 rl_valid_src (rl_store l))) with (rl_valid l)
    by (destruct l as [m u ma mi st ws vl f]; destruct vl; reflexivity).
  assert (Hl : (length buf < fuel)%nat) by lia.
  destruct (rl_valid l) eqn:Ev; mstep.
  - (* the line is already valid *)
    rewrite hd_valid_eval. destruct (hd_valid h) eqn:Eh; mstep.
    + destruct v; reflexivity.
    + rewrite (hd_parse_is_the_source L h buf fuel Hok Hf).
      destruct (hd_parse L h buf) as [[h1 rest] p]. destruct p; mstep; try reflexivity; destruct v; reflexivity.
  - rewrite (rl_parse_is_the_source L l buf fuel Hl).
    destruct (rl_parse L l buf) as [[l1 b1] r1] eqn:Ep.
    pose proof (rl_parse_len L buf l l1 b1 r1 Ep) as Hlen.
    destruct r1; mstep; try reflexivity.
    rewrite hd_valid_eval. destruct (hd_valid h) eqn:Eh; mstep.
    + destruct v; reflexivity.
    + rewrite (hd_parse_is_the_source L h b1 fuel Hok) by lia.
      destruct (hd_parse L h b1) as [[h1 rest] p]. destruct p; mstep; try reflexivity; destruct v; reflexivity.
Qed.

(* ---- rx_response ---- *)
Definition rp_store (q : rx_response) : mstore := mk_ms (sl_store (rp_line q)) (hd_store (rp_headers q)) (b2n (rp_valid q)).
Definition sl_code_of (L : limits) : line_code := mk_lnc (sl_src L) sl_parse_src sl_valid_src sl_clear_src sl_fail_src.

Theorem rp_parse_is_the_source L q buf fuel : hd_ok (rp_headers q) -> (length buf + 2 <= fuel)%nat ->
  mrun (sl_lim L) (fl_lim L) (hd_lim L) (sl_code_of L) (hd_code_of L) fuel rs_parse_src (rp_store q) buf =
  Some (let '(q', rest, p) := rp_parse L q buf in (is_done p, rp_store q', rest)).
Proof.
  intros Hok Hf. destruct q as [l h v]. unfold mrun, rs_parse_src, rp_parse, rp_store.
  cbn [rp_line rp_headers rp_valid] in *.
  unfold sl_code_of, hd_code_of. mstep.
  replace (fst (beval (sl_lim L) 0 sl_valid_src (sl_store l))) with (sl_valid l)
    by (destruct l as [st rs ma mi s ws sr vl f]; destruct vl; reflexivity).
  assert (Hl : (length buf < fuel)%nat) by lia.
  destruct (sl_valid l) eqn:Ev; mstep.
  - rewrite hd_valid_eval. destruct (hd_valid h) eqn:Eh; mstep.
    + destruct v; reflexivity.
    + rewrite (hd_parse_is_the_source L h buf fuel Hok Hf).
      destruct (hd_parse L h buf) as [[h1 rest] p]. destruct p; mstep; try reflexivity; destruct v; reflexivity.
  - rewrite (sl_parse_is_the_source L l buf fuel Hl).
    destruct (sl_parse L l buf) as [[l1 b1] r1] eqn:Ep.
    pose proof (sl_parse_len L buf l l1 b1 r1 Ep) as Hlen.
    destruct r1; mstep; try reflexivity.
    rewrite hd_valid_eval. destruct (hd_valid h) eqn:Eh; mstep.
    + destruct v; reflexivity.
    + rewrite (hd_parse_is_the_source L h b1 fuel Hok) by lia.
      destruct (hd_parse L h b1) as [[h1 rest] p]. destruct p; mstep; try reflexivity; destruct v; reflexivity.
Qed.

(* rx_request::clear(), rx_response::clear(): back to the model's initial message, whatever was received *)
Theorem rq_clear_is_the_source L fuel q inp :
  mexec (rl_lim L) (fl_lim L) (hd_lim L) (rl_code_of L) (hd_code_of L) fuel rq_clear_src (mk_mst (rq_store q) inp) =
  Some (LNormal, mk_mst (rq_store rq_init) inp).
Proof.
  destruct q as [l h v]. unfold rq_clear_src, rq_store, rl_code_of, hd_code_of.
  cbn [mexec meval m_store m_in ms_line ms_hdr ms_valid lc_clear hc_clear hc_field rq_line rq_headers rq_valid].
  rewrite rl_clear_is_the_source, hd_clear_is_the_source. reflexivity.
Qed.
Theorem rp_clear_is_the_source L fuel q inp :
  mexec (sl_lim L) (fl_lim L) (hd_lim L) (sl_code_of L) (hd_code_of L) fuel rs_clear_src (mk_mst (rp_store q) inp) =
  Some (LNormal, mk_mst (rp_store rp_init) inp).
Proof.
  destruct q as [l h v]. unfold rs_clear_src, rp_store, sl_code_of, hd_code_of.
  cbn [mexec meval m_store m_in ms_line ms_hdr ms_valid lc_clear hc_clear hc_field rp_line rp_headers rp_valid].
  rewrite sl_clear_is_the_source, hd_clear_is_the_source. reflexivity.
Qed.
