(* Properties_C14.v — C14: HEAD responses carry the GET headers and never a body. *)
From Via Require Import M_Char M_Encode M_Parse M_Receive M_Server P_Server.
From Via Require Import M_Imp M_Query Gen_Parse P_Query.
From Via Require Import M_Str P_Str.
Local Open Scope N_scope.

Theorem C14_head_same_header_no_body : forall o w c rp hdr body,
  rp_ov rp = 1 ->
  tx_response_is_valid (tx_response_of_reason (match reason_phrase (rp_status rp) with [] => custom_reason | _ => [] end) (rp_status rp) (rp_hdrs rp)) = true ->
  body = body_of (w_reqno w) (rp_len rp) ->
  hdr = response_message (with_version c (tx_response_of_reason (match reason_phrase (rp_status rp) with [] => custom_reason | _ => [] end) (rp_status rp) (rp_hdrs rp))) (nlen body) ->
  app_respond o w c rp =
  (let '(w1, l1, ok) :=
     if rv_is_head (c_rx c) || negb (content_permitted (rp_status rp))
     then http_send o w (set_tx c (c_rx c) hdr (c_tx_body c) (c_keep c)) [SHeader] (rp_status rp =? code_CONTINUE)
     else http_send o w (set_tx c (c_rx c) hdr body (c_keep c)) [SHeader; SBody] (rp_status rp =? code_CONTINUE) in
   (w1, l1 ++ [LSend (c_id c) 0 ok])).
Proof. exact head_response_same_header. Qed.

Print Assumptions C14_head_same_header_no_body.

(* ---- the tie to the source, as a theorem ----
   The queries on a received request are translated from clang's AST on every run (translate/parse.py -> Gen_Parse.v,
   terms of M_Query.v: functions of the request line as M_Imp expressions over its members; queries of the header block
   as "which header, which token, what a hit means", their common frame - look up, false if empty, lower-case, search -
   checked by the translator).  The model's decision is, for EVERY received request, the translated one. *)
Theorem C14_is_head_is_the_source : forall q, rq_ev q rq_is_head_src = rq_is_head q.
Proof. exact rq_is_head_is_the_source. Qed.
Print Assumptions C14_is_head_is_the_source.

(* the head of a HEAD response is built by the translated tx_response::message (see Properties_C04.v) *)
Theorem C14_response_message_is_the_source : forall r n,
  srun (mk_senv (response_line_string r) (rs_headers r) (rs_status r) n) tx_response_message_src = Some (response_message r n).
Proof. exact response_message_is_the_source. Qed.
Print Assumptions C14_response_message_is_the_source.
