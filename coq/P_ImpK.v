(* P_ImpK.v — chunk_header::parse_char and clear: the hand-written model computes, for every state, every character and every limit
   configuration, exactly what the body of the C++ function computes - the body as translated from clang's AST on this
   run (Gen_Parse.v), under the meaning of statements defined in M_Imp.v. *)
From Via Require Import M_Char M_Parse M_Imp Gen_Parse.
From Coq Require Import List NArith Bool Lia.
Import ListNotations.
Local Open Scope N_scope.
Arguments nlen : simpl never.
Arguments snoc : simpl never.
From Via Require Import P_Imp0.
From Via Require Export P_ImpK0.
From Via Require Import P_ImpKs P_ImpKl.


Theorem ck_parse_char_is_the_source L k c :
  run_body (ck_lim L) c (ck_src L) (ck_store k) = (ck_store (fst (ck_parse_char L k c)), snd (ck_parse_char L k c)).
Proof.
  unfold ck_src. destruct (strict_crlf L) eqn:Es.
  - exact (ck_parse_char_is_the_source_strict L k c Es).
  - exact (ck_parse_char_is_the_source_lax L k c Es).
Qed.


(* chunk_header::clear keeps the configured maximum chunk size and resets everything else *)
Theorem ck_clear_is_the_source lim c k : exec lim c ck_clear_src (ck_store k) = (ONormal, ck_store (ck_init (ck_max k))).
Proof. destruct k; reflexivity. Qed.
