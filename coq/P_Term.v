(* P_Term.v — the read loop of a connection terminates: for every receiver state reachable from a fresh
   connection and every buffer, each call of receive() either ends the loop (INVALID), consumes at least one
   byte, or completes a request whose head had been parsed before (and the dispatch then clears the head).
   Hence 2 * |buffer| + 1 calls always suffice and the fuel of rx_loop (2 * |buffer| + 4) is never exhausted. *)
From Via Require Import M_Char M_Parse M_Receive P_Parse P_Frag.
From Coq Require Import Lia ZifyBool ZifyNat ZifyN.
Local Open Scope N_scope.
Arguments nlen : simpl never.
Arguments snoc : simpl never.

Ltac fin := cbn [length]; split; [lia | first [discriminate | intros _; lia]].

(* ---- no parser hands back more than it was given; a completed element has consumed its last byte ---- *)
Lemma rl_parse_len L buf : forall r r1 rest res, rl_parse L r buf = (r1, rest, res) -> (length rest <= length buf)%nat.
Proof.
  induction buf as [|c t IH]; intros r r1 rest res H; cbn [rl_parse] in H.
  - inversion H; subst. lia.
  - destruct (rl_done r); [inversion H; subst; lia|].
    destruct (rl_parse_char L r c) as [r2 ok]. destruct ok.
    + apply IH in H. cbn [length]. lia.
    + inversion H; subst. cbn [length]. lia.
Qed.

Lemma ck_loop_len L buf : forall k k1 rest res, ck_loop L k buf = (k1, rest, res) -> (length rest <= length buf)%nat.
Proof.
  induction buf as [|c t IH]; intros k k1 rest res H; cbn [ck_loop] in H.
  - inversion H; subst. lia.
  - destruct (ck_done k); [inversion H; subst; lia|].
    destruct (ck_parse_char L k c) as [k2 ok]. destruct ok.
    + apply IH in H. cbn [length]. lia.
    + inversion H; subst. cbn [length]. lia.
Qed.

Lemma ck_parse_len L k buf k1 rest res : ck_parse L k buf = (k1, rest, res) -> (length rest <= length buf)%nat.
Proof. unfold ck_parse. destruct (ck_fail k); [intros H; inversion H; subst; lia | apply ck_loop_len]. Qed.

Lemma hd_blank_line_len h buf h1 rest r : hd_blank_line h buf = (h1, rest, r) ->
  (length rest <= length buf)%nat /\ (r = Done -> (length rest < length buf)%nat).
Proof.
  unfold hd_blank_line. destruct buf as [|c t]; [intros H; inversion H; subst; split; [lia | discriminate]|].
  destruct (negb (hd_cr h) && (c =? 13)).
  - destruct t as [|d t1]; [intros H; inversion H; subst; cbn [length]; split; [lia | discriminate]|].
    destruct (d =? 10); intros H; inversion H; subst; cbn [length]; fin.
  - destruct (c =? 10); intros H; inversion H; subst; cbn [length]; fin.
Qed.

Lemma hd_loop_len L : forall n h buf h1 rest r, hd_loop n L h buf = (h1, rest, r) ->
  (length rest <= length buf)%nat /\ (r = Done -> (length rest < length buf)%nat).
Proof.
  induction n as [|n IH]; intros h buf h1 rest r H; cbn [hd_loop] in H.
  - inversion H; subst. split; [lia | discriminate].
  - match type of H with (if ?e then _ else _) = _ => destruct e end; [|exact (hd_blank_line_len _ _ _ _ _ H)].
    destruct (fl_parse L (hd_field h) buf) as [[f1 rest1] r1] eqn:Ep.
    destruct (fl_parse_props L _ _ _ _ _ Ep) as [A _].
    destruct r1.
    + destruct rest1 as [|d rest']; [inversion H; subst; split; [cbn [length]; lia | discriminate]|].
      match type of H with (if ?e then _ else _) = _ => destruct e end.
      * inversion H; subst. split; [exact A | discriminate].
      * destruct (IH _ _ _ _ _ H) as [B C]. split; [lia | intros E; specialize (C E); lia].
    + inversion H; subst. split; [exact A | destruct (fl_fail f1); discriminate].
    + inversion H; subst. split; [exact A | destruct (fl_fail f1); discriminate].
Qed.

Lemma hd_parse_len L h buf h1 rest r : hd_parse L h buf = (h1, rest, r) ->
  (length rest <= length buf)%nat /\ (r = Done -> (length rest < length buf)%nat).
Proof.
  unfold hd_parse. destruct (hd_fail h); [intros H; inversion H; subst; split; [lia | discriminate]|]. apply hd_loop_len.
Qed.

Lemma rc_data_end_len L k buf k1 rest r : rc_data_end L k buf = (k1, rest, r) ->
  (length rest <= length buf)%nat /\ (r = Done -> (length rest < length buf)%nat).
Proof.
  unfold rc_data_end. destruct buf as [|c t]; [intros H; inversion H; subst; split; [lia | discriminate]|].
  destruct (rc_cr k).
  - destruct (c =? 10); intros H; inversion H; subst; cbn [length]; fin.
  - destruct (c =? 13).
    + destruct t as [|d t1]; [intros H; inversion H; subst; cbn [length]; split; [lia | discriminate]|].
      destruct (d =? 10); intros H; inversion H; subst; cbn [length]; fin.
    + destruct (strict_crlf L); [intros H; inversion H; subst; split; [lia | discriminate]|].
      destruct (c =? 10); intros H; inversion H; subst; cbn [length]; fin.
Qed.

Lemma rc_parse_len L k buf k1 rest r : rc_parse L k buf = (k1, rest, r) ->
  (length rest <= length buf)%nat /\ (r = Done -> (length rest < length buf)%nat).
Proof.
  unfold rc_parse. destruct (rc_fail k); [intros H; inversion H; subst; split; [lia | discriminate]|].
  destruct (if ck_valid (rc_hdr k) then (rc_hdr k, buf, Done) else ck_parse L (rc_hdr k) buf) as [[h1 buf1] r1] eqn:Ek.
  assert (A : (length buf1 <= length buf)%nat).
  { destruct (ck_valid (rc_hdr k)); [inversion Ek; subst; lia | exact (ck_parse_len _ _ _ _ _ _ Ek)]. }
  destruct r1.
  - destruct (ck_size h1 =? 0).
    + destruct (hd_parse L _ buf1) as [[t1 buf2] r2] eqn:Eh. destruct (hd_parse_len _ _ _ _ _ _ Eh) as [B C].
      destruct r2; intros H; inversion H; subst; (split; [lia | first [discriminate | intros _; specialize (C eq_refl); lia]]).
    + cbn [rc_data].
      match goal with |- context [if ?e then _ else _] => destruct e end.
      * intros H. destruct (rc_data_end_len _ _ _ _ _ _ H) as [B C].
        pose proof (skipn_length (N.to_nat (ck_size h1 - nlen (rc_data k))) buf1) as Hs.
        split; [lia | intros E; specialize (C E); lia].
      * intros H; inversion H; subst. split; [cbn [length]; lia | discriminate].
  - intros H; inversion H; subst. split; [exact A | discriminate].
  - intros H; inversion H; subst. split; [exact A | discriminate].
Qed.

(* a head that completes in this call has consumed its final line feed *)
Lemma rq_parse_len L q buf q1 rest : hd_valid (rq_headers q) = false ->
  rq_parse L q buf = (q1, rest, Done) -> (length rest < length buf)%nat.
Proof.
  intros Hv. unfold rq_parse.
  destruct (if rl_valid (rq_line q) then (rq_line q, buf, Done) else rl_parse L (rq_line q) buf) as [[l1 b1] r1] eqn:El.
  assert (A : (length b1 <= length buf)%nat).
  { destruct (rl_valid (rq_line q)); [inversion El; subst; lia | exact (rl_parse_len _ _ _ _ _ _ El)]. }
  destruct r1; try (intros H; inversion H; fail).
  rewrite Hv. destruct (hd_parse L (rq_headers q) b1) as [[h1 b2] r2] eqn:Eh.
  destruct (hd_parse_len _ _ _ _ _ _ Eh) as [B C].
  destruct r2; intros H; inversion H; subst. specialize (C eq_refl). lia.
Qed.

(* ---- the invariant: a head that is not complete has no complete header block ---- *)
Definition rv_inv3 (v : receiver) : Prop := rq_valid (rv_req v) = false -> hd_valid (rq_headers (rv_req v)) = false.

Lemma rv_inv3_init cfg : rv_inv3 (rv_init cfg). Proof. intros _. reflexivity. Qed.
Lemma rv_inv3_clear v : rv_inv3 (rv_clear v). Proof. intros _. reflexivity. Qed.

Lemma rl_parse_more_fail_headers L q buf q1 rest r : r <> Done -> rq_parse L q buf = (q1, rest, r) ->
  rq_valid q1 = rq_valid q /\
  (hd_valid (rq_headers q1) = hd_valid (rq_headers q) \/ hd_fail (rq_headers q1) = true).
Proof.
  intros Hr. unfold rq_parse.
  destruct (if rl_valid (rq_line q) then (rq_line q, buf, Done) else rl_parse L (rq_line q) buf) as [[l1 b1] r1].
  destruct r1.
  - destruct (if hd_valid (rq_headers q) then (rq_headers q, b1, Done) else hd_parse L (rq_headers q) b1) as [[h1 b2] r2] eqn:Eh.
    destruct r2; intros H; inversion H; subst; try congruence; cbn [rq_valid rq_headers]; split; try reflexivity.
    + destruct (hd_valid (rq_headers q)) eqn:Ehv; [inversion Eh|]. left. rewrite (hd_parse_more_valid _ _ _ _ _ Eh). exact Ehv.
    + destruct (hd_valid (rq_headers q)); [inversion Eh|]. right. exact (hd_parse_fail _ _ _ _ _ Eh).
  - intros H; inversion H; subst. cbn. split; [reflexivity | left; reflexivity].
  - intros H; inversion H; subst. cbn. split; [reflexivity | left; reflexivity].
Qed.

(* what one call does to the loop's measure *)
Definition step_ok (v : receiver) (buf : str) (v1 : receiver) (rest : str) (r : rx) : Prop :=
  r = RX_INVALID \/ r = RX_UB \/ (length rest < length buf)%nat \/
  (rq_valid (rv_req v) = true /\ r = RX_VALID /\ hd_is_chunked (rq_headers (rv_req v1)) = false /\ (length rest <= length buf)%nat).

Lemma nlen_length (s : str) : nlen s = N.of_nat (length s). Proof. reflexivity. Qed.

Lemma receive_cl_step cfg rp v1 b1 v3 rest r : b1 <> [] -> receive_cl cfg rp v1 b1 = (v3, rest, r) ->
  r = RX_INVALID \/ r = RX_UB \/ (length rest < length b1)%nat \/
  (r = RX_VALID /\ rq_headers (rv_req v3) = rq_headers (rv_req v1) /\ (length rest <= length b1)%nat).
Proof.
  intros Hne. unfold receive_cl, invalid. cbv zeta.
  match goal with |- context [if ?e then _ else _] => destruct e end; [intros H; inversion H; subst; left; reflexivity|].
  destruct (hd_content_length (rq_headers (rv_req v1))) as [n|]; [|intros H; inversion H; subst; left; reflexivity].
  match goal with |- context [if ?e then _ else _] => destruct e end; [intros H; inversion H; subst; left; reflexivity|].
  match goal with |- context [if ?e then _ else _] => destruct e end; [intros H; inversion H; subst; left; reflexivity|].
  set (v2 := if rq_is_trace (rv_req v1) && _ then _ else v1).
  set (required := (Z.of_N n - Z.of_N (nlen (rv_body v2)))%Z).
  match goal with |- context [if ?e then _ else _] => destruct e eqn:Eub end; [intros H; inversion H; subst; right; left; reflexivity|].
  destruct (required <? Z.of_N (nlen b1))%Z eqn:Elt.
  - cbv iota beta.
    pose proof (skipn_length (Z.to_nat required) b1) as Hs.
    destruct (nlen _ =? n) eqn:Efull.
    + intros H; inversion H; subst. right; right; right. cbn [rv_req].
      split; [reflexivity | split; [|lia]].
      destruct (rq_is_head (rv_req v1) && c_translate_head cfg); reflexivity.
    + assert (Hpos : (0 < required)%Z).
      { destruct (Z.eq_dec required 0) as [E0|E0].
        - rewrite E0 in Efull. cbn [Z.to_nat firstn] in Efull. rewrite app_nil_r in Efull. unfold required in E0. lia.
        - lia. }
      rewrite nlen_length in Elt.
      match goal with |- context [if ?e then _ else _] => destruct e end; intros H; inversion H; subst;
        right; right; left; lia.
  - cbv iota beta.
    destruct (nlen _ =? n).
    + intros H; inversion H; subst. right; right; left. destruct b1; [congruence | cbn [length]; lia].
    + match goal with |- context [if ?e then _ else _] => destruct e end; intros H; inversion H; subst;
        right; right; left; (destruct b1; [congruence | cbn [length]; lia]).
Qed.

Lemma receive_chunked_step cfg v1 b1 v3 rest r : b1 <> [] -> receive_chunked cfg false v1 b1 = (v3, rest, r) ->
  r = RX_INVALID \/ (length rest < length b1)%nat.
Proof.
  intros Hne. unfold receive_chunked, invalid. cbv zeta. cbn [andb].
  destruct (rc_parse _ _ b1) as [[k1 b2] r2] eqn:Ep. destruct (rc_parse_len _ _ _ _ _ _ Ep) as [A B].
  assert (Hb : forall x, match r2 with Done => false | _ => nonempty b2 || x end = false -> (length b2 < length b1)%nat).
  { intros x. destruct r2; [intros _; apply B; reflexivity | |];
      (destruct b2; [intros _; destruct b1; [congruence | cbn [length]; lia] | discriminate]). }
  match goal with |- context [if ?e then _ else _] => destruct e eqn:Ef end; [intros H; inversion H; subst; left; reflexivity|].
  specialize (Hb _ Ef).
  repeat match goal with |- context [if ?e then _ else _] => destruct e end; intros H; inversion H; subst;
    first [left; reflexivity | right; exact Hb].
Qed.

Lemma receive_chunked_len cfg rp v1 b1 v3 rest r : receive_chunked cfg rp v1 b1 = (v3, rest, r) -> (length rest <= length b1)%nat.
Proof.
  unfold receive_chunked, invalid. cbv zeta.
  match goal with |- context [if ?e then _ else _] => destruct e end; [intros H; inversion H; subst; lia|].
  match goal with |- context [if ?e then _ else _] => destruct e end; [intros H; inversion H; subst; lia|].
  destruct (rc_parse _ _ b1) as [[k1 b2] r2] eqn:Ep. destruct (rc_parse_len _ _ _ _ _ _ Ep) as [A B].
  repeat match goal with |- context [if ?e then _ else _] => destruct e end; intros H; inversion H; subst; exact A.
Qed.

Lemma receive_cl_len cfg rp v1 b1 v3 rest r : receive_cl cfg rp v1 b1 = (v3, rest, r) -> (length rest <= length b1)%nat.
Proof.
  unfold receive_cl, invalid. cbv zeta.
  match goal with |- context [if ?e then _ else _] => destruct e end; [intros H; inversion H; subst; lia|].
  destruct (hd_content_length (rq_headers (rv_req v1))) as [n|]; [|intros H; inversion H; subst; lia].
  match goal with |- context [if ?e then _ else _] => destruct e end; [intros H; inversion H; subst; lia|].
  match goal with |- context [if ?e then _ else _] => destruct e end; [intros H; inversion H; subst; lia|].
  match goal with |- context [if ?e then _ else _] => destruct e end; [intros H; inversion H; subst; lia|].
  match goal with |- context [if ?e then _ else _] => destruct e end; cbv iota beta;
    repeat match goal with |- context [if ?e then _ else _] => destruct e end; intros H; inversion H; subst;
    try (cbn [length]; lia); rewrite skipn_length; lia.
Qed.

Theorem receive_step cfg v buf v1 rest r : rv_inv3 v -> buf <> [] -> receive cfg v buf = (v1, rest, r) ->
  step_ok v buf v1 rest r /\ rv_inv3 v1.
Proof.
  intros Hi Hne. unfold receive. cbv zeta.
  destruct (rq_valid (rv_req v)) eqn:Ev; cbn [negb].
  - rewrite rv_eta. unfold receive_body.
    destruct (rq_missing_host (rv_req v)); [intros H; inversion H; subst; split; [left; reflexivity | intros E; cbn in E; congruence]|].
    destruct (hd_is_chunked (rq_headers (rv_req v))) eqn:Ech; cbn [negb].
    + intros H. split.
      * destruct (receive_chunked_step _ _ _ _ _ _ Hne H) as [-> | Hlt]; [left; reflexivity | right; right; left; exact Hlt].
      * intros E. (* the request is kept or cleared *)
        revert H. unfold receive_chunked, invalid. cbv zeta. cbn [andb].
        destruct (rc_parse _ _ buf) as [[k1 b2] r2].
        repeat match goal with |- context [if ?e then _ else _] => destruct e end; intros H; inversion H; subst; cbn in E |- *; congruence.
    + intros H. split.
      * destruct (receive_cl_step _ _ _ _ _ _ _ Hne H) as [-> | [-> | [Hlt | [-> [Hh Hle]]]]];
          [left; reflexivity | right; left; reflexivity | right; right; left; exact Hlt|].
        right; right; right. split; [exact Ev | split; [reflexivity | split; [rewrite Hh; exact Ech | exact Hle]]].
      * intros E. revert H. unfold receive_cl, invalid. cbv zeta.
        repeat match goal with |- context [if ?c then _ else _] => destruct c | |- context [match ?c with Some _ => _ | None => _ end] => destruct c end;
          intros H; inversion H; subst; cbn in E |- *; congruence.
  - destruct (rq_parse (c_lim cfg) (rv_req v) buf) as [[q1 b1] r1] eqn:Ep.
    destruct r1.
    + pose proof (rq_parse_len _ _ _ _ _ (Hi Ev) Ep) as Hlt.
      pose proof (rq_parse_done_valid _ _ _ _ _ Ep) as Hq1.
      unfold receive_body. cbn [rv_req].
      destruct (rq_missing_host q1); [intros H; inversion H; subst; split; [left; reflexivity | intros E; cbn in E; congruence]|].
      destruct (negb (hd_is_chunked (rq_headers q1))).
      * intros H. pose proof (receive_cl_len _ _ _ _ _ _ _ H) as Hle. split; [right; right; left; lia|].
        intros E. revert H. unfold receive_cl, invalid. cbv zeta. cbn [rv_req rv_chunk rv_body rv_code rv_continue_sent rv_is_head].
        repeat match goal with |- context [if ?c then _ else _] => destruct c | |- context [match ?c with Some _ => _ | None => _ end] => destruct c end;
          intros H; inversion H; subst; cbn in E |- *; congruence.
      * intros H. pose proof (receive_chunked_len _ _ _ _ _ _ _ H) as Hle. split; [right; right; left; lia|].
        intros E. revert H. unfold receive_chunked, invalid. cbv zeta. cbn [rv_req rv_chunk rv_body rv_code rv_continue_sent rv_is_head].
        destruct (true && rq_expect_continue q1 && _); [intros H; inversion H; subst; cbn in E; congruence|].
        destruct (true && negb (c_concat cfg)); [intros H; inversion H; subst; cbn in E; congruence|].
        destruct (rc_parse _ _ b1) as [[k1 b2] r2].
        repeat match goal with |- context [if ?e then _ else _] => destruct e end; intros H; inversion H; subst; cbn in E |- *; congruence.
    + destruct (rl_parse_more_fail_headers _ _ _ _ _ More ltac:(discriminate) Ep) as [Hq Hh].
      unfold invalid. destruct (nonempty b1 || rl_fail (rq_line q1) || hd_fail (rq_headers q1)) eqn:Eb;
        intros H; inversion H; subst; (split; [|try apply rv_inv3_clear]).
      * left; reflexivity.
      * right; right; left. destruct rest; [destruct buf; [congruence | cbn [length]; lia] | discriminate].
      * intros _. cbn [rv_req]. destruct Hh as [Hh | Hh]; [rewrite Hh; exact (Hi Ev)|].
        rewrite Hh in Eb. rewrite Bool.orb_true_r in Eb. discriminate.
    + destruct (rl_parse_more_fail_headers _ _ _ _ _ Fail ltac:(discriminate) Ep) as [Hq Hh].
      unfold invalid. destruct (nonempty b1 || rl_fail (rq_line q1) || hd_fail (rq_headers q1)) eqn:Eb;
        intros H; inversion H; subst; (split; [|try apply rv_inv3_clear]).
      * left; reflexivity.
      * right; right; left. destruct rest; [destruct buf; [congruence | cbn [length]; lia] | discriminate].
      * intros _. cbn [rv_req]. destruct Hh as [Hh | Hh]; [rewrite Hh; exact (Hi Ev)|].
        rewrite Hh in Eb. rewrite Bool.orb_true_r in Eb. discriminate.
Qed.

Lemma dispatch_inv3 cfg v r : rv_inv3 v -> rv_inv3 (fst (dispatch_rx cfg v r)).
Proof.
  intros Hi. unfold dispatch_rx. destruct r.
  - apply rv_inv3_clear.
  - destruct (c_defer_continue cfg); exact Hi.
  - exact Hi.
  - destruct (negb (rq_is_trace (rv_req v))); [|apply rv_inv3_clear].
    destruct (hd_is_chunked (rq_headers (rv_req v)) && negb (c_concat cfg)); [exact Hi | apply rv_inv3_clear].
  - destruct (rc_is_last (rv_chunk v)); [apply rv_inv3_clear | exact Hi].
  - exact Hi.
Qed.

(* the loop's measure: two per byte still to be looked at, one for a head already parsed *)
Definition measure (v : receiver) (buf : str) : nat := (2 * length buf + (if rq_valid (rv_req v) then 1 else 0))%nat.

Lemma dispatch_valid_unchunked cfg v : hd_is_chunked (rq_headers (rv_req v)) = false ->
  rq_valid (rv_req (fst (dispatch_rx cfg v RX_VALID))) = false.
Proof.
  intros E. unfold dispatch_rx. rewrite E. cbn [andb]. destruct (negb (rq_is_trace (rv_req v))); reflexivity.
Qed.

Theorem rx_loop_terminates cfg : forall fuel v buf, rv_inv3 v -> (measure v buf < fuel)%nat ->
  let '(v', _, calls, oof) := rx_loop fuel cfg v buf in
  oof = false /\ rv_inv3 v' /\ (length calls <= measure v buf)%nat.
Proof.
  induction fuel as [|fuel IH]; intros v buf Hi Hm; [lia|].
  cbn [rx_loop]. destruct buf as [|c t]; [split; [reflexivity | split; [exact Hi | cbn [length]; lia]]|].
  destruct (receive cfg v (c :: t)) as [[v1 rest] r] eqn:Er.
  destruct (receive_step cfg v (c :: t) v1 rest r Hi ltac:(discriminate) Er) as [Hs Hi1].
  pose proof (dispatch_inv3 cfg v1 r Hi1) as Hi2.
  destruct (dispatch_rx cfg v1 r) as [v2 evs] eqn:Ed. cbn [fst] in Hi2.
  assert (Hstop : forall x : rx * N, (length [x] <= measure v (c :: t))%nat) by (intros x; unfold measure; cbn [length]; lia).
  assert (Hdec : r <> RX_INVALID -> r <> RX_UB -> (measure v2 rest < measure v (c :: t))%nat).
  { intros H1 H2. destruct Hs as [-> | [-> | [Hlt | [Hv [-> [Hch Hle]]]]]]; try congruence.
    - unfold measure. destruct (rq_valid (rv_req v2)), (rq_valid (rv_req v)); lia.
    - pose proof (dispatch_valid_unchunked cfg v1 Hch) as Hcl. rewrite Ed in Hcl. cbn [fst] in Hcl.
      unfold measure. rewrite Hcl, Hv. lia. }
  destruct r; try (split; [reflexivity | split; [exact Hi2 | apply Hstop]]);
    (specialize (Hdec ltac:(discriminate) ltac:(discriminate));
     specialize (IH v2 rest Hi2 ltac:(lia));
     destruct (rx_loop fuel cfg v2 rest) as [[[v3 evs'] calls] oof];
     destruct IH as [A [B C]]; split; [exact A | split; [exact B | cbn [length]; lia]]).
Qed.

Lemma measure_lt_fuel v buf : (measure v buf < loop_fuel buf)%nat.
Proof. unfold measure, loop_fuel. destruct (rq_valid (rv_req v)); lia. Qed.

(* every read of a connection: the loop ends by itself, after at most 2 * |read| + 1 calls of receive() *)
Theorem feed_terminates cfg : forall frags v, rv_inv3 v ->
  let '(v', _, calls, oof) := feed cfg v frags in
  oof = false /\ rv_inv3 v' /\ Forall2 (fun c f => (length c <= 2 * length f + 1)%nat) calls frags.
Proof.
  induction frags as [|f t IH]; intros v Hi; cbn [feed]; [split; [reflexivity | split; [exact Hi | constructor]]|].
  unfold read_loop.
  pose proof (rx_loop_terminates cfg (loop_fuel f) v f Hi (measure_lt_fuel v f)) as H1.
  destruct (rx_loop (loop_fuel f) cfg v f) as [[[v1 e1] c1] o1]. destruct H1 as [-> [Hi1 Hc]].
  specialize (IH v1 Hi1). destruct (feed cfg v1 t) as [[[v2 e2] c2] o2]. destruct IH as [-> [Hi2 Hf]].
  split; [reflexivity | split; [exact Hi2 | constructor; [|exact Hf]]].
  unfold measure in Hc. destruct (rq_valid (rv_req v)); lia.
Qed.

(* ---- fragmentation invariance without any mention of fuel ---- *)
Fixpoint cuts_fine (cfg : rcfg) (v : receiver) (frags : list str) : Prop :=
  match frags with
  | [] => True
  | f :: t =>
      let '(v1, e1, c1, _) := read_loop cfg v f in
      cuts_fine cfg v1 t /\
      (f = [] \/ t = [] \/ (ends_well c1 /\ no_reject c1 /\ loop_framed (loop_fuel f) cfg v f = true))
  end.

Lemma cuts_fine_ok cfg : forall frags v, rv_inv3 v -> cuts_fine cfg v frags -> cuts_ok cfg v frags.
Proof.
  induction frags as [|f t IH]; intros v Hi Hc; [exact I|].
  cbn [cuts_fine cuts_ok] in *. unfold read_loop in *.
  pose proof (rx_loop_terminates cfg (loop_fuel f) v f Hi (measure_lt_fuel v f)) as H1.
  destruct (rx_loop (loop_fuel f) cfg v f) as [[[v1 e1] c1] o1]. destruct H1 as [-> [Hi1 _]].
  destruct Hc as [Hct Hcase]. split; [reflexivity | split; [exact (IH v1 Hi1 Hct) | exact Hcase]].
Qed.

(* the reads of a connection, however the stream is cut, deliver what one read of the whole stream delivers *)
Theorem feed_is_one_read cfg frags v : rv_ok v -> rv_inv2 v -> rv_inv3 v -> cuts_fine cfg v frags ->
  exists c,
    read_loop cfg v (concat frags) =
    (fst (fst (fst (feed cfg v frags))), snd (fst (fst (feed cfg v frags))), c, false).
Proof.
  intros Hok Hi2 Hi3 Hc.
  destruct (feed_is_stream cfg frags v Hok Hi2 (cuts_fine_ok cfg frags v Hi3 Hc)) as [N [c HN]].
  unfold read_loop.
  pose proof (rx_loop_terminates cfg (loop_fuel (concat frags)) v (concat frags) Hi3 (measure_lt_fuel v _)) as H1.
  destruct (rx_loop (loop_fuel (concat frags)) cfg v (concat frags)) as [[[v' e'] c'] o'] eqn:El.
  destruct H1 as [-> _].
  pose proof (rx_loop_more_fuel cfg _ _ _ _ _ _ El N) as H2.
  specialize (HN (loop_fuel (concat frags))). rewrite Nat.add_comm in HN. rewrite HN in H2.
  inversion H2; subst. exists c'. reflexivity.
Qed.
