(* P_Frag.v — the header block parser does not depend on how its input is cut into reads:
   hd_parse (a ++ b) is hd_parse a followed, when a ran out, by hd_parse b.  (The line parsers have
   their own such lemmas in P_Parse.v; this file lifts them through message_headers::parse, whose loop
   keeps a completed line pending until it has seen the character that follows it.) *)
From Via Require Import M_Parse P_Parse.
From Coq Require Import Lia ZifyBool ZifyNat ZifyN.
Local Open Scope N_scope.
Arguments nlen : simpl never.
Arguments snoc : simpl never.

(* ---- field_line: length bookkeeping and consumption ---- *)
Lemma fl_char_length L f c : fl_length (fst (fl_parse_char L f c)) = fl_length f + 1.
Proof.
  unfold fl_parse_char.
  set (f1 := mk_fl (fl_name f) (fl_value f) (fl_length f + 1) (fl_ws f) (fl_state f) (fl_fail f)).
  set (g := if max_line L <? fl_length f1 then fl_set_state f1 H_ERROR_LENGTH else f1).
  assert (Hg : fl_length g = fl_length f + 1) by (unfold g; destruct (max_line L <? fl_length f1); reflexivity).
  destruct (fl_state g); try exact Hg.
  - destruct (is_token c && (c <? 128)); [exact Hg|].
    destruct ((c =? 58) && negb match fl_name g with [] => true | _ => false end); exact Hg.
  - destruct (isblank c).
    + match goal with |- context [if ?b then _ else _] => destruct b end; exact Hg.
    + unfold fl_value_case. destruct (negb (is_end_of_line c)); [exact Hg|].
      destruct (c =? 13); [exact Hg|]. destruct (strict_crlf L); exact Hg.
  - unfold fl_value_case. destruct (negb (is_end_of_line c)); [exact Hg|].
    destruct (c =? 13); [exact Hg|]. destruct (strict_crlf L); exact Hg.
  - destruct (c =? 10); exact Hg.
Qed.

Lemma fl_loop_props L buf : forall f f1 rest r, fl_loop L f buf = (f1, rest, r) ->
  (length rest <= length buf)%nat /\ fl_length f <= fl_length f1 /\
  (fl_done f = false -> buf <> [] -> (length rest < length buf)%nat /\ 0 < fl_length f1).
Proof.
  induction buf as [|c t IH]; intros f f1 rest r H; cbn [fl_loop] in H.
  - inversion H; subst. split; [lia | split; [lia | intros _ E; congruence]].
  - destruct (fl_done f) eqn:Ed.
    + inversion H; subst. split; [lia | split; [lia | discriminate]].
    + pose proof (fl_char_length L f c) as Hl. destruct (fl_parse_char L f c) as [f2 ok]. cbn [fst] in Hl. destruct ok.
      * assert (Hrec : (length rest <= length t)%nat /\ fl_length f2 <= fl_length f1).
        { destruct (fl_done (fl_set_fail f2 false) && next_is_blank t);
            [destruct (IH _ _ _ _ H) as [A [B _]] | destruct (IH _ _ _ _ H) as [A [B _]]]; split; auto. }
        destruct Hrec as [A B]. cbn [length]. split; [lia | split; [lia | intros _ _; split; lia]].
      * inversion H; subst. cbn [length fl_set_fail fl_length]. split; [lia | split; [lia | intros _ _; split; lia]].
Qed.

Lemma fl_parse_props L f buf f1 rest r : fl_parse L f buf = (f1, rest, r) ->
  (length rest <= length buf)%nat /\ fl_length f <= fl_length f1 /\
  (f = fl_init -> buf <> [] -> (length rest < length buf)%nat /\ 0 < fl_length f1).
Proof.
  unfold fl_parse. intros H. destruct (fl_fail f) eqn:Ef.
  - inversion H; subst. split; [lia | split; [lia | intros ->; discriminate]].
  - destruct (fl_done f && next_is_blank buf) eqn:Eb.
    + destruct (fl_loop_props L buf _ _ _ _ H) as [A [B C]]. split; [exact A | split; [exact B | intros ->; discriminate]].
    + destruct (fl_loop_props L buf _ _ _ _ H) as [A [B C]]. split; [exact A | split; [exact B | intros ->; apply C; reflexivity]].
Qed.

(* a field that has consumed nothing is the initial one *)
Definition fl_ok (f : field) : Prop := fl_length f = 0 -> f = fl_init.

Lemma fl_ok_init : fl_ok fl_init. Proof. intros _. reflexivity. Qed.

Lemma fl_ok_started f : fl_ok f -> fl_started f = false -> f = fl_init.
Proof. unfold fl_started. intros H E. apply H. lia. Qed.

Lemma fl_done_started f : fl_ok f -> fl_done f = true -> fl_started f = true.
Proof.
  intros H D. unfold fl_started. destruct (0 <? fl_length f) eqn:E; [reflexivity|].
  assert (f = fl_init) by (apply H; lia). subst. discriminate.
Qed.

(* ---- message_headers ---- *)
Definition hd_need (h : headers) (buf : str) : nat :=
  S (length buf + (if fl_started (hd_field h) then 1 else 0)).

Definition hd_ok (h : headers) : Prop := fl_ok (hd_field h).

Lemma hd_loop_fuel L : forall n m h buf, hd_ok h -> (hd_need h buf <= n)%nat -> (hd_need h buf <= m)%nat ->
  hd_loop n L h buf = hd_loop m L h buf.
Proof.
  induction n as [|n IH]; intros m h buf Hok Hn Hm; [unfold hd_need in Hn; lia|].
  destruct m as [|m]; [unfold hd_need in Hm; lia|]. cbn [hd_loop].
  match goal with |- (if ?e then _ else _) = _ => destruct e eqn:Eenter end; [|reflexivity].
  destruct (fl_parse L (hd_field h) buf) as [[f1 rest] r] eqn:Ep. destruct r; try reflexivity.
  destruct rest as [|d rest']; [reflexivity|].
  match goal with |- (if ?e then _ else _) = _ => destruct e end; [reflexivity|].
  destruct (fl_parse_props L _ _ _ _ _ Ep) as [A [B C]].
  apply IH.
  - exact fl_ok_init.
  - unfold hd_need in *. cbn [hd_field]. change (fl_started fl_init) with false. cbv iota.
    destruct (fl_started (hd_field h)) eqn:Es; [lia|].
    assert (E0 : hd_field h = fl_init) by (apply fl_ok_started; assumption).
    assert (buf <> []) by (destruct buf; [rewrite Bool.andb_false_r in Eenter; discriminate | discriminate]).
    destruct (C E0 H) as [C1 _]. lia.
  - unfold hd_need in *. cbn [hd_field]. change (fl_started fl_init) with false. cbv iota.
    destruct (fl_started (hd_field h)) eqn:Es; [lia|].
    assert (E0 : hd_field h = fl_init) by (apply fl_ok_started; assumption).
    assert (buf <> []) by (destruct buf; [rewrite Bool.andb_false_r in Eenter; discriminate | discriminate]).
    destruct (C E0 H) as [C1 _]. lia.
Qed.

Lemma fl_parse_ok L f buf f1 rest r : fl_ok f -> fl_parse L f buf = (f1, rest, r) -> fl_ok f1.
Proof.
  intros Hok H E0. destruct (fl_parse_props L f buf f1 rest r H) as [A [B C]].
  assert (Ef : f = fl_init) by (apply Hok; lia). subst f.
  destruct buf as [|c t].
  - unfold fl_parse in H. cbn in H. inversion H. reflexivity.
  - assert (Hne : c :: t <> []) by discriminate. destruct (C eq_refl Hne) as [_ C2]. lia.
Qed.

Lemma fl_parse_started L f buf f1 rest r : fl_ok f -> buf <> [] -> fl_parse L f buf = (f1, rest, r) ->
  fl_started f1 = true.
Proof.
  intros Hok Hne H. destruct (fl_parse_props L f buf f1 rest r H) as [A [B C]]. unfold fl_started.
  destruct (0 <? fl_length f) eqn:E.
  - lia.
  - assert (Ef : f = fl_init) by (apply Hok; lia). destruct (C Ef Hne). lia.
Qed.

Lemma hd_blank_line_ok h buf h1 rest r : hd_ok h -> hd_blank_line h buf = (h1, rest, r) -> hd_ok h1.
Proof.
  unfold hd_ok, hd_blank_line. intros Hok H. destruct buf as [|c t]; [inversion H; subst; exact Hok|].
  destruct (negb (hd_cr h) && (c =? 13)).
  - destruct t as [|d t1]; [inversion H; subst; exact Hok|]. destruct (d =? 10); inversion H; subst; exact Hok.
  - destruct (c =? 10); inversion H; subst; exact Hok.
Qed.

Lemma hd_loop_ok L : forall n h buf h1 rest r, hd_ok h -> hd_loop n L h buf = (h1, rest, r) -> hd_ok h1.
Proof.
  induction n as [|n IH]; intros h buf h1 rest r Hok H; cbn [hd_loop] in H; [inversion H; subst; exact Hok|].
  match type of H with (if ?e then _ else _) = _ => destruct e end; [|exact (hd_blank_line_ok _ _ _ _ _ Hok H)].
  destruct (fl_parse L (hd_field h) buf) as [[f1 rest1] r1] eqn:Ep.
  pose proof (fl_parse_ok L _ _ _ _ _ Hok Ep) as Hf1.
  destruct r1; try (inversion H; subst; exact Hf1).
  destruct rest1 as [|d rest']; [inversion H; subst; exact Hf1|].
  match type of H with (if ?e then _ else _) = _ => destruct e end.
  - inversion H; subst. exact fl_ok_init.
  - eapply IH; [|exact H]. exact fl_ok_init.
Qed.

Definition hd_glue (L : limits) (n : nat) (b : str) (x : headers * str * pres) : headers * str * pres :=
  match x with
  | (h1, ra, Fail) => (h1, ra ++ b, Fail)
  | (h1, ra, Done) => (h1, ra ++ b, Done)
  | (h1, ra, More) => hd_loop n L h1 b
  end.

Lemma hd_blank_line_app L n h c a b : hd_ok h -> hd_cr h = true \/ is_end_of_line c = true -> fl_started (hd_field h) = false \/ hd_cr h = true ->
  hd_blank_line h ((c :: a) ++ b) = hd_glue L (S n) b (hd_blank_line h (c :: a)).
Proof.
  intros Hok Hc Hs. cbn [app]. unfold hd_blank_line at 1 2.
  destruct (negb (hd_cr h) && (c =? 13)) eqn:E13.
  - destruct a as [|e a'].
    + cbn [app hd_glue hd_loop].
      set (h1 := mk_hd (hd_fields h) (hd_field h) (hd_valid h) (hd_fail h) true (hd_length h)).
      change (hd_cr h1) with true. cbn [negb andb].
      destruct b as [|d b']; [reflexivity|]. unfold hd_blank_line. change (hd_cr h1) with true. cbn [negb andb]. reflexivity.
    + cbn [app]. destruct (e =? 10); reflexivity.
  - destruct (c =? 10); reflexivity.
Qed.

Lemma fl_parse_result L f buf f1 ra r : fl_parse L f buf = (f1, ra, r) ->
  match r with
  | Done => fl_done f1 = true /\ fl_fail f1 = false
  | More => fl_done f1 = false /\ fl_fail f1 = false /\ ra = []
  | Fail => fl_fail f1 = true
  end.
Proof.
  unfold fl_parse. destruct (fl_fail f) eqn:Ef; [intros H; inversion H; subst; exact Ef|].
  destruct (fl_done f && next_is_blank buf); intros H; (eapply fl_loop_result; [exact H|]); [exact Ef | exact Ef].
Qed.

Lemma hd_loop_nil L n h : hd_loop (S n) L h [] = (h, [], More).
Proof. cbn [hd_loop]. rewrite Bool.andb_false_r. reflexivity. Qed.

Lemma hd_loop_app L : forall n h a b, hd_ok h -> hd_fail h = false -> (hd_need h (a ++ b) <= n)%nat ->
  hd_loop n L h (a ++ b) = hd_glue L n b (hd_loop n L h a).
Proof.
  induction n as [|n IH]; intros h a b Hok Hnf Hn; [unfold hd_need in Hn; lia|].
  destruct a as [|c a].
  - rewrite hd_loop_nil. reflexivity.
  - cbn [hd_loop app].
    set (enter := negb (hd_cr h) && (fl_started (hd_field h) || negb (is_end_of_line c))).
    destruct enter eqn:Eenter; subst enter.
    2:{ change (c :: a ++ b) with ((c :: a) ++ b). apply hd_blank_line_app; [exact Hok | |].
        - apply Bool.andb_false_iff in Eenter. destruct Eenter as [E|E]; [left; destruct (hd_cr h); [reflexivity|discriminate]|].
          apply Bool.orb_false_iff in E. destruct E as [_ E]. right. destruct (is_end_of_line c); [reflexivity|discriminate].
        - apply Bool.andb_false_iff in Eenter. destruct Eenter as [E|E]; [right; destruct (hd_cr h); [reflexivity|discriminate]|].
          apply Bool.orb_false_iff in E. destruct E as [E _]. left. exact E. }
    apply Bool.andb_true_iff in Eenter. destruct Eenter as [Ecr _].
    assert (Hcr : hd_cr h = false) by (destruct (hd_cr h); [discriminate|reflexivity]).
    change (c :: a ++ b) with ((c :: a) ++ b). rewrite fl_parse_app.
    destruct (fl_parse L (hd_field h) (c :: a)) as [[f1 ra] r] eqn:Ep.
    assert (Hne : c :: a <> []) by discriminate.
    pose proof (fl_parse_ok L _ _ _ _ _ Hok Ep) as Hok1.
    pose proof (fl_parse_started L _ _ _ _ _ Hok Hne Ep) as Hst1.
    destruct (fl_parse_props L _ _ _ _ _ Ep) as [PA [PB PC]].
    destruct r.
    + (* the line is complete *)
      destruct ra as [|e ra'].
      * (* ... exactly at the end of a: it stays pending *)
        cbn [hd_glue].
        set (h' := mk_hd (hd_fields h) f1 (hd_valid h) (hd_fail h) (hd_cr h) (hd_length h)).
        destruct b as [|d b'].
        -- rewrite hd_loop_nil.
           destruct (fl_parse_result L _ _ _ _ _ Ep) as [Hfd Hff]. unfold fl_parse. rewrite Hff, Hfd. cbn [next_is_blank andb].
           rewrite (fl_loop_done L f1 [] Hfd). reflexivity.
        -- cbn [hd_loop]. change (hd_cr h') with (hd_cr h). change (hd_field h') with f1. rewrite Hcr, Hst1. cbn [negb andb orb].
           destruct (fl_parse L f1 (d :: b')) as [[f2 rb] r2]. destruct r2; try reflexivity.
      * (* ... inside a *)
        cbn [app].
        set (len := hd_length h + fl_len f1). set (flds := fields_add (hd_fields h) (fl_name f1) (fl_value f1)).
        set (h1 := mk_hd flds fl_init (hd_valid h) (hd_fail h) (hd_cr h) len).
        destruct ((max_hdr_len L <? len) || (max_hdr_num L <? N.of_nat (length flds))); [reflexivity|].
        assert (Hn1 : (hd_need h1 ((e :: ra') ++ b) <= n)%nat).
        { unfold hd_need in *. change (hd_field h1) with fl_init. change (fl_started fl_init) with false. cbv iota.
          rewrite !app_length in *. cbn [length] in *.
          destruct (fl_started (hd_field h)) eqn:Es; [lia|].
          assert (E0 : hd_field h = fl_init) by (apply fl_ok_started; assumption).
          destruct (PC E0 Hne) as [C1 _]. cbn [length] in C1. lia. }
        change (e :: ra' ++ b) with ((e :: ra') ++ b).
        rewrite (IH h1 (e :: ra') b fl_ok_init Hnf Hn1).
        destruct (hd_loop n L h1 (e :: ra')) as [[h2 rb] r2] eqn:El. destruct r2; try reflexivity.
        cbn [hd_glue]. apply hd_loop_fuel.
        -- exact (hd_loop_ok L n h1 _ _ _ _ fl_ok_init El).
        -- unfold hd_need in *. rewrite !app_length in *. cbn [length] in *.
           destruct (fl_started (hd_field h2)); destruct (fl_started (hd_field h)) eqn:Es; try lia;
             assert (E0 : hd_field h = fl_init) by (apply fl_ok_started; assumption);
             destruct (PC E0 Hne) as [C1 _]; cbn [length] in C1; lia.
        -- unfold hd_need in *. rewrite !app_length in *. cbn [length] in *.
           destruct (fl_started (hd_field h2)); destruct (fl_started (hd_field h)) eqn:Es; try lia;
             assert (E0 : hd_field h = fl_init) by (apply fl_ok_started; assumption);
             destruct (PC E0 Hne) as [C1 _]; cbn [length] in C1; lia.
    + (* the line is not complete at the end of a *)
      destruct (fl_parse_result L _ _ _ _ _ Ep) as [Hd1 [Hf1 ->]]. rewrite Hf1. cbn [hd_glue].
      set (h' := mk_hd (hd_fields h) f1 (hd_valid h) false (hd_cr h) (hd_length h)).
      destruct b as [|d b'].
      * rewrite hd_loop_nil.
        unfold fl_parse. rewrite Hf1, Hd1. cbn [andb fl_loop]. rewrite Hd1, Hf1. reflexivity.
      * cbn [hd_loop]. change (hd_cr h') with (hd_cr h). change (hd_field h') with f1. rewrite Hcr, Hst1. cbn [negb andb orb].
        change (hd_fields h') with (hd_fields h). change (hd_valid h') with (hd_valid h). change (hd_length h') with (hd_length h).
        change (hd_fail h') with false. rewrite Hnf. reflexivity.
    + (* the line is in error *)
      rewrite (fl_parse_fail L _ _ _ _ Ep). reflexivity.
Qed.

Lemma hd_loop_more L : forall n h buf h1 rest, hd_fail h = false -> hd_loop n L h buf = (h1, rest, More) ->
  hd_fail h1 = false /\ rest = [].
Proof.
  induction n as [|n IH]; intros h buf h1 rest Hf H; cbn [hd_loop] in H; [inversion H|].
  match type of H with (if ?e then _ else _) = _ => destruct e end.
  - destruct (fl_parse L (hd_field h) buf) as [[f1 rest1] r1] eqn:Ep. destruct r1.
    + destruct rest1 as [|d rest']; [inversion H; subst; split; [exact Hf|reflexivity]|].
      match type of H with (if ?e then _ else _) = _ => destruct e end; [inversion H|].
      eapply IH; [|exact H]. exact Hf.
    + destruct (fl_parse_result L _ _ _ _ _ Ep) as [_ [F R]]. rewrite F in H. inversion H; subst. split; reflexivity.
    + rewrite (fl_parse_fail L _ _ _ _ Ep) in H. inversion H.
  - unfold hd_blank_line in H. destruct buf as [|c t]; [inversion H; subst; split; [exact Hf|reflexivity]|].
    destruct (negb (hd_cr h) && (c =? 13)).
    + destruct t as [|d t1]; [inversion H; subst; split; [exact Hf|reflexivity]|]. destruct (d =? 10); inversion H.
    + destruct (c =? 10); inversion H.
Qed.

(* message_headers::parse on a buffer cut anywhere *)
Lemma hd_parse_app L h a b : hd_ok h ->
  hd_parse L h (a ++ b) =
  match hd_parse L h a with
  | (h1, ra, Fail) => (h1, ra ++ b, Fail)
  | (h1, ra, Done) => (h1, ra ++ b, Done)
  | (h1, ra, More) => hd_parse L h1 b
  end.
Proof.
  intros Hok. unfold hd_parse at 1 2. destruct (hd_fail h) eqn:Ef; [reflexivity|].
  assert (Hn : (hd_need h (a ++ b) <= S (S (length (a ++ b))))%nat) by (unfold hd_need; destruct (fl_started (hd_field h)); lia).
  rewrite (hd_loop_app L _ h a b Hok Ef Hn).
  assert (Ha : hd_loop (S (S (length (a ++ b)))) L h a = hd_loop (S (S (length a))) L h a).
  { apply hd_loop_fuel; [exact Hok | |]; unfold hd_need; rewrite ?app_length; destruct (fl_started (hd_field h)); lia. }
  rewrite Ha. destruct (hd_loop (S (S (length a))) L h a) as [[h1 ra] r] eqn:El. destruct r; try reflexivity.
  cbn [hd_glue]. unfold hd_parse.
  destruct (hd_loop_more L _ _ _ _ _ Ef El) as [Hf1 _]. rewrite Hf1. apply hd_loop_fuel.
  - exact (hd_loop_ok L _ h _ _ _ _ Hok El).
  - unfold hd_need. rewrite app_length. destruct (fl_started (hd_field h1)); lia.
  - unfold hd_need. destruct (fl_started (hd_field h1)); lia.
Qed.

(* the result is a flag-consistent one: More only with everything consumed *)
Lemma hd_parse_more L h buf h1 rest : hd_parse L h buf = (h1, rest, More) -> rest = [] /\ hd_fail h1 = false.
Proof.
  unfold hd_parse. destruct (hd_fail h) eqn:Ef; [intros H; inversion H|]. intros H.
  destruct (hd_loop_more L _ _ _ _ _ Ef H). split; assumption.
Qed.

Lemma hd_parse_ok L h buf h1 rest r : hd_ok h -> hd_parse L h buf = (h1, rest, r) -> hd_ok h1.
Proof.
  unfold hd_parse. destruct (hd_fail h); [intros Hok H; inversion H; subst; exact Hok|]. intros Hok H.
  exact (hd_loop_ok L _ h _ _ _ _ Hok H).
Qed.

(* ---- the head of a request / of a response ---- *)
From Via Require Import M_Receive.

Lemma rl_parse_flags L buf : forall r r1 rest res, rl_parse L r buf = (r1, rest, res) ->
  match res with
  | Done => rl_valid r1 = true
  | More => rest = [] /\ rl_valid r1 = false
  | Fail => True
  end.
Proof.
  induction buf as [|c t IH]; intros r r1 rest res H; cbn [rl_parse] in H.
  - destruct (rl_done r) eqn:Ed; inversion H; subst; cbn; auto.
  - destruct (rl_done r) eqn:Ed; [inversion H; subst; reflexivity|].
    destruct (rl_parse_char L r c) as [r2 ok]. destruct ok; [exact (IH _ _ _ _ H)|]. inversion H; subst. exact I.
Qed.

Lemma sl_parse_flags L buf : forall r r1 rest res, sl_parse L r buf = (r1, rest, res) ->
  match res with
  | Done => sl_valid r1 = true
  | More => rest = [] /\ sl_valid r1 = false
  | Fail => True
  end.
Proof.
  induction buf as [|c t IH]; intros r r1 rest res H; cbn [sl_parse] in H.
  - destruct (sl_done r) eqn:Ed; inversion H; subst; cbn; auto.
  - destruct (sl_done r) eqn:Ed; [inversion H; subst; reflexivity|].
    destruct (sl_parse_char L r c) as [r2 ok]. destruct ok; [exact (IH _ _ _ _ H)|]. inversion H; subst. exact I.
Qed.

Lemma hd_blank_line_valid h buf h1 rest : hd_blank_line h buf = (h1, rest, More) -> hd_valid h1 = hd_valid h.
Proof.
  unfold hd_blank_line. destruct buf as [|c t]; [intros H; inversion H; reflexivity|].
  destruct (negb (hd_cr h) && (c =? 13)).
  - destruct t as [|d t1]; [intros H; inversion H; reflexivity|]. destruct (d =? 10); intros H; inversion H.
  - destruct (c =? 10); intros H; inversion H.
Qed.

Lemma hd_loop_more_valid L : forall n h buf h1 rest, hd_loop n L h buf = (h1, rest, More) -> hd_valid h1 = hd_valid h.
Proof.
  induction n as [|n IH]; intros h buf h1 rest H; cbn [hd_loop] in H; [inversion H|].
  match type of H with (if ?e then _ else _) = _ => destruct e end; [|exact (hd_blank_line_valid _ _ _ _ H)].
  destruct (fl_parse L (hd_field h) buf) as [[f1 rest1] r1]. destruct r1.
  - destruct rest1 as [|d rest']; [inversion H; reflexivity|].
    match type of H with (if ?e then _ else _) = _ => destruct e end; [inversion H|]. rewrite (IH _ _ _ _ H). reflexivity.
  - destruct (fl_fail f1); inversion H. reflexivity.
  - destruct (fl_fail f1); inversion H. reflexivity.
Qed.

Lemma hd_parse_more_valid L h buf h1 rest : hd_parse L h buf = (h1, rest, More) -> hd_valid h1 = hd_valid h.
Proof. unfold hd_parse. destruct (hd_fail h); [intros H; inversion H|]. apply hd_loop_more_valid. Qed.

Definition rq_ok (q : rx_request) : Prop := hd_ok (rq_headers q).
Definition rp_ok (q : rx_response) : Prop := hd_ok (rp_headers q).

Lemma rq_parse_app L q a b : rq_ok q ->
  rq_parse L q (a ++ b) =
  match rq_parse L q a with
  | (q1, ra, Done) => (q1, ra ++ b, Done)
  | (q1, ra, Fail) => (q1, ra ++ b, Fail)
  | (q1, _, More) => rq_parse L q1 b
  end.
Proof.
  intros Hok. unfold rq_parse at 1 2.
  assert (Hhead : forall l1 ra,
    (let '(h1, b2, r2) := if hd_valid (rq_headers q) then (rq_headers q, ra ++ b, Done) else hd_parse L (rq_headers q) (ra ++ b) in
     match r2 with Done => (mk_rq l1 h1 true, b2, Done) | r => (mk_rq l1 h1 (rq_valid q), b2, r) end) =
    match (let '(h1, b2, r2) := if hd_valid (rq_headers q) then (rq_headers q, ra, Done) else hd_parse L (rq_headers q) ra in
           match r2 with Done => (mk_rq l1 h1 true, b2, Done) | r => (mk_rq l1 h1 (rq_valid q), b2, r) end) with
    | (q1, rb, Done) => (q1, rb ++ b, Done)
    | (q1, rb, Fail) => (q1, rb ++ b, Fail)
    | (q1, _, More) =>
        let '(h1, b2, r2) := if hd_valid (rq_headers q1) then (rq_headers q1, b, Done) else hd_parse L (rq_headers q1) b in
        match r2 with Done => (mk_rq (rq_line q1) h1 true, b2, Done) | r => (mk_rq (rq_line q1) h1 (rq_valid q1), b2, r) end
    end).
  { intros l1 ra. destruct (hd_valid (rq_headers q)) eqn:Ev; [reflexivity|].
    rewrite (hd_parse_app L _ ra b Hok).
    destruct (hd_parse L (rq_headers q) ra) as [[h1 rb] r2] eqn:Eh. destruct r2; try reflexivity.
    cbn [rq_headers rq_line rq_valid]. rewrite (hd_parse_more_valid L _ _ _ _ Eh), Ev. reflexivity. }
  destruct (rl_valid (rq_line q)) eqn:Elv.
  - (* the request line was complete already *)
    rewrite (Hhead (rq_line q) a).
    destruct (if hd_valid (rq_headers q) then (rq_headers q, a, Done) else hd_parse L (rq_headers q) a) as [[h1 b2] r2].
    destruct r2; try reflexivity. unfold rq_parse. cbn [rq_line rq_headers rq_valid]. rewrite Elv. reflexivity.
  - rewrite (rl_parse_app L a _ b Elv).
    destruct (rl_parse L (rq_line q) a) as [[l1 ra] r1] eqn:El. pose proof (rl_parse_flags L a _ _ _ _ El) as Hfl.
    destruct r1; try reflexivity.
    + rewrite (Hhead l1 ra).
      destruct (if hd_valid (rq_headers q) then (rq_headers q, ra, Done) else hd_parse L (rq_headers q) ra) as [[h1 b2] r2].
      destruct r2; try reflexivity. unfold rq_parse. cbn [rq_line rq_headers rq_valid]. rewrite Hfl. reflexivity.
    + destruct Hfl as [-> Hv1]. unfold rq_parse. cbn [rq_line rq_headers rq_valid]. rewrite Hv1. reflexivity.
Qed.

Lemma rp_parse_app L q a b : rp_ok q ->
  rp_parse L q (a ++ b) =
  match rp_parse L q a with
  | (q1, ra, Done) => (q1, ra ++ b, Done)
  | (q1, ra, Fail) => (q1, ra ++ b, Fail)
  | (q1, _, More) => rp_parse L q1 b
  end.
Proof.
  intros Hok. unfold rp_parse at 1 2.
  assert (Hhead : forall l1 ra,
    (let '(h1, b2, r2) := if hd_valid (rp_headers q) then (rp_headers q, ra ++ b, Done) else hd_parse L (rp_headers q) (ra ++ b) in
     match r2 with Done => (mk_rp l1 h1 true, b2, Done) | r => (mk_rp l1 h1 (rp_valid q), b2, r) end) =
    match (let '(h1, b2, r2) := if hd_valid (rp_headers q) then (rp_headers q, ra, Done) else hd_parse L (rp_headers q) ra in
           match r2 with Done => (mk_rp l1 h1 true, b2, Done) | r => (mk_rp l1 h1 (rp_valid q), b2, r) end) with
    | (q1, rb, Done) => (q1, rb ++ b, Done)
    | (q1, rb, Fail) => (q1, rb ++ b, Fail)
    | (q1, _, More) =>
        let '(h1, b2, r2) := if hd_valid (rp_headers q1) then (rp_headers q1, b, Done) else hd_parse L (rp_headers q1) b in
        match r2 with Done => (mk_rp (rp_line q1) h1 true, b2, Done) | r => (mk_rp (rp_line q1) h1 (rp_valid q1), b2, r) end
    end).
  { intros l1 ra. destruct (hd_valid (rp_headers q)) eqn:Ev; [reflexivity|].
    rewrite (hd_parse_app L _ ra b Hok).
    destruct (hd_parse L (rp_headers q) ra) as [[h1 rb] r2] eqn:Eh. destruct r2; try reflexivity.
    cbn [rp_headers rp_line rp_valid]. rewrite (hd_parse_more_valid L _ _ _ _ Eh), Ev. reflexivity. }
  destruct (sl_valid (rp_line q)) eqn:Elv.
  - rewrite (Hhead (rp_line q) a).
    destruct (if hd_valid (rp_headers q) then (rp_headers q, a, Done) else hd_parse L (rp_headers q) a) as [[h1 b2] r2].
    destruct r2; try reflexivity. unfold rp_parse. cbn [rp_line rp_headers rp_valid]. rewrite Elv. reflexivity.
  - rewrite (sl_parse_app L a _ b Elv).
    destruct (sl_parse L (rp_line q) a) as [[l1 ra] r1] eqn:El. pose proof (sl_parse_flags L a _ _ _ _ El) as Hfl.
    destruct r1; try reflexivity.
    + rewrite (Hhead l1 ra).
      destruct (if hd_valid (rp_headers q) then (rp_headers q, ra, Done) else hd_parse L (rp_headers q) ra) as [[h1 b2] r2].
      destruct r2; try reflexivity. unfold rp_parse. cbn [rp_line rp_headers rp_valid]. rewrite Hfl. reflexivity.
    + destruct Hfl as [-> Hv1]. unfold rp_parse. cbn [rp_line rp_headers rp_valid]. rewrite Hv1. reflexivity.
Qed.

(* ---- rx_chunk ---- *)
Lemma nlen_app' a b : nlen (a ++ b) = nlen a + nlen b.
Proof. unfold nlen. rewrite app_length. lia. Qed.

Lemma ck_loop_flags L buf : forall k k1 rest res, ck_loop L k buf = (k1, rest, res) ->
  match res with
  | Done => ck_valid k1 = true
  | More => rest = [] /\ ck_valid k1 = false
  | Fail => True
  end.
Proof.
  induction buf as [|c t IH]; intros k k1 rest res H; cbn [ck_loop] in H.
  - destruct (ck_done k) eqn:Ed; inversion H; subst; cbn; auto.
  - destruct (ck_done k) eqn:Ed; [inversion H; subst; reflexivity|].
    destruct (ck_parse_char L k c) as [k2 ok]. destruct ok; [exact (IH _ _ _ _ H)|]. inversion H; subst. exact I.
Qed.

Lemma ck_parse_flags L k buf k1 rest res : ck_parse L k buf = (k1, rest, res) ->
  match res with
  | Done => ck_valid k1 = true
  | More => rest = [] /\ ck_valid k1 = false
  | Fail => True
  end.
Proof. unfold ck_parse. destruct (ck_fail k); [intros H; inversion H; subst; exact I|]. apply ck_loop_flags. Qed.

Definition rc_glue_end (L : limits) (b : str) (x : rx_chunk * str * pres) : rx_chunk * str * pres :=
  match x with
  | (k1, ra, Done) => (k1, ra ++ b, Done)
  | (k1, ra, Fail) => (k1, ra ++ b, Fail)
  | (k1, _, More) => match b with [] => (k1, [], More) | _ => rc_data_end L k1 b end
  end.

Lemma rc_data_end_app L k c x b : rc_data_end L k ((c :: x) ++ b) = rc_glue_end L b (rc_data_end L k (c :: x)).
Proof.
  cbn [app]. unfold rc_data_end at 1 2. destruct (rc_cr k) eqn:Ecr.
  - destruct (c =? 10); reflexivity.
  - destruct (c =? 13) eqn:E13.
    + destruct x as [|d x'].
      * cbn [app rc_glue_end]. destruct b as [|d b']; [reflexivity|]. unfold rc_data_end. cbn [rc_cr]. reflexivity.
      * cbn [app]. destruct (d =? 10); reflexivity.
    + destruct (strict_crlf L); [reflexivity|]. destruct (c =? 10); reflexivity.
Qed.

Lemma rc_data_end_more L k x k1 rest : rc_data_end L k x = (k1, rest, More) ->
  rest = [] /\ rc_hdr k1 = rc_hdr k /\ rc_data k1 = rc_data k /\ rc_trailers k1 = rc_trailers k /\
  rc_valid k1 = rc_valid k /\ rc_fail k1 = rc_fail k /\ (x <> [] -> rc_cr k1 = true).
Proof.
  unfold rc_data_end. destruct x as [|c t]; [intros H; inversion H; subst; repeat split; congruence|].
  destruct (rc_cr k) eqn:Ecr.
  - destruct (c =? 10); intros H; inversion H.
  - destruct (c =? 13).
    + destruct t as [|d t1]; [intros H; inversion H; subst; repeat split; reflexivity|]. destruct (d =? 10); intros H; inversion H.
    + destruct (strict_crlf L); [intros H; inversion H|]. destruct (c =? 10); intros H; inversion H.
Qed.

Definition rc_ok (k : rx_chunk) : Prop := hd_ok (rc_trailers k).

Lemma firstn_app_le {A} n (a b : list A) : (n <= length a)%nat -> firstn n (a ++ b) = firstn n a.
Proof. intros H. rewrite firstn_app. replace (n - length a)%nat with 0%nat by lia. cbn [firstn]. apply app_nil_r. Qed.
Lemma skipn_app_le {A} n (a b : list A) : (n <= length a)%nat -> skipn n (a ++ b) = skipn n a ++ b.
Proof. intros H. rewrite skipn_app. replace (n - length a)%nat with 0%nat by lia. reflexivity. Qed.
Lemma firstn_app_ge {A} n (a b : list A) : (length a <= n)%nat -> firstn n (a ++ b) = a ++ firstn (n - length a) b.
Proof. intros H. rewrite firstn_app, firstn_all2 by exact H. reflexivity. Qed.
Lemma skipn_app_ge {A} n (a b : list A) : (length a <= n)%nat -> skipn n (a ++ b) = skipn (n - length a) b.
Proof. intros H. rewrite skipn_app, skipn_all2 by exact H. reflexivity. Qed.

Lemma firstn_app_exact {A} (a b : list A) : firstn (length a) (a ++ b) = a.
Proof. rewrite firstn_app, Nat.sub_diag, firstn_all. cbn [firstn]. apply app_nil_r. Qed.
Lemma skipn_app_exact {A} (a b : list A) : skipn (length a) (a ++ b) = b.
Proof. rewrite skipn_app, Nat.sub_diag, skipn_all. reflexivity. Qed.

Lemma rc_eta k : mk_rc (rc_hdr k) (rc_data k) (rc_trailers k) (rc_valid k) (rc_cr k) (rc_fail k) = k.
Proof. destruct k; reflexivity. Qed.

Lemma rc_parse_app L k a b : rc_ok k ->
  rc_parse L k (a ++ b) =
  match rc_parse L k a with
  | (k1, ra, Done) => (k1, ra ++ b, Done)
  | (k1, ra, Fail) => (k1, ra ++ b, Fail)
  | (k1, _, More) => rc_parse L k1 b
  end.
Proof.
  intros Hok. unfold rc_parse at 1 2. destruct (rc_fail k) eqn:Ef; [reflexivity|].
  (* the part after the chunk size line, for the size line h1 and what follows it *)
  assert (Hbody : forall h1 ra, ck_valid h1 = true ->
    (let k1 := mk_rc h1 (rc_data k) (rc_trailers k) (rc_valid k) (rc_cr k) (rc_fail k) in
     if ck_size h1 =? 0 then
       let '(t1, buf2, r2) := hd_parse L (rc_trailers k1) (ra ++ b) in
       let k2 := mk_rc h1 (rc_data k1) t1 (rc_valid k1) (rc_cr k1) (rc_fail k1) in
       match r2 with Done => (mk_rc h1 (rc_data k1) t1 true (rc_cr k1) (rc_fail k1), buf2, Done) | r => (k2, buf2, r) end
     else
       let required := ck_size h1 - nlen (rc_data k1) in
       let rx_size := nlen (ra ++ b) in
       if required <? rx_size then
         let n := N.to_nat required in
         let k2 := mk_rc h1 (rc_data k1 ++ firstn n (ra ++ b)) (rc_trailers k1) (rc_valid k1) (rc_cr k1) (rc_fail k1) in
         rc_data_end L k2 (skipn n (ra ++ b))
       else (mk_rc h1 (rc_data k1 ++ (ra ++ b)) (rc_trailers k1) (rc_valid k1) (rc_cr k1) (rc_fail k1), [], More)) =
    match (let k1 := mk_rc h1 (rc_data k) (rc_trailers k) (rc_valid k) (rc_cr k) (rc_fail k) in
     if ck_size h1 =? 0 then
       let '(t1, buf2, r2) := hd_parse L (rc_trailers k1) ra in
       let k2 := mk_rc h1 (rc_data k1) t1 (rc_valid k1) (rc_cr k1) (rc_fail k1) in
       match r2 with Done => (mk_rc h1 (rc_data k1) t1 true (rc_cr k1) (rc_fail k1), buf2, Done) | r => (k2, buf2, r) end
     else
       let required := ck_size h1 - nlen (rc_data k1) in
       let rx_size := nlen ra in
       if required <? rx_size then
         let n := N.to_nat required in
         let k2 := mk_rc h1 (rc_data k1 ++ firstn n ra) (rc_trailers k1) (rc_valid k1) (rc_cr k1) (rc_fail k1) in
         rc_data_end L k2 (skipn n ra)
       else (mk_rc h1 (rc_data k1 ++ ra) (rc_trailers k1) (rc_valid k1) (rc_cr k1) (rc_fail k1), [], More)) with
    | (k1, rb, Done) => (k1, rb ++ b, Done)
    | (k1, rb, Fail) => (k1, rb ++ b, Fail)
    | (k1, _, More) => rc_parse L k1 b
    end).
  { intros h1 ra Hv1. cbn zeta. cbn [rc_data rc_trailers rc_valid rc_cr rc_fail].
    destruct (ck_size h1 =? 0) eqn:Ez.
    - (* the last chunk: trailers *)
      rewrite (hd_parse_app L _ ra b Hok).
      destruct (hd_parse L (rc_trailers k) ra) as [[t1 rb] r2] eqn:Eh. destruct r2; try reflexivity.
      unfold rc_parse. cbn [rc_fail rc_hdr rc_data rc_trailers rc_valid rc_cr]. rewrite Ef, Hv1, Ez. reflexivity.
    - set (required := ck_size h1 - nlen (rc_data k)).
      rewrite nlen_app'.
      destruct (required <? nlen ra) eqn:Elt.
      + (* the data ends inside ra *)
        assert (Hlt2 : (required <? nlen ra + nlen b) = true) by (unfold nlen in *; lia).
        rewrite Hlt2.
        assert (Hn : (N.to_nat required < length ra)%nat) by (unfold nlen in Elt; lia).
        rewrite firstn_app_le, skipn_app_le by lia.
        destruct (skipn (N.to_nat required) ra) as [|c x] eqn:Esk.
        { exfalso. assert (length (skipn (N.to_nat required) ra) = 0%nat) by (rewrite Esk; reflexivity). rewrite skipn_length in H. lia. }
        rewrite rc_data_end_app.
        set (k2 := mk_rc h1 (rc_data k ++ firstn (N.to_nat required) ra) (rc_trailers k) (rc_valid k) (rc_cr k) false).
        rewrite Ef. fold k2.
        destruct (rc_data_end L k2 (c :: x)) as [[k3 rb] r3] eqn:Ede. destruct r3; try reflexivity.
        cbn [rc_glue_end].
        destruct (rc_data_end_more L _ _ _ _ Ede) as [_ [H1 [H2 [H3 [H4 [H5 H6]]]]]].
        assert (Hcr3 : rc_cr k3 = true) by (apply H6; discriminate).
        unfold rc_parse. rewrite H5. cbn [k2 rc_fail]. rewrite H1. cbn [k2 rc_hdr]. rewrite Hv1, Ez.
        cbn zeta. cbn [rc_data rc_trailers rc_valid rc_cr rc_fail].
        assert (Hreq : ck_size h1 - nlen (rc_data k3) = 0).
        { rewrite H2. cbn [k2 rc_data]. rewrite nlen_app'. unfold nlen at 2. rewrite firstn_length. unfold required in *. lia. }
        rewrite Hreq. cbn [N.to_nat firstn skipn]. rewrite app_nil_r.
        assert (Ek3 : mk_rc h1 (rc_data k3) (rc_trailers k3) (rc_valid k3) (rc_cr k3) false = k3).
        { destruct k3; cbn in *. subst. reflexivity. }
        destruct b as [|d b'].
        * replace (0 <? nlen []) with false by reflexivity. rewrite app_nil_r, Ek3. reflexivity.
        * replace (0 <? nlen (d :: b')) with true by (unfold nlen; cbn [length]; lia). rewrite Ek3. reflexivity.
      + (* all of ra is data *)
        assert (Hge : (length ra <= N.to_nat required)%nat) by (unfold nlen in Elt; lia).
        cbn [rc_parse]. unfold rc_parse. cbn [rc_fail rc_hdr rc_data rc_trailers rc_valid rc_cr]. rewrite Ef, Hv1, Ez.
        cbn zeta. cbn [rc_data rc_trailers rc_valid rc_cr rc_fail].
        rewrite nlen_app'.
        replace (ck_size h1 - (nlen (rc_data k) + nlen ra)) with (required - nlen ra) by (unfold required; lia).
        destruct (required <? nlen ra + nlen b) eqn:Elt2.
        * replace (required - nlen ra <? nlen b) with true by (unfold nlen in *; lia).
          rewrite firstn_app_ge, skipn_app_ge by lia.
          replace (N.to_nat (required - nlen ra)) with (N.to_nat required - length ra)%nat by (unfold nlen; lia).
          rewrite <- app_assoc. reflexivity.
        * replace (required - nlen ra <? nlen b) with false by (unfold nlen in *; lia).
          rewrite <- app_assoc. reflexivity. }
  destruct (ck_valid (rc_hdr k)) eqn:Ehv.
  - pose proof (Hbody (rc_hdr k) a Ehv) as HB. rewrite Ef in HB. exact HB.
  - rewrite (ck_parse_app L a _ b Ehv).
    destruct (ck_parse L (rc_hdr k) a) as [[h1 ra] r1] eqn:Ec. pose proof (ck_parse_flags L _ _ _ _ _ Ec) as Hfl.
    destruct r1; try reflexivity.
    + pose proof (Hbody h1 ra Hfl) as HB. rewrite Ef in HB. exact HB.
    + destruct Hfl as [-> Hv1]. unfold rc_parse. cbn [rc_fail rc_hdr rc_data rc_trailers rc_valid rc_cr]. rewrite Hv1. reflexivity.
Qed.

(* ---- request_receiver::receive ---- *)
(* a call that stops before the end of its buffer does not depend on what follows; a call that ran out of data
   (INCOMPLETE with everything consumed) is continued exactly by the next call *)

Lemma nonempty_app_l (x b : str) : nonempty x = true -> nonempty (x ++ b) = true.
Proof. destruct x; [discriminate|reflexivity]. Qed.

Lemma hd_content_length_absent h : nonempty (hd_find h hf_LC_CONTENT_LENGTH) = false -> hd_content_length h = Some 0.
Proof. unfold hd_content_length. destruct (hd_find h hf_LC_CONTENT_LENGTH); [reflexivity|discriminate]. Qed.

Lemma skipn_nonempty (n : nat) (l : str) : (n < length l)%nat -> skipn n l <> [].
Proof. intros H E. assert (length (skipn n l) = 0%nat) by (rewrite E; reflexivity). rewrite skipn_length in H0. lia. Qed.

Lemma receive_cl_app cfg rp v x b v3 ra r : receive_cl cfg rp v x = (v3, ra, r) ->
  (ra <> [] -> receive_cl cfg rp v (x ++ b) = (v3, ra ++ b, r)) /\
  (ra = [] -> r = RX_INCOMPLETE -> receive_cl cfg rp v (x ++ b) = receive_cl cfg false v3 b).
Proof.
  intros H. unfold receive_cl in H. unfold receive_cl at 1 2.
  set (q1 := rv_req v) in *. set (cl := hd_content_length (rq_headers q1)) in *.
  set (trace_bad := rq_is_trace q1 && negb match cl with Some 0 => true | _ => false end) in *.
  set (v2 := if rq_is_trace q1 && negb trace_bad then rv_set_code v code_METHOD_NOT_ALLOWED else v) in *.
  assert (Hq2 : rv_req v2 = q1) by (unfold v2; destruct (rq_is_trace q1 && negb trace_bad); reflexivity).
  assert (Hb2 : rv_body v2 = rv_body v) by (unfold v2; destruct (rq_is_trace q1 && negb trace_bad); reflexivity).
  destruct trace_bad eqn:Etb.
  { unfold invalid in *. inversion H; subst. split; [reflexivity | intros _ E; discriminate E]. }
  destruct cl as [n|] eqn:Ecl.
  2:{ unfold invalid in *. inversion H; subst. split; [reflexivity | intros _ E; discriminate E]. }
  destruct ((0 <? n) && (c_max_content cfg <? n)) eqn:Ebig.
  { unfold invalid in *. inversion H; subst. split; [reflexivity | intros _ E; discriminate E]. }
  rewrite nlen_app'.
  destruct (nonempty (hd_find (rq_headers q1) hf_LC_CONTENT_LENGTH)) eqn:Ehas.
  2:{ (* no Content-Length header: the value is 0 *)
      assert (Hn0 : n = 0).
      { pose proof (hd_content_length_absent _ Ehas) as E0. unfold cl in Ecl. rewrite E0 in Ecl. inversion Ecl. reflexivity. }
      subst n. cbn [negb N.eqb andb] in *. rewrite Bool.andb_true_r in *.
      destruct x as [|c x'].
      - (* nothing after the head: the call is complete whatever its outcome; it never reports INCOMPLETE with 0 == 0 unless the body is not empty *)
        replace (0 <? nlen []) with false in H by reflexivity. cbn [andb] in H.
        set (required := (Z.of_N 0 - Z.of_N (nlen (rv_body v2)))%Z) in *.
        destruct ((required <? 0)%Z && (required <? Z.of_N (nlen []))%Z) eqn:Eub.
        + inversion H; subst. split; [intros E; contradiction|intros _ E; discriminate E].
        + replace (required <? Z.of_N (nlen []))%Z with false in H by (unfold nlen in *; cbn [length] in *; lia).
          rewrite app_nil_r in H.
          destruct (nlen (rv_body v2) =? 0) eqn:Eb0.
          * inversion H; subst. split; [intros E; contradiction|intros _ E; discriminate E].
          * exfalso. unfold nlen in *. cbn [length] in *. lia.
      - replace (0 <? nlen (c :: x')) with true in H by (unfold nlen; cbn [length]; lia).
        replace (0 <? nlen (c :: x') + nlen b) with true by (unfold nlen; cbn [length]; lia).
        unfold invalid in *. inversion H; subst. split; [reflexivity | intros E; discriminate E]. }
  cbn [negb] in *. rewrite !Bool.andb_false_r in *.
  cbn [rv_req rv_chunk rv_body rv_code rv_continue_sent rv_is_head] in *.
  set (required := (Z.of_N n - Z.of_N (nlen (rv_body v2)))%Z) in *.
  destruct (required <? 0)%Z eqn:Eneg.
  { (* data_.size() beyond the content length: undefined whatever follows *)
    replace (required <? Z.of_N (nlen x))%Z with true in H by (unfold nlen; lia).
    replace (required <? Z.of_N (nlen x + nlen b))%Z with true by (unfold nlen; lia).
    cbn [andb] in *. inversion H; subst. split; [reflexivity | intros _ E; discriminate E]. }
  cbn [andb] in *.
  destruct (required <? Z.of_N (nlen x))%Z eqn:Elt.
  - (* the body ends inside x *)
    replace (required <? Z.of_N (nlen x + nlen b))%Z with true by (unfold nlen in *; lia).
    assert (Hn : (Z.to_nat required < length x)%nat) by (unfold nlen in Elt; lia).
    rewrite firstn_app_le, skipn_app_le by lia.
    pose proof (skipn_nonempty _ _ Hn) as Hsk.
    destruct (nlen (rv_body v2 ++ firstn (Z.to_nat required) x) =? n).
    + inversion H; subst. split; [reflexivity | intros E; contradiction].
    + destruct (rp && rq_expect_continue q1 && negb (rv_continue_sent v2)); inversion H; subst;
        (split; [reflexivity | intros E; contradiction]).
  - (* all of x is body *)
    assert (Hge : (length x <= Z.to_nat required)%nat) by (unfold nlen in Elt; lia).
    destruct (nlen (rv_body v2 ++ x) =? n) eqn:Efull.
    { inversion H; subst. split; [intros E; contradiction | intros _ E; discriminate E]. }
    destruct (rp && rq_expect_continue q1 && negb (rv_continue_sent v2)) eqn:Eexp.
    { inversion H; subst. split; [intros E; contradiction | intros _ E; discriminate E]. }
    inversion H; subst. clear H. split; [intros E; contradiction|]. intros _ _.
    (* TRACE is excluded: a TRACE request has content length 0 and would be complete *)
    assert (Htr : rq_is_trace q1 = false).
    { destruct (rq_is_trace q1) eqn:Et; [|reflexivity]. exfalso. cbn [andb] in Etb.
      destruct n as [|p]; [|discriminate]. unfold nlen in *. rewrite app_length in *. lia. }
    assert (Hreq : required = (Z.of_N n - Z.of_N (nlen (rv_body v)))%Z) by (unfold required; rewrite Hb2; reflexivity).
    assert (Hv2 : v2 = v) by (unfold v2; rewrite Htr; reflexivity). rewrite Hv2 in *. clear Hv2.
    unfold receive_cl. cbn [rv_req rv_body rv_chunk rv_code rv_continue_sent rv_is_head].
    fold q1. fold cl. rewrite Ecl, Htr. cbn [andb]. rewrite Ebig, Ehas. cbn [negb]. rewrite !Bool.andb_false_r.
    cbn [rv_req rv_chunk rv_body rv_code rv_continue_sent rv_is_head].
    rewrite nlen_app'.
    replace (Z.of_N n - Z.of_N (nlen (rv_body v) + nlen x))%Z with (required - Z.of_N (nlen x))%Z by (rewrite Hreq; lia).
    replace (required - Z.of_N (nlen x) <? 0)%Z with false by (unfold nlen in *; lia). cbn [andb].
    destruct (required <? Z.of_N (nlen x + nlen b))%Z eqn:Elt2.
    + replace (required - Z.of_N (nlen x) <? Z.of_N (nlen b))%Z with true by (unfold nlen in *; lia).
      rewrite firstn_app_ge, skipn_app_ge by lia.
      replace (Z.to_nat (required - Z.of_N (nlen x))) with (Z.to_nat required - length x)%nat by (unfold nlen; lia).
      rewrite <- app_assoc.
      destruct (nlen (rv_body v ++ x ++ firstn (Z.to_nat required - length x) b) =? n) eqn:Ef2; reflexivity.
    + replace (required - Z.of_N (nlen x) <? Z.of_N (nlen b))%Z with false by (unfold nlen in *; lia).
      rewrite <- app_assoc.
      destruct (nlen (rv_body v ++ x ++ b) =? n) eqn:Ef2; reflexivity.
Qed.

Lemma rc_data_end_flags L k x k1 rest res : rc_data_end L k x = (k1, rest, res) ->
  rc_hdr k1 = rc_hdr k /\ rc_trailers k1 = rc_trailers k /\
  match res with
  | Done => rc_valid k1 = true
  | More => rest = [] /\ rc_valid k1 = rc_valid k /\ rc_fail k1 = rc_fail k
  | Fail => rc_fail k1 = true
  end.
Proof.
  unfold rc_data_end. destruct x as [|c t]; [intros H; inversion H; subst; repeat split|].
  destruct (rc_cr k).
  - destruct (c =? 10); intros H; inversion H; subst; repeat split.
  - destruct (c =? 13).
    + destruct t as [|d t1]; [intros H; inversion H; subst; repeat split|]. destruct (d =? 10); intros H; inversion H; subst; repeat split.
    + destruct (strict_crlf L); [intros H; inversion H; subst; repeat split|]. destruct (c =? 10); intros H; inversion H; subst; repeat split.
Qed.

(* every failure of rx_chunk::parse is recorded in a flag; a complete chunk is marked valid; a chunk that
   needs more data has consumed everything and is not yet valid *)
Lemma rc_parse_flags L k buf k1 rest res : rc_parse L k buf = (k1, rest, res) ->
  match res with
  | Done => rc_valid k1 = true
  | More => rest = [] /\ rc_valid k1 = rc_valid k
  | Fail => rc_failed k1 = true
  end.
Proof.
  unfold rc_parse, rc_failed. destruct (rc_fail k) eqn:Ef; [intros H; inversion H; subst; rewrite Ef; reflexivity|].
  destruct (if ck_valid (rc_hdr k) then (rc_hdr k, buf, Done) else ck_parse L (rc_hdr k) buf) as [[h1 buf1] r1] eqn:Eh.
  destruct r1.
  - destruct (ck_size h1 =? 0).
    + destruct (hd_parse L _ buf1) as [[t1 buf2] r2] eqn:Et. destruct r2; intros H; inversion H; subst; try reflexivity.
      * destruct (hd_parse_more L _ _ _ _ Et) as [-> _]. split; reflexivity.
      * cbn [rc_fail rc_hdr rc_trailers]. rewrite (hd_parse_fail L _ _ _ _ Et). rewrite !Bool.orb_true_r. reflexivity.
    + match goal with |- context [if ?c then _ else _] => destruct c end.
      * intros H. destruct (rc_data_end_flags L _ _ _ _ _ H) as [_ [_ F]]. destruct res; [exact F | | rewrite F; reflexivity].
        destruct F as [F1 [F2 _]]. split; [exact F1 | exact F2].
      * intros H; inversion H; subst. split; reflexivity.
  - intros H; inversion H; subst. destruct (ck_valid (rc_hdr k)) eqn:Ev; [inversion Eh|].
    destruct (ck_parse_flags L _ _ _ _ _ Eh) as [-> _]. split; reflexivity.
  - intros H; inversion H; subst. cbn [rc_fail rc_hdr rc_trailers].
    destruct (ck_valid (rc_hdr k)); [inversion Eh|]. unfold ck_parse in Eh. destruct (ck_fail (rc_hdr k)) eqn:Ecf.
    + inversion Eh; subst. rewrite Ecf, Bool.orb_true_r. reflexivity.
    + destruct (ck_loop_fail_flag L _ _ _ _ _ Eh Ecf) as [_ F]. rewrite (F eq_refl), Bool.orb_true_r. reflexivity.
Qed.

Lemma receive_chunked_app cfg rp v x b v3 ra r : rc_ok (rv_chunk v) -> receive_chunked cfg rp v x = (v3, ra, r) ->
  (ra <> [] -> receive_chunked cfg rp v (x ++ b) = (v3, ra ++ b, r)) /\
  (ra = [] -> r = RX_INCOMPLETE -> rc_valid (rv_chunk v3) = false ->
   receive_chunked cfg rp v (x ++ b) = receive_chunked cfg false v3 b).
Proof.
  intros Hok H. unfold receive_chunked in H. unfold receive_chunked at 1 2. cbv zeta in H |- *.
  set (k0 := if rc_valid (rv_chunk v) then rc_clear (rv_chunk v) else rv_chunk v) in *.
  assert (Hok0 : rc_ok k0) by (unfold k0; destruct (rc_valid (rv_chunk v)); [exact fl_ok_init | exact Hok]).
  cbn [rv_req rv_chunk rv_body rv_code rv_continue_sent rv_is_head] in *.
  destruct (rp && rq_expect_continue (rv_req v) && negb (rv_continue_sent v)) eqn:Eexp.
  { inversion H; subst. split; [reflexivity | intros _ E; discriminate E]. }
  destruct (rp && negb (c_concat cfg)) eqn:Ehead.
  { inversion H; subst. split; [reflexivity | intros _ E; discriminate E]. }
  rewrite (rc_parse_app (c_lim cfg) _ x b Hok0).
  destruct (rc_parse (c_lim cfg) k0 x) as [[k1 b2] r2] eqn:Ep. pose proof (rc_parse_flags _ _ _ _ _ _ Ep) as Hfl.
  cbn [rv_req rv_chunk rv_body rv_code rv_continue_sent rv_is_head] in *.
  destruct r2.
  - (* a complete chunk *)
    rewrite Hfl in *.
    destruct (c_concat cfg) eqn:Ecc.
    + destruct (rc_is_last k1).
      * inversion H; subst. split; [reflexivity | intros _ E; discriminate E].
      * destruct (c_max_content cfg <? nlen (rv_body v) + nlen (rc_data k1)).
        -- unfold invalid in *. inversion H; subst. split; [reflexivity | intros _ E; discriminate E].
        -- inversion H; subst. split; [reflexivity|]. intros _ _ Hv. cbn [rv_chunk] in Hv. congruence.
    + inversion H; subst. split; [reflexivity | intros _ E; discriminate E].
  - (* ran out of data *)
    destruct (nonempty b2 || rc_failed k1) eqn:Efail.
    + unfold invalid in *. inversion H; subst. split; [|intros _ E; discriminate E].
      intros Hne. exfalso. (* More leaves nothing unread *)
      destruct Hfl as [Hr _]. subst. contradiction.
    + apply Bool.orb_false_iff in Efail. destruct Efail as [Hb2 Hnf]. destruct b2; [|discriminate].
      destruct (rc_valid k1) eqn:Ev1.
      * (* not reachable: a chunk that needs more data is not valid *)
        exfalso. destruct Hfl as [_ Hv]. unfold k0 in Hv. destruct (rc_valid (rv_chunk v)) eqn:E0; [discriminate Hv | congruence].
      * inversion H; subst. split; [intros E; contradiction|]. intros _ _ _.
        unfold receive_chunked. cbn [rv_req rv_chunk rv_body rv_code rv_continue_sent rv_is_head]. rewrite Ev1.
        cbn [andb]. reflexivity.
  - (* an error *)
    rewrite Hfl, Bool.orb_true_r in H. rewrite Hfl, Bool.orb_true_r.
    unfold invalid in *. inversion H; subst. split; [reflexivity | intros _ E; discriminate E].
Qed.

Lemma receive_cl_incomplete_req cfg rp v x v3 ra : receive_cl cfg rp v x = (v3, ra, RX_INCOMPLETE) -> rv_req v3 = rv_req v.
Proof.
  unfold receive_cl, invalid.
  destruct (rq_is_trace (rv_req v) && negb (rq_is_trace (rv_req v) && negb match hd_content_length (rq_headers (rv_req v)) with Some 0 => true | _ => false end)) eqn:E1;
  destruct (rq_is_trace (rv_req v) && negb match hd_content_length (rq_headers (rv_req v)) with Some 0 => true | _ => false end) eqn:E2;
  try (intros H; discriminate H);
  destruct (hd_content_length (rq_headers (rv_req v))) as [n|]; try (intros H; discriminate H);
  repeat match goal with |- context [if ?c then _ else _] => destruct c end;
    intros H; inversion H; subst; reflexivity.
Qed.

Lemma receive_chunked_incomplete_req cfg rp v x v3 ra : receive_chunked cfg rp v x = (v3, ra, RX_INCOMPLETE) -> rv_req v3 = rv_req v.
Proof.
  unfold receive_chunked, invalid. cbv zeta.
  destruct (rp && rq_expect_continue (rv_req v) && _); [intros H; inversion H|].
  destruct (rp && negb (c_concat cfg)); [intros H; inversion H|].
  destruct (rc_parse _ _ x) as [[k1 b2] r2].
  repeat match goal with |- context [if ?c then _ else _] => destruct c end; intros H; inversion H; subst; reflexivity.
Qed.

Definition rv_ok (v : receiver) : Prop := rq_ok (rv_req v) /\ rc_ok (rv_chunk v).

Lemma rq_parse_flags L q buf q1 rest res : rq_valid q = false -> rq_parse L q buf = (q1, rest, res) ->
  match res with
  | Done => rq_valid q1 = true
  | More => rest = [] /\ rq_valid q1 = false
  | Fail => True
  end.
Proof.
  intros Hv. unfold rq_parse.
  destruct (if rl_valid (rq_line q) then (rq_line q, buf, Done) else rl_parse L (rq_line q) buf) as [[l1 b1] r1] eqn:El.
  destruct r1.
  - destruct (if hd_valid (rq_headers q) then (rq_headers q, b1, Done) else hd_parse L (rq_headers q) b1) as [[h1 b2] r2] eqn:Eh.
    destruct r2; intros H; inversion H; subst; try exact I; try reflexivity.
    destruct (hd_valid (rq_headers q)); [inversion Eh|]. destruct (hd_parse_more L _ _ _ _ Eh) as [-> _]. split; [reflexivity|exact Hv].
  - intros H; inversion H; subst. destruct (rl_valid (rq_line q)); [inversion El|].
    destruct (rl_parse_flags L _ _ _ _ _ El) as [-> _]. split; [reflexivity|exact Hv].
  - intros H; inversion H; subst. exact I.
Qed.

Lemma rv_eta v : mk_rv (rv_req v) (rv_chunk v) (rv_body v) (rv_code v) (rv_continue_sent v) (rv_is_head v) = v.
Proof. destruct v; reflexivity. Qed.

Lemma receive_body_app cfg rp v x b v3 ra r : rc_ok (rv_chunk v) -> receive_body cfg rp v x = (v3, ra, r) ->
  (ra <> [] -> receive_body cfg rp v (x ++ b) = (v3, ra ++ b, r)) /\
  (ra = [] -> r = RX_INCOMPLETE -> hd_is_chunked (rq_headers (rv_req v3)) = false \/ rc_valid (rv_chunk v3) = false ->
   receive_body cfg rp v (x ++ b) = receive_body cfg false v3 b).
Proof.
  intros Hok H. unfold receive_body in H. unfold receive_body at 1 2.
  destruct (rq_missing_host (rv_req v)) eqn:Emh.
  { inversion H; subst. split; [reflexivity | intros _ E; discriminate E]. }
  destruct (negb (hd_is_chunked (rq_headers (rv_req v)))) eqn:Ech.
  - destruct (receive_cl_app cfg rp v x b v3 ra r H) as [G1 G2]. split; [exact G1|]. intros E1 E2 _.
    subst. rewrite (G2 eq_refl eq_refl). unfold receive_body.
    rewrite (receive_cl_incomplete_req _ _ _ _ _ _ H), Emh, Ech. reflexivity.
  - destruct (receive_chunked_app cfg rp v x b v3 ra r Hok H) as [G1 G2]. split; [exact G1|]. intros E1 E2 E3.
    subst. pose proof (receive_chunked_incomplete_req _ _ _ _ _ _ H) as Hrq.
    assert (Hv3 : rc_valid (rv_chunk v3) = false).
    { destruct E3 as [E3|E3]; [|exact E3]. rewrite Hrq in E3. rewrite E3 in Ech. discriminate Ech. }
    rewrite (G2 eq_refl eq_refl Hv3). unfold receive_body. rewrite Hrq, Emh, Ech. reflexivity.
Qed.

(* request_receiver::receive *)
Theorem receive_app cfg v a b v1 ra r : rv_ok v -> receive cfg v a = (v1, ra, r) ->
  (ra <> [] -> receive cfg v (a ++ b) = (v1, ra ++ b, r)) /\
  (ra = [] -> r = RX_INCOMPLETE -> hd_is_chunked (rq_headers (rv_req v1)) = false \/ rc_valid (rv_chunk v1) = false ->
   receive cfg v (a ++ b) = receive cfg v1 b).
Proof.
  intros [Hq Hc] H. unfold receive in H. unfold receive at 1 2. cbv zeta in H |- *.
  destruct (rq_valid (rv_req v)) eqn:Ev; cbn [negb] in *.
  - (* the head was complete before this call *)
    rewrite rv_eta in *.
    destruct (receive_body_app cfg false v a b v1 ra r Hc H) as [G1 G2]. split; [exact G1|]. intros E1 E2 E3. subst.
    rewrite (G2 eq_refl eq_refl E3). unfold receive. cbv zeta.
    assert (Hrq : rv_req v1 = rv_req v).
    { unfold receive_body in H. destruct (rq_missing_host (rv_req v)); [inversion H|].
      destruct (negb (hd_is_chunked (rq_headers (rv_req v))));
        [exact (receive_cl_incomplete_req _ _ _ _ _ _ H) | exact (receive_chunked_incomplete_req _ _ _ _ _ _ H)]. }
    rewrite Hrq, Ev. cbn [negb]. rewrite <- Hrq, rv_eta. reflexivity.
  - rewrite (rq_parse_app (c_lim cfg) _ a b Hq).
    destruct (rq_parse (c_lim cfg) (rv_req v) a) as [[q1 b1] r1] eqn:Ep.
    pose proof (rq_parse_flags _ _ _ _ _ _ Ev Ep) as Hfl.
    destruct r1.
    + (* the head is complete within a *)
      set (w := mk_rv q1 (rv_chunk v) (rv_body v) (rv_code v) (rv_continue_sent v) (rv_is_head v)) in *.
      destruct (receive_body_app cfg true w b1 b v1 ra r Hc H) as [G1 G2]. split; [exact G1|]. intros E1 E2 E3. subst.
      rewrite (G2 eq_refl eq_refl E3). unfold receive. cbv zeta.
      assert (Hrq : rv_req v1 = q1).
      { unfold receive_body in H. destruct (rq_missing_host (rv_req w)); [inversion H|].
        destruct (negb (hd_is_chunked (rq_headers (rv_req w))));
          [exact (receive_cl_incomplete_req _ _ _ _ _ _ H) | exact (receive_chunked_incomplete_req _ _ _ _ _ _ H)]. }
      rewrite Hrq, Hfl. cbn [negb]. rewrite <- Hrq, rv_eta. reflexivity.
    + (* the head is not complete at the end of a *)
      destruct Hfl as [-> Hv1]. cbn [nonempty orb] in H.
      destruct (rl_fail (rq_line q1) || hd_fail (rq_headers q1)) eqn:Ef.
      * unfold invalid in H. inversion H; subst. split; [intros E; contradiction | intros _ E; discriminate E].
      * inversion H; subst. clear H. split; [intros E; contradiction|]. intros _ _ _.
        unfold receive. cbv zeta. cbn [rv_req rv_chunk rv_body rv_code rv_continue_sent rv_is_head]. rewrite Hv1. reflexivity.
    + (* the head is in error *)
      pose proof (rq_parse_fail _ _ _ _ _ Ep) as F.
      rewrite <- Bool.orb_assoc in H |- *. rewrite F, !Bool.orb_true_r in H |- *.
      unfold invalid in *. inversion H; subst. split; [reflexivity | intros _ E; discriminate E].
Qed.

(* ---- the invariant holds in every state a connection can reach ---- *)
Lemma rq_parse_ok L q buf q1 rest r : rq_ok q -> rq_parse L q buf = (q1, rest, r) -> rq_ok q1.
Proof.
  unfold rq_ok, rq_parse. intros Hok.
  destruct (if rl_valid (rq_line q) then (rq_line q, buf, Done) else rl_parse L (rq_line q) buf) as [[l1 b1] r1].
  destruct r1; try (intros H; inversion H; subst; exact Hok).
  destruct (hd_valid (rq_headers q)) eqn:Ev.
  - intros H; inversion H; subst. exact Hok.
  - destruct (hd_parse L (rq_headers q) b1) as [[h1 b2] r2] eqn:Eh.
    pose proof (hd_parse_ok L _ _ _ _ _ Hok Eh) as H1. destruct r2; intros H; inversion H; subst; exact H1.
Qed.

Lemma rc_data_end_ok L k x k1 rest r : rc_ok k -> rc_data_end L k x = (k1, rest, r) -> rc_ok k1.
Proof. unfold rc_ok. intros Hok H. destruct (rc_data_end_flags L _ _ _ _ _ H) as [_ [Ht _]]. rewrite Ht. exact Hok. Qed.

Lemma rc_parse_ok L k buf k1 rest r : rc_ok k -> rc_parse L k buf = (k1, rest, r) -> rc_ok k1.
Proof.
  unfold rc_parse. intros Hok. destruct (rc_fail k); [intros H; inversion H; subst; exact Hok|].
  destruct (if ck_valid (rc_hdr k) then (rc_hdr k, buf, Done) else ck_parse L (rc_hdr k) buf) as [[h1 buf1] r1].
  destruct r1; try (intros H; inversion H; subst; exact Hok).
  destruct (ck_size h1 =? 0).
  - destruct (hd_parse L _ buf1) as [[t1 buf2] r2] eqn:Et.
    pose proof (hd_parse_ok L _ _ _ _ _ Hok Et) as H1. destruct r2; intros H; inversion H; subst; exact H1.
  - match goal with |- context [if ?c then _ else _] => destruct c end.
    + intros H. eapply rc_data_end_ok; [|exact H]. exact Hok.
    + intros H; inversion H; subst. exact Hok.
Qed.

Lemma rv_ok_init cfg : rv_ok (rv_init cfg).
Proof. split; exact fl_ok_init. Qed.

Lemma rv_ok_clear v : rv_ok (rv_clear v).
Proof. split; exact fl_ok_init. Qed.

Lemma receive_cl_ok cfg rp v x v3 ra r : rv_ok v -> receive_cl cfg rp v x = (v3, ra, r) -> rv_ok v3.
Proof.
  intros [Hq Hc]. unfold receive_cl, invalid.
  set (v2 := if rq_is_trace (rv_req v) && _ then rv_set_code v code_METHOD_NOT_ALLOWED else v).
  assert (H2 : rv_ok v2) by (unfold v2; match goal with |- context [if ?c then _ else _] => destruct c end; split; assumption).
  destruct H2 as [H2q H2c].
  repeat match goal with |- context [if ?c then _ else _] => destruct c | |- context [match ?c with Some _ => _ | None => _ end] => destruct c end;
    intros H; inversion H; subst; try apply rv_ok_clear; try (split; assumption); split; cbn; assumption.
Qed.

Lemma receive_chunked_ok cfg rp v x v3 ra r : rv_ok v -> receive_chunked cfg rp v x = (v3, ra, r) -> rv_ok v3.
Proof.
  intros [Hq Hc]. unfold receive_chunked, invalid. cbv zeta.
  set (k0 := if rc_valid (rv_chunk v) then rc_clear (rv_chunk v) else rv_chunk v).
  assert (Hok0 : rc_ok k0) by (unfold k0; destruct (rc_valid (rv_chunk v)); [exact fl_ok_init | exact Hc]).
  destruct (rp && rq_expect_continue (rv_req v) && _); [intros H; inversion H; subst; split; assumption|].
  destruct (rp && negb (c_concat cfg)); [intros H; inversion H; subst; split; assumption|].
  destruct (rc_parse (c_lim cfg) k0 x) as [[k1 b2] r2] eqn:Ep. pose proof (rc_parse_ok _ _ _ _ _ _ Hok0 Ep) as Hk1.
  repeat match goal with |- context [if ?c then _ else _] => destruct c end;
    intros H; inversion H; subst; try apply rv_ok_clear; split; cbn; assumption.
Qed.

Lemma receive_ok cfg v buf v1 rest r : rv_ok v -> receive cfg v buf = (v1, rest, r) -> rv_ok v1.
Proof.
  intros [Hq Hc]. unfold receive. cbv zeta.
  destruct (if negb (rq_valid (rv_req v)) then rq_parse (c_lim cfg) (rv_req v) buf else (rv_req v, buf, Done)) as [[q1 b1] r1] eqn:Ep.
  assert (Hq1 : rq_ok q1).
  { destruct (negb (rq_valid (rv_req v))); [exact (rq_parse_ok _ _ _ _ _ _ Hq Ep) | inversion Ep; subst; exact Hq]. }
  set (w := mk_rv q1 (rv_chunk v) (rv_body v) (rv_code v) (rv_continue_sent v) (rv_is_head v)).
  assert (Hw : rv_ok w) by (split; assumption).
  destruct r1.
  - unfold receive_body. destruct (rq_missing_host (rv_req w)); [intros H; inversion H; subst; exact Hw|].
    destruct (negb (hd_is_chunked (rq_headers (rv_req w)))); [apply receive_cl_ok | apply receive_chunked_ok]; exact Hw.
  - unfold invalid. match goal with |- context [if ?c then _ else _] => destruct c end; intros H; inversion H; subst; [apply rv_ok_clear | exact Hw].
  - unfold invalid. match goal with |- context [if ?c then _ else _] => destruct c end; intros H; inversion H; subst; [apply rv_ok_clear | exact Hw].
Qed.

Lemma dispatch_ok cfg v r : rv_ok v -> rv_ok (fst (dispatch_rx cfg v r)).
Proof.
  intros Hok. unfold dispatch_rx. destruct r.
  - apply rv_ok_clear.
  - destruct (c_defer_continue cfg); [exact Hok | destruct Hok; split; assumption].
  - exact Hok.
  - destruct (negb (rq_is_trace (rv_req v))); [|apply rv_ok_clear].
    destruct (hd_is_chunked (rq_headers (rv_req v)) && negb (c_concat cfg)); [exact Hok | apply rv_ok_clear].
  - destruct (rc_is_last (rv_chunk v)); [apply rv_ok_clear | exact Hok].
  - exact Hok.
Qed.

Lemma rx_loop_ok cfg : forall fuel v buf, rv_ok v -> rv_ok (fst (fst (fst (rx_loop fuel cfg v buf)))).
Proof.
  induction fuel as [|fuel IH]; intros v buf Hok; destruct buf as [|c t]; cbn [rx_loop fst]; try exact Hok.
  destruct (receive cfg v (c :: t)) as [[v1 rest] r] eqn:Er. pose proof (receive_ok _ _ _ _ _ _ Hok Er) as H1.
  pose proof (dispatch_ok cfg v1 r H1) as H2. destruct (dispatch_rx cfg v1 r) as [v2 evs]. cbn [fst] in H2.
  destruct r; try (specialize (IH v2 rest H2); destruct (rx_loop fuel cfg v2 rest) as [[[v3 e3] c3] o3]; exact IH); exact H2.
Qed.

Lemma feed_ok cfg : forall frags v, rv_ok v -> rv_ok (fst (fst (fst (feed cfg v frags)))).
Proof.
  induction frags as [|f t IH]; intros v Hok; cbn [feed fst]; [exact Hok|].
  pose proof (rx_loop_ok cfg (loop_fuel f) v f Hok) as H1. unfold read_loop.
  destruct (rx_loop (loop_fuel f) cfg v f) as [[[v1 e1] c1] o1]. cbn [fst] in H1.
  specialize (IH v1 H1). destruct (feed cfg v1 t) as [[[v2 e2] c2] o2]. exact IH.
Qed.

(* in every state a connection can be in after any sequence of reads, a receive call that stops before the end
   of its buffer does not depend on what follows, and one that ran out of data is continued exactly *)
Theorem receive_app_reachable cfg history a b v1 ra r :
  let v := fst (fst (fst (feed cfg (rv_init cfg) history))) in
  receive cfg v a = (v1, ra, r) ->
  (ra <> [] -> receive cfg v (a ++ b) = (v1, ra ++ b, r)) /\
  (ra = [] -> r = RX_INCOMPLETE -> hd_is_chunked (rq_headers (rv_req v1)) = false \/ rc_valid (rv_chunk v1) = false ->
   receive cfg v (a ++ b) = receive cfg v1 b).
Proof. intros v. apply receive_app. exact (feed_ok cfg history _ (rv_ok_init cfg)). Qed.

(* ---- the read loop ---- *)
Lemma rx_loop_more_fuel cfg : forall n v buf v' e c, rx_loop n cfg v buf = (v', e, c, false) ->
  forall k, rx_loop (n + k) cfg v buf = (v', e, c, false).
Proof.
  induction n as [|n IH]; intros v buf v' e c H k.
  - destruct buf; cbn [rx_loop] in H; [|inversion H]. inversion H; subst. destruct (0 + k)%nat; reflexivity.
  - destruct buf as [|d t]; [cbn [rx_loop] in H |- *; exact H|].
    cbn [Nat.add rx_loop] in H |- *. destruct (receive cfg v (d :: t)) as [[w rest] r].
    destruct (dispatch_rx cfg w r) as [w2 evs].
    destruct r; try exact H;
      (destruct (rx_loop n cfg w2 rest) as [[[v3 e3] c3] o3] eqn:El; inversion H; subst;
       rewrite (IH _ _ _ _ _ El k); reflexivity).
Qed.

Lemma rx_loop_calls_nonempty cfg n v x t v' e : rx_loop n cfg v (x :: t) = (v', e, [], false) -> False.
Proof.
  destruct n; cbn [rx_loop]; [intros H; inversion H|].
  destruct (receive cfg v (x :: t)) as [[w rest] r]. destruct (dispatch_rx cfg w r) as [w2 evs].
  destruct r; try (intros H; inversion H; fail); destruct (rx_loop n cfg w2 rest) as [[[a1 a2] a3] a4]; intros H; inversion H.
Qed.

Definition ends_incomplete (calls : list (rx * N)) : Prop :=
  exists pre n, calls = pre ++ [(RX_INCOMPLETE, n)].
Definition no_reject (calls : list (rx * N)) : Prop :=
  forall r n, In (r, n) calls -> r <> RX_INVALID /\ r <> RX_UB.

(* a read that ends in the middle of a message: the loop over a ++ b does what the loop over a followed by the loop
   over b does - same deliveries in the same order, same final state *)
Theorem rx_loop_cut_mid_message cfg : forall n v a b v1 e1 c1 m v2 e2 c2,
  rv_ok v ->
  rx_loop n cfg v a = (v1, e1, c1, false) -> ends_incomplete c1 -> no_reject c1 ->
  hd_is_chunked (rq_headers (rv_req v1)) = false \/ rc_valid (rv_chunk v1) = false ->
  rx_loop m cfg v1 b = (v2, e2, c2, false) ->
  exists c, rx_loop (n + m) cfg v (a ++ b) = (v2, e1 ++ e2, c, false).
Proof.
  induction n as [|n IH]; intros v a b v1 e1 c1 m v2 e2 c2 Hok Ha Hend Hnr Hcv Hb.
  - destruct a; cbn [rx_loop] in Ha; inversion Ha; subst. destruct Hend as [pre [k E]]. destruct pre; discriminate.
  - destruct a as [|d t].
    { cbn [rx_loop] in Ha. inversion Ha; subst. destruct Hend as [pre [k E]]. destruct pre; discriminate. }
    pose proof Ha as Ha0.
    cbn [rx_loop] in Ha. destruct (receive cfg v (d :: t)) as [[w rest] r] eqn:Er.
    pose proof (receive_ok _ _ _ _ _ _ Hok Er) as Hw.
    destruct (receive_app cfg v (d :: t) b w rest r Hok Er) as [G1 G2].
    pose proof (dispatch_ok cfg w r Hw) as Hw2.
    destruct (dispatch_rx cfg w r) as [w2 evs] eqn:Ed. cbn [fst] in Hw2.
    assert (Hr : r <> RX_INVALID /\ r <> RX_UB).
    { destruct r; try (split; discriminate); exfalso; inversion Ha; subst;
        (destruct (Hnr _ _ (or_introl eq_refl)) as [X Y]; congruence). }
    destruct Hr as [Hr1 Hr2].
    assert (Hrec : exists v3 e3 c3, rx_loop n cfg w2 rest = (v3, e3, c3, false) /\ v1 = v3 /\ e1 = evs ++ e3 /\
                   c1 = (r, nlen (d :: t) - nlen rest) :: c3).
    { destruct (rx_loop n cfg w2 rest) as [[[v3 e3] c3] o3] eqn:El.
      destruct r; try congruence; inversion Ha; subst; eexists _, _, _; repeat split; reflexivity. }
    destruct Hrec as [v3 [e3 [c3 [El [Ev [Ee Ec]]]]]]. subst v1 e1 c1.
    destruct rest as [|x rest'].
    + (* the call consumed the rest of the read *)
      assert (Hc3 : v3 = w2 /\ e3 = [] /\ c3 = []) by (destruct n; cbn [rx_loop] in El; inversion El; auto).
      destruct Hc3 as [-> [-> ->]].
      destruct Hend as [pre [k E]]. assert (r = RX_INCOMPLETE).
      { destruct pre as [|p pre']; [inversion E; reflexivity|]. inversion E. destruct pre'; discriminate. }
      subst r. cbn [dispatch_rx] in Ed. inversion Ed; subst. clear Ed.
      rewrite app_nil_r. cbn [app].
      destruct b as [|y b'].
      * cbn [rx_loop] in Hb. destruct m; cbn [rx_loop] in Hb; inversion Hb; subst;
          rewrite app_nil_r; eexists; apply (rx_loop_more_fuel cfg (S n) v (d :: t) _ _ _ Ha0).
      * destruct m as [|m]; [cbn [rx_loop] in Hb; inversion Hb|].
        replace (S n + S m)%nat with (S (m + S n))%nat by lia.
        change ((d :: t) ++ y :: b') with (d :: (t ++ y :: b')). cbn [rx_loop].
        change (d :: t ++ y :: b') with ((d :: t) ++ y :: b'). rewrite (G2 eq_refl eq_refl Hcv).
        cbn [rx_loop] in Hb. destruct (receive cfg w2 (y :: b')) as [[w' rest'] r'] eqn:Er'.
        destruct (dispatch_rx cfg w' r') as [w2' evs'].
        assert (Hnl : nlen ((d :: t) ++ y :: b') - nlen rest' = nlen ((d :: t) ++ y :: b') - nlen rest') by reflexivity.
        destruct r'; try (inversion Hb; subst; eexists; reflexivity);
          (destruct (rx_loop m cfg w2' rest') as [[[v4 e4] c4] o4] eqn:El4; inversion Hb; subst;
           rewrite (rx_loop_more_fuel cfg m _ _ _ _ _ El4 (S n)); eexists; reflexivity).
    + (* the call left bytes of this read unread: it does not see b *)
      assert (Hne : x :: rest' <> []) by discriminate.
      assert (Hend3 : ends_incomplete c3).
      { destruct Hend as [pre [k E]]. destruct pre as [|p pre'].
        - inversion E; subst. exfalso. exact (rx_loop_calls_nonempty _ _ _ _ _ _ _ El).
        - inversion E; subst. exists pre', k. reflexivity. }
      assert (Hnr3 : no_reject c3) by (intros r0 n0 Hin; apply (Hnr r0 n0); right; exact Hin).
      destruct (IH w2 (x :: rest') b v3 e3 c3 m v2 e2 c2 Hw2 El Hend3 Hnr3 Hcv Hb) as [c Hc].
      change ((d :: t) ++ b) with (d :: (t ++ b)). cbn [Nat.add rx_loop].
      change (d :: t ++ b) with ((d :: t) ++ b). rewrite (G1 Hne), Ed.
      exists ((r, nlen ((d :: t) ++ b) - nlen ((x :: rest') ++ b)) :: c).
      destruct r; try congruence; rewrite Hc, <- app_assoc; reflexivity.
Qed.

(* ---- calls that complete exactly at the end of a read ---- *)
(* a call that delivers a request or a chunk (or, when chunks are concatenated, absorbs a complete chunk) with the
   last byte of the read returns the same result when more bytes follow - provided the request says how it is
   framed (without Content-Length and without chunked coding, bytes that follow a request are taken for a body the
   client failed to announce: 411) *)
Lemma receive_cl_end cfg rp v x b v3 : receive_cl cfg rp v x = (v3, [], RX_VALID) ->
  nonempty (hd_find (rq_headers (rv_req v)) hf_LC_CONTENT_LENGTH) = true ->
  receive_cl cfg rp v (x ++ b) = (v3, b, RX_VALID).
Proof.
  intros H Hhas. unfold receive_cl in H |- *. rewrite Hhas in *.
  set (q1 := rv_req v) in *. set (cl := hd_content_length (rq_headers q1)) in *.
  set (trace_bad := rq_is_trace q1 && negb match cl with Some 0 => true | _ => false end) in *.
  set (v2 := if rq_is_trace q1 && negb trace_bad then rv_set_code v code_METHOD_NOT_ALLOWED else v) in *.
  destruct trace_bad; [unfold invalid in H; inversion H|].
  destruct cl as [n|]; [|unfold invalid in H; inversion H].
  destruct ((0 <? n) && (c_max_content cfg <? n)); [unfold invalid in H; inversion H|].
  cbn [negb] in *. rewrite !Bool.andb_false_r in *.
  cbn [rv_req rv_chunk rv_body rv_code rv_continue_sent rv_is_head] in *.
  set (required := (Z.of_N n - Z.of_N (nlen (rv_body v2)))%Z) in *.
  rewrite nlen_app'.
  destruct (required <? 0)%Z eqn:Eneg.
  { replace (required <? Z.of_N (nlen x))%Z with true in H by (unfold nlen; lia). cbn [andb] in H. inversion H. }
  cbn [andb] in *.
  destruct (required <? Z.of_N (nlen x))%Z eqn:Elt.
  - (* the body would end inside x: then something is left over *)
    assert (Hn : (Z.to_nat required < length x)%nat) by (unfold nlen in Elt; lia).
    pose proof (skipn_nonempty _ _ Hn) as Hsk.
    destruct (nlen (rv_body v2 ++ firstn (Z.to_nat required) x) =? n); [inversion H; subst; congruence|].
    destruct (rp && rq_expect_continue q1 && negb (rv_continue_sent v2)); inversion H.
  - assert (Hge : (length x <= Z.to_nat required)%nat) by (unfold nlen in Elt; lia).
    destruct (nlen (rv_body v2 ++ x) =? n) eqn:Efull.
    2:{ destruct (rp && rq_expect_continue q1 && negb (rv_continue_sent v2)); inversion H. }
    inversion H; subst. clear H.
    assert (Hreq : Z.to_nat required = length x) by (rewrite nlen_app' in Efull; unfold required, nlen in *; lia).
    destruct b as [|y b'].
    + rewrite app_nil_r. replace (required <? Z.of_N (nlen x + nlen []))%Z with false by (unfold nlen in *; cbn [length]; lia).
      rewrite Efull. reflexivity.
    + replace (required <? Z.of_N (nlen x + nlen (y :: b')))%Z with true by (unfold nlen in *; cbn [length]; lia).
      rewrite Hreq, firstn_app_exact, skipn_app_exact, Efull. reflexivity.
Qed.

Lemma receive_chunked_end cfg rp v x b v3 r : rc_ok (rv_chunk v) -> receive_chunked cfg rp v x = (v3, [], r) ->
  r = RX_VALID \/ r = RX_CHUNK \/ (r = RX_INCOMPLETE /\ rc_valid (rv_chunk v3) = true) ->
  receive_chunked cfg rp v (x ++ b) = (v3, b, r).
Proof.
  intros Hok H Hr. unfold receive_chunked in H |- *. cbv zeta in H |- *.
  set (k0 := if rc_valid (rv_chunk v) then rc_clear (rv_chunk v) else rv_chunk v) in *.
  assert (Hok0 : rc_ok k0) by (unfold k0; destruct (rc_valid (rv_chunk v)); [exact fl_ok_init | exact Hok]).
  cbn [rv_req rv_chunk rv_body rv_code rv_continue_sent rv_is_head] in *.
  destruct (rp && rq_expect_continue (rv_req v) && negb (rv_continue_sent v)).
  { inversion H; subst. destruct Hr as [E|[E|[E _]]]; discriminate E. }
  destruct (rp && negb (c_concat cfg)).
  { inversion H; subst. reflexivity. }
  rewrite (rc_parse_app (c_lim cfg) _ x b Hok0).
  destruct (rc_parse (c_lim cfg) k0 x) as [[k1 b2] r2] eqn:Ep. pose proof (rc_parse_flags _ _ _ _ _ _ Ep) as Hfl.
  destruct r2.
  - rewrite Hfl in *.
    destruct (c_concat cfg).
    + destruct (rc_is_last k1); [inversion H; subst; reflexivity|].
      destruct (c_max_content cfg <? nlen (rv_body v) + nlen (rc_data k1)); [unfold invalid in *; inversion H; subst; destruct Hr as [E|[E|[E _]]]; discriminate E|].
      inversion H; subst. reflexivity.
    + inversion H; subst. reflexivity.
  - (* ran out of data: the result is INCOMPLETE with a chunk that is not valid, or a rejection *)
    exfalso. destruct Hfl as [-> Hv]. cbn [nonempty orb] in H.
    assert (Hv0 : rc_valid k0 = false) by (unfold k0; destruct (rc_valid (rv_chunk v)) eqn:E0; [reflexivity | exact E0]).
    rewrite Hv0 in Hv. destruct (rc_failed k1).
    + unfold invalid in H. inversion H; subst. destruct Hr as [E|[E|[E _]]]; discriminate E.
    + rewrite Hv in H. inversion H; subst. destruct Hr as [E|[E|[_ E]]]; try discriminate E. cbn [rv_chunk] in E. congruence.
  - exfalso. rewrite Hfl, Bool.orb_true_r in H. unfold invalid in H. inversion H; subst. destruct Hr as [E|[E|[E _]]]; discriminate E.
Qed.

Definition framed_head (q : rx_request) : bool :=
  nonempty (hd_find (rq_headers q) hf_LC_CONTENT_LENGTH) || hd_is_chunked (rq_headers q).

(* the head this call works with (the one it completes, or the one completed earlier) is framed *)
Definition framed_call (cfg : rcfg) (v : receiver) (buf : str) : bool :=
  let '(q1, _, r1) := if negb (rq_valid (rv_req v)) then rq_parse (c_lim cfg) (rv_req v) buf else (rv_req v, buf, Done) in
  match r1 with Done => framed_head q1 | _ => true end.

Lemma receive_body_end cfg rp v x b v3 r : rc_ok (rv_chunk v) -> receive_body cfg rp v x = (v3, [], r) ->
  r = RX_VALID \/ r = RX_CHUNK \/
  (r = RX_INCOMPLETE /\ hd_is_chunked (rq_headers (rv_req v3)) = true /\ rc_valid (rv_chunk v3) = true) ->
  framed_head (rv_req v) = true ->
  receive_body cfg rp v (x ++ b) = (v3, b, r).
Proof.
  intros Hok H Hr Hfr. pose proof H as H0. unfold receive_body in H |- *.
  destruct (rq_missing_host (rv_req v)); [inversion H; subst; destruct Hr as [E|[E|[E _]]]; discriminate E|].
  destruct (negb (hd_is_chunked (rq_headers (rv_req v)))) eqn:Ech.
  - assert (Hcl : nonempty (hd_find (rq_headers (rv_req v)) hf_LC_CONTENT_LENGTH) = true).
    { unfold framed_head in Hfr. destruct (hd_is_chunked (rq_headers (rv_req v))); [discriminate Ech|]. rewrite Bool.orb_false_r in Hfr. exact Hfr. }
    destruct Hr as [->|[->|[-> [Hv _]]]].
    + exact (receive_cl_end cfg rp v x b v3 H Hcl).
    + exfalso. revert H. unfold receive_cl, invalid.
      repeat match goal with |- context [if ?c then _ else _] => destruct c | |- context [match ?c with Some _ => _ | None => _ end] => destruct c end;
        intros H; inversion H.
    + exfalso. rewrite (receive_cl_incomplete_req _ _ _ _ _ _ H) in Hv. rewrite Hv in Ech. discriminate Ech.
  - apply (receive_chunked_end cfg rp v x b v3 r Hok H).
    destruct Hr as [E|[E|[E [_ E2]]]]; [left; exact E | right; left; exact E | right; right; split; assumption].
Qed.

Theorem receive_end cfg v a b v1 r : rv_ok v -> receive cfg v a = (v1, [], r) ->
  r = RX_VALID \/ r = RX_CHUNK \/
  (r = RX_INCOMPLETE /\ rq_valid (rv_req v1) = true /\ hd_is_chunked (rq_headers (rv_req v1)) = true /\
   rc_valid (rv_chunk v1) = true) ->
  framed_call cfg v a = true ->
  receive cfg v (a ++ b) = (v1, b, r).
Proof.
  intros [Hq Hc] H Hr' Hfr.
  assert (Hr : r = RX_VALID \/ r = RX_CHUNK \/
               (r = RX_INCOMPLETE /\ hd_is_chunked (rq_headers (rv_req v1)) = true /\ rc_valid (rv_chunk v1) = true))
    by (destruct Hr' as [E|[E|[E [_ E2]]]]; [left; exact E | right; left; exact E | right; right; split; assumption]).
  unfold receive in H |- *. unfold framed_call in Hfr. cbv zeta in H |- *.
  destruct (rq_valid (rv_req v)) eqn:Ev; cbn [negb] in *.
  - rewrite rv_eta in *. exact (receive_body_end cfg false v a b v1 r Hc H Hr Hfr).
  - rewrite (rq_parse_app (c_lim cfg) _ a b Hq).
    destruct (rq_parse (c_lim cfg) (rv_req v) a) as [[q1 b1] r1] eqn:Ep.
    pose proof (rq_parse_flags _ _ _ _ _ _ Ev Ep) as Hfl.
    destruct r1.
    + set (w := mk_rv q1 (rv_chunk v) (rv_body v) (rv_code v) (rv_continue_sent v) (rv_is_head v)) in *.
      (* everything after the head was consumed too *)
      assert (Hb1 : forall y, receive_body cfg true w b1 = (v1, [], r) -> receive_body cfg true w (b1 ++ y) = (v1, y, r)).
      { intros y Hy. exact (receive_body_end cfg true w b1 y v1 r Hc Hy Hr Hfr). }
      exact (Hb1 b H).
    + (* the head is not complete: the result is INCOMPLETE or a rejection, never one of the three *)
      exfalso. destruct Hfl as [-> Hv1]. cbn [nonempty orb] in H.
      destruct (rl_fail (rq_line q1) || hd_fail (rq_headers q1)).
      * unfold invalid in H. inversion H; subst. destruct Hr as [E|[E|[E _]]]; discriminate E.
      * inversion H; subst. destruct Hr' as [E|[E|[_ [E _]]]]; try discriminate E.
        cbn [rv_req] in E. congruence.
    + exfalso. pose proof (rq_parse_fail _ _ _ _ _ Ep) as F.
      rewrite <- Bool.orb_assoc in H. rewrite F, !Bool.orb_true_r in H. unfold invalid in H. inversion H; subst.
      destruct Hr as [E|[E|[E _]]]; discriminate E.
Qed.

(* a valid chunk belongs to a request whose head is complete *)
Definition rv_inv2 (v : receiver) : Prop := rc_valid (rv_chunk v) = true -> rq_valid (rv_req v) = true.

Lemma rv_inv2_clear v : rv_inv2 (rv_clear v).
Proof. unfold rv_inv2, rv_clear. cbn. discriminate. Qed.

Lemma rq_parse_done_valid L q buf q1 rest : rq_parse L q buf = (q1, rest, Done) -> rq_valid q1 = true.
Proof.
  unfold rq_parse.
  destruct (if rl_valid (rq_line q) then (rq_line q, buf, Done) else rl_parse L (rq_line q) buf) as [[l1 b1] r1].
  destruct r1; try (intros H; inversion H; fail).
  destruct (if hd_valid (rq_headers q) then (rq_headers q, b1, Done) else hd_parse L (rq_headers q) b1) as [[h1 b2] r2].
  destruct r2; intros H; inversion H; reflexivity.
Qed.

Lemma receive_inv2 cfg v buf v1 rest r : rv_inv2 v -> receive cfg v buf = (v1, rest, r) -> rv_inv2 v1.
Proof.
  intros Hi. unfold receive. cbv zeta.
  destruct (rq_valid (rv_req v)) eqn:Ev; cbn [negb].
  - (* head complete before: the request stays valid wherever it is kept *)
    rewrite rv_eta. unfold receive_body.
    destruct (rq_missing_host (rv_req v)); [intros H; inversion H; subst; unfold rv_inv2; cbn; intros _; exact Ev|].
    destruct (negb (hd_is_chunked (rq_headers (rv_req v)))).
    + unfold receive_cl, invalid.
      repeat match goal with |- context [if ?c then _ else _] => destruct c | |- context [match ?c with Some _ => _ | None => _ end] => destruct c end;
        intros H; inversion H; subst; try apply rv_inv2_clear; unfold rv_inv2; cbn; intros _; exact Ev.
    + unfold receive_chunked, invalid. cbv zeta.
      destruct (false && rq_expect_continue (rv_req v) && _); [intros H; inversion H; subst; unfold rv_inv2; cbn; intros _; exact Ev|].
      destruct (false && negb (c_concat cfg)); [intros H; inversion H; subst; unfold rv_inv2; cbn; intros _; exact Ev|].
      destruct (rc_parse _ _ buf) as [[k1 b2] r2].
      repeat match goal with |- context [if ?c then _ else _] => destruct c end;
        intros H; inversion H; subst; try apply rv_inv2_clear; unfold rv_inv2; cbn; intros _; exact Ev.
  - destruct (rq_parse (c_lim cfg) (rv_req v) buf) as [[q1 b1] r1] eqn:Ep.
    assert (Hcv : rc_valid (rv_chunk v) = false) by (destruct (rc_valid (rv_chunk v)) eqn:E; [rewrite (Hi E) in Ev; discriminate | reflexivity]).
    destruct r1.
    + pose proof (rq_parse_done_valid _ _ _ _ _ Ep) as Hq1. unfold receive_body. cbn [rv_req].
      destruct (rq_missing_host q1); [intros H; inversion H; subst; unfold rv_inv2; cbn; intros _; exact Hq1|].
      destruct (negb (hd_is_chunked (rq_headers q1))).
      * unfold receive_cl, invalid. cbn [rv_req rv_chunk rv_body rv_code rv_continue_sent rv_is_head].
        repeat match goal with |- context [if ?c then _ else _] => destruct c | |- context [match ?c with Some _ => _ | None => _ end] => destruct c end;
          intros H; inversion H; subst; try apply rv_inv2_clear; unfold rv_inv2; cbn; intros _; exact Hq1.
      * unfold receive_chunked, invalid. cbv zeta. cbn [rv_req rv_chunk rv_body rv_code rv_continue_sent rv_is_head].
        destruct (true && rq_expect_continue q1 && _); [intros H; inversion H; subst; unfold rv_inv2; cbn; intros _; exact Hq1|].
        destruct (true && negb (c_concat cfg)); [intros H; inversion H; subst; unfold rv_inv2; cbn; intros _; exact Hq1|].
        destruct (rc_parse _ _ b1) as [[k1 b2] r2].
        repeat match goal with |- context [if ?c then _ else _] => destruct c end;
          intros H; inversion H; subst; try apply rv_inv2_clear; unfold rv_inv2; cbn; intros _; exact Hq1.
    + unfold invalid. match goal with |- context [if ?c then _ else _] => destruct c end; intros H; inversion H; subst;
        [apply rv_inv2_clear | unfold rv_inv2; cbn; intros E; congruence].
    + unfold invalid. match goal with |- context [if ?c then _ else _] => destruct c end; intros H; inversion H; subst;
        [apply rv_inv2_clear | unfold rv_inv2; cbn; intros E; congruence].
Qed.

Lemma dispatch_inv2 cfg v r : rv_inv2 v -> rv_inv2 (fst (dispatch_rx cfg v r)).
Proof.
  intros Hi. unfold dispatch_rx. destruct r.
  - apply rv_inv2_clear.
  - destruct (c_defer_continue cfg); exact Hi.
  - exact Hi.
  - destruct (negb (rq_is_trace (rv_req v))); [|apply rv_inv2_clear].
    destruct (hd_is_chunked (rq_headers (rv_req v)) && negb (c_concat cfg)); [exact Hi | apply rv_inv2_clear].
  - destruct (rc_is_last (rv_chunk v)); [apply rv_inv2_clear | exact Hi].
  - exact Hi.
Qed.

(* every request head the loop meets says how the request is framed *)
Fixpoint loop_framed (fuel : nat) (cfg : rcfg) (v : receiver) (buf : str) : bool :=
  match buf with
  | [] => true
  | _ :: _ =>
      match fuel with
      | O => true
      | S fuel' =>
          let '(v1, rest, r) := receive cfg v buf in
          framed_call cfg v buf &&
          match r with
          | RX_INVALID | RX_UB => true
          | _ => loop_framed fuel' cfg (fst (dispatch_rx cfg v1 r)) rest
          end
      end
  end.

Definition ends_well (calls : list (rx * N)) : Prop :=
  exists pre r n, calls = pre ++ [(r, n)] /\ (r = RX_INCOMPLETE \/ r = RX_VALID \/ r = RX_CHUNK).

(* any read boundary that does not fall behind an interim EXPECT_CONTINUE: the loop over a ++ b delivers what the
   loop over a followed by the loop over b delivers, and ends in the same state *)
Theorem rx_loop_cut cfg : forall n v a b v1 e1 c1 m v2 e2 c2,
  rv_ok v -> rv_inv2 v ->
  rx_loop n cfg v a = (v1, e1, c1, false) -> ends_well c1 -> no_reject c1 -> loop_framed n cfg v a = true ->
  rx_loop m cfg v1 b = (v2, e2, c2, false) ->
  exists c, rx_loop (n + m) cfg v (a ++ b) = (v2, e1 ++ e2, c, false).
Proof.
  induction n as [|n IH]; intros v a b v1 e1 c1 m v2 e2 c2 Hok Hi2 Ha Hend Hnr Hfr Hb.
  - destruct a; cbn [rx_loop] in Ha; inversion Ha; subst. destruct Hend as [pre [r [k [E _]]]]. destruct pre; discriminate.
  - destruct a as [|d t].
    { cbn [rx_loop] in Ha. inversion Ha; subst. destruct Hend as [pre [r [k [E _]]]]. destruct pre; discriminate. }
    pose proof Ha as Ha0.
    cbn [rx_loop] in Ha. cbn [loop_framed] in Hfr. destruct (receive cfg v (d :: t)) as [[w rest] r] eqn:Er.
    apply Bool.andb_true_iff in Hfr. destruct Hfr as [Hfc Hfr].
    pose proof (receive_ok _ _ _ _ _ _ Hok Er) as Hw. pose proof (receive_inv2 _ _ _ _ _ _ Hi2 Er) as Hwi.
    destruct (receive_app cfg v (d :: t) b w rest r Hok Er) as [G1 G2].
    pose proof (dispatch_ok cfg w r Hw) as Hw2. pose proof (dispatch_inv2 cfg w r Hwi) as Hw2i.
    destruct (dispatch_rx cfg w r) as [w2 evs] eqn:Ed. cbn [fst] in Hw2, Hw2i, Hfr.
    assert (Hr : r <> RX_INVALID /\ r <> RX_UB).
    { destruct r; try (split; discriminate); exfalso; inversion Ha; subst;
        (destruct (Hnr _ _ (or_introl eq_refl)) as [X Y]; congruence). }
    destruct Hr as [Hr1 Hr2].
    assert (Hrec : exists v3 e3 c3, rx_loop n cfg w2 rest = (v3, e3, c3, false) /\ v1 = v3 /\ e1 = evs ++ e3 /\
                   c1 = (r, nlen (d :: t) - nlen rest) :: c3).
    { destruct (rx_loop n cfg w2 rest) as [[[v3 e3] c3] o3] eqn:El.
      destruct r; try congruence; inversion Ha; subst; eexists _, _, _; repeat split; reflexivity. }
    destruct Hrec as [v3 [e3 [c3 [El [Ev [Ee Ec]]]]]]. subst v1 e1 c1.
    destruct rest as [|x rest'].
    + (* the call consumed the rest of the read *)
      assert (Hc3 : v3 = w2 /\ e3 = [] /\ c3 = []) by (destruct n; cbn [rx_loop] in El; inversion El; auto).
      destruct Hc3 as [-> [-> ->]].
      destruct Hend as [pre [r0 [k [E Hkind]]]]. assert (r0 = r).
      { destruct pre as [|p pre']; [inversion E; reflexivity|]. inversion E. destruct pre'; discriminate. }
      subst r0. rewrite app_nil_r.
      (* either the call ran out of data in the middle of a message, or it completed something with the last byte *)
      assert (Hcase : (r = RX_INCOMPLETE /\ (hd_is_chunked (rq_headers (rv_req w)) = false \/ rc_valid (rv_chunk w) = false)) \/
                      (r = RX_VALID \/ r = RX_CHUNK \/
                       (r = RX_INCOMPLETE /\ rq_valid (rv_req w) = true /\ hd_is_chunked (rq_headers (rv_req w)) = true /\ rc_valid (rv_chunk w) = true))).
      { destruct Hkind as [Hk|[Hk|Hk]]; subst r; [|right; left; reflexivity | right; right; left; reflexivity].
        destruct (hd_is_chunked (rq_headers (rv_req w))) eqn:E1; [|left; split; [reflexivity | left; reflexivity]].
        destruct (rc_valid (rv_chunk w)) eqn:E2; [|left; split; [reflexivity | right; reflexivity]].
        right. right. right. repeat split; try reflexivity. exact (Hwi E2). }
      destruct Hcase as [[-> Hmid]|Hendk].
      * (* mid-message: as in rx_loop_cut_mid_message *)
        cbn [dispatch_rx] in Ed. inversion Ed; subst. clear Ed. cbn [app].
        destruct b as [|y b'].
        -- cbn [rx_loop] in Hb. destruct m; cbn [rx_loop] in Hb; inversion Hb; subst;
             rewrite app_nil_r; eexists; apply (rx_loop_more_fuel cfg (S n) v (d :: t) _ _ _ Ha0).
        -- destruct m as [|m]; [cbn [rx_loop] in Hb; inversion Hb|].
           replace (S n + S m)%nat with (S (m + S n))%nat by lia.
           change ((d :: t) ++ y :: b') with (d :: (t ++ y :: b')). cbn [rx_loop].
           change (d :: t ++ y :: b') with ((d :: t) ++ y :: b'). rewrite (G2 eq_refl eq_refl Hmid).
           cbn [rx_loop] in Hb. destruct (receive cfg w2 (y :: b')) as [[w' rest'] r'] eqn:Er'.
           destruct (dispatch_rx cfg w' r') as [w2' evs'].
           destruct r'; try (inversion Hb; subst; eexists; reflexivity);
             (destruct (rx_loop m cfg w2' rest') as [[[v4 e4] c4] o4] eqn:El4; inversion Hb; subst;
              rewrite (rx_loop_more_fuel cfg m _ _ _ _ _ El4 (S n)); eexists; reflexivity).
      * (* a delivery with the last byte of the read *)
        pose proof (receive_end cfg v (d :: t) b w r Hok Er Hendk Hfc) as Ge.
        destruct b as [|y b'].
        -- cbn [rx_loop] in Hb. destruct m; cbn [rx_loop] in Hb; inversion Hb; subst;
             repeat rewrite app_nil_r in Ha0; repeat rewrite app_nil_r; eexists; apply (rx_loop_more_fuel cfg (S n) v (d :: t) _ _ _ Ha0).
        -- change ((d :: t) ++ y :: b') with (d :: (t ++ y :: b')). cbn [Nat.add rx_loop].
           change (d :: t ++ y :: b') with ((d :: t) ++ y :: b'). rewrite Ge, Ed.
           replace (n + m)%nat with (m + n)%nat by lia.
           rewrite (rx_loop_more_fuel cfg m _ _ _ _ _ Hb n).
           exists ((r, nlen ((d :: t) ++ y :: b') - nlen (y :: b')) :: c2).
           destruct r; try congruence; reflexivity.
    + (* the call left bytes of this read unread: it does not see b *)
      assert (Hne : x :: rest' <> []) by discriminate.
      assert (Hend3 : ends_well c3).
      { destruct Hend as [pre [r0 [k [E Hk]]]]. destruct pre as [|p pre'].
        - inversion E; subst. exfalso. exact (rx_loop_calls_nonempty _ _ _ _ _ _ _ El).
        - inversion E; subst. exists pre', r0, k. split; [reflexivity | exact Hk]. }
      assert (Hnr3 : no_reject c3) by (intros r0 n0 Hin; apply (Hnr r0 n0); right; exact Hin).
      assert (Hfr3 : loop_framed n cfg w2 (x :: rest') = true) by (destruct r; try congruence; exact Hfr).
      destruct (IH w2 (x :: rest') b v3 e3 c3 m v2 e2 c2 Hw2 Hw2i El Hend3 Hnr3 Hfr3 Hb) as [c Hc].
      change ((d :: t) ++ b) with (d :: (t ++ b)). cbn [Nat.add rx_loop].
      change (d :: t ++ b) with ((d :: t) ++ b). rewrite (G1 Hne), Ed.
      exists ((r, nlen ((d :: t) ++ b) - nlen ((x :: rest') ++ b)) :: c).
      destruct r; try congruence; rewrite Hc, <- app_assoc; reflexivity.
Qed.

(* ---- a whole sequence of reads ---- *)
Fixpoint cuts_ok (cfg : rcfg) (v : receiver) (frags : list str) : Prop :=
  match frags with
  | [] => True
  | f :: t =>
      let '(v1, e1, c1, o1) := read_loop cfg v f in
      o1 = false /\ cuts_ok cfg v1 t /\
      (f = [] \/ t = [] \/ (ends_well c1 /\ no_reject c1 /\ loop_framed (loop_fuel f) cfg v f = true))
  end.

Lemma rx_loop_inv2 cfg : forall fuel v buf, rv_inv2 v -> rv_inv2 (fst (fst (fst (rx_loop fuel cfg v buf)))).
Proof.
  induction fuel as [|fuel IH]; intros v buf Hi; destruct buf as [|c t]; cbn [rx_loop fst]; try exact Hi.
  destruct (receive cfg v (c :: t)) as [[v1 rest] r] eqn:Er. pose proof (receive_inv2 _ _ _ _ _ _ Hi Er) as H1.
  pose proof (dispatch_inv2 cfg v1 r H1) as H2. destruct (dispatch_rx cfg v1 r) as [v2 evs]. cbn [fst] in H2.
  destruct r; try (specialize (IH v2 rest H2); destruct (rx_loop fuel cfg v2 rest) as [[[v3 e3] c3] o3]; exact IH); exact H2.
Qed.

(* however a byte stream is cut into reads (no cut directly behind an interim EXPECT_CONTINUE, no rejection before the
   last read, every request framed), the reads together deliver what the whole stream delivers in one read, in the
   same order, and leave the connection in the same state *)
Theorem feed_is_stream cfg : forall frags v, rv_ok v -> rv_inv2 v -> cuts_ok cfg v frags ->
  exists N c, forall k,
    rx_loop (N + k) cfg v (concat frags) =
    (fst (fst (fst (feed cfg v frags))), snd (fst (fst (feed cfg v frags))), c, false).
Proof.
  induction frags as [|f t IH]; intros v Hok Hi Hc.
  - exists 0%nat, []. intros k. cbn [concat feed fst snd]. destruct k; reflexivity.
  - cbn [cuts_ok] in Hc. cbn [feed concat]. unfold read_loop in *.
    destruct (rx_loop (loop_fuel f) cfg v f) as [[[v1 e1] c1] o1] eqn:El.
    destruct Hc as [-> [Hct Hcase]].
    pose proof (rx_loop_ok cfg (loop_fuel f) v f Hok) as Hok1. rewrite El in Hok1. cbn [fst] in Hok1.
    pose proof (rx_loop_inv2 cfg (loop_fuel f) v f Hi) as Hi1. rewrite El in Hi1. cbn [fst] in Hi1.
    destruct (IH v1 Hok1 Hi1 Hct) as [N [c HN]].
    destruct (feed cfg v1 t) as [[[v2 e2] c2] o2] eqn:Ef. cbn [fst snd] in *.
    destruct Hcase as [->|[->|[Hew [Hnr Hfr]]]].
    + (* an empty read *)
      cbn [rx_loop] in El. assert (v1 = v /\ e1 = []) by (destruct (loop_fuel []); cbn [rx_loop] in El; inversion El; auto).
      destruct H as [-> ->]. exists N, c. exact HN.
    + (* the last read *)
      cbn [feed] in Ef. inversion Ef; subst. cbn [concat]. rewrite !app_nil_r.
      exists (loop_fuel f), c1. intros k. exact (rx_loop_more_fuel cfg _ _ _ _ _ _ El k).
    + specialize (HN 0%nat). rewrite Nat.add_0_r in HN.
      destruct (rx_loop_cut cfg _ v f (concat t) v1 e1 c1 N v2 e2 c Hok Hi El Hew Hnr Hfr HN) as [c' Hc'].
      exists (loop_fuel f + N)%nat, c'. intros k. exact (rx_loop_more_fuel cfg _ _ _ _ _ _ Hc' k).
Qed.
