(* P_C08b.v — the request line written by tx_request is parsed back by request_line: method, target and version
   unchanged, for every method of upper-case letters and every target without blanks or line ends within the limits. *)
From Via Require Import M_Char M_Encode M_Parse M_Receive P_Parse P_Frag P_C06 P_C02.
From Coq Require Import Lia ZifyBool ZifyNat ZifyN.
Local Open Scope N_scope.
Arguments nlen : simpl never.
Arguments snoc : simpl never.

(* " HTTP/M.m\r\n" after the target *)
Lemma rl_parse_version_tail L m u ma mi rest : u <> [] -> isdigit ma = true -> isdigit mi = true ->
  rl_parse L (mk_rl m u 0 0 R_URI 1 false false) ([32] ++ http_version ma mi ++ [13; 10] ++ rest) =
  (mk_rl m u ma mi R_VALID 1 true false, rest, Done).
Proof.
  intros Hu Ha Hi. unfold http_version. cbn [app].
  destruct u as [|u0 u']; [congruence|].
  (* the blank *)
  cbn [rl_parse]. unfold rl_done at 1. cbn [rl_state]. unfold rl_parse_char at 1. cbn [rl_state rl_uri].
  change (is_end_of_line 32) with false. change (isblank 32) with true. cbv iota.
  unfold rl_set_fail, rl_set_state, rl_set_ws. cbn [rl_method rl_uri rl_major rl_minor rl_state rl_ws rl_valid rl_fail].
  (* H T T P / *)
  do 5 (cbn [rl_parse]; unfold rl_done at 1; cbn [rl_state]; unfold rl_parse_char at 1; cbn [rl_state];
        unfold expect_char; cbn [N.eqb Pos.eqb isblank]; cbv iota;
        unfold rl_set_fail, rl_set_state; cbn [rl_method rl_uri rl_major rl_minor rl_state rl_ws rl_valid rl_fail]).
  (* major *)
  cbn [rl_parse]. unfold rl_done at 1. cbn [rl_state]. unfold rl_parse_char at 1. cbn [rl_state]. rewrite Ha.
  unfold rl_set_fail. cbn [rl_method rl_uri rl_major rl_minor rl_state rl_ws rl_valid rl_fail].
  (* . *)
  cbn [rl_parse]. unfold rl_done at 1. cbn [rl_state]. unfold rl_parse_char at 1. cbn [rl_state].
  unfold expect_char. cbn [N.eqb Pos.eqb]. cbv iota. unfold rl_set_fail, rl_set_state. cbn [rl_method rl_uri rl_major rl_minor rl_state rl_ws rl_valid rl_fail].
  (* minor *)
  cbn [rl_parse]. unfold rl_done at 1. cbn [rl_state]. unfold rl_parse_char at 1. cbn [rl_state]. rewrite Hi.
  unfold rl_set_fail. cbn [rl_method rl_uri rl_major rl_minor rl_state rl_ws rl_valid rl_fail].
  (* CR LF *)
  cbn [rl_parse]. unfold rl_done at 1. cbn [rl_state]. unfold rl_parse_char at 1. cbn [rl_state N.eqb Pos.eqb]. cbv iota.
  unfold rl_set_fail, rl_set_state. cbn [rl_method rl_uri rl_major rl_minor rl_state rl_ws rl_valid rl_fail].
  cbn [rl_parse]. unfold rl_done at 1. cbn [rl_state]. unfold rl_parse_char at 1. cbn [rl_state N.eqb Pos.eqb]. cbv iota.
  unfold rl_set_fail, rl_set_state. cbn [rl_method rl_uri rl_major rl_minor rl_state rl_ws rl_valid rl_fail].
  destruct rest as [|x rest']; cbn [rl_parse]; unfold rl_done; cbn [rl_state]; unfold rl_set_valid; reflexivity.
Qed.

Theorem request_line_roundtrip L m u ma mi hs rest :
  forallb isupper m = true -> m <> [] -> nlen m <= max_method L ->
  forallb uri_char u = true -> u <> [] -> nlen u <= max_uri L ->
  isdigit ma = true -> isdigit mi = true ->
  rl_parse L rl_init (request_line_string (mk_tx_request m u ma mi hs) ++ rest) =
  (mk_rl m u ma mi R_VALID 1 true false, rest, Done).
Proof.
  intros Hm Hmn Hml Hu Hun Hul Ha Hi.
  unfold request_line_string. cbn [tq_method tq_uri tq_major tq_minor].
  rewrite <- !app_assoc.
  rewrite rl_parse_method; [| reflexivity | exact Hm | exact Hmn | cbn [rl_init rl_method]; rewrite nlen_nil; lia].
  cbn [rl_init rl_method rl_uri rl_major rl_minor rl_ws rl_valid app].
  rewrite rl_parse_method_end; [| reflexivity | cbn [rl_method]; exact Hmn].
  cbn [rl_method rl_uri rl_major rl_minor rl_valid].
  rewrite rl_parse_uri; [| reflexivity | exact Hu | exact Hun | cbn [rl_uri]; rewrite nlen_nil; lia].
  cbn [rl_method rl_uri rl_major rl_minor rl_ws rl_valid app].
  exact (rl_parse_version_tail L m u ma mi rest Hun Ha Hi).
Qed.
