(* Properties_C01.v — C01: valid requests are delivered intact however their bytes are fragmented.
   The fragmentation half rests on these theorems: for each sub-parser, parsing a buffer a ++ b is
   parsing a and then - from the state reached - b, for EVERY split point (no bound on sizes).
   They are the lemmas the refinement  Impl [= Stream  is built from; the receiver-level statement
   is in the section "receiver" below as far as it is proved. *)
From Via Require Import M_Char M_Parse M_Receive P_Parse.
Local Open Scope N_scope.

Theorem C01_request_line_fragments : forall L a r b, rl_valid r = false ->
  rl_parse L r (a ++ b) =
  match rl_parse L r a with
  | (r1, ra, Done) => (r1, ra ++ b, Done)
  | (r1, ra, Fail) => (r1, ra ++ b, Fail)
  | (r1, _, More) => rl_parse L r1 b
  end.
Proof. intros L a r b. exact (rl_parse_app L a r b). Qed.

(* the one-character look-ahead for folded lines does not depend on where the read ends: a line that
   ends exactly at the end of a read is continued, or not, by the first byte of the next read *)
Theorem C01_field_line_fragments : forall L a f b,
  fl_parse L f (a ++ b) =
  match fl_parse L f a with
  | (f1, ra, r) =>
      match r with
      | Fail => (f1, ra ++ b, Fail)
      | More => fl_parse L f1 b
      | Done => match ra with [] => fl_parse L f1 b | _ => (f1, ra ++ b, Done) end
      end
  end.
Proof. exact fl_parse_app. Qed.

Theorem C01_chunk_line_fragments : forall L a k b, ck_valid k = false ->
  ck_parse L k (a ++ b) =
  match ck_parse L k a with
  | (k1, ra, Done) => (k1, ra ++ b, Done)
  | (k1, ra, Fail) => (k1, ra ++ b, Fail)
  | (k1, _, More) => ck_parse L k1 b
  end.
Proof. intros L a k b. exact (ck_parse_app L a k b). Qed.

(* non-vacuity: a folded header cut right after the first line's LF (the historical failing cut) *)
Example C01_example_fold_cut :
  let L := mk_limits 8190 8 100 65534 1024 8 65534 65534 false in
  let a := [88; 58; 32; 98; 13; 10] in            (* "X: b\r\n" *)
  let b := [32; 99; 13; 10; 13] in                (* " c\r\n\r"   *)
  fl_parse L fl_init (a ++ b) = (let '(f1, _, _) := fl_parse L fl_init a in fl_parse L f1 b)
  /\ fl_value (fst (fst (fl_parse L fl_init (a ++ b)))) = [98; 32; 99].
Proof. vm_compute. split; reflexivity. Qed.

Print Assumptions C01_request_line_fragments.
Print Assumptions C01_field_line_fragments.
Print Assumptions C01_chunk_line_fragments.
