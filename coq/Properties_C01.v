(* Properties_C01.v — C01: valid requests are delivered intact however their bytes are fragmented.
   The fragmentation half rests on these theorems: for each sub-parser, parsing a buffer a ++ b is
   parsing a and then - from the state reached - b, for EVERY split point (no bound on sizes).
   They are the lemmas the refinement  Impl [= Stream  is built from; the receiver-level statement
   is in the section "receiver" below as far as it is proved. *)
From Via Require Import M_Char M_Parse M_Receive P_Parse.
From Via Require Import P_Frag P_Term.
From Via Require Import M_Imp M_Loop M_Hdr M_Msg M_Chunk Gen_Parse P_Imp P_Loop P_Hdr P_Msg P_C06b P_Chunk.
From Via Require Import M_Query M_Recv P_C05 P_Recv.
Local Open Scope N_scope.

Theorem C01_request_line_fragments : forall L a r b, rl_valid r = false ->
  rl_parse L r (a ++ b) =
  match rl_parse L r a with
  | (r1, ra, Done) => (r1, ra ++ b, Done)
  | (r1, ra, Fail) => (r1, ra ++ b, Fail)
  | (r1, _, More) => rl_parse L r1 b
  end.
Proof. intros L a r b. exact (rl_parse_app L a r b). Qed.

(* the one-character look-ahead for folded lines does not depend on where the read ends: a line that
   ends exactly at the end of a read is continued, or not, by the first byte of the next read *)
Theorem C01_field_line_fragments : forall L a f b,
  fl_parse L f (a ++ b) =
  match fl_parse L f a with
  | (f1, ra, r) =>
      match r with
      | Fail => (f1, ra ++ b, Fail)
      | More => fl_parse L f1 b
      | Done => match ra with [] => fl_parse L f1 b | _ => (f1, ra ++ b, Done) end
      end
  end.
Proof. exact fl_parse_app. Qed.

Theorem C01_chunk_line_fragments : forall L a k b, ck_valid k = false ->
  ck_parse L k (a ++ b) =
  match ck_parse L k a with
  | (k1, ra, Done) => (k1, ra ++ b, Done)
  | (k1, ra, Fail) => (k1, ra ++ b, Fail)
  | (k1, _, More) => ck_parse L k1 b
  end.
Proof. intros L a k b. exact (ck_parse_app L a k b). Qed.

(* non-vacuity: a folded header cut right after the first line's LF (the historical failing cut) *)
Example C01_example_fold_cut :
  let L := mk_limits 8190 8 100 65534 1024 8 65534 65534 false in
  let a := [88; 58; 32; 98; 13; 10] in            (* "X: b\r\n" *)
  let b := [32; 99; 13; 10; 13] in                (* " c\r\n\r"   *)
  fl_parse L fl_init (a ++ b) = (let '(f1, _, _) := fl_parse L fl_init a in fl_parse L f1 b)
  /\ fl_value (fst (fst (fl_parse L fl_init (a ++ b)))) = [98; 32; 99].
Proof. vm_compute. split; reflexivity. Qed.

(* ---- the header block, the request head, the chunk and the receiver ---- *)
(* message_headers::parse keeps a completed line pending until it has seen the character that follows it (a fold
   continues the line); whatever the cut, parsing a ++ b is parsing a and then b from the state reached *)
Theorem C01_header_block_fragments : forall L h a b, hd_ok h ->
  hd_parse L h (a ++ b) =
  match hd_parse L h a with
  | (h1, ra, Fail) => (h1, ra ++ b, Fail)
  | (h1, ra, Done) => (h1, ra ++ b, Done)
  | (h1, ra, More) => hd_parse L h1 b
  end.
Proof. exact hd_parse_app. Qed.

Theorem C01_request_head_fragments : forall L q a b, rq_ok q ->
  rq_parse L q (a ++ b) =
  match rq_parse L q a with
  | (q1, ra, Done) => (q1, ra ++ b, Done)
  | (q1, ra, Fail) => (q1, ra ++ b, Fail)
  | (q1, _, More) => rq_parse L q1 b
  end.
Proof. exact rq_parse_app. Qed.

(* a chunk: size line, data sliced by count, CR LF (CR possibly pending), trailers of the last chunk *)
Theorem C01_chunk_fragments : forall L k a b, rc_ok k ->
  rc_parse L k (a ++ b) =
  match rc_parse L k a with
  | (k1, ra, Done) => (k1, ra ++ b, Done)
  | (k1, ra, Fail) => (k1, ra ++ b, Fail)
  | (k1, _, More) => rc_parse L k1 b
  end.
Proof. exact rc_parse_app. Qed.

(* request_receiver::receive, in every state a connection can reach by any sequence of reads: a call that stops
   before the end of its buffer (a complete request, a chunk, a rejection, with bytes left over) returns the same
   result whatever follows, and a call that ran out of data is continued exactly by the next call on the next read.
   (Left out, and covered by the correspondence only: calls that complete exactly at the end of the read - there the
   next read decides between "next request" and the 411 heuristic for requests without framing - and the interim
   EXPECT_CONTINUE result, whose presence legitimately depends on whether the body shares the head's read.) *)
Theorem C01_receive_fragments : forall cfg history a b v1 ra r,
  let v := fst (fst (fst (feed cfg (rv_init cfg) history))) in
  receive cfg v a = (v1, ra, r) ->
  (ra <> [] -> receive cfg v (a ++ b) = (v1, ra ++ b, r)) /\
  (ra = [] -> r = RX_INCOMPLETE -> hd_is_chunked (rq_headers (rv_req v1)) = false \/ rc_valid (rv_chunk v1) = false ->
   receive cfg v (a ++ b) = receive cfg v1 b).
Proof. exact receive_app_reachable. Qed.

(* the read loop of http_server::receive_handler: when a read ends in the middle of a message (its last receive()
   ran out of data), the loop over a ++ b delivers exactly what the loop over a followed by the loop over b
   delivers, in the same order, and ends in the same state - in every state a connection can reach, for all
   sufficiently large fuel (fuel is an artefact of the model; more fuel never changes a completed run) *)
Theorem C01_cut_mid_message : forall cfg history a b v1 e1 c1 v2 e2 c2,
  let v := fst (fst (fst (feed cfg (rv_init cfg) history))) in
  read_loop cfg v a = (v1, e1, c1, false) -> ends_incomplete c1 -> no_reject c1 ->
  hd_is_chunked (rq_headers (rv_req v1)) = false \/ rc_valid (rv_chunk v1) = false ->
  read_loop cfg v1 b = (v2, e2, c2, false) ->
  exists N c, forall k, rx_loop (N + k) cfg v (a ++ b) = (v2, e1 ++ e2, c, false).
Proof.
  intros cfg history a b v1 e1 c1 v2 e2 c2 v Ha He Hn Hv Hb.
  destruct (rx_loop_cut_mid_message cfg _ v a b v1 e1 c1 _ v2 e2 c2 (feed_ok cfg history _ (rv_ok_init cfg)) Ha He Hn Hv Hb) as [c Hc].
  exists (loop_fuel a + loop_fuel b)%nat, c. intros k. exact (rx_loop_more_fuel cfg _ _ _ _ _ _ Hc k).
Qed.

(* non-vacuity: a request cut inside a folded header line; both runs deliver the same single request *)
Example C01_example_cut_mid_message :
  let cfg := mk_rcfg (mk_limits 8190 8 100 65534 1024 8 65534 65534 false) 1048576 1048576 true true false in
  let a := [71;69;84;32;47;32;72;84;84;80;47;49;46;49;13;10;72;111;115;116;58;32;104;13;10;88;58;32;97;13;10] in
  let b := [32;98;13;10;13;10] in
  let '(v1, e1, c1, o1) := read_loop cfg (rv_init cfg) a in
  let '(v2, e2, c2, o2) := read_loop cfg v1 b in
  let '(v3, e3, c3, o3) := read_loop cfg (rv_init cfg) (a ++ b) in
  (o1, o2, o3) = (false, false, false) /\ e1 ++ e2 = e3 /\ v2 = v3 /\ length e3 = 1%nat /\ c1 = [(RX_INCOMPLETE, 31)].
Proof. vm_compute. repeat split. Qed.

(* the same for any read boundary that does not fall directly behind an interim EXPECT_CONTINUE (also one that falls
   exactly behind a delivered request or chunk), when every request says how it is framed *)
Theorem C01_cut_anywhere : forall cfg history a b v1 e1 c1 v2 e2 c2,
  let v := fst (fst (fst (feed cfg (rv_init cfg) history))) in
  rv_inv2 v ->
  read_loop cfg v a = (v1, e1, c1, false) -> ends_well c1 -> no_reject c1 -> loop_framed (loop_fuel a) cfg v a = true ->
  read_loop cfg v1 b = (v2, e2, c2, false) ->
  exists N c, forall k, rx_loop (N + k) cfg v (a ++ b) = (v2, e1 ++ e2, c, false).
Proof.
  intros cfg history a b v1 e1 c1 v2 e2 c2 v Hi Ha He Hn Hf Hb.
  destruct (rx_loop_cut cfg _ v a b v1 e1 c1 _ v2 e2 c2 (feed_ok cfg history _ (rv_ok_init cfg)) Hi Ha He Hn Hf Hb) as [c Hc].
  exists (loop_fuel a + loop_fuel b)%nat, c. intros k. exact (rx_loop_more_fuel cfg _ _ _ _ _ _ Hc k).
Qed.

(* a whole connection: however the byte stream is cut into reads (cuts_ok: no cut directly behind an interim
   EXPECT_CONTINUE, no rejection before the last read, every request framed, no read loop out of fuel), the reads
   deliver, in order, exactly what the stream delivers when it arrives in a single read, and leave the receiver in
   the same state.  No bound on the number or the sizes of the reads. *)
Theorem C01_fragmentation_invariance : forall cfg frags, cuts_ok cfg (rv_init cfg) frags ->
  exists N c, forall k,
    rx_loop (N + k) cfg (rv_init cfg) (concat frags) =
    (fst (fst (fst (feed cfg (rv_init cfg) frags))), snd (fst (fst (feed cfg (rv_init cfg) frags))), c, false).
Proof.
  intros cfg frags H. apply feed_is_stream; [exact (rv_ok_init cfg) | | exact H].
  unfold rv_inv2. cbn. discriminate.
Qed.

(* non-vacuity: a POST with a body cut into four reads (inside the request line, inside a folded header, exactly
   behind the head, inside the body) satisfies the premise, and the four reads deliver the one request *)
Example C01_example_cuts_ok :
  let cfg := mk_rcfg (mk_limits 8190 8 100 65534 1024 8 65534 65534 false) 1048576 1048576 true true false in
  let frags := [[80;79;83;84;32;47];
                [32;72;84;84;80;47;49;46;49;13;10;72;111;115;116;58;32;104;13;10;88;58;32;97;13;10];
                [32;98;13;10;67;111;110;116;101;110;116;45;76;101;110;103;116;104;58;32;51;13;10;13;10];
                [120;121]; [122]] in
  cuts_ok cfg (rv_init cfg) frags /\ length (snd (fst (fst (feed cfg (rv_init cfg) frags)))) = 1%nat.
Proof.
  split; [|vm_compute; reflexivity].
  cbn [cuts_ok]. vm_compute.
  repeat match goal with
  | |- _ /\ _ => split
  | |- ?a = ?a => reflexivity
  | |- True => exact I
  | |- _ \/ _ \/ _ =>
      first [ right; left; reflexivity
            | right; right; split;
              [ eexists [], _, _; split; [reflexivity | first [left; reflexivity | right; left; reflexivity | right; right; reflexivity]]
              | split; [ intros r n [E|[]]; inversion E; subst; split; discriminate | reflexivity ] ] ]
  end.
Qed.

(* the same without any mention of fuel: the read loop is proved to terminate (P_Term.v), so the statement is about
   read_loop itself, the loop http_server::receive_handler runs.  cuts_fine is cuts_ok without the "not out of fuel"
   clause: no cut directly behind an interim EXPECT_CONTINUE, no rejection before the last read, every request framed *)
Theorem C01_fragmentation_invariance_of_the_read_loop : forall cfg frags, cuts_fine cfg (rv_init cfg) frags ->
  exists c,
    read_loop cfg (rv_init cfg) (concat frags) =
    (fst (fst (fst (feed cfg (rv_init cfg) frags))), snd (fst (fst (feed cfg (rv_init cfg) frags))), c, false).
Proof.
  intros cfg frags H. apply feed_is_one_read; [exact (rv_ok_init cfg) | | exact (rv_inv3_init cfg) | exact H].
  unfold rv_inv2. cbn. discriminate.
Qed.

(* the premises are met: the invariant holds initially *)
Example C01_example_invariant : forall cfg, rv_ok (rv_init cfg).
Proof. exact rv_ok_init. Qed.

Print Assumptions C01_request_line_fragments.
Print Assumptions C01_field_line_fragments.
Print Assumptions C01_chunk_line_fragments.
Print Assumptions C01_cut_mid_message.
Print Assumptions C01_cut_anywhere.
Print Assumptions C01_fragmentation_invariance.
Print Assumptions C01_fragmentation_invariance_of_the_read_loop.
Print Assumptions C01_header_block_fragments.
Print Assumptions C01_request_head_fragments.
Print Assumptions C01_chunk_fragments.
Print Assumptions C01_receive_fragments.

(* ---- the tie to the source, as a theorem ----
   The character-level parser functions of the model are not only compared with the code on generated inputs: the bodies
   of the C++ functions (parse_char) are translated from clang's AST on every run (translate/parse.py -> Gen_Parse.v, a
   term of the small imperative language of M_Imp.v), and the model function is proved to compute, for EVERY state,
   character and limit configuration (strict and lenient CRLF), exactly what the translated body computes.  A change of
   the source that changes what parse_char does makes this theorem fail. *)
Theorem C01_request_line_model_is_the_source : forall L r c,
  run_body (rl_lim L) c (rl_src L) (rl_store r) = (rl_store (fst (rl_parse_char L r c)), snd (rl_parse_char L r c)).
Proof. exact rl_parse_char_is_the_source. Qed.
Theorem C01_field_line_model_is_the_source : forall L f c,
  run_body (fl_lim L) c (fl_src L) (fl_store f) = (fl_store (fst (fl_parse_char L f c)), snd (fl_parse_char L f c)).
Proof. exact fl_parse_char_is_the_source. Qed.
Print Assumptions C01_request_line_model_is_the_source.
Print Assumptions C01_field_line_model_is_the_source.

(* ---- the loops around parse_char, and what a parser is reset to ----
   The buffer-level functions (parse(iter, end)) of the line parsers are translated too (a term of M_Loop.v: a while
   loop over the input that calls the translated parse_char), and the model functions are proved to compute, for EVERY
   parser state and EVERY input, what the translated loop computes: the value returned, the parser afterwards and the
   input left unread.  The fuel only has to exceed the length of the input: the loop of the source provably finishes
   within one pass, and never reads past the end (both would be `None`). *)
Theorem C01_request_line_loop_is_the_source : forall L r buf fuel, (length buf < fuel)%nat ->
  lrun (rl_lim L) (rl_src L) fuel rl_parse_src (rl_store r) buf =
  Some (let '(r', rest, p) := rl_parse L r buf in (is_done p, rl_store r', rest)).
Proof. exact rl_parse_is_the_source. Qed.
Theorem C01_field_line_loop_is_the_source : forall L f buf fuel, (length buf < fuel)%nat ->
  lrun (fl_lim L) (fl_src L) fuel fl_parse_src (fl_store f) buf =
  Some (let '(f', rest, p) := fl_parse L f buf in (is_done p, fl_store f', rest)).
Proof. exact fl_parse_is_the_source. Qed.
Theorem C01_chunk_line_model_is_the_source : forall L k c,
  run_body (ck_lim L) c (ck_src L) (ck_store k) = (ck_store (fst (ck_parse_char L k c)), snd (ck_parse_char L k c)).
Proof. exact ck_parse_char_is_the_source. Qed.
Theorem C01_chunk_line_loop_is_the_source : forall L k buf fuel, (length buf < fuel)%nat ->
  lrun (ck_lim L) (ck_src L) fuel ck_parse_src (ck_store k) buf =
  Some (let '(k', rest, p) := ck_parse L k buf in (is_done p, ck_store k', rest)).
Proof. exact ck_parse_is_the_source. Qed.
(* clear(), translated as well: the next request on a connection is parsed from exactly the state the model starts it
   from, whatever the previous one left behind *)
Theorem C01_request_line_reset_is_the_source : forall lim c r,
  exec lim c rl_clear_src (rl_store r) = (ONormal, rl_store rl_init).
Proof. exact rl_clear_is_the_source. Qed.
Theorem C01_field_line_reset_is_the_source : forall lim c f,
  exec lim c fl_clear_src (fl_store f) = (ONormal, fl_store fl_init).
Proof. exact fl_clear_is_the_source. Qed.
Theorem C01_chunk_line_reset_is_the_source : forall lim c k,
  exec lim c ck_clear_src (ck_store k) = (ONormal, ck_store (ck_init (ck_max k))).
Proof. exact ck_clear_is_the_source. Qed.
(* the translated loop really runs: "GET / HTTP/1.1" CR LF and two bytes more, from a fresh parser *)
Example C01_request_line_loop_example :
  let L := mk_limits 8190 8 100 65534 1024 8 65534 65534 false in
  lrun (rl_lim L) (rl_src L) 40 rl_parse_src (rl_store rl_init)
       [71;69;84;32;47;32;72;84;84;80;47;49;46;49;13;10;72;111] =
  Some (true, mk_store 12 [[71;69;84]; [47]] [1; 49; 49; 1; 0], [72;111]).
Proof. vm_compute. reflexivity. Qed.
Print Assumptions C01_request_line_loop_is_the_source.
Print Assumptions C01_field_line_loop_is_the_source.
Print Assumptions C01_chunk_line_model_is_the_source.
Print Assumptions C01_chunk_line_loop_is_the_source.
Print Assumptions C01_request_line_reset_is_the_source.
Print Assumptions C01_field_line_reset_is_the_source.
Print Assumptions C01_chunk_line_reset_is_the_source.

(* message_headers::parse(iter, end), translated as well (a term of M_Hdr.v whose calls into the field line run the
   translated field_line functions above): for every header block, every input and every sufficient fuel the model's
   hd_parse returns what the translated body returns - the verdict, the fields collected, the flags, the accumulated
   length and the input left unread.  hd_ok (a field line that has consumed nothing is the initial one) holds
   initially and is kept by every parse (P_Frag.hd_loop_ok). *)
Theorem C01_header_block_is_the_source : forall L h buf fuel, hd_ok h -> (length buf + 2 <= fuel)%nat ->
  hrun (fl_lim L) (hd_lim L) (fl_code_of L) fuel hd_parse_src (hd_store h) buf =
  Some (let '(h', rest, p) := hd_parse L h buf in (is_done p, hd_store h', rest)).
Proof. exact hd_parse_is_the_source. Qed.
Example C01_header_block_source_example :
  let L := mk_limits 8190 8 100 65534 1024 8 65534 65534 false in
  hrun (fl_lim L) (hd_lim L) (fl_code_of L) 40 hd_parse_src (hd_store hd_init) [72;58;32;120;13;10;65;58;49;13;10;13;10;90] =
  Some (true, mk_hs [([104],[120]); ([97],[49])] (fl_store fl_init) [1; 0; 1; 4], [90]).
Proof. vm_compute. reflexivity. Qed.
Print Assumptions C01_header_block_is_the_source.

(* rx_request::parse(iter, end) - request line, then header block, then valid - translated as well (a term of M_Msg.v
   whose calls run the translated functions of the layers below): the model's rq_parse, about which the theorems of
   this file speak, is that function: the whole request head parser, from the characters up, is the translated source
   under the meaning of M_Imp / M_Loop / M_Hdr / M_Msg (message_headers::add being the model's fields_add). *)
Theorem C01_request_head_is_the_source : forall L q buf fuel, hd_ok (rq_headers q) -> (length buf + 2 <= fuel)%nat ->
  mrun (rl_lim L) (fl_lim L) (hd_lim L) (rl_code_of L) (hd_code_of L) fuel rq_parse_src (rq_store q) buf =
  Some (let '(q', rest, p) := rq_parse L q buf in (is_done p, rq_store q', rest)).
Proof. exact rq_parse_is_the_source. Qed.
Example C01_request_head_source_example :
  let L := mk_limits 8190 8 100 65534 1024 8 65534 65534 false in
  mrun (rl_lim L) (fl_lim L) (hd_lim L) (rl_code_of L) (hd_code_of L) 60 rq_parse_src (rq_store rq_init)
       [71;69;84;32;47;32;72;84;84;80;47;49;46;49;13;10;72;111;115;116;58;32;104;13;10;13;10;66] =
  Some (true, mk_ms (mk_store 12 [[71;69;84]; [47]] [1; 49; 49; 1; 0])
                    (mk_hs [([104;111;115;116],[104])] (fl_store fl_init) [1; 0; 1; 5]) 1, [66]).
Proof. vm_compute. reflexivity. Qed.
Print Assumptions C01_request_head_is_the_source.

(* rx_chunk::parse(iter, end) - size line, then the data and its CR LF, or for the last chunk the trailers - translated
   as well (a term of M_Chunk.v: std::ptrdiff_t as a signed 64-bit number, `iter + n`, data_.insert, the calls running
   the translated functions below): for every chunk in a state the receiver can reach (rc_inv, kept by every parse -
   P_C06b.rc_parse_inv), a configured chunk limit below 2^63, every input and every sufficient fuel, the model's
   rc_parse returns what the translated body returns.  In particular the source's ptrdiff_t subtraction never leaves
   its range, `iter + data_required` never passes `end`, and `*iter` is never read at `end` (each would be `None`). *)
Theorem C01_chunk_is_the_source : forall L k buf fuel,
  rc_inv L k -> hd_ok (rc_trailers k) -> small (ck_max (rc_hdr k)) -> (length buf + 2 <= fuel)%nat ->
  crun (ck_lim L) (fl_lim L) (hd_lim L) (kc_of L) (hd_code_of L) fuel (rc_src L) (rc_store k) buf =
  Some (let '(k', rest, p) := rc_parse L k buf in (is_done p, rc_store k', rest)).
Proof. exact rc_parse_is_the_source. Qed.
Example C01_chunk_source_example :
  let L := mk_limits 8190 8 100 65534 1024 8 65534 65534 false in
  match crun (ck_lim L) (fl_lim L) (hd_lim L) (kc_of L) (hd_code_of L) 40 (rc_src L) (rc_store (rc_init 1048576)) [51;13;10;97;98;99;13;10;52] with
  | Some (true, st, rest) => cs_data st = [97;98;99] /\ rest = [52]
  | _ => False
  end.
Proof. vm_compute. split; reflexivity. Qed.
Print Assumptions C01_chunk_is_the_source.

(* the resets between the requests of a connection, translated and proved as well: rx_request::clear() (through
   request_line::clear and message_headers::clear) and rx_chunk::clear() take ANY state to the state the model starts
   the next request from *)
Theorem C01_request_reset_is_the_source : forall L fuel q inp,
  mexec (rl_lim L) (fl_lim L) (hd_lim L) (rl_code_of L) (hd_code_of L) fuel rq_clear_src (mk_mst (rq_store q) inp) =
  Some (LNormal, mk_mst (rq_store rq_init) inp).
Proof. exact rq_clear_is_the_source. Qed.
Theorem C01_chunk_reset_is_the_source : forall L fuel k inp rq rx nx,
  cexec (ck_lim L) (fl_lim L) (hd_lim L) (kc_of L) (hd_code_of L) fuel rc_clear_src (mk_cst (rc_store k) inp rq rx nx) =
  Some (LNormal, mk_cst (rc_store (rc_clear k)) inp rq rx nx).
Proof. exact rc_clear_is_the_source. Qed.
Print Assumptions C01_request_reset_is_the_source.
Print Assumptions C01_chunk_reset_is_the_source.

(* request_receiver::receive, the function whose fragmentation invariance this file proves, is the translated source
   (see Properties_C02.v for what the statement says) *)
Theorem C01_receive_is_the_source : forall cfg v buf fuel,
  body_inv v ->
  hd_ok (rq_headers (rv_req v)) -> rc_inv (c_lim cfg) (rv_chunk v) -> hd_ok (rc_trailers (rv_chunk v)) ->
  small (ck_max (rc_hdr (rv_chunk v))) -> small (c_max_content cfg) -> small (nlen (rv_body v)) ->
  (length buf + 2 <= fuel)%nat ->
  rrun (rl_lim (c_lim cfg)) (fl_lim (c_lim cfg)) (hd_lim (c_lim cfg)) (ck_lim (c_lim cfg)) (rcode_of (c_lim cfg))
       (c_max_content cfg) (c_translate_head cfg) (c_concat cfg) rv_clear_src fuel rv_receive_src (rv_store v) buf =
  (let '(v', rest, r) := receive cfg v buf in
   match rx_of r with Some c => Some (c, rv_store v', rest) | None => None end).
Proof. exact receive_is_the_source. Qed.
Print Assumptions C01_receive_is_the_source.
