(* P_ImpS.v — response_line::parse_char and clear: the hand-written model computes, for every state, every character and every limit
   configuration, exactly what the body of the C++ function computes - the body as translated from clang's AST on this
   run (Gen_Parse.v), under the meaning of statements defined in M_Imp.v. *)
From Via Require Import M_Char M_Parse M_Imp Gen_Parse.
From Coq Require Import List NArith Bool Lia.
Import ListNotations.
Local Open Scope N_scope.
Arguments nlen : simpl never.
Arguments snoc : simpl never.
From Via Require Import P_Imp0.

Definition sl_store (r : rsp_line) : store :=
  mk_store (sl_st_index (sl_state r)) [sl_reason r] [sl_ws r; sl_major r; sl_minor r; sl_status r; b2n (sl_status_read r); b2n (sl_valid r); b2n (sl_fail r)].
Definition sl_lim (L : limits) (k : nat) : N := nth k [max_status L; max_reason L; max_ws L] 0.
Definition sl_src (L : limits) : stmt := if strict_crlf L then sl_src_strict else sl_src_lax.

Theorem sl_parse_char_is_the_source L r c :
  run_body (sl_lim L) c (sl_src L) (sl_store r) = (sl_store (fst (sl_parse_char L r c)), snd (sl_parse_char L r c)).
Proof.
  unfold sl_src, sl_parse_char, sl_expect, sl_cr_case. destruct r as [st rs ma mi s ws sr v f]. cbn [sl_state sl_status sl_reason sl_major sl_minor sl_ws sl_status_read].
  destruct (strict_crlf L) eqn:Es; destruct s; destruct sr;
    unfold run_body, sl_src_strict, sl_src_lax, sl_store, b2n;
    norm;
    unfold sl_lim, digit_val; cbn [nth];
    repeat (split_one; norm); try reflexivity;
    try (cbn [negb andb orb] in *; congruence); try (norm_all; flags).
Qed.


Theorem sl_clear_is_the_source lim c r : exec lim c sl_clear_src (sl_store r) = (ONormal, sl_store sl_init).
Proof. destruct r; reflexivity. Qed.
