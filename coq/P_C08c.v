(* P_C08c.v — numbers written by the encoders are read back by the parsers: from_dec_string (to_dec_string n) = n. *)
From Via Require Import M_Char.
From Coq Require Import List NArith Lia ZifyBool ZifyNat ZifyN.
Import ListNotations.
Local Open Scope N_scope.

Definition dval (s : str) (a : N) : N := fold_left (fun acc c => acc * 10 + digit_val c) s a.

Lemma dval_app x y a : dval (x ++ y) a = dval y (dval x a).
Proof. unfold dval. apply fold_left_app. Qed.

Lemma size_div10 n k : N.size n <= N.succ k -> N.size (n / 10) <= k.
Proof.
  intros H. destruct (N.eq_dec (n / 10) 0) as [E|E]; [rewrite E; cbn; lia|].
  rewrite N.size_log2 by exact E.
  assert (Hn : n <> 0) by (intros ->; cbn in E; congruence).
  rewrite N.size_log2 in H by exact Hn.
  assert (Hl : N.log2 (n / 10) < N.log2 n).
  { apply N.log2_lt_pow2; [lia|].
    pose proof (N.log2_spec n ltac:(lia)) as [Hlo Hhi].
    assert (n / 10 <= n / 2) by (apply N.div_le_compat_l; lia).
    assert (n / 2 < 2 ^ N.log2 n).
    { apply N.div_lt_upper_bound; [lia|]. rewrite <- N.pow_succ_r'. exact Hhi. }
    lia. }
  lia.
Qed.

Lemma to_base_fuel_S f base dig n acc : to_base_fuel (S f) base dig n acc =
  if n / base =? 0 then dig (n mod base) :: acc else to_base_fuel f base dig (n / base) (dig (n mod base) :: acc).
Proof. reflexivity. Qed.

Lemma to_base_dec : forall f n acc, N.size n <= N.of_nat f ->
  exists ds, to_base_fuel (S f) 10 dec_digit n acc = ds ++ acc /\ dval ds 0 = n /\ forallb isdigit ds = true /\ ds <> [].
Proof.
  induction f as [|f IH]; intros n acc Hs.
  - assert (n = 0) by (destruct n; [reflexivity | cbn in Hs; lia]). subst. cbn. exists [48]. repeat split; try reflexivity. discriminate.
  - rewrite to_base_fuel_S.
    assert (Hd : n mod 10 < 10) by (apply N.mod_lt; lia).
    assert (Hdig : isdigit (dec_digit (n mod 10)) = true).
    { unfold isdigit, in_range, dec_digit. lia. }
    assert (Hval : digit_val (dec_digit (n mod 10)) = n mod 10) by (unfold digit_val, dec_digit; lia).
    destruct (n / 10 =? 0) eqn:E.
    + exists [dec_digit (n mod 10)]. cbn [app dval fold_left forallb]. rewrite Hval, Hdig.
      repeat split; try reflexivity; [|discriminate].
      pose proof (N.div_mod n 10 ltac:(lia)). lia.
    + destruct (IH (n / 10) (dec_digit (n mod 10) :: acc)) as [ds [H1 [H2 [H3 H4]]]].
      { apply size_div10. lia. }
      exists (ds ++ [dec_digit (n mod 10)]). rewrite H1, <- app_assoc. cbn [app].
      split; [reflexivity|]. split; [|split].
      * rewrite dval_app, H2. cbn [dval fold_left]. rewrite Hval. pose proof (N.div_mod n 10 ltac:(lia)). lia.
      * rewrite forallb_app, H3. cbn [forallb]. rewrite Hdig. reflexivity.
      * destruct ds; discriminate.
Qed.

Theorem dec_roundtrip n : n <= LONG_MAX -> from_dec_string (to_dec_string n) = Some n.
Proof.
  intros Hn. unfold to_dec_string.
  destruct (to_base_dec (N.to_nat (N.size n)) n [] ltac:(lia)) as [ds [H1 [H2 [H3 H4]]]].
  rewrite H1, app_nil_r. unfold from_dec_string. destruct ds as [|d ds']; [congruence|].
  rewrite H3. change (dec_value (d :: ds')) with (dval (d :: ds') 0). rewrite H2.
  assert (E : (n <=? LONG_MAX) = true) by lia. rewrite E. reflexivity.
Qed.

Theorem dec_string_digits n : forallb isdigit (to_dec_string n) = true /\ to_dec_string n <> [].
Proof.
  unfold to_dec_string. destruct (to_base_dec (N.to_nat (N.size n)) n [] ltac:(lia)) as [ds [H1 [_ [H3 H4]]]].
  rewrite H1, app_nil_r. split; assumption.
Qed.

(* ---- the Content-Length the encoders add is the Content-Length the receiver reads ---- *)
From Via Require Import M_Encode M_Parse P_Parse P_C08.

Lemma digits_no_eol s : forallb isdigit s = true -> Forall (fun c => is_end_of_line c = false) s.
Proof.
  induction s as [|c s IH]; intros H; [constructor|]. cbn [forallb] in H. apply Bool.andb_true_iff in H. destruct H as [Hc Hs].
  constructor; [|exact (IH Hs)]. unfold isdigit, in_range in Hc. unfold is_end_of_line. lia.
Qed.

Theorem content_length_roundtrip L n rest : n <= LONG_MAX -> 1 <= max_ws L ->
  nlen (content_length_line n) <= max_line L -> next_is_blank rest = false -> rest <> [] ->
  exists f, fl_parse L fl_init (content_length_line n ++ rest) = (f, rest, Done)
            /\ fl_name f = hf_LC_CONTENT_LENGTH /\ from_dec_string (fl_value f) = Some n.
Proof.
  intros Hn Hws Hlen Hnb Hrest.
  destruct (dec_string_digits n) as [Hd Hne].
  change (content_length_line n) with (to_header hf_HEADER_CONTENT_LENGTH (to_dec_string n)) in *.
  destruct (header_line_roundtrip L hf_HEADER_CONTENT_LENGTH (to_dec_string n) rest) as [f [H1 [H2 H3]]]; try assumption.
  - repeat constructor.
  - discriminate.
  - apply digits_no_eol, Hd.
  - destruct (to_dec_string n) as [|c s]; [exact I|]. cbn [forallb] in Hd. apply Bool.andb_true_iff in Hd. destruct Hd as [Hc _].
    unfold isdigit, in_range in Hc. unfold isblank. lia.
  - exists f. split; [exact H1 | split; [rewrite H2; reflexivity | rewrite H3; apply dec_roundtrip, Hn]].
Qed.

(* ---- the chunk size written in hexadecimal is the chunk size read ---- *)
Definition hval (s : str) (a : N) : N := fold_left (fun acc c => acc * 16 + hex_val c) s a.

Lemma hval_app x y a : hval (x ++ y) a = hval y (hval x a).
Proof. unfold hval. apply fold_left_app. Qed.

Lemma size_div16 n k : N.size n <= N.succ k -> N.size (n / 16) <= k.
Proof.
  intros H. destruct (N.eq_dec (n / 16) 0) as [E|E]; [rewrite E; cbn; lia|].
  rewrite N.size_log2 by exact E.
  assert (Hn : n <> 0) by (intros ->; cbn in E; congruence).
  rewrite N.size_log2 in H by exact Hn.
  assert (Hl : N.log2 (n / 16) < N.log2 n).
  { apply N.log2_lt_pow2; [lia|].
    pose proof (N.log2_spec n ltac:(lia)) as [Hlo Hhi].
    assert (n / 16 <= n / 2) by (apply N.div_le_compat_l; lia).
    assert (n / 2 < 2 ^ N.log2 n).
    { apply N.div_lt_upper_bound; [lia|]. rewrite <- N.pow_succ_r'. exact Hhi. }
    lia. }
  lia.
Qed.

Lemma hex_digit_ok d : d < 16 -> isxdigit (hex_digit d) = true /\ hex_val (hex_digit d) = d.
Proof.
  intros H. unfold hex_digit. destruct (d <? 10) eqn:E.
  - assert (Hd : isdigit (48 + d) = true) by (unfold isdigit, in_range; lia).
    unfold isxdigit, hex_val. rewrite Hd. split; [reflexivity | lia].
  - assert (Hd : isdigit (87 + d) = false) by (unfold isdigit, in_range; lia).
    assert (Hu : in_range 65 70 (87 + d) = false) by (unfold in_range; lia).
    assert (Hl : in_range 97 102 (87 + d) = true) by (unfold in_range; lia).
    unfold isxdigit, hex_val. rewrite Hd, Hu, Hl. split; [reflexivity | lia].
Qed.

Lemma to_base_hex : forall f n acc, N.size n <= N.of_nat f ->
  exists ds, to_base_fuel (S f) 16 hex_digit n acc = ds ++ acc /\ hval ds 0 = n /\ forallb isxdigit ds = true /\ ds <> [].
Proof.
  induction f as [|f IH]; intros n acc Hs.
  - assert (n = 0) by (destruct n; [reflexivity | cbn in Hs; lia]). subst. cbn. exists [48]. repeat split; try reflexivity. discriminate.
  - rewrite to_base_fuel_S.
    assert (Hd : n mod 16 < 16) by (apply N.mod_lt; lia).
    destruct (hex_digit_ok _ Hd) as [Hdig Hval].
    destruct (n / 16 =? 0) eqn:E.
    + exists [hex_digit (n mod 16)]. cbn [app hval fold_left forallb]. rewrite Hval, Hdig.
      repeat split; try reflexivity; [|discriminate].
      pose proof (N.div_mod n 16 ltac:(lia)). lia.
    + destruct (IH (n / 16) (hex_digit (n mod 16) :: acc)) as [ds [H1 [H2 [H3 H4]]]].
      { apply size_div16. lia. }
      exists (ds ++ [hex_digit (n mod 16)]). rewrite H1, <- app_assoc. cbn [app].
      split; [reflexivity|]. split; [|split].
      * rewrite hval_app, H2. cbn [hval fold_left]. rewrite Hval. pose proof (N.div_mod n 16 ltac:(lia)). lia.
      * rewrite forallb_app, H3. cbn [forallb]. rewrite Hdig. reflexivity.
      * destruct ds; discriminate.
Qed.

Theorem hex_roundtrip n : n <= LONG_MAX -> size_of_hex (to_hex_string n) = n.
Proof.
  intros Hn. unfold to_hex_string, size_of_hex.
  destruct (to_base_hex (N.to_nat (N.size n)) n [] ltac:(lia)) as [ds [H1 [H2 [H3 H4]]]].
  rewrite H1, app_nil_r. unfold from_hex_string. destruct ds as [|d ds']; [congruence|].
  rewrite H3. change (hex_value (d :: ds')) with (hval (d :: ds') 0). rewrite H2.
  assert (E : (n <=? LONG_MAX) = true) by lia. rewrite E. reflexivity.
Qed.
