(* P_Client.v — the client state machine: lifecycle facts for every event history. *)
From Via Require Import M_Client.
From Coq Require Import List Bool NArith Lia.
Import ListNotations.
Local Open Scope N_scope.

Definition is_disc (x : clog) : bool := match x with KDisconnected => true | _ => false end.

(* every disconnected event closes an epoch opened by a connected event, and at most one does *)
Fixpoint disc_ok (open : bool) (l : list clog) : bool :=
  match l with
  | [] => true
  | KConnected :: t => disc_ok true t
  | KDisconnected :: t => open && disc_ok false t
  | _ :: t => disc_ok open t
  end.

(* a step function keeps the log in step with the connected flag *)
Definition tracks (r : res) (k : cl) : Prop :=
  forall rest, disc_ok (k_connected (fst r)) rest = true -> disc_ok (k_connected k) (snd r ++ rest) = true.

Lemma tracks_andthen r f k :
  tracks r k -> (forall k1, tracks (f k1) k1) -> tracks (andthen r f) k.
Proof.
  intros H1 H2. unfold tracks, andthen in *. destruct r as [k1 l1]. specialize (H2 k1). destruct (f k1) as [k2 l2].
  simpl in *. intros rest Hr. rewrite <- app_assoc. apply H1. apply H2. exact Hr.
Qed.

Lemma tracks_quiet k k' l :
  k_connected k' = k_connected k -> (forall rest b, disc_ok b (l ++ rest) = disc_ok b rest) -> tracks (k', l) k.
Proof. intros E Hl rest Hr. simpl in *. rewrite Hl, <- E. exact Hr. Qed.

Ltac quiet := intros rest b; simpl; reflexivity.

Section C.
  Variable o : copts.

  Lemma connected_cancel k b : k_connected (k_cancel k b) = k_connected k.
  Proof. unfold k_cancel. destruct b; reflexivity. Qed.

  Lemma tracks_close k : tracks (k_close k) k.
  Proof.
    unfold k_close. destruct (k_open k).
    - apply tracks_quiet; [rewrite connected_cancel; reflexivity | quiet].
    - apply tracks_quiet; [reflexivity | quiet].
  Qed.

  Lemma tracks_enable k : tracks (k_enable_reception k) k.
  Proof. apply tracks_quiet; [reflexivity | quiet]. Qed.

  Lemma close_facts k : k_connected (fst (k_close k)) = k_connected k /\
                        forall b r, disc_ok b (snd (k_close k) ++ r) = disc_ok b r.
  Proof. unfold k_close. destruct (k_open k); split; intros; reflexivity. Qed.

  (* the application's callback: reports the (already closed) connection and leaves it closed *)
  Lemma app_disconnected_facts d k : k_connected k = false ->
    k_connected (fst (k_app_disconnected o d k)) = false /\
    forall r, disc_ok true (snd (k_app_disconnected o d k) ++ r) = disc_ok false r.
  Proof.
    intros Hc. unfold k_app_disconnected. destruct (co_reclose o && negb d); [|split; [exact Hc | reflexivity]].
    unfold andthen. destruct (close_facts (s_timer (s_period k false) false)) as [H1 H2].
    destruct (k_close (s_timer (s_period k false) false)) as [k1 l1]. simpl in *. split; [rewrite H1; exact Hc|].
    intros r. apply H2.
  Qed.

  Lemma tracks_close_then_app d k : k_connected k = true ->
    tracks (andthen (k_close (s_connected k false)) (k_app_disconnected o d)) k /\
    k_connected (fst (andthen (k_close (s_connected k false)) (k_app_disconnected o d))) = false.
  Proof.
    intros Ec. unfold andthen. destruct (close_facts (s_connected k false)) as [H1 H2].
    destruct (k_close (s_connected k false)) as [k1 l1]. simpl in H1, H2.
    destruct (app_disconnected_facts d k1 H1) as [H3 H4].
    destruct (k_app_disconnected o d k1) as [k2 l2]. simpl in *. split; [|exact H3].
    intros rest Hr. simpl in *. rewrite <- app_assoc, H2, Ec, H4. rewrite H3 in Hr. exact Hr.
  Qed.

  Lemma tracks_disconnected k : tracks (k_disconnected o k) k.
  Proof.
    unfold k_disconnected. destruct (k_connected k) eqn:Ec; [|apply tracks_quiet; [reflexivity|quiet]].
    destruct (tracks_close_then_app false k Ec) as [Ht Hf].
    apply tracks_andthen; [exact Ht|]. intros k1. apply tracks_quiet; [destruct (k_period k1); reflexivity | quiet].
  Qed.

  Lemma tracks_shutdown k : tracks (k_shutdown o k) k.
  Proof.
    unfold k_shutdown. destruct (co_tls o).
    - apply tracks_quiet; [reflexivity | quiet].
    - apply tracks_andthen.
      + apply tracks_quiet; [reflexivity|]. intros rest b. destruct (k_write (s_shutdown_sent k true)); reflexivity.
      + intros k1. apply tracks_disconnected.
  Qed.

  Lemma tracks_signal_error k e : tracks (k_signal_error o k e) k.
  Proof. unfold k_signal_error. destruct (negb (k_shutdown_sent k) && is_ssl_shutdown (co_tls o) e); [apply tracks_shutdown | apply tracks_disconnected]. Qed.

  Lemma tracks_write_callback k e : tracks (k_write_callback o k e) k.
  Proof.
    unfold k_write_callback.
    destruct e; try (apply tracks_quiet; [reflexivity|quiet]);
      destruct (k_shutdown_sent k); try apply tracks_disconnected; try apply tracks_signal_error.
    destruct (k_disc_pending k); [apply tracks_shutdown | apply tracks_quiet; [reflexivity|quiet]].
  Qed.

  Lemma cevent_log_quiet ev rest b : disc_ok b (cevent_log o ev ++ rest) = disc_ok b rest.
  Proof. destruct ev; simpl; [reflexivity | destruct (co_inv o); reflexivity | destruct (co_chunk o); reflexivity]. Qed.

  Lemma flat_quiet evs rest b : disc_ok b (flat_map (cevent_log o) evs ++ rest) = disc_ok b rest.
  Proof. induction evs as [|e t IH]; [reflexivity|]. simpl. rewrite <- app_assoc, cevent_log_quiet. exact IH. Qed.

  Lemma tracks_receive k bytes : tracks (k_receive o k bytes) k.
  Proof.
    unfold k_receive. destruct (cread_loop (co_cfg o) (k_rx k) bytes) as [[[v evs] c] f].
    apply tracks_quiet; [reflexivity | intros; apply flat_quiet].
  Qed.

  Lemma tracks_read_callback k e bytes : tracks (k_read_callback o k e bytes) k.
  Proof.
    unfold k_read_callback. destruct e; try apply tracks_signal_error; try (apply tracks_quiet; [reflexivity|quiet]).
    apply tracks_andthen; [apply tracks_receive|]. intros k1. destruct (k_shutdown_sent k1); [apply tracks_quiet; [reflexivity|quiet] | apply tracks_enable].
  Qed.

  Lemma tracks_handshake_callback k e : tracks (k_handshake_callback k e) k.
  Proof.
    unfold k_handshake_callback. destruct e; try apply tracks_close; try (apply tracks_quiet; [reflexivity|quiet]).
    intros rest Hr. unfold andthen, k_enable_reception in *. simpl in *. exact Hr.
  Qed.

  Lemma tracks_connect_callback k e : tracks (k_connect_callback o k e) k.
  Proof.
    unfold k_connect_callback. destruct e; try apply tracks_close; try (apply tracks_quiet; [reflexivity|quiet]).
    destruct (co_tls o); [apply tracks_quiet; [reflexivity|quiet] | apply tracks_handshake_callback].
  Qed.

  Lemma tracks_do_connect k rf : tracks (fst (k_do_connect o k rf)) k.
  Proof.
    unfold k_do_connect. destruct (k_connected k) eqn:Ec; [apply tracks_quiet; [reflexivity|quiet]|].
    destruct rf; [apply tracks_quiet; [reflexivity|quiet]|].
    match goal with |- context [if k_open ?K then _ else _] => destruct (k_open K) end; simpl.
    - apply tracks_quiet; [reflexivity | quiet].
    - apply tracks_quiet; [reflexivity | quiet].
  Qed.

  Lemma tracks_send_buffers k w t bytes : tracks (k_send_buffers k w t bytes) k.
  Proof.
    unfold k_send_buffers. destruct (negb (k_connected k)); [apply tracks_quiet; [reflexivity|quiet]|].
    destruct (k_write k).
    - destruct t; apply tracks_quiet; try reflexivity; quiet.
    - match goal with |- context [if k_transmitting ?K then _ else _] => destruct (k_transmitting K) end;
        apply tracks_quiet; try reflexivity; quiet.
  Qed.

  Lemma tracks_client_close d k : tracks (k_client_close o d k) k.
  Proof.
    unfold k_client_close. destruct (k_connected k) eqn:Ec; [|apply tracks_close].
    exact (proj1 (tracks_close_then_app d k Ec)).
  Qed.

  Lemma tracks_map_aborted (l : list N) rest b : disc_ok b (map KAbortedC l ++ rest) = disc_ok b rest.
  Proof. induction l as [|x t IH]; [reflexivity | simpl; exact IH]. Qed.

  Lemma tracks_step_alive k e : tracks (k_step_alive o k e) k.
  Proof.
    destruct e; unfold k_step_alive.
    - (* connect *)
      pose proof (tracks_do_connect (s_period k (co_period o)) resolve_fails) as H.
      destruct (k_do_connect o (s_period k (co_period o)) resolve_fails) as [[k1 l1] ok]. simpl in *.
      intros rest Hr. simpl. rewrite <- app_assoc. apply H. simpl. exact Hr.
    - destruct (k_connect_pending k); [apply (tracks_connect_callback (s_connect_pending k false)) | apply tracks_quiet; [reflexivity|quiet]].
    - destruct (k_handshake_pending k); [apply (tracks_handshake_callback (s_handshake_pending k false)) | apply tracks_quiet; [reflexivity|quiet]].
    - destruct (k_read_pending k); [apply (tracks_read_callback (s_read_pending k false)) | apply tracks_quiet; [reflexivity|quiet]].
    - destruct (k_read_pending k); [apply (tracks_read_callback (s_read_pending k false)) | apply tracks_quiet; [reflexivity|quiet]].
    - destruct (k_write k) as [wb|]; [|apply tracks_quiet; [reflexivity|quiet]].
      apply (tracks_andthen (s_write k None, [KWire wb]) _ k); [apply tracks_quiet; [reflexivity|quiet]|]. intros k1. apply tracks_write_callback.
    - destruct (k_write k); [apply (tracks_write_callback (s_write k None)) | apply tracks_quiet; [reflexivity|quiet]].
    - destruct (k_tls_sd_pending k); [apply (tracks_write_callback (s_tls_sd_pending k false)) | apply tracks_quiet; [reflexivity|quiet]].
    - apply tracks_quiet; [reflexivity | intros; apply tracks_map_aborted].
    - (* late *)
      destruct (existsb (N.eqb kind) (k_aborted k)); [|apply tracks_quiet; [reflexivity|quiet]].
      apply (tracks_andthen (s_aborted k (remove_first kind (k_aborted k)), [KLate kind]) _ k); [apply tracks_quiet; [reflexivity|quiet]|].
      intros k1. destruct kind as [|p]; [apply tracks_read_callback|].
      destruct p as [p|p|]; try apply tracks_write_callback; try apply tracks_connect_callback;
        destruct p; try apply tracks_write_callback; try apply tracks_connect_callback; try apply tracks_handshake_callback.
    - (* tick *)
      destruct (k_timer k); [|apply tracks_quiet; [reflexivity|quiet]].
      pose proof (tracks_do_connect (s_timer k false) false) as H.
      destruct (k_do_connect o (s_timer k false) false) as [[k1 l1] ok]. simpl in *.
      intros rest Hr. simpl. apply (H rest Hr).
    - apply tracks_send_buffers.
    - apply tracks_send_buffers.
    - apply tracks_send_buffers.
    - apply tracks_send_buffers.
    - apply (tracks_andthen (k, [KAppDisconnect]) _ k); [apply tracks_quiet; [reflexivity|quiet] | intros; apply tracks_shutdown].
    - apply (tracks_andthen (s_timer (s_period k false) false, [KAppClose]) _ k); [apply tracks_quiet; [reflexivity|quiet] | intros; apply tracks_client_close].
    - apply tracks_andthen.
      + apply (tracks_andthen (s_timer (s_period k false) false, [KDestroy]) _ k); [apply tracks_quiet; [reflexivity|quiet] | intros; apply tracks_client_close].
      + intros k1. apply tracks_quiet; [reflexivity|quiet].
  Qed.

  Lemma tracks_step_dead k e : tracks (k_step_dead k e) k.
  Proof.
    destruct e; unfold k_step_dead; try (apply tracks_quiet; [reflexivity|quiet]).
    - apply tracks_quiet; [reflexivity | intros; apply tracks_map_aborted].
    - destruct (existsb (N.eqb kind) (k_aborted k)); apply tracks_quiet; try reflexivity; quiet.
  Qed.

  Lemma tracks_step k e : tracks (k_step o k e) k.
  Proof.
    unfold k_step. destruct (k_undefined k); [apply tracks_quiet; [reflexivity|quiet]|].
    pose proof (tracks_step_alive k e) as Ha. pose proof (tracks_step_dead k e) as Hd.
    destruct (k_alive k).
    - destruct (k_step_alive o k e) as [k1 l]. intros rest Hr. simpl in *. rewrite <- app_assoc. apply Ha.
      destruct (k_undefined k1); simpl; [exact Hr|]. unfold kstate. destruct (k_alive k1); exact Hr.
    - destruct (k_step_dead k e) as [k1 l]. intros rest Hr. simpl in *. rewrite <- app_assoc. apply Hd.
      destruct (k_undefined k1); simpl; [exact Hr|]. unfold kstate. destruct (k_alive k1); exact Hr.
  Qed.

  Lemma run_disc_ok es : forall k, disc_ok (k_connected k) (snd (k_run o k es)) = true.
  Proof.
    induction es as [|e t IH]; intros k; [reflexivity|]. simpl.
    pose proof (tracks_step k e) as H. destruct (k_step o k e) as [k1 l1]. specialize (IH k1).
    destruct (k_run o k1 t) as [k2 l2]. simpl in *. apply H. exact IH.
  Qed.

  (* C11 (client): over every event history, whatever the environment and the application do, a disconnected
     event is always the first one after a connected event *)
  Lemma client_disconnection_signalled_at_most_once es : disc_ok false (snd (k_run o (cl_init o) es)) = true.
  Proof. exact (run_disc_ok es (cl_init o)). Qed.

  (* close() and the destructor: an open connection is reported once, nothing stays pending *)
  Lemma client_close_reports d k :
    k_connected k = true -> k_open k = true ->
    let r := k_client_close o d k in
    k_connected (fst r) = false /\ k_open (fst r) = false /\ k_read_pending (fst r) = false /\ k_write (fst r) = None /\
    k_connect_pending (fst r) = false /\ k_handshake_pending (fst r) = false /\ k_tls_sd_pending (fst r) = false /\
    length (filter is_disc (snd r)) = 1%nat.
  Proof.
    intros Hc Ho. unfold k_client_close. rewrite Hc. unfold andthen, k_close. simpl. rewrite Ho. simpl.
    unfold k_app_disconnected. destruct (co_reclose o && negb d); simpl; repeat split.
  Qed.

  (* once the client is destroyed no application callback is made, whatever completes afterwards *)
  Definition silent (x : clog) : bool :=
    match x with
    | KMark _ | KNo _ | KAbortedC _ | KLate _ | KTick | KDestroy | KGone => true
    | _ => false
    end.

  Lemma forallb_silent_aborted (l : list N) : forallb silent (map KAbortedC l) = true.
  Proof. induction l as [|x t IH]; [reflexivity | exact IH]. Qed.

  Lemma dead_inner k e : k_alive k = false -> k_undefined k = false ->
    k_alive (fst (k_step_dead k e)) = false /\ k_undefined (fst (k_step_dead k e)) = false /\
    forallb silent (snd (k_step_dead k e)) = true.
  Proof.
    intros Ha Hu. destruct e; unfold k_step_dead; simpl; try (repeat split; assumption).
    - repeat split; try assumption. apply forallb_silent_aborted.
    - destruct (existsb (N.eqb kind) (k_aborted k)); simpl; repeat split; assumption.
  Qed.

  Lemma dead_step_silent k e : k_alive k = false -> k_undefined k = false ->
    k_alive (fst (k_step o k e)) = false /\ k_undefined (fst (k_step o k e)) = false /\ forallb silent (snd (k_step o k e)) = true.
  Proof.
    intros Ha Hu. unfold k_step. rewrite Hu, Ha.
    destruct (dead_inner k e Ha Hu) as [H1 [H2 H3]]. destruct (k_step_dead k e) as [k1 l]. simpl in *.
    rewrite H2. repeat split; try assumption. rewrite forallb_app, H3. unfold kstate. rewrite H1. reflexivity.
  Qed.

  Lemma dead_run_silent es : forall k, k_alive k = false -> k_undefined k = false -> forallb silent (snd (k_run o k es)) = true.
  Proof.
    induction es as [|e t IH]; intros k Ha Hu; [reflexivity|]. simpl.
    destruct (dead_step_silent k e Ha Hu) as [H1 [H2 H3]]. destruct (k_step o k e) as [k1 l1]. simpl in *.
    specialize (IH k1 H1 H2). destruct (k_run o k1 t) as [k2 l2]. simpl in *. rewrite forallb_app, H3, IH. reflexivity.
  Qed.

  (* a connect after a disconnect starts from a clean connection *)
  Lemma client_connect_starts_clean k rf :
    k_connected k = false ->
    let k1 := fst (fst (k_do_connect o k rf)) in
    k_transmitting k1 = false /\ k_disc_pending k1 = false /\ k_shutdown_sent k1 = false.
  Proof.
    intros Hc. unfold k_do_connect. rewrite Hc. destruct rf; simpl; [repeat split|].
    match goal with |- context [if k_open ?K then _ else _] => destruct (k_open K) end; simpl; repeat split;
      unfold k_cancel; simpl; reflexivity.
  Qed.
End C.

(* C04 (client): what http_client::send hands to the socket is the request line, the application's header
   lines, one Host line, a Content-Length line stating exactly the number of body bytes that follow (unless
   the application supplied the framing itself), the empty line, and those body bytes *)
Lemma client_request_framing o ov m u h b :
  let r := {| tq_method := m; tq_uri := u; tq_major := 49; tq_minor := 49;
              tq_headers := h ++ to_header hf_HEADER_HOST (http_host_name o) |} in
  let n := if N.eqb ov 0 then 0 else nlen b in
  request_bytes o ov m u h b =
    request_line_string r ++ tq_headers r
    ++ (if request_adds_content_length r then content_length_line n else []) ++ CRLF
    ++ (if N.eqb ov 0 then [] else b).
Proof.
  unfold request_bytes, request_message. destruct ov as [|p]; simpl N.eqb; cbv iota.
  - rewrite app_nil_r. reflexivity.
  - rewrite <- !app_assoc. reflexivity.
Qed.

(* a data chunk: size line in hex, the data, CRLF; the last chunk: "0", extension, CRLF, trailers, CRLF *)
Lemma client_chunk_framing d x :
  chunk_header_string (nlen d) x ++ d ++ CRLF = to_hex_string (nlen d) ++ ext_string x ++ CRLF ++ d ++ CRLF.
Proof. unfold chunk_header_string. rewrite <- !app_assoc. reflexivity. Qed.
