(* P_C12.v — the executor facts read off the source (Gen_Access.v, regenerated on every run by
   translate/access.py from the AST of the HTTP_THREAD_SAFE build) and what they mean in M_Pool. *)
From Coq Require Import String List Bool Arith.
From Via Require Import M_Pool P_Pool Gen_Access.
Import ListNotations.
Local Open Scope string_scope.

Definition source_facts : facts :=
  {| f_accept_on_strand := accept_on_strand; f_rebinds := executor_rebinds;
     f_arms_last := connected_path_arms_last; f_sweeps := connection_sweeps |}.

(* every accepted socket gets a strand of its own and no completion handler is rebound elsewhere *)
Lemma source_completions_on_strand : completions_on_strand source_facts = true.
Proof. reflexivity. Qed.

(* the connected path, which the accept handler runs outside that strand, starts the first read as its
   last action *)
Lemma source_arms_last : f_arms_last source_facts = true.
Proof. reflexivity. Qed.

(* the two connection collections shared by all strands are the concurrent map of C18 *)
Lemma source_collections_concurrent : collections_concurrent = true.
Proof. reflexivity. Qed.

(* the functions that reach into every connection from one thread are exactly the two known ones
   (finding F43); a new one, or a change of how they do it, has to be looked at *)
Lemma source_sweeps_are_the_known_ones :
  connection_sweeps = [("http_server::close", "disconnected_handler_", "direct");
                       ("http_server::shutdown", "disconnect", "direct")].
Proof. reflexivity. Qed.

(* the only plain data member of the two server classes assigned after configuration *)
Lemma source_shared_writes_are_the_known_ones : shared_writes = [("http_server::shutdown", "shutting_down_")].
Proof. reflexivity. Qed.
