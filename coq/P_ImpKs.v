(* P_ImpKs.v — chunk_header::parse_char, STRICT_CRLF = true: the hand-written model computes, for every state, every character and every limit
   configuration, exactly what the body of the C++ function computes - the body as translated from clang's AST on this
   run (Gen_Parse.v), under the meaning of statements defined in M_Imp.v. *)
From Via Require Import M_Char M_Parse M_Imp Gen_Parse.
From Coq Require Import List NArith Bool Lia.
Import ListNotations.
Local Open Scope N_scope.
Arguments nlen : simpl never.
Arguments snoc : simpl never.
From Via Require Import P_Imp0.

From Via Require Import P_ImpK0.

Lemma ck_parse_char_is_the_source_strict L k c : strict_crlf L = true ->
  run_body (ck_lim L) c ck_src_strict (ck_store k) = (ck_store (fst (ck_parse_char L k c)), snd (ck_parse_char L k c)).
Proof.
  intros Es. unfold ck_parse_char, ck_size_case, ck_ext_case. rewrite Es. destruct k as [mx sz len ws hx ex s sr v f]. cbn [ck_state ck_max ck_size ck_length ck_ws ck_hex ck_ext ck_size_read].
  unfold ck_src_strict, ck_store; cbn [s_nums];
    rewrite run_body_length_check; unfold ck_lim at 1; cbn [nth];
    destruct (max_line L <? len + 1) eqn:Elen; destruct s; destruct sr;
    cbv delta [run_body] beta; norm; unfold ck_lim; cbn [nth]; change MAX_SIZE_DIGITS with 16;
    repeat (split_one; norm); try reflexivity;
    try (cbn [negb andb orb] in *; congruence); try (norm_all; flags).
Qed.
