(* Properties_C20.v — C20: a configured idle timeout actually closes silent connections.
   REFUTED on the model of the code as it is: no transition of the library is driven by time.  The
   only mechanism is setsockopt(SO_RCVTIMEO / SO_SNDTIMEO) on a socket that is driven by asynchronous
   (non-blocking) operations, which those options do not affect; the connection owns no timer.
   Open finding F31. *)
From Via Require Import M_Char M_Encode M_Parse M_Receive M_Server P_Server.
Local Open Scope N_scope.

Theorem C20_refuted_time_closes_nothing : forall recipe_of o n w,
  fst (run recipe_of o w (repeat ([], EvTick) n)) = w.
Proof. exact ticks_change_nothing. Qed.

(* the complementary half: connections that exchange data are not affected by time passing *)
Theorem C20_partial_active_unaffected : forall recipe_of o w, fst (step recipe_of o w EvTick) = w.
Proof. exact tick_changes_nothing. Qed.

Print Assumptions C20_refuted_time_closes_nothing.
