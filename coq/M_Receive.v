(* M_Receive.v — rx_request, request_receiver::receive, rx_response, response_receiver::receive and
   the read loops of http_server::receive_handler / http_client::receive_handler (with the
   application policy "answer every delivered request at once").  Definitions only. *)
From Via Require Export M_Parse.
Local Open Scope N_scope.

(* ---- rx_request ----------------------------------------------------------------------- *)
Record rx_request := mk_rq { rq_line : req_line; rq_headers : headers; rq_valid : bool }.
Definition rq_init : rx_request := mk_rq rl_init hd_init false.

(* rx_request::parse *)
Definition rq_parse (L : limits) (q : rx_request) (buf : str) : rx_request * str * pres :=
  let '(l1, b1, r1) :=
    if rl_valid (rq_line q) then (rq_line q, buf, Done) else rl_parse L (rq_line q) buf in
  match r1 with
  | Done =>
      let '(h1, b2, r2) :=
        if hd_valid (rq_headers q) then (rq_headers q, b1, Done) else hd_parse L (rq_headers q) b1 in
      match r2 with
      | Done => (mk_rq l1 h1 true, b2, Done)
      | r => (mk_rq l1 h1 (rq_valid q), b2, r)
      end
  | r => (mk_rq l1 (rq_headers q) (rq_valid q), b1, r)
  end.

Definition rq_keep_alive (q : rx_request) : bool :=
  negb (is_http_1_0_or_earlier (rl_major (rq_line q)) (rl_minor (rq_line q)))
  && negb (hd_close_connection (rq_headers q)).

Definition rq_missing_host (q : rx_request) : bool :=
  (rl_major (rq_line q) =? 49) && (rl_minor (rq_line q) =? 49)
  && match hd_find (rq_headers q) hf_LC_HOST with [] => true | _ => false end.

Definition rq_expect_continue (q : rx_request) : bool :=
  negb (is_http_1_0_or_earlier (rl_major (rq_line q)) (rl_minor (rq_line q)))
  && hd_expect_continue (rq_headers q).

Definition rq_is_head (q : rx_request) : bool := str_eqb (rl_method (rq_line q)) method_HEAD.
Definition rq_is_trace (q : rx_request) : bool := str_eqb (rl_method (rq_line q)) method_TRACE.

(* ---- request_receiver ------------------------------------------------------------------ *)
Record rcfg := mk_rcfg
  { c_lim : limits; c_max_content : N; c_max_chunk : N; c_translate_head : bool; c_concat : bool;
    c_defer_continue : bool (* the application's expect-continue handler answers later *) }.

Record receiver := mk_rv
  { rv_req : rx_request; rv_chunk : rx_chunk; rv_body : str; rv_code : N;
    rv_continue_sent : bool; rv_is_head : bool }.

Definition rv_init (cfg : rcfg) : receiver :=
  mk_rv rq_init (rc_init (c_max_chunk cfg)) [] code_NO_CONTENT false false.

(* clear(): response_code_ is kept *)
Definition rv_clear (v : receiver) : receiver :=
  mk_rv rq_init (rc_clear (rv_chunk v)) [] (rv_code v) false false.

Definition rv_set_code (v : receiver) (c : N) : receiver :=
  mk_rv (rv_req v) (rv_chunk v) (rv_body v) c (rv_continue_sent v) (rv_is_head v).
Definition rv_set_continue_sent (v : receiver) : receiver :=
  mk_rv (rv_req v) (rv_chunk v) (rv_body v) (rv_code v) true (rv_is_head v).

(* RX_UB is not a value of the C++ enumeration: it stands for undefined behaviour (an iterator moved
   by a negative distance); C05 proves it unreachable *)
Inductive rx := RX_INVALID | RX_EXPECT_CONTINUE | RX_INCOMPLETE | RX_VALID | RX_CHUNK | RX_UB.

Definition invalid (v : receiver) (code : N) (rest : str) : receiver * str * rx :=
  (rv_clear (rv_set_code v code), rest, RX_INVALID).

Definition nonempty (s : str) : bool := match s with [] => false | _ => true end.

(* the Content-Length / no-body branch of receive (after the head is valid) *)
Definition receive_cl (cfg : rcfg) (request_parsed : bool) (v1 : receiver) (b1 : str) : receiver * str * rx :=
  let q1 := rv_req v1 in
  let rx_size := nlen b1 in
  let cl := hd_content_length (rq_headers q1) in
  (* TRACE requests may not be allowed *)
  let trace_bad := rq_is_trace q1 && negb (match cl with Some 0 => true | _ => false end) in
  let v2 := if rq_is_trace q1 && negb trace_bad then rv_set_code v1 code_METHOD_NOT_ALLOWED else v1 in
  if trace_bad then invalid v1 code_BAD_REQUEST b1
  else
    match cl with
    | None => invalid v2 code_BAD_REQUEST b1
    | Some n =>
        if (0 <? n) && (c_max_content cfg <? n) then invalid v2 code_PAYLOAD_TOO_LARGE b1
        else if (n =? 0) && (0 <? rx_size)
                && negb (nonempty (hd_find (rq_headers q1) hf_LC_CONTENT_LENGTH))
        then invalid v2 code_LENGTH_REQUIRED b1
        else
          let required := (Z.of_N n - Z.of_N (nlen (rv_body v2)))%Z in
          if (required <? 0)%Z && (required <? Z.of_N rx_size)%Z then (v2, b1, RX_UB)
          else
            let '(body, b2) :=
              if (required <? Z.of_N rx_size)%Z
              then (rv_body v2 ++ firstn (Z.to_nat required) b1, skipn (Z.to_nat required) b1)
              else (rv_body v2 ++ b1, []) in
            let v3 := mk_rv (rv_req v2) (rv_chunk v2) body (rv_code v2) (rv_continue_sent v2) (rv_is_head v2) in
            if nlen body =? n then
              let ih := rq_is_head q1 in
              let q2 := if ih && c_translate_head cfg
                        then mk_rq (rl_set_method (rq_line q1) method_GET) (rq_headers q1) (rq_valid q1)
                        else q1 in
              (mk_rv q2 (rv_chunk v3) body (rv_code v3) (rv_continue_sent v3) ih, b2, RX_VALID)
            else if request_parsed && rq_expect_continue q1 && negb (rv_continue_sent v3)
            then (rv_set_code v3 code_CONTINUE, b2, RX_EXPECT_CONTINUE)
            else (v3, b2, RX_INCOMPLETE)
    end.

(* the chunked branch *)
Definition receive_chunked (cfg : rcfg) (request_parsed : bool) (v1 : receiver) (b1 : str) : receiver * str * rx :=
  let L := c_lim cfg in
  let q1 := rv_req v1 in
  let k0 := if rc_valid (rv_chunk v1) then rc_clear (rv_chunk v1) else rv_chunk v1 in
  let v2 := mk_rv (rv_req v1) k0 (rv_body v1) (rv_code v1) (rv_continue_sent v1) (rv_is_head v1) in
  if request_parsed && rq_expect_continue q1 && negb (rv_continue_sent v2)
  then (rv_set_code v2 code_CONTINUE, b1, RX_EXPECT_CONTINUE)
  else if request_parsed && negb (c_concat cfg) then (v2, b1, RX_VALID)
  else
    let '(k1, b2, r2) := rc_parse L k0 b1 in
    let v3 := mk_rv (rv_req v2) k1 (rv_body v2) (rv_code v2) (rv_continue_sent v2) (rv_is_head v2) in
    let failed := match r2 with Done => false | _ => nonempty b2 || rc_failed k1 end in
    if failed then invalid v3 code_BAD_REQUEST b2
    else if rc_valid k1 then
      if c_concat cfg then
        if rc_is_last k1 then (v3, b2, RX_VALID)
        else if c_max_content cfg <? nlen (rv_body v3) + nlen (rc_data k1)
        then invalid v3 code_PAYLOAD_TOO_LARGE b2
        else (mk_rv (rv_req v3) k1 (rv_body v3 ++ rc_data k1) (rv_code v3) (rv_continue_sent v3) (rv_is_head v3),
              b2, RX_INCOMPLETE)
      else (v3, b2, RX_CHUNK)
    else (v3, b2, RX_INCOMPLETE).

(* everything after the head is valid *)
Definition receive_body (cfg : rcfg) (request_parsed : bool) (v1 : receiver) (b1 : str) : receiver * str * rx :=
  if rq_missing_host (rv_req v1) then (rv_set_code v1 code_BAD_REQUEST, b1, RX_INVALID)
  else if negb (hd_is_chunked (rq_headers (rv_req v1))) then receive_cl cfg request_parsed v1 b1
  else receive_chunked cfg request_parsed v1 b1.

(* request_receiver::receive *)
Definition receive (cfg : rcfg) (v0 : receiver) (buf : str) : receiver * str * rx :=
  let L := c_lim cfg in
  let request_parsed := negb (rq_valid (rv_req v0)) in
  (* building a request *)
  let '(q1, b1, r1) := if request_parsed then rq_parse L (rv_req v0) buf else (rv_req v0, buf, Done) in
  let v1 := mk_rv q1 (rv_chunk v0) (rv_body v0) (rv_code v0) (rv_continue_sent v0) (rv_is_head v0) in
  match r1 with
  | More | Fail =>
      (* if a parsing error (not run out of data) *)
      if nonempty b1 || rl_fail (rq_line q1) || hd_fail (rq_headers q1) then
        let code := match rl_state (rq_line q1) with
                    | R_ERROR_METHOD_LENGTH => code_NOT_IMPLEMENTED
                    | R_ERROR_URI_LENGTH => code_REQUEST_URI_TOO_LONG
                    | _ => code_BAD_REQUEST
                    end in
        invalid v1 code b1
      else (v1, b1, RX_INCOMPLETE)
  | Done => receive_body cfg request_parsed v1 b1
  end.

(* ---- C06: what a connection retains ------------------------------------------------------ *)
Definition fields_size (m : fields) : N :=
  fold_right (fun kv acc => nlen (fst kv) + nlen (snd kv) + acc) 0 m.
Definition hd_retained (h : headers) : N :=
  fields_size (hd_fields h) + nlen (fl_name (hd_field h)) + nlen (fl_value (hd_field h)).
Definition retained (v : receiver) : N :=
  nlen (rl_method (rq_line (rv_req v))) + nlen (rl_uri (rq_line (rv_req v)))
  + hd_retained (rq_headers (rv_req v)) + nlen (rv_body v)
  + nlen (rc_data (rv_chunk v)) + nlen (ck_hex (rc_hdr (rv_chunk v))) + nlen (ck_ext (rc_hdr (rv_chunk v)))
  + hd_retained (rc_trailers (rv_chunk v)).

(* ---- what the application sees ----------------------------------------------------------- *)
Inductive event :=
  | EValid (method uri : str) (major minor : byte) (hdrs : fields) (body : str) (is_head : bool)
  | ETrace (code : N)
  | EInvalid (code : N)
  | EContinue (code : N)
  | EChunk (size : N) (ext data : str) (trailers : fields) (last : bool).

Definition chunk_event (k : rx_chunk) : event :=
  EChunk (ck_size (rc_hdr k)) (ck_ext (rc_hdr k)) (rc_data k) (hd_fields (rc_trailers k)) (rc_is_last k).

(* one iteration of the loop body of http_server::receive_handler: dispatch on the Rx value, with
   the policy that the application answers each delivered request at once (send() clears the
   receiver) unless it is waiting for the chunks of a request whose head it has just been given *)
Definition dispatch_rx (cfg : rcfg) (v : receiver) (r : rx) : receiver * list event :=
  match r with
  | RX_VALID =>
      let q := rv_req v in
      if negb (rq_is_trace q) then
        let e := EValid (rl_method (rq_line q)) (rl_uri (rq_line q)) (rl_major (rq_line q)) (rl_minor (rq_line q))
                        (hd_fields (rq_headers q)) (rv_body v) (rv_is_head v) in
        if hd_is_chunked (rq_headers q) && negb (c_concat cfg) then (v, [e]) else (rv_clear v, [e])
      else (rv_clear v, [ETrace (rv_code v)])
  | RX_INVALID => (rv_clear v, [EInvalid (rv_code v)])
  | RX_EXPECT_CONTINUE => (if c_defer_continue cfg then v else rv_set_continue_sent v, [EContinue (rv_code v)])
  | RX_CHUNK =>
      let e := chunk_event (rv_chunk v) in
      if rc_is_last (rv_chunk v) then (rv_clear v, [e]) else (v, [e])
  | _ => (v, [])
  end.

(* while ((iter != end) && (rx_state != INVALID)) *)
Fixpoint rx_loop (fuel : nat) (cfg : rcfg) (v : receiver) (buf : str)
  : receiver * list event * list (rx * N) * bool (* ran out of fuel *) :=
  match buf with
  | [] => (v, [], [], false)
  | _ :: _ =>
      match fuel with
      | O => (v, [], [], true)
      | S fuel' =>
          let '(v1, rest, r) := receive cfg v buf in
          let consumed := nlen buf - nlen rest in
          let '(v2, evs) := dispatch_rx cfg v1 r in
          match r with
          | RX_INVALID | RX_UB => (v2, evs, [(r, consumed)], false)
          | _ =>
              let '(v3, evs', calls, oof) := rx_loop fuel' cfg v2 rest in
              (v3, evs ++ evs', (r, consumed) :: calls, oof)
          end
      end
  end.

Definition loop_fuel (buf : str) : nat := (2 * length buf + 4)%nat.

Definition read_loop (cfg : rcfg) (v : receiver) (buf : str) :=
  rx_loop (loop_fuel buf) cfg v buf.

(* a whole connection: the reads, in order *)
Fixpoint feed (cfg : rcfg) (v : receiver) (frags : list str)
  : receiver * list event * list (list (rx * N)) * bool :=
  match frags with
  | [] => (v, [], [], false)
  | f :: t =>
      let '(v1, e1, c1, o1) := read_loop cfg v f in
      let '(v2, e2, c2, o2) := feed cfg v1 t in
      (v2, e1 ++ e2, c1 :: c2, o1 || o2)
  end.

(* ====================================================================================== *)
(* client side *)
Record rx_response := mk_rp { rp_line : rsp_line; rp_headers : headers; rp_valid : bool }.
Definition rp_init : rx_response := mk_rp sl_init hd_init false.

Definition rp_parse (L : limits) (q : rx_response) (buf : str) : rx_response * str * pres :=
  let '(l1, b1, r1) :=
    if sl_valid (rp_line q) then (rp_line q, buf, Done) else sl_parse L (rp_line q) buf in
  match r1 with
  | Done =>
      let '(h1, b2, r2) :=
        if hd_valid (rp_headers q) then (rp_headers q, b1, Done) else hd_parse L (rp_headers q) b1 in
      match r2 with
      | Done => (mk_rp l1 h1 true, b2, Done)
      | r => (mk_rp l1 h1 (rp_valid q), b2, r)
      end
  | r => (mk_rp l1 (rp_headers q) (rp_valid q), b1, r)
  end.

Record ccfg := mk_ccfg { cc_lim : limits; cc_max_body : N; cc_max_chunk : N }.

Record creceiver := mk_cv { cv_rsp : rx_response; cv_chunk : rx_chunk; cv_body : str }.
Definition cv_init (cfg : ccfg) : creceiver := mk_cv rp_init (rc_init (cc_max_chunk cfg)) [].
Definition cv_clear (v : creceiver) : creceiver := mk_cv rp_init (rc_clear (cv_chunk v)) [].

(* response_receiver::receive *)
Definition creceive (cfg : ccfg) (v0 : creceiver) (buf : str) : creceiver * str * rx :=
  let L := cc_lim cfg in
  let response_parsed := negb (rp_valid (cv_rsp v0)) in
  let '(q1, b1, r1) := if response_parsed then rp_parse L (cv_rsp v0) buf else (cv_rsp v0, buf, Done) in
  let v1 := mk_cv q1 (cv_chunk v0) (cv_body v0) in
  match r1 with
  | More | Fail =>
      if nonempty b1 || sl_fail (rp_line q1) || hd_fail (rp_headers q1)
      then (cv_clear v1, b1, RX_INVALID) else (v1, b1, RX_INCOMPLETE)
  | Done =>
      if negb (hd_is_chunked (rp_headers q1)) then
        match hd_content_length (rp_headers q1) with
        | None => (cv_clear v1, b1, RX_INVALID)
        | Some n =>
            let rx_size := nlen b1 in
            (* a body without a content length header: allow up to max_body_size_ *)
            let no_content_length := (0 <? rx_size) && (n =? 0) && negb (nonempty (hd_find (rp_headers q1) hf_LC_CONTENT_LENGTH)) in
            let cl := if no_content_length then cc_max_body cfg else n in
            let required := (Z.of_N cl - Z.of_N (nlen (cv_body v1)))%Z in
            (* such a body may not exceed max_body_size_ *)
            if (required <? Z.of_N rx_size)%Z && no_content_length then (cv_clear v1, b1, RX_INVALID)
            else if (required <? 0)%Z && (required <? Z.of_N rx_size)%Z then (v1, b1, RX_UB)
            else
              let '(body, b2) :=
                if (required <? Z.of_N rx_size)%Z
                then (cv_body v1 ++ firstn (Z.to_nat required) b1, skipn (Z.to_nat required) b1)
                else (cv_body v1 ++ b1, []) in
              let v2 := mk_cv q1 (cv_chunk v1) body in
              if nlen body =? n then (v2, b2, RX_VALID) else (v2, b2, RX_INCOMPLETE)
        end
      else
        let k0 := if rc_valid (cv_chunk v1) then rc_clear (cv_chunk v1) else cv_chunk v1 in
        let v2 := mk_cv q1 k0 (cv_body v1) in
        if response_parsed then (v2, b1, RX_VALID)
        else
          let '(k1, b2, r2) := rc_parse L k0 b1 in
          let v3 := mk_cv q1 k1 (cv_body v2) in
          let failed := match r2 with Done => false | _ => nonempty b2 || rc_failed k1 end in
          if failed then (cv_clear v3, b2, RX_INVALID)
          else if rc_valid k1 then (v3, b2, RX_CHUNK)
          else (v3, b2, RX_INCOMPLETE)
  end.

Inductive cevent :=
  | CValid (status : N) (reason : str) (major minor : byte) (hdrs : fields) (body : str)
  | CInvalid
  | CChunk (size : N) (ext data : str) (trailers : fields) (last : bool).

(* the loop body of http_client::receive_handler *)
Definition cdispatch (v : creceiver) (r : rx) : creceiver * list cevent :=
  match r with
  | RX_VALID =>
      let q := cv_rsp v in
      let e := CValid (sl_status (rp_line q)) (sl_reason (rp_line q)) (sl_major (rp_line q)) (sl_minor (rp_line q))
                      (hd_fields (rp_headers q)) (cv_body v) in
      if hd_is_chunked (rp_headers q) then (v, [e]) else (cv_clear v, [e])
  | RX_CHUNK =>
      let k := cv_chunk v in
      let e := CChunk (ck_size (rc_hdr k)) (ck_ext (rc_hdr k)) (rc_data k) (hd_fields (rc_trailers k)) (rc_is_last k) in
      if rc_is_last k then (cv_clear v, [e]) else (v, [e])
  | RX_INVALID => (cv_clear v, [CInvalid])
  | _ => (v, [])
  end.

Fixpoint crx_loop (fuel : nat) (cfg : ccfg) (v : creceiver) (buf : str)
  : creceiver * list cevent * list (rx * N) * bool :=
  match buf with
  | [] => (v, [], [], false)
  | _ :: _ =>
      match fuel with
      | O => (v, [], [], true)
      | S fuel' =>
          let '(v1, rest, r) := creceive cfg v buf in
          let consumed := nlen buf - nlen rest in
          let '(v2, evs) := cdispatch v1 r in
          match r with
          | RX_INVALID | RX_UB => (v2, evs, [(r, consumed)], false)
          | _ =>
              let '(v3, evs', calls, oof) := crx_loop fuel' cfg v2 rest in
              (v3, evs ++ evs', (r, consumed) :: calls, oof)
          end
      end
  end.

Definition cread_loop (cfg : ccfg) (v : creceiver) (buf : str) := crx_loop (loop_fuel buf) cfg v buf.

Fixpoint cfeed (cfg : ccfg) (v : creceiver) (frags : list str)
  : creceiver * list cevent * list (list (rx * N)) * bool :=
  match frags with
  | [] => (v, [], [], false)
  | f :: t =>
      let '(v1, e1, c1, o1) := cread_loop cfg v f in
      let '(v2, e2, c2, o2) := cfeed cfg v1 t in
      (v2, e1 ++ e2, c1 :: c2, o1 || o2)
  end.
