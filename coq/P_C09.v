(* P_C09.v — invariants of the server state machine over every history. *)
From Via Require Import M_Char M_Encode M_Parse M_Receive M_Server.
From Coq Require Import Lia.
Local Open Scope N_scope.

(* the bytes a list of buffer slots denotes, as a function of the three places they point into *)
Definition tx_bytes (hdr body : str) (keep : list str) (l : list slot) : str :=
  concat (map (fun s => match s with SHeader => hdr | SBody => body | SCrlf => [13; 10] | SApp k => nth k keep [] end) l).
Definition slots_in (n : nat) (l : list slot) : Prop :=
  Forall (fun s => match s with SApp k => (k < n)%nat | _ => True end) l.

Lemma slots_bytes_tx c l : slots_bytes c l = tx_bytes (c_tx_header c) (c_tx_body c) (c_keep c) l.
Proof. reflexivity. Qed.

(* what a connection handed to send_data must satisfy (its transmit buffers may just have been rewritten) *)
Definition conn_ok0 (c : conn) : Prop :=
  (c_write c <> None -> c_transmitting c = true) /\
  (c_in_http c = true -> c_in_comms c = true /\ c_connected c = true).

Definition conn_ok (c : conn) : Prop :=
  (c_write c <> None -> c_transmitting c = true) /\
  (c_in_http c = true -> c_in_comms c = true /\ c_connected c = true) /\
  (* the buffers a pending write points into still hold the bytes that were issued *)
  (forall slots snap, c_write c = Some (slots, snap) -> tx_bytes (c_tx_header c) (c_tx_body c) (c_keep c) slots = snap) /\
  (forall slots snap, c_write c = Some (slots, snap) -> slots_in (length (c_keep c)) slots).

Definition all_ok (w : world) : Prop := Forall conn_ok (w_conns w).

(* the two things that must never be logged: a socket shut down under a pending write, a completed write whose
   buffers no longer hold the bytes that were issued *)
Definition is_bad (l : logitem) : bool := match l with LTruncated _ | LStale _ => true | _ => false end.
Definition is_truncated (l : logitem) : bool := match l with LTruncated _ => true | _ => false end.
Definition In_truncated (l : list logitem) : Prop := existsb is_truncated l = true.
Definition no_bad (l : list logitem) : Prop := existsb is_bad l = false.

Lemma no_bad_app a b : no_bad a -> no_bad b -> no_bad (a ++ b).
Proof. unfold no_bad. intros Ha Hb. rewrite existsb_app, Ha, Hb. reflexivity. Qed.

Lemma no_bad_cons x l : is_bad x = false -> no_bad l -> no_bad (x :: l).
Proof. unfold no_bad. cbn. intros -> ->. reflexivity. Qed.

Lemma no_bad_nil : no_bad [].
Proof. reflexivity. Qed.

Lemma find_ok id l c : Forall conn_ok l -> find_conn id l = Some c -> conn_ok c.
Proof.
  induction 1 as [|d t Hd _ IH]; cbn; [discriminate|].
  destruct (Nat.eqb (c_id d) id); [intros H; inversion H; subst; exact Hd|exact IH].
Qed.

Lemma put_ok c l : Forall conn_ok l -> conn_ok c -> Forall conn_ok (put_conn c l).
Proof.
  induction 1 as [|d t Hd Ht IH]; cbn; intros Hc; [constructor|].
  destruct (Nat.eqb (c_id d) (c_id c)); constructor; auto.
Qed.

Lemma put_put_ok c1 c2 l : Forall conn_ok l -> conn_ok c2 -> c_id c1 = c_id c2 ->
  Forall conn_ok (put_conn c2 (put_conn c1 l)).
Proof.
  induction 1 as [|d t Hd Ht IH]; cbn; intros Hc E; [constructor|].
  destruct (Nat.eqb (c_id d) (c_id c1)) eqn:E1; cbn.
  - rewrite E, Nat.eqb_refl. constructor; assumption.
  - rewrite <- E, E1. constructor; auto.
Qed.

Lemma upd_upd_ok w c1 c2 : all_ok w -> conn_ok c2 -> c_id c1 = c_id c2 -> all_ok (upd (upd w c1) c2).
Proof. unfold all_ok, upd, set_conns. cbn. apply put_put_ok. Qed.

Lemma find_conn_id id l c : find_conn id l = Some c -> c_id c = id.
Proof.
  induction l as [|d l IH]; cbn; [discriminate|].
  destruct (Nat.eqb (c_id d) id) eqn:E; [intros H; inversion H; subst; apply Nat.eqb_eq, E|exact IH].
Qed.

Lemma find_put_same l c c' : find_conn (c_id c) l = Some c -> c_id c' = c_id c ->
  find_conn (c_id c) (put_conn c' l) = Some c'.
Proof.
  intros Hf E. induction l as [|d l IH]; cbn in *; [discriminate|]. rewrite E.
  destruct (Nat.eqb (c_id d) (c_id c)) eqn:Ed.
  - cbn. rewrite E, Nat.eqb_refl. reflexivity.
  - cbn. rewrite Ed. apply IH, Hf.
Qed.

Lemma upd_ok w c : all_ok w -> conn_ok c -> all_ok (upd w c).
Proof. unfold all_ok, upd, set_conns. cbn. apply put_ok. Qed.

Lemma add_aborted_ok w l : all_ok w -> all_ok (add_aborted w l).
Proof. intros H; exact H. Qed.

Lemma set_undefined_ok w : all_ok w -> all_ok (set_undefined w).
Proof. intros H; exact H. Qed.

Ltac ok_tac := unfold conn_ok, conn_ok0 in *; cbn in *; intuition (try discriminate; try congruence; eauto).

Lemma str_eqb_same a : str_eqb a a = true.
Proof. induction a as [|x a IH]; cbn; [reflexivity|]. rewrite N.eqb_refl, IH. reflexivity. Qed.

Lemma conn_ok_0 c : conn_ok c -> conn_ok0 c.
Proof. intros (A & B & _). split; assumption. Qed.

Lemma slots_in_mono n m l : (n <= m)%nat -> slots_in n l -> slots_in m l.
Proof.
  intros Hnm H. unfold slots_in in *. induction H as [|s t Hs Ht IH]; constructor; [|exact IH].
  destruct s; try exact I. eapply Nat.lt_le_trans; eassumption.
Qed.

Lemma tx_bytes_keep_app h b keep xs l : slots_in (length keep) l -> tx_bytes h b (keep ++ xs) l = tx_bytes h b keep l.
Proof.
  intros H. unfold tx_bytes. f_equal. induction H as [|s t Hs Ht IH]; [reflexivity|]. cbn [map]. rewrite IH. f_equal.
  destruct s; try reflexivity. apply app_nth1. exact Hs.
Qed.

Lemma cancel_pending_ok c b : conn_ok c -> conn_ok (fst (cancel_pending c b)).
Proof. intros H. unfold cancel_pending. cbn [fst]. destruct b; ok_tac. Qed.

Lemma sock_close_ok w c : all_ok w -> conn_ok c ->
  all_ok (fst (sock_close w c)) /\ no_bad (snd (sock_close w c)).
Proof.
  intros Hw Hc. unfold sock_close. destruct (c_closed c) eqn:Ecl; [split; [exact Hw|reflexivity]|].
  cbn [fst snd]. split; [|reflexivity]. apply add_aborted_ok, upd_ok; [exact Hw|].
  destruct c; ok_tac.
Qed.

Lemma drop_http_ok w c : all_ok w -> conn_ok c ->
  all_ok (fst (drop_http w c)) /\ no_bad (snd (drop_http w c)).
Proof.
  intros Hw Hc. unfold drop_http.
  apply sock_close_ok; [apply upd_ok; [exact Hw|]|]; destruct c; ok_tac.
Qed.

Lemma drop_comms_ok w c : all_ok w -> conn_ok c ->
  all_ok (fst (drop_comms w c)) /\ no_bad (snd (drop_comms w c)).
Proof.
  intros Hw Hc. unfold drop_comms. set (c1 := mk_conn _ _ _ _ _ _ _ _ _ _ false false _ _ _ _ _ _ _).
  unfold sock_close. destruct (c_closed c1) eqn:Ecl.
  - cbn [fst snd]. split; [|reflexivity]. apply upd_ok; [exact Hw|]. unfold c1 in *. destruct c; ok_tac.
  - cbn [fst snd]. split; [|reflexivity]. apply add_aborted_ok, upd_upd_ok; [exact Hw| |reflexivity]. unfold c1 in *; destruct c; ok_tac.
Qed.

Definition good (r : world * list logitem) : Prop := all_ok (fst r) /\ no_bad (snd r).

Lemma good_app (w2 : world) l1 l2 : no_bad l1 -> good (w2, l2) -> good (w2, l1 ++ l2).
Proof. intros H1 [H2 H3]. split; [exact H2|apply no_bad_app; assumption]. Qed.

Lemma close_all_ok f : (forall w c, all_ok w -> conn_ok c -> find_conn (c_id c) (w_conns w) = Some c -> good (f w c)) ->
  forall ids w, all_ok w -> good (close_all w ids f).
Proof.
  intros Hf. induction ids as [|id t IH]; intros w Hw; cbn [close_all]; [split; [exact Hw|reflexivity]|].
  destruct (find_conn id (w_conns w)) as [c|] eqn:Ef; [|apply IH, Hw].
  assert (Hid : c_id c = id).
  { clear -Ef. induction (w_conns w) as [|d l IHl]; cbn in Ef; [discriminate|].
    destruct (Nat.eqb (c_id d) id) eqn:E; [inversion Ef; subst; apply Nat.eqb_eq, E|apply IHl, Ef]. }
  pose proof (Hf w c Hw (find_ok _ _ _ Hw Ef)) as Hg. rewrite Hid in Hg. specialize (Hg Ef).
  destruct (f w c) as [w1 l1]. destruct Hg as [Hg1 Hg2]. cbn [fst snd] in *.
  specialize (IH w1 Hg1). destruct (close_all w1 t f) as [w2 l2]. apply good_app; assumption.
Qed.

Lemma kill_ok c : conn_ok (kill c).
Proof. unfold kill. ok_tac. Qed.

Lemma no_bad_all l : (forall x, In x l -> is_bad x = false) -> no_bad l.
Proof.
  unfold no_bad. induction l as [|x t IH]; intros H; cbn; [reflexivity|].
  rewrite (H x (or_introl eq_refl)). apply IH. intros y Hy. apply H. right; exact Hy.
Qed.

Lemma server_close_except_ok held w : all_ok w -> good (server_close_except held w).
Proof.
  intros Hw. unfold server_close_except. split; cbn [fst snd].
  - unfold all_ok. cbn [w_conns]. apply Forall_map. eapply Forall_impl; [|exact Hw].
    intros c Hc. destruct ((c_in_comms c || c_in_http c) && negb _); [apply kill_ok|exact Hc].
  - apply no_bad_app.
    + apply no_bad_all. intros x Hx. apply in_map_iff in Hx. destruct Hx as [i [<- _]]. reflexivity.
    + apply no_bad_all. intros x Hx. apply in_concat in Hx. destruct Hx as [l [Hl Hx]].
      apply in_map_iff in Hl. destruct Hl as [c [<- _]]. unfold close_log in Hx.
      destruct (c_closed c); [destruct Hx|destruct Hx as [<-|[]]; reflexivity].
Qed.

Lemma server_close_ok w : all_ok w -> good (server_close w).
Proof. apply server_close_except_ok. Qed.

Lemma disconnected_ok w id : all_ok w -> good (disconnected w id).
Proof.
  intros Hw. unfold disconnected. destruct (find_conn id (w_conns w)) as [c|] eqn:Ef; [|split; [exact Hw|reflexivity]].
  pose proof (find_ok _ _ _ Hw Ef) as Hc.
  match goal with |- good (let '(w1, l1) := ?X in _) => assert (G : good X) end.
  { destruct (c_in_http c) eqn:Eh; [|split; [exact Hw|reflexivity]].
    cbv zeta.
    set (c1 := mk_conn _ _ _ _ _ _ _ _ _ _ _ false _ _ _ _ _ _ _).
    assert (Hc1 : conn_ok c1) by (unfold c1; destruct c; ok_tac).
    assert (Hw' : all_ok (upd w c1)) by (apply upd_ok; assumption).
    assert (Gs : good (if w_shutting_down (upd w c1) && Nat.eqb (count_http (upd w c1)) 0
                       then server_close_except (Some id) (upd w c1) else (upd w c1, []))).
    { destruct (_ && _); [apply server_close_except_ok, Hw'|split; [exact Hw'|reflexivity]]. }
    destruct (if w_shutting_down (upd w c1) && Nat.eqb (count_http (upd w c1)) 0
              then server_close_except (Some id) (upd w c1) else (upd w c1, [])) as [w'' l''].
    destruct Gs as [Gs1 Gs2]. cbn [fst snd] in Gs1, Gs2.
    destruct (find_conn id (w_conns w'')) as [c2|] eqn:Ef2.
    - pose proof (sock_close_ok w'' c2 Gs1 (find_ok _ _ _ Gs1 Ef2)) as [H1 H2].
      destruct (sock_close w'' c2) as [w3 l3]. cbn [fst snd] in *. split; cbn [fst snd]; [exact H1|].
      apply no_bad_cons; [reflexivity|apply no_bad_app; assumption].
    - split; cbn [fst snd]; [exact Gs1|apply no_bad_cons; [reflexivity|exact Gs2]]. }
  match goal with |- good (let '(w1, l1) := ?X in _) => destruct X as [w1 l1] end.
  destruct G as [G1 G2]. cbn [fst snd] in G1, G2.
  destruct (find_conn id (w_conns w1)) as [c1|] eqn:Ef1; [|split; assumption].
  destruct (c_in_comms c1); [|split; assumption].
  pose proof (drop_comms_ok w1 c1 G1 (find_ok _ _ _ G1 Ef1)) as [H1 H2].
  destruct (drop_comms w1 c1) as [w2 l2]. split; cbn [fst snd] in *; [exact H1|apply no_bad_app; assumption].
Qed.

Lemma comms_shutdown_ok o w id : all_ok w ->
  (o_tls o = false -> forall c, find_conn id (w_conns w) = Some c -> c_write c = None) ->
  good (comms_shutdown o w id).
Proof.
  intros Hw Hwr. unfold comms_shutdown. destruct (find_conn id (w_conns w)) as [c|] eqn:Ef; [|split; [exact Hw|reflexivity]].
  pose proof (find_ok _ _ _ Hw Ef) as Hc.
  set (c1 := mk_conn _ _ _ _ true _ _ _ _ _ _ _ _ _ _ _ _ _ _).
  assert (Hc1 : conn_ok c1) by (unfold c1; destruct c; ok_tac).
  destruct (o_tls o) eqn:Et.
  - pose proof (cancel_pending_ok c1 false Hc1) as Hc2.
    destruct (cancel_pending c1 false) as [c2 ab]. cbn [fst] in Hc2.
    split; cbn [fst snd]; [|reflexivity]. apply add_aborted_ok, upd_ok; [exact Hw|]. destruct c2; ok_tac.
  - specialize (Hwr eq_refl c eq_refl).
    assert (Ew : c_write c1 = None) by (unfold c1; cbn; exact Hwr). rewrite Ew. cbn [app].
    pose proof (disconnected_ok (upd w c1) id (upd_ok _ _ Hw Hc1)) as [H1 H2].
    destruct (disconnected (upd w c1) id) as [w1 l1]. split; cbn [fst snd] in *; [exact H1|].
    apply no_bad_cons; [reflexivity|exact H2].
Qed.

Lemma comms_disconnect_ok o w id : all_ok w -> good (comms_disconnect o w id).
Proof.
  intros Hw. unfold comms_disconnect. destruct (find_conn id (w_conns w)) as [c|] eqn:Ef; [|split; [exact Hw|reflexivity]].
  pose proof (find_ok _ _ _ Hw Ef) as Hc.
  destruct (c_transmitting c) eqn:Et; cbn [negb].
  - split; cbn [fst snd]; [|reflexivity]. apply upd_ok; [exact Hw|]. destruct c; ok_tac.
  - apply comms_shutdown_ok; [exact Hw|]. intros _ c' Hf. rewrite Ef in Hf. inversion Hf; subst c'.
    destruct Hc as [H1 _]. destruct (c_write c); [|reflexivity]. rewrite H1 in Et by discriminate. discriminate.
Qed.

Lemma disconnect_deferred o w id c :
  find_conn id (w_conns w) = Some c -> c_transmitting c = true -> snd (comms_disconnect o w id) = [].
Proof. intros Hf Ht. unfold comms_disconnect. rewrite Hf, Ht. reflexivity. Qed.

Lemma signal_error_ok o w id e : all_ok w -> good (signal_error o w id e).
Proof.
  intros Hw. unfold signal_error. destruct (find_conn id (w_conns w)) as [c|] eqn:Ef; [|split; [exact Hw|reflexivity]].
  destruct (negb (c_shutdown_sent c) && is_ssl_disconnect (o_tls o) e && is_ssl_shutdown (o_tls o) e) eqn:E.
  - apply comms_shutdown_ok; [exact Hw|]. intros Ht. unfold is_ssl_shutdown in E. rewrite Ht in E.
    rewrite Bool.andb_false_r in E. discriminate.
  - apply disconnected_ok, Hw.
Qed.

(* triples (world, log, result) *)
Definition good3 {A} (r : world * list logitem * A) : Prop := all_ok (fst (fst r)) /\ no_bad (snd (fst r)).

Lemma send_data_ok w c slots : all_ok w -> conn_ok0 c -> slots_in (length (c_keep c)) slots -> good3 (send_data w c slots).
Proof.
  intros Hw Hc Hs. unfold send_data. destruct (c_transmitting c) eqn:Et.
  - split; cbn; [apply set_undefined_ok; assumption|reflexivity].
  - assert (Hn : c_write c = None) by (destruct Hc as [A _]; destruct (c_write c); [rewrite A in Et by discriminate; discriminate | reflexivity]).
    destruct (c_connected c); split; cbn [fst snd]; try reflexivity; apply upd_ok; try assumption.
    + destruct c; unfold conn_ok, conn_ok0 in *; cbn in *. destruct Hc as [A B].
      split; [intros _; reflexivity | split; [intros E; destruct (B E); split; [assumption | reflexivity] | split; intros s0 sn E; inversion E; subst; [reflexivity | exact Hs]]].
    + destruct c; unfold conn_ok, conn_ok0 in *; cbn in *. destruct Hc as [A B]. subst c_write.
      split; [exact A | split; [exact B | split; intros s0 sn E; discriminate E]].
Qed.

Lemma set_tx_ok c rx h b k : conn_ok0 c -> conn_ok0 (set_tx c rx h b k).
Proof. intros H. destruct c; ok_tac. Qed.

(* the receiver may be replaced, the transmit buffers kept: nothing a pending write points into changes *)
Lemma set_rx_ok c rx : conn_ok c -> conn_ok (set_tx c rx (c_tx_header c) (c_tx_body c) (c_keep c)).
Proof. intros H. destruct c; ok_tac. Qed.

Lemma set_keep_ok c rx xs : conn_ok c -> conn_ok (set_tx c rx (c_tx_header c) (c_tx_body c) (c_keep c ++ xs)).
Proof.
  intros (A & B & C & D). destruct c; unfold conn_ok in *; cbn in *.
  split; [exact A | split; [exact B | split; intros s0 sn E]].
  - rewrite tx_bytes_keep_app; [exact (C _ _ E) | exact (D _ _ E)].
  - eapply slots_in_mono; [|exact (D _ _ E)]. rewrite app_length. apply Nat.le_add_r.
Qed.

Lemma http_send_ok o w c slots ic : all_ok w -> conn_ok0 c -> slots_in (length (c_keep c)) slots -> good3 (http_send o w c slots ic).
Proof.
  intros Hw Hc Hs. unfold http_send.
  set (c1 := set_tx c _ _ _ _).
  pose proof (send_data_ok w c1 slots Hw (set_tx_ok _ _ _ _ _ Hc) Hs) as [H1 H2].
  destruct (send_data w c1 slots) as [[w1 l1] r1]. cbn [fst snd] in H1, H2.
  destruct (rq_keep_alive _ || ic); [split; assumption|].
  pose proof (comms_disconnect_ok o w1 (c_id c) H1) as [H3 H4].
  destruct (comms_disconnect o w1 (c_id c)) as [w2 l2]. split; cbn [fst snd] in *; [exact H3|apply no_bad_app; assumption].
Qed.

Ltac slots_tac := unfold slots_in; repeat constructor; cbn; rewrite ?app_length; cbn; lia.

Lemma http_send_response_ok o w c : all_ok w -> conn_ok c -> good3 (http_send_response o w c).
Proof. intros Hw Hc. unfold http_send_response. apply http_send_ok; [exact Hw | apply set_tx_ok, conn_ok_0, Hc | slots_tac]. Qed.

Definition good2 (r : world * list logitem) : Prop := good r.

Lemma good3_add {A} (w : world) (l1 l2 : list logitem) (r : A) : no_bad l2 -> good3 (w, l1, r) -> good (w, l1 ++ l2).
Proof. intros H2 [H H1]. split; [exact H|apply no_bad_app; assumption]. Qed.

Lemma find_upd_ok w c id c' : all_ok (upd w c) -> find_conn id (w_conns (upd w c)) = Some c' -> conn_ok c'.
Proof. intros H Hf. eapply find_ok; eassumption. Qed.

Lemma app_respond_ok o w c rp : all_ok w -> conn_ok c -> good (app_respond o w c rp).
Proof.
  intros Hw Hc. unfold app_respond.
  set (resp0 := tx_response_of_reason _ _ _).
  match goal with |- good (let (_, _) := ?X in _) => assert (G : good3 X) end.
  { destruct (rp_ov rp) as [|p].
    - destruct (negb (tx_response_is_valid resp0)); [split; [exact Hw|reflexivity]|].
      apply http_send_ok; [exact Hw | apply set_tx_ok, conn_ok_0, Hc | slots_tac].
    - destruct p as [p|p|]; try destruct p as [p|p|]; try (apply http_send_response_ok; assumption).
      + (* 3 *)
        destruct (negb (tx_response_is_valid _)); [split; [exact Hw|reflexivity]|].
        match goal with |- good3 (let (_, _) := ?Y in _) => pose proof (http_send_ok o w (set_tx c (c_rx c) (response_message (with_version c (add_header resp0 hf_HEADER_TRANSFER_ENCODING hf_CHUNKED)) 0) (c_tx_body c) (c_keep c)) [SHeader] (rp_status rp =? code_CONTINUE) Hw (set_tx_ok _ _ _ _ _ (conn_ok_0 _ Hc)) ltac:(slots_tac)) as [H1 H2] end.
        destruct (http_send o w _ [SHeader] _) as [[w' l'] ok']. cbn [fst snd] in H1, H2.
        destruct (find_conn (c_id c) (w_conns w')) as [c'|] eqn:Ef; split; cbn [fst snd]; try assumption.
        apply upd_ok; [exact H1|]. pose proof (find_ok _ _ _ H1 Ef) as Hc'. destruct c'; ok_tac.
      + (* 2 *)
        destruct (negb (tx_response_is_valid resp0)).
        * split; cbn [fst snd]; [apply upd_ok; [exact Hw|apply set_keep_ok, Hc]|reflexivity].
        * destruct (rv_is_head (c_rx c) || _); apply http_send_ok; try exact Hw; try (apply set_tx_ok, conn_ok_0, Hc); slots_tac.
      + (* 1 *)
        destruct (negb (tx_response_is_valid resp0)); [split; [exact Hw|reflexivity]|].
        destruct (rv_is_head (c_rx c) || _); apply http_send_ok; try exact Hw; try (apply set_tx_ok, conn_ok_0, Hc); slots_tac. }
  match goal with |- good (let (_, _) := ?X in _) => destruct X as [[w1 l1] ok] end.
  eapply good3_add; [reflexivity|exact G].
Qed.

Lemma app_on_sent_ok o w id : all_ok w -> good (app_on_sent o w id).
Proof.
  intros Hw. unfold app_on_sent. destruct (find_conn id (w_conns w)) as [c|] eqn:Ef; [|split; [exact Hw|reflexivity]].
  pose proof (find_ok _ _ _ Hw Ef) as Hc.
  destruct (negb (Nat.eqb (c_chunks_left c) 0)).
  - match goal with |- good (let (_, _) := send_data w ?C ?S in _) =>
      pose proof (send_data_ok w C S Hw ltac:(destruct c; ok_tac) ltac:(slots_tac)) as G; destruct (send_data w C S) as [[w1 l1] ok] end.
    eapply good3_add; [reflexivity|exact G].
  - destruct (c_last_due c); [|split; [exact Hw|reflexivity]].
    match goal with |- good (let (_, _) := send_data w ?C ?S in _) =>
      pose proof (send_data_ok w C S Hw ltac:(destruct c; ok_tac) ltac:(slots_tac)) as G; destruct (send_data w C S) as [[w1 l1] ok] end.
    eapply good3_add; [reflexivity|exact G].
Qed.

Section LoopOk.
  Variable recipe_of : list N -> recipe.
  Variable o : sopts.

  Lemma push_pending_ok c rp : conn_ok c -> conn_ok (push_pending c rp).
  Proof. intros H. destruct c; ok_tac. Qed.

  Lemma bump_ok w : all_ok w -> all_ok (bump_reqno w).
  Proof. intros H; exact H. Qed.

  Lemma app_request_ok w c : all_ok w -> conn_ok c -> good (app_request recipe_of o w c).
  Proof.
    intros Hw Hc. unfold app_request.
    set (w0 := if o_app o =? 2 then w else bump_reqno w).
    assert (Hw0 : all_ok w0) by (unfold w0; destruct (o_app o =? 2); [exact Hw|apply bump_ok, Hw]).
    destruct (o_app o =? 2); [split; [exact Hw0|reflexivity]|].
    destruct (hd_is_chunked _ && o_chunk o).
    - split; cbn [fst snd]; [apply upd_ok; [exact Hw0|apply push_pending_ok, Hc]|reflexivity].
    - destruct (o_app o =? 0).
      + pose proof (app_respond_ok o w0 c (recipe_of (rl_uri (rq_line (rv_req (c_rx c))))) Hw0 Hc) as [H1 H2].
        destruct (app_respond o w0 c _) as [w1 l1]. split; cbn [fst snd] in *; [exact H1|apply no_bad_cons; [reflexivity|exact H2]].
      + split; cbn [fst snd]; [apply upd_ok; [exact Hw0|apply push_pending_ok, Hc]|reflexivity].
  Qed.

  Lemma clear_rx_if_ok w id f : all_ok w -> all_ok (clear_rx_if w id f).
  Proof.
    intros Hw. unfold clear_rx_if. destruct (find_conn id (w_conns w)) as [c|] eqn:Ef; [|exact Hw].
    destruct (f c); [|exact Hw]. apply upd_ok; [exact Hw|]. pose proof (find_ok _ _ _ Hw Ef). unfold set_rx. apply set_rx_ok. assumption.
  Qed.

  (* the default / handler treatment of an invalid request *)
  Lemma invalid_branch_ok w c id : all_ok w -> conn_ok c ->
    good (if o_inv o then
            let '(w1, l1, ok) := http_send_response o w c in
            let '(w2, l2) := comms_disconnect o w1 id in
            (clear_rx_if w2 id (fun _ => true), LInvalid id (rv_code (c_rx c)) :: l1 ++ [LSend id 0 ok] ++ l2)
          else
            let '(w1, l1, _) := http_send_response o w c in
            let '(w2, l2) := if o_autod o then comms_disconnect o w1 id else (w1, []) in
            (clear_rx_if w2 id (fun _ => true), l1 ++ l2)).
  Proof.
    intros Hw Hc. pose proof (http_send_response_ok o w c Hw Hc) as [H1 H2].
    destruct (http_send_response o w c) as [[w1 l1] ok]. cbn [fst snd] in H1, H2.
    destruct (o_inv o).
    - pose proof (comms_disconnect_ok o w1 id H1) as [H3 H4]. destruct (comms_disconnect o w1 id) as [w2 l2].
      split; cbn [fst snd] in *; [apply clear_rx_if_ok, H3|].
      apply no_bad_cons; [reflexivity|]. apply no_bad_app; [exact H2|]. apply no_bad_cons; [reflexivity|exact H4].
    - destruct (o_autod o).
      + pose proof (comms_disconnect_ok o w1 id H1) as [H3 H4]. destruct (comms_disconnect o w1 id) as [w2 l2].
        split; cbn [fst snd] in *; [apply clear_rx_if_ok, H3|apply no_bad_app; assumption].
      + split; cbn [fst snd]; [apply clear_rx_if_ok, H1|rewrite app_nil_r; exact H2].
  Qed.

  Lemma server_dispatch_ok w id r : all_ok w -> good (server_dispatch recipe_of o w id r).
  Proof.
    intros Hw. unfold server_dispatch. destruct (find_conn id (w_conns w)) as [c|] eqn:Ef; [|split; [exact Hw|reflexivity]].
    pose proof (find_ok _ _ _ Hw Ef) as Hc.
    destruct r; try (split; [exact Hw|reflexivity]).
    - (* INVALID *) apply invalid_branch_ok; assumption.
    - (* EXPECT_CONTINUE *)
      destruct (o_cont o).
      + destruct (is_prefix _ _).
        * match goal with |- good (let (_, _) := ?X in _) => assert (G : good3 X) by (apply http_send_ok; [exact Hw | apply set_tx_ok, conn_ok_0, Hc | slots_tac]); destruct X as [[w1 l1] ok] end.
          destruct G as [G1 G2]. split; cbn [fst snd] in *; [exact G1|]. apply no_bad_cons; [reflexivity|apply no_bad_app; [exact G2|reflexivity]].
        * pose proof (http_send_response_ok o w c Hw Hc) as [G1 G2]. destruct (http_send_response o w c) as [[w1 l1] ok].
          split; cbn [fst snd] in *; [exact G1|]. apply no_bad_cons; [reflexivity|apply no_bad_app; [exact G2|reflexivity]].
      + pose proof (http_send_response_ok o w c Hw Hc) as [G1 G2]. destruct (http_send_response o w c) as [[w1 l1] ok].
        split; cbn [fst snd] in *; assumption.
    - (* VALID *)
      destruct (negb (rq_is_trace (rv_req (c_rx c)))).
      + pose proof (app_request_ok w c Hw Hc) as [G1 G2]. destruct (app_request recipe_of o w c) as [w1 l1].
        split; cbn [fst snd] in *; [apply clear_rx_if_ok, G1|exact G2].
      + destruct (o_trace o); [split; [apply set_undefined_ok, Hw|reflexivity]|]. apply invalid_branch_ok; assumption.
    - (* CHUNK *)
      match goal with |- good (let (_, _) := ?X in _) => assert (G : good X) end.
      { destruct (o_chunk o); [|split; [exact Hw|reflexivity]].
        destruct (rc_is_last (rv_chunk (c_rx c)) && (o_app o =? 0)); [|split; [exact Hw|reflexivity]].
        destruct (c_pending c) as [|rp rest]; [split; [exact Hw|reflexivity]|].
        match goal with |- good (let (_, _) := app_respond o (upd w ?C) ?C rp in _) =>
          assert (HC : conn_ok C) by (destruct c; ok_tac);
          pose proof (app_respond_ok o (upd w C) C rp (upd_ok _ _ Hw HC) HC) as [G1 G2]; destruct (app_respond o (upd w C) C rp) as [w' l'] end.
        split; cbn [fst snd] in *; [exact G1|apply no_bad_cons; [reflexivity|exact G2]]. }
      match goal with |- good (let (_, _) := ?X in _) => destruct X as [w1 l1] end.
      destruct G as [G1 G2]. split; cbn [fst snd] in *; [apply clear_rx_if_ok, G1|exact G2].
  Qed.

  Lemma server_loop_ok fuel : forall w id buf, all_ok w -> good (server_loop recipe_of o fuel w id buf).
  Proof.
    induction fuel as [|fuel IH]; intros w id buf Hw; destruct buf as [|b t]; cbn [server_loop];
      try (split; [exact Hw|reflexivity]); try (split; [apply set_undefined_ok, Hw|reflexivity]).
    destruct (find_conn id (w_conns w)) as [c|] eqn:Ef; [|split; [exact Hw|reflexivity]].
    pose proof (find_ok _ _ _ Hw Ef) as Hc.
    destruct (negb (c_in_http c)); [split; [apply set_undefined_ok, Hw|reflexivity]|].
    destruct (receive (o_cfg o) (c_rx c) (b :: t)) as [[rx1 rest] r].
    assert (Hw1 : all_ok (upd w (set_rx c rx1))) by (apply upd_ok; [exact Hw|apply set_rx_ok, Hc]).
    pose proof (server_dispatch_ok (upd w (set_rx c rx1)) id r Hw1) as [G1 G2].
    destruct (server_dispatch recipe_of o (upd w (set_rx c rx1)) id r) as [w2 l2]. cbn [fst snd] in G1, G2.
    destruct (w_undefined w2); [split; assumption|].
    destruct r; try (split; assumption);
      (specialize (IH w2 id rest G1); destruct (server_loop recipe_of o fuel w2 id rest) as [w3 l3];
       destruct IH as [I1 I2]; split; cbn [fst snd] in *; [exact I1|apply no_bad_app; assumption]).
  Qed.
End LoopOk.

Section StepOk.
  Variable recipe_of : list N -> recipe.
  Variable o : sopts.

  Lemma enable_reception_ok w id : all_ok w -> good (enable_reception w id).
  Proof.
    intros Hw. unfold enable_reception. destruct (find_conn id (w_conns w)) as [c|] eqn:Ef; [|split; [exact Hw|reflexivity]].
    split; cbn [fst snd]; [|reflexivity]. apply upd_ok; [exact Hw|]. pose proof (find_ok _ _ _ Hw Ef). destruct c; ok_tac.
  Qed.

  Lemma connected_ok_ok w c : all_ok w -> conn_ok c -> c_in_comms c = true -> good (connected_ok o w c).
  Proof.
    intros Hw Hc Hin. unfold connected_ok.
    match goal with |- good (let (_, _) := enable_reception (upd w ?C) _ in _) =>
      assert (HC : conn_ok C) by (destruct c; ok_tac);
      pose proof (enable_reception_ok (upd w C) (c_id c) (upd_ok _ _ Hw HC)) as [G1 G2];
      destruct (enable_reception (upd w C) (c_id c)) as [w1 l1] end.
    split; cbn [fst snd] in *; [exact G1|apply no_bad_cons; [reflexivity|exact G2]].
  Qed.

  Lemma all_ok_snoc w c : all_ok w -> conn_ok c ->
    Forall conn_ok (w_conns w ++ [c]).
  Proof. intros Hw Hc. apply Forall_app. split; [exact Hw|constructor; [exact Hc|constructor]]. Qed.

  Lemma step_ok w e : all_ok w -> good (step recipe_of o w e).
  Proof.
    intros Hw. unfold step. destruct (w_undefined w); [split; [exact Hw|reflexivity]|].
    destruct e as [fo|id e|id bytes|id e|id|id e|id e| |id|id| | | |].
    - (* accept *)
      destruct (w_alive w && w_open w && fo); [|split; [exact Hw|reflexivity]].
      set (id := S (w_next w)). set (c := new_conn (o_cfg o) id).
      assert (Hc : conn_ok c) by (unfold c, new_conn; ok_tac).
      set (w1 := mk_world (w_conns w ++ [c]) id _ _ _ _ _ _).
      assert (Hw1 : all_ok w1) by (unfold all_ok, w1; cbn [w_conns]; apply all_ok_snoc; assumption).
      destruct (o_tls o).
      + split; cbn [fst snd]; [|reflexivity]. apply upd_ok; [exact Hw1|ok_tac].
      + pose proof (connected_ok_ok w1 c Hw1 Hc eq_refl) as [G1 G2]. destruct (connected_ok o w1 c) as [w2 l2].
        split; cbn [fst snd] in *; [exact G1|apply no_bad_cons; [reflexivity|exact G2]].
    - (* handshake *)
      destruct (find_conn id (w_conns w)) as [c|] eqn:Ef; [|split; [exact Hw|reflexivity]].
      pose proof (find_ok _ _ _ Hw Ef) as Hc.
      destruct (live c && c_handshake_pending c) eqn:El; [|split; [exact Hw|reflexivity]].
      apply Bool.andb_true_iff in El. destruct El as [El _]. unfold live in El.
      destruct e; try (split; cbn [fst snd]; [apply upd_ok; [exact Hw|destruct c; ok_tac]|reflexivity]);
        try (apply connected_ok_ok; assumption);
        (match goal with |- good (let (_, _) := sock_close (upd w ?C) ?C in _) =>
           assert (HC : conn_ok C) by (destruct c; ok_tac);
           pose proof (sock_close_ok (upd w C) C (upd_ok _ _ Hw HC) HC) as [G1 G2]; destruct (sock_close (upd w C) C) as [w1 l1] end;
         cbn [fst snd] in *;
         destruct (find_conn id (w_conns w1)) as [c1|] eqn:Ef1; [|split; assumption];
         pose proof (drop_comms_ok w1 c1 G1 (find_ok _ _ _ G1 Ef1)) as [G3 G4]; destruct (drop_comms w1 c1) as [w2 l2];
         split; cbn [fst snd] in *; [exact G3|apply no_bad_app; assumption]).
    - (* read *)
      destruct (find_conn id (w_conns w)) as [c|] eqn:Ef; [|split; [exact Hw|reflexivity]].
      pose proof (find_ok _ _ _ Hw Ef) as Hc.
      destruct (live c && c_read_pending c); [|split; [exact Hw|reflexivity]].
      match goal with |- good (let (_, _) := server_loop _ _ _ (upd w ?C) _ _ in _) =>
        assert (HC : conn_ok C) by (destruct c; ok_tac);
        pose proof (server_loop_ok recipe_of o (loop_fuel bytes) (upd w C) id bytes (upd_ok _ _ Hw HC)) as [G1 G2];
        destruct (server_loop recipe_of o (loop_fuel bytes) (upd w C) id bytes) as [w1 l1] end.
      cbn [fst snd] in *.
      destruct (find_conn id (w_conns w1)) as [c2|]; [|split; assumption].
      destruct (live c2 && negb (c_shutdown_sent c2) && negb (w_undefined w1)); [|split; assumption].
      pose proof (enable_reception_ok w1 id G1) as [G3 G4]. destruct (enable_reception w1 id) as [w2 l2].
      split; cbn [fst snd] in *; [exact G3|apply no_bad_app; assumption].
    - (* read error *)
      destruct (find_conn id (w_conns w)) as [c|] eqn:Ef; [|split; [exact Hw|reflexivity]].
      pose proof (find_ok _ _ _ Hw Ef) as Hc.
      destruct (live c && c_read_pending c); [|split; [exact Hw|reflexivity]].
      match goal with |- context [upd w ?C] => assert (HC : conn_ok C) by (destruct c; ok_tac); pose proof (upd_ok _ _ Hw HC) as Hw1 end.
      destruct e; try (split; [exact Hw1|reflexivity]); apply signal_error_ok; exact Hw1.
    - (* write done *)
      destruct (find_conn id (w_conns w)) as [c|] eqn:Ef; [|split; [exact Hw|reflexivity]].
      pose proof (find_ok _ _ _ Hw Ef) as Hc.
      destruct (c_write c) as [[slots snapshot]|] eqn:Ewr; [|split; [exact Hw|reflexivity]].
      destruct (live c); [|split; [exact Hw|reflexivity]].
      set (lw := if str_eqb _ snapshot then _ else _).
      assert (Hlw : no_bad lw).
      { unfold lw. destruct Hc as (_ & _ & Hb & _). specialize (Hb _ _ Ewr). rewrite slots_bytes_tx, Hb, str_eqb_same. reflexivity. }
      match goal with |- context [upd w ?C] => set (c1 := C) end.
      assert (HC : conn_ok c1) by (unfold c1; destruct c; ok_tac).
      pose proof (upd_ok _ _ Hw HC) as Hw1.
      destruct (c_shutdown_sent c1).
      + pose proof (disconnected_ok (upd w c1) id Hw1) as [G1 G2]. destruct (disconnected (upd w c1) id) as [w2 l2].
        split; cbn [fst snd] in *; [exact G1|apply no_bad_app; assumption].
      + destruct (c_disc_pending c1).
        * assert (G : good (comms_shutdown o (upd w c1) id)).
          { apply comms_shutdown_ok; [exact Hw1|]. intros _ c' Hf.
            assert (E : find_conn id (w_conns (upd w c1)) = Some c1).
            { pose proof (find_conn_id _ _ _ Ef) as Hid. subst id.
              unfold upd, set_conns. cbn [w_conns]. apply find_put_same; [exact Ef|reflexivity]. }
            rewrite E in Hf. inversion Hf; subst c'. reflexivity. }
          destruct G as [G1 G2]. destruct (comms_shutdown o (upd w c1) id) as [w2 l2].
          split; cbn [fst snd] in *; [exact G1|apply no_bad_app; assumption].
        * match goal with |- context [upd (upd w c1) ?C] => set (c2 := C) end.
          assert (HC2 : conn_ok c2) by (unfold c2, c1; destruct c; ok_tac).
          destruct (c_in_http c2).
          -- pose proof (app_on_sent_ok o (upd (upd w c1) c2) id (upd_ok _ _ Hw1 HC2)) as [G1 G2].
             destruct (app_on_sent o (upd (upd w c1) c2) id) as [w2 l2].
             split; cbn [fst snd] in *; [exact G1|]. apply no_bad_app; [exact Hlw|apply no_bad_cons; [reflexivity|exact G2]].
          -- split; cbn [fst snd]; [apply upd_ok; assumption|exact Hlw].
    - (* write error *)
      destruct (find_conn id (w_conns w)) as [c|] eqn:Ef; [|split; [exact Hw|reflexivity]].
      pose proof (find_ok _ _ _ Hw Ef) as Hc.
      destruct (c_write c) as [p|] eqn:Ewr; [|split; [exact Hw|reflexivity]].
      destruct (live c); [|split; [exact Hw|reflexivity]].
      match goal with |- context [upd w ?C] => set (c1 := C) end.
      assert (HC : conn_ok c1) by (unfold c1; destruct c; ok_tac).
      pose proof (upd_ok _ _ Hw HC) as Hw1.
      destruct e; try (split; [exact Hw1|reflexivity]);
        (destruct (c_shutdown_sent c1); [apply disconnected_ok, Hw1|]); try (split; [exact Hw1|reflexivity]);
        apply signal_error_ok, Hw1.
    - (* tls shutdown done *)
      destruct (find_conn id (w_conns w)) as [c|] eqn:Ef; [|split; [exact Hw|reflexivity]].
      pose proof (find_ok _ _ _ Hw Ef) as Hc.
      destruct (live c && c_tls_shutdown_pending c); [|split; [exact Hw|reflexivity]].
      match goal with |- context [upd w ?C] => assert (HC : conn_ok C) by (destruct c; ok_tac); pose proof (upd_ok _ _ Hw HC) as Hw1 end.
      destruct e; try (split; [exact Hw1|reflexivity]); apply disconnected_ok, Hw1.
    - (* aborted completions *)
      split; cbn [fst snd]; [exact Hw|]. apply no_bad_all. intros x Hx. apply in_map_iff in Hx. destruct Hx as [p [<- _]]. reflexivity.
    - (* app respond *)
      destruct (find_conn id (w_conns w)) as [c|] eqn:Ef; [|split; [exact Hw|reflexivity]].
      pose proof (find_ok _ _ _ Hw Ef) as Hc.
      destruct (c_pending c) as [|rp rest] eqn:Ep;
        [destruct (c_in_http c); [apply app_respond_ok; assumption | split; [exact Hw|reflexivity]]|].
      assert (HC : conn_ok (mk_conn (c_id c) (c_transmitting c) (c_connected c) (c_disc_pending c) (c_shutdown_sent c)
                                    (c_closed c) (c_read_pending c) (c_handshake_pending c) (c_tls_shutdown_pending c) (c_write c)
                                    (c_in_comms c) (c_in_http c) (c_rx c) (c_tx_header c) (c_tx_body c)
                                    rest (c_keep c) (c_chunks_left c) (c_last_due c))) by (destruct c; ok_tac).
      destruct (c_in_http c).
      + apply app_respond_ok; [apply upd_ok; assumption|exact HC].
      + split; cbn [fst snd]; [apply upd_ok; assumption|reflexivity].
    - (* app disconnect *)
      destruct (find_conn id (w_conns w)) as [c|] eqn:Ef; [|split; [exact Hw|reflexivity]].
      destruct (c_in_http c).
      + pose proof (comms_disconnect_ok o w id Hw) as [G1 G2]. destruct (comms_disconnect o w id) as [w1 l1].
        split; cbn [fst snd] in *; [exact G1|apply no_bad_cons; [reflexivity|exact G2]].
      + destruct (c_connected c); split; try exact Hw; reflexivity.
    - (* server shutdown *)
      destruct (w_alive w); [|split; [exact Hw|reflexivity]].
      destruct (negb (Nat.eqb (count_http w) 0)).
      + match goal with |- good (let (_, _) := close_all ?W ?I ?F in _) =>
          assert (HW : all_ok W) by exact Hw;
          pose proof (close_all_ok F (fun w' c' Hw' _ _ => comms_disconnect_ok o w' (c_id c') Hw') I W HW) as [G1 G2];
          destruct (close_all W I F) as [w2 l2] end.
        split; cbn [fst snd] in *; [exact G1|apply no_bad_cons; [reflexivity|exact G2]].
      + pose proof (server_close_ok w Hw) as [G1 G2]. destruct (server_close w) as [w1 l1].
        split; cbn [fst snd] in *; [exact G1|apply no_bad_cons; [reflexivity|exact G2]].
    - (* server close *)
      destruct (w_alive w); [|split; [exact Hw|reflexivity]].
      pose proof (server_close_ok w Hw) as [G1 G2]. destruct (server_close w) as [w1 l1].
      split; cbn [fst snd] in *; [exact G1|apply no_bad_cons; [reflexivity|exact G2]].
    - (* destroy *)
      destruct (w_alive w); [|split; [exact Hw|reflexivity]].
      pose proof (server_close_ok w Hw) as [G1 G2]. destruct (server_close w) as [w1 l1].
      split; cbn [fst snd] in *; [exact G1|apply no_bad_cons; [reflexivity|exact G2]].
    - split; [exact Hw|reflexivity].
  Qed.

  Lemma run_ok evs : forall w, all_ok w -> good (run recipe_of o w evs).
  Proof.
    induction evs as [|[name e] t IH]; intros w Hw; cbn [run]; [split; [exact Hw|reflexivity]|].
    pose proof (step_ok w e Hw) as [G1 G2]. destruct (step recipe_of o w e) as [w1 l1]. cbn [fst snd] in G1, G2.
    specialize (IH w1 G1). destruct (run recipe_of o w1 t) as [w2 l2]. destruct IH as [I1 I2].
    split; cbn [fst snd] in *; [exact I1|].
    apply no_bad_cons; [reflexivity|]. apply no_bad_app; [exact G2|].
    apply no_bad_app; [destruct (w_alive w1); reflexivity|exact I2].
  Qed.
End StepOk.

Lemma init_ok : all_ok w_init.
Proof. constructor. Qed.

Theorem run_conn_ok recipe_of o evs : Forall conn_ok (w_conns (fst (run recipe_of o w_init evs))).
Proof. apply (run_ok recipe_of o evs w_init init_ok). Qed.

(* plain TCP: a socket is never shut down under a pending write, in any history.  (comms_shutdown is
   the only place that logs LTruncated, and it does so exactly when a write is pending.) *)
Theorem never_truncated recipe_of o evs : o_tls o = false ->
  ~ In_truncated (snd (run recipe_of o w_init evs)).
Proof.
  intros _. pose proof (run_ok recipe_of o evs w_init init_ok) as [_ H]. unfold In_truncated, no_bad in *. intros E.
  apply existsb_exists in E. destruct E as [x [Hin Hx]].
  assert (E : existsb is_bad (snd (run recipe_of o w_init evs)) = true) by (apply existsb_exists; exists x; split; [exact Hin | destruct x; try discriminate; reflexivity]).
  rewrite H in E. discriminate.
Qed.

(* C03: in every history, every write that completes carries exactly the bytes that were issued: the buffers a pending
   write points into are never rewritten (a send while a write is in flight is LUndefined, where the model stops) *)
Theorem never_stale recipe_of o evs id : ~ In (LStale id) (snd (run recipe_of o w_init evs)).
Proof.
  pose proof (run_ok recipe_of o evs w_init init_ok) as [_ H]. unfold no_bad in H. intros Hin.
  assert (E : existsb is_bad (snd (run recipe_of o w_init evs)) = true) by (apply existsb_exists; exists (LStale id); split; [exact Hin | reflexivity]).
  rewrite H in E. discriminate.
Qed.

(* and in the state any history leaves behind, a pending write still denotes the bytes recorded when it was issued *)
Theorem pending_write_intact recipe_of o evs c slots snap :
  In c (w_conns (fst (run recipe_of o w_init evs))) -> c_write c = Some (slots, snap) ->
  slots_bytes c slots = snap /\ c_transmitting c = true.
Proof.
  intros Hin Hw. pose proof (run_conn_ok recipe_of o evs) as H. rewrite Forall_forall in H. destruct (H c Hin) as (A & _ & B & _).
  split; [rewrite slots_bytes_tx; exact (B _ _ Hw) | apply A; rewrite Hw; discriminate].
Qed.

(* C11: close() / destruction leaves no connection in either collection and nothing pending *)
Lemma filter_none {A} (f : A -> bool) l : (forall x, In x l -> f x = false) -> filter f l = [].
Proof.
  induction l as [|x t IH]; intros H; cbn; [reflexivity|].
  rewrite (H x (or_introl eq_refl)). apply IH. intros y Hy. apply H. right; exact Hy.
Qed.

Theorem server_close_leaves_nothing w : Forall conn_ok (w_conns w) ->
  let w1 := fst (server_close w) in
  count_http w1 = 0%nat /\ count_comms w1 = 0%nat /\ pending_ops w1 = [].
Proof.
  intros _. unfold server_close, server_close_except. cbn [fst].
  assert (G : forall c', In c' (map (fun c => if (c_in_comms c || c_in_http c) && negb false then kill c else c) (w_conns w)) ->
              c_in_http c' = false /\ c_in_comms c' = false).
  { intros c' H. apply in_map_iff in H. destruct H as [c [<- _]].
    destruct (c_in_comms c) eqn:E1, (c_in_http c) eqn:E2; cbn; auto. }
  unfold count_http, count_comms, pending_ops. cbn [w_conns].
  rewrite (filter_none c_in_http) by (intros x Hx; apply G, Hx).
  rewrite (filter_none c_in_comms) by (intros x Hx; apply G, Hx).
  rewrite filter_none; [repeat split; reflexivity|].
  intros x Hx. unfold live. destruct (G x Hx) as [_ ->]. reflexivity.
Qed.
