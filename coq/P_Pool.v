(* P_Pool.v — invariants of the thread-pool model under every schedule. *)
From Coq Require Import String List Bool Arith Lia.
From Via Require Import M_Pool.
Import ListNotations.

Definition all (s : pstate) : list task := map snd (p_run s) ++ p_queue s.

Definition isconn (c : nat) (t : task) : bool :=
  match tk_kind t with KConnected => Nat.eqb (tk_conn t) c | _ => false end.

Definition cnt (P : task -> bool) (l : list task) : nat := length (filter P l).

Lemma cnt_app P l1 l2 : cnt P (l1 ++ l2) = cnt P l1 + cnt P l2.
Proof. unfold cnt. rewrite filter_app, app_length. reflexivity. Qed.
Lemma cnt_cons P x l : cnt P (x :: l) = (if P x then 1 else 0) + cnt P l.
Proof. unfold cnt. simpl. destruct (P x); reflexivity. Qed.
Lemma cnt_nil P : cnt P [] = 0.
Proof. reflexivity. Qed.
Lemma cnt_zero_in P l x : cnt P l = 0 -> In x l -> P x = false.
Proof.
  induction l as [|y l IH]; intros H Hin; [destruct Hin|]. rewrite cnt_cons in H.
  destruct Hin as [->|Hin]; [destruct (P x); [simpl in H; lia|reflexivity] | apply IH; [lia|exact Hin]].
Qed.
Lemma cnt_repeat_false P x n : P x = false -> cnt P (repeat x n) = 0.
Proof. intros H. induction n as [|n IH]; [reflexivity|]. simpl. rewrite cnt_cons, H, IH. reflexivity. Qed.
Lemma cnt_two P (l : list (nat * task)) th1 t1 th2 t2 :
  In (th1, t1) l -> In (th2, t2) l -> th1 <> th2 -> P t1 = true -> P t2 = true -> 2 <= cnt P (map snd l).
Proof.
  induction l as [|[th t] l IH]; intros H1 H2 N P1 P2; [destruct H1|]. simpl map. rewrite cnt_cons.
  destruct H1 as [E1|H1]; destruct H2 as [E2|H2].
  - inversion E1; inversion E2; subst. contradiction.
  - inversion E1; subst. rewrite P1.
    assert (1 <= cnt P (map snd l)).
    { clear - H2 P2. induction l as [|[a b] l IH]; [destruct H2|]. simpl map. rewrite cnt_cons.
      destruct H2 as [E|H2]; [inversion E; subst; rewrite P2; lia | specialize (IH H2); lia]. }
    lia.
  - inversion E2; subst. rewrite P2.
    assert (1 <= cnt P (map snd l)).
    { clear - H1 P1. induction l as [|[a b] l IH]; [destruct H1|]. simpl map. rewrite cnt_cons.
      destruct H1 as [E|H1]; [inversion E; subst; rewrite P1; lia | specialize (IH H1); lia]. }
    lia.
  - specialize (IH H1 H2 N P1 P2). lia.
Qed.

Section Good.
  Variable f : facts.
  Hypothesis Hstrand : completions_on_strand f = true.
  Hypothesis Harms : f_arms_last f = true.

  Record PInv (s : pstate) : Prop := {
    pi_threads : NoDup (map fst (p_run s));
    pi_bound : forall t, In t (all s) -> tk_conn t < p_next s /\ tk_ctx t = ctx_of f (tk_conn t) (tk_kind t);
    pi_strand : forall th1 t1 th2 t2 c, In (th1, t1) (p_run s) -> In (th2, t2) (p_run s) ->
                  tk_ctx t1 = Strand c -> tk_ctx t2 = Strand c -> th1 = th2;
    pi_conn1 : forall c, cnt (isconn c) (all s) <= 1;
    pi_order : forall t1 t2, In t1 (all s) -> In t2 (all s) -> tk_kind t1 = KConnected -> tk_kind t2 = KCompletion ->
                  tk_conn t1 <> tk_conn t2
  }.

  Lemma mk_bound c k : tk_conn (mk f c k) = c /\ tk_kind (mk f c k) = k /\ tk_ctx (mk f c k) = ctx_of f c k.
  Proof. repeat split. Qed.

  Lemma init_pinv : PInv p_init.
  Proof.
    constructor.
    - simpl. constructor.
    - intros t [].
    - intros th1 t1 th2 t2 c [].
    - intros c. unfold all. simpl. rewrite cnt_nil. lia.
    - intros t1 t2 [].
  Qed.

  Lemma in_all_run s th t : In (th, t) (p_run s) -> In t (all s).
  Proof. intros H. unfold all. apply in_or_app. left. apply in_map_iff. exists (th, t). split; [reflexivity|exact H]. Qed.

  Lemma all_queue_add s s' x : p_run s' = p_run s -> p_queue s' = p_queue s ++ x -> all s' = all s ++ x.
  Proof. intros H1 H2. unfold all. rewrite H1, H2, app_assoc. reflexivity. Qed.

  Lemma pstep_pinv s s' : PInv s -> pstep f s s' -> PInv s'.
  Proof.
    intros I H. destruct H as [s|s c k Hc Hk|s th t q1 q2 Hq Hth Hfree|s th t Hin Hk|s th t r1 r2 n Hr Hn|s th t Hin Hk Ha].
    - (* accept *)
      pose (s' := {| p_run := p_run s; p_queue := p_queue s ++ [mk f (p_next s) KConnected]; p_next := S (p_next s) |}).
      assert (Ha : all s' = all s ++ [mk f (p_next s) KConnected]) by (apply all_queue_add; reflexivity).
      constructor; fold s'.
      + exact (pi_threads _ I).
      + intros t Ht. rewrite Ha in Ht. apply in_app_or in Ht. destruct Ht as [Ht|[<-|[]]].
        * destruct (pi_bound _ I t Ht) as [B1 B2]. split; [simpl; lia|exact B2].
        * simpl. split; [lia|reflexivity].
      + exact (pi_strand _ I).
      + intros c. rewrite Ha, cnt_app, cnt_cons, cnt_nil. pose proof (pi_conn1 _ I c) as H1.
        unfold isconn at 2. simpl. destruct (Nat.eqb_spec (p_next s) c) as [<-|N]; [|lia].
        assert (cnt (isconn (p_next s)) (all s) = 0); [|lia].
        { unfold cnt. destruct (filter (isconn (p_next s)) (all s)) as [|x l] eqn:E; [reflexivity|].
          assert (Hx : In x (filter (isconn (p_next s)) (all s))) by (rewrite E; left; reflexivity).
          apply filter_In in Hx. destruct Hx as [Hx1 Hx2]. destruct (pi_bound _ I x Hx1) as [B _].
          unfold isconn in Hx2. destruct (tk_kind x); try discriminate. apply Nat.eqb_eq in Hx2. lia. }
      + intros t1 t2 H1 H2 K1 K2. rewrite Ha in H1, H2. apply in_app_or in H1. apply in_app_or in H2.
        destruct H1 as [H1|[<-|[]]]; destruct H2 as [H2|[<-|[]]].
        * exact (pi_order _ I t1 t2 H1 H2 K1 K2).
        * discriminate K2.
        * simpl. destruct (pi_bound _ I t2 H2) as [B _]. lia.
        * discriminate K2.
    - (* external *)
      pose (s' := {| p_run := p_run s; p_queue := p_queue s ++ [mk f c k]; p_next := p_next s |}).
      assert (Ha : all s' = all s ++ [mk f c k]) by (apply all_queue_add; reflexivity).
      assert (Hnk : k <> KConnected /\ k <> KCompletion) by (destruct Hk as [->|[x ->]]; split; discriminate).
      constructor; fold s'.
      + exact (pi_threads _ I).
      + intros t Ht. rewrite Ha in Ht. apply in_app_or in Ht. destruct Ht as [Ht|[<-|[]]].
        * exact (pi_bound _ I t Ht).
        * simpl. split; [exact Hc|reflexivity].
      + exact (pi_strand _ I).
      + intros c'. rewrite Ha, cnt_app, cnt_cons, cnt_nil. pose proof (pi_conn1 _ I c') as H1.
        unfold isconn at 2. simpl. destruct k; try lia. destruct Hnk as [Hnk _]. contradiction.
      + intros t1 t2 H1 H2 K1 K2. rewrite Ha in H1, H2. apply in_app_or in H1. apply in_app_or in H2.
        destruct H1 as [H1|[<-|[]]]; destruct H2 as [H2|[<-|[]]].
        * exact (pi_order _ I t1 t2 H1 H2 K1 K2).
        * simpl in K2. destruct Hnk as [_ Hnk]. contradiction.
        * simpl in K1. destruct Hnk as [Hnk _]. contradiction.
        * simpl in K1. destruct Hnk as [Hnk _]. contradiction.
    - (* start *)
      pose (s' := {| p_run := (th, t) :: p_run s; p_queue := q1 ++ q2; p_next := p_next s |}).
      assert (Hsame : forall x, In x (all s') <-> In x (all s)).
      { intros x. unfold all. simpl. rewrite Hq. rewrite ?in_app_iff. simpl. rewrite ?in_app_iff. tauto. }
      constructor; fold s'.
      + simpl. constructor; [exact Hth | exact (pi_threads _ I)].
      + intros x Hx. apply Hsame in Hx. exact (pi_bound _ I x Hx).
      + intros th1 t1 th2 t2 c [E1|H1] [E2|H2] C1 C2.
        * inversion E1; inversion E2; subst. reflexivity.
        * inversion E1; subst. exfalso. unfold strand_free in Hfree. rewrite C1 in Hfree. exact (Hfree _ H2 C2).
        * inversion E2; subst. exfalso. unfold strand_free in Hfree. rewrite C2 in Hfree. exact (Hfree _ H1 C1).
        * exact (pi_strand _ I th1 t1 th2 t2 c H1 H2 C1 C2).
      + intros c. pose proof (pi_conn1 _ I c) as H1. unfold all in *. simpl. rewrite Hq in H1.
        repeat (rewrite cnt_app in H1 || rewrite cnt_cons in H1). repeat (rewrite cnt_app || rewrite cnt_cons). lia.
      + intros t1 t2 H1 H2. apply Hsame in H1. apply Hsame in H2. exact (pi_order _ I t1 t2 H1 H2).
    - (* spawn from a running completion handler *)
      pose (s' := {| p_run := p_run s; p_queue := p_queue s ++ [mk f (tk_conn t) KCompletion]; p_next := p_next s |}).
      assert (Ha : all s' = all s ++ [mk f (tk_conn t) KCompletion]) by (apply all_queue_add; reflexivity).
      pose proof (in_all_run _ _ _ Hin) as Hall.
      constructor; fold s'.
      + exact (pi_threads _ I).
      + intros x Hx. rewrite Ha in Hx. apply in_app_or in Hx. destruct Hx as [Hx|[<-|[]]].
        * exact (pi_bound _ I x Hx).
        * simpl. split; [exact (proj1 (pi_bound _ I t Hall))|reflexivity].
      + exact (pi_strand _ I).
      + intros c. rewrite Ha, cnt_app, cnt_cons, cnt_nil. pose proof (pi_conn1 _ I c). unfold isconn at 2. simpl. lia.
      + intros t1 t2 H1 H2 K1 K2. rewrite Ha in H1, H2. apply in_app_or in H1. apply in_app_or in H2.
        destruct H1 as [H1|[<-|[]]]; destruct H2 as [H2|[<-|[]]].
        * exact (pi_order _ I t1 t2 H1 H2 K1 K2).
        * simpl. exact (pi_order _ I t1 t H1 Hall K1 Hk).
        * discriminate K1.
        * discriminate K1.
    - (* finish *)
      pose (s' := {| p_run := r1 ++ r2; p_queue := p_queue s ++ repeat (mk f (tk_conn t) KCompletion) n; p_next := p_next s |}).
      assert (Hrun : forall x, In x (p_run s') -> In x (p_run s)).
      { intros x Hx. simpl in Hx. rewrite Hr. apply in_app_or in Hx. apply in_or_app. destruct Hx; [left|right; right]; assumption. }
      assert (Hall : In t (all s)) by (apply (in_all_run s th); rewrite Hr; apply in_or_app; right; left; reflexivity).
      assert (Hold : forall x, In x (map snd (r1 ++ r2) ++ p_queue s) -> In x (all s)).
      { intros x Hx. unfold all. rewrite Hr. rewrite map_app in *. simpl. rewrite !in_app_iff in *. simpl. tauto. }
      assert (Hsplit : forall x, In x (all s') -> In x (map snd (r1 ++ r2) ++ p_queue s) \/ (x = mk f (tk_conn t) KCompletion /\ n <> 0)).
      { intros x Hx. unfold all in Hx. simpl in Hx. rewrite app_assoc in Hx. apply in_app_or in Hx.
        destruct Hx as [Hx|Hx]; [left; exact Hx|]. right. split; [exact (repeat_spec _ _ _ Hx)|].
        intros ->. destruct Hx. }
      constructor; fold s'.
      + simpl. pose proof (pi_threads _ I) as N. rewrite Hr in N. rewrite map_app in *. simpl in N.
        apply NoDup_remove_1 in N. exact N.
      + intros x Hx. apply Hsplit in Hx. destruct Hx as [Hx|[-> _]].
        * exact (pi_bound _ I x (Hold x Hx)).
        * simpl. split; [exact (proj1 (pi_bound _ I t Hall))|reflexivity].
      + intros th1 t1 th2 t2 c H1 H2. exact (pi_strand _ I th1 t1 th2 t2 c (Hrun _ H1) (Hrun _ H2)).
      + intros c. pose proof (pi_conn1 _ I c) as H1. unfold all in *. simpl. rewrite Hr in H1.
        rewrite map_app in *. simpl in H1. rewrite !cnt_app in *. rewrite cnt_cons in H1.
        rewrite (cnt_repeat_false (isconn c)) by reflexivity. lia.
      + intros t1 t2 H1 H2 K1 K2. apply Hsplit in H1. apply Hsplit in H2.
        destruct H1 as [H1|[-> _]]; [|discriminate K1].
        destruct H2 as [H2|[-> Hn0]]; [exact (pi_order _ I t1 t2 (Hold _ H1) (Hold _ H2) K1 K2)|].
        simpl. destruct Hn as [->|[Hn|[Hn _]]]; [contradiction | exact (pi_order _ I t1 t (Hold _ H1) Hall K1 Hn) |].
        (* t was the connection's connected path: it is the only one, and it is gone *)
        intros E. pose proof (pi_conn1 _ I (tk_conn t)) as C1. unfold all in C1. rewrite Hr in C1.
        rewrite map_app in C1. simpl in C1. rewrite !cnt_app, cnt_cons in C1.
        assert (Ht : isconn (tk_conn t) t = true) by (unfold isconn; rewrite Hn; apply Nat.eqb_refl).
        rewrite Ht in C1.
        assert (H0 : cnt (isconn (tk_conn t)) (map snd (r1 ++ r2) ++ p_queue s) = 0) by (rewrite map_app, !cnt_app; lia).
        pose proof (cnt_zero_in _ _ _ H0 H1) as Hf. unfold isconn in Hf. rewrite K1, E, Nat.eqb_refl in Hf. discriminate.
    - (* an early arming connected path: excluded by the fact *)
      rewrite Harms in Ha. discriminate.
  Qed.

  Lemma preach_pinv s : preach f s -> PInv s.
  Proof. induction 1 as [|s s' _ IH Hs]; [exact init_pinv | exact (pstep_pinv _ _ IH Hs)]. Qed.

  (* the library's own work on one connection — its connected path and the completion handlers of its
     socket — never runs on two threads at once *)
  Lemma lib_work_never_overlaps s c : preach f s -> ~ overlap s c lib_kind.
  Proof.
    intros R [th1 [th2 [t1 [t2 [N [H1 [H2 [C1 [C2 [K1 K2]]]]]]]]]]. pose proof (preach_pinv _ R) as I.
    pose proof (in_all_run _ _ _ H1) as A1. pose proof (in_all_run _ _ _ H2) as A2.
    destruct K1 as [K1|K1]; destruct K2 as [K2|K2].
    - pose proof (pi_conn1 _ I c) as L. unfold all in L. rewrite cnt_app in L.
      assert (2 <= cnt (isconn c) (map snd (p_run s))); [|lia].
      apply (cnt_two _ _ th1 t1 th2 t2 H1 H2 N); unfold isconn; [rewrite K1, C1|rewrite K2, C2]; apply Nat.eqb_refl.
    - apply (pi_order _ I t1 t2 A1 A2 K1 K2). congruence.
    - apply (pi_order _ I t2 t1 A2 A1 K2 K1). congruence.
    - destruct (pi_bound _ I t1 A1) as [_ B1]. destruct (pi_bound _ I t2 A2) as [_ B2].
      rewrite K1 in B1. rewrite K2 in B2. simpl in B1, B2. rewrite Hstrand in B1, B2. rewrite C1 in B1. rewrite C2 in B2.
      apply N. exact (pi_strand _ I th1 t1 th2 t2 c H1 H2 B1 B2).
  Qed.
End Good.

(* ---- what a direct sweep does ---- *)
Lemma direct_sweep_overlaps f callee : completions_on_strand f = true -> f_arms_last f = true ->
  sweep_direct f callee = true ->
  exists s, preach f s /\ overlap s 0 (fun k => k = KCompletion \/ k = KSweep callee).
Proof.
  intros Hs Ha Hd.
  pose (tc := mk f 0 KConnected). pose (tr := mk f 0 KCompletion). pose (tw := mk f 0 (KSweep callee)).
  (* accept; run the connected path on thread 0; it finishes and arms one read; the read completion starts
     on thread 0; shutdown() reaches the connection and runs on thread 1 *)
  pose (s1 := {| p_run := []; p_queue := [] ++ [tc]; p_next := 1 |}).
  pose (s2 := {| p_run := [(0, tc)]; p_queue := [] ++ []; p_next := 1 |}).
  pose (s3 := {| p_run := [] ++ []; p_queue := ([] ++ []) ++ repeat tr 1; p_next := 1 |}).
  pose (s4 := {| p_run := [(0, tr)]; p_queue := [] ++ []; p_next := 1 |}).
  pose (s5 := {| p_run := [(0, tr)]; p_queue := ([] ++ []) ++ [tw]; p_next := 1 |}).
  pose (s6 := {| p_run := [(1, tw); (0, tr)]; p_queue := [] ++ []; p_next := 1 |}).
  assert (R1 : preach f s1) by (apply (PRS f p_init); [constructor | apply (PAccept f p_init)]).
  assert (R2 : preach f s2).
  { apply (PRS f s1 s2 R1). apply (PStart f s1 0 tc [] []); [reflexivity | simpl; tauto | exact I]. }
  assert (R3 : preach f s3).
  { apply (PRS f s2 s3 R2). apply (PFinish f s2 0 tc [] [] 1); [reflexivity | right; right; split; [reflexivity|exact Ha]]. }
  assert (R4 : preach f s4).
  { apply (PRS f s3 s4 R3). apply (PStart f s3 0 tr [] []); [reflexivity | simpl; tauto |].
    unfold strand_free. simpl. rewrite Hs. intros r []. }
  assert (R5 : preach f s5).
  { apply (PRS f s4 s5 R4). apply (PExternal f s4 0 (KSweep callee)); [simpl; lia | right; exists callee; reflexivity]. }
  assert (R6 : preach f s6).
  { apply (PRS f s5 s6 R5). apply (PStart f s5 1 tw [] []); [reflexivity | simpl; intros [E|[]]; discriminate |].
    unfold strand_free. simpl. rewrite Hd. exact I. }
  exists s6. split; [exact R6|]. exists 0, 1, tr, tw. repeat split; simpl; auto.
Qed.
