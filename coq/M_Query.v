(* M_Query.v — the queries on a received request that decide what the server does next - keep_alive (C09),
   expect_continue (C15), missing_host_header (C02), is_chunked, is_head (C14), is_trace - as clang's AST gives them.
   A query of message_headers has one frame, checked by the translator: look the header up, `false` if it is absent or
   empty, lower-case the value, search it for a token; what remains of it is which header, which token and what a hit
   means.  A query of rx_request is a boolean expression over functions of the request line (translated into M_Imp
   expressions over its members), queries of the header block, `headers_.find(name).empty()` and comparisons of the
   method with a constant. *)
From Via Require Import M_Char M_Parse M_Imp.
From Coq Require Import List NArith Bool.
Import ListNotations.
Local Open Scope N_scope.

Inductive hquery := HQ (name token : str) (found : bool).

Definition hq_eval (q : hquery) (h : headers) : bool :=
  match q with
  | HQ name token found =>
      match hd_find h name with
      | [] => false
      | v => if contains token (map_lower v) then found else negb found
      end
  end.

Inductive rqexp :=
  | RQNot (a : rqexp) | RQAnd (a b : rqexp) | RQOr (a b : rqexp)
  | RQLine (b : bexp)                        (* a function of the request line, over its members *)
  | RQHdr (q : hquery)                       (* headers_.query() *)
  | RQFindEmpty (name : str)                 (* headers_.find(name).empty() *)
  | RQMethodIs (m : str).                    (* request_method::M == request_ln::method() *)

Section Query.
  Variable line : store.                     (* the request line: its members as in P_ImpR.rl_store, method_ first *)
  Variable hdrs : headers.

  Fixpoint rq_eval (e : rqexp) : bool :=
    match e with
    | RQNot a => negb (rq_eval a)
    | RQAnd a b => rq_eval a && rq_eval b
    | RQOr a b => rq_eval a || rq_eval b
    | RQLine b => fst (beval (fun _ => 0) 0 b line)
    | RQHdr q => hq_eval q hdrs
    | RQFindEmpty name => match hd_find hdrs name with [] => true | _ => false end
    | RQMethodIs m => str_eqb (get_str line 0) m
    end.
End Query.
