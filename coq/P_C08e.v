(* P_C08e.v — a block of header lines written by to_header, closed by the empty line, is parsed back by
   message_headers: the fields are those of the lines, in order, names case-folded, repeated names merged as
   message_headers::add merges them; and with the request line in front: the request head round trip. *)
From Via Require Import M_Char M_Encode M_Parse M_Receive P_Parse P_Frag P_C06 P_C08 P_C02 P_C08b.
From Coq Require Import Lia ZifyBool ZifyNat ZifyN.
Local Open Scope N_scope.
Arguments nlen : simpl never.
Arguments snoc : simpl never.

Definition line_ok (L : limits) (p : str * str) : Prop :=
  Forall (fun c => is_token c && (c <? 128) = true) (fst p) /\ fst p <> [] /\
  Forall (fun c => is_end_of_line c = false) (snd p) /\
  (match snd p with c :: _ => isblank c = false | [] => True end) /\
  nlen (to_header (fst p) (snd p)) <= max_line L.

Definition lines_bytes (hs : list (str * str)) : str := concat (map (fun p => to_header (fst p) (snd p)) hs).

Definition add_line (m : fields) (p : str * str) : fields := fields_add m (map tolower (fst p)) (snd p).

(* the running total message_headers keeps, and the number of distinct fields, stay within the limits *)
Fixpoint within (L : limits) (m : fields) (len : N) (hs : list (str * str)) : Prop :=
  match hs with
  | [] => True
  | p :: t =>
      let len' := len + nlen (map tolower (fst p)) + nlen (snd p) in
      let m' := add_line m p in
      len' <= max_hdr_len L /\ N.of_nat (length m') <= max_hdr_num L /\ within L m' len' t
  end.

(* what follows a header line is another header line or the empty line: never a blank, never nothing *)
Lemma next_not_blank L hs rest : Forall (line_ok L) hs ->
  next_is_blank (lines_bytes hs ++ [13; 10] ++ rest) = false /\ lines_bytes hs ++ [13; 10] ++ rest <> [].
Proof.
  intros H. destruct hs as [|p t]; [split; [reflexivity | discriminate]|].
  inversion H as [|? ? Hp _]; subst. destruct Hp as (Hn & Hne & _).
  unfold lines_bytes. cbn [map concat]. unfold to_header. destruct (fst p) as [|c n]; [congruence|].
  inversion Hn as [|? ? Hc _]; subst. cbn [app]. split; [|discriminate].
  unfold next_is_blank. apply Bool.andb_true_iff in Hc. destruct Hc as [Hc _].
  destruct (isblank c) eqn:Eb; [|reflexivity]. exfalso.
  unfold isblank in Eb. assert (c = 32 \/ c = 9) as [-> | ->] by lia; vm_compute in Hc; discriminate.
Qed.

Theorem header_block_roundtrip L : forall hs n h rest, 1 <= max_ws L -> Forall (line_ok L) hs ->
  hd_field h = fl_init -> hd_cr h = false -> hd_fail h = false ->
  within L (hd_fields h) (hd_length h) hs -> (length hs < n)%nat ->
  exists h', hd_loop n L h (lines_bytes hs ++ [13; 10] ++ rest) = (h', rest, Done) /\
             hd_fields h' = fold_left add_line hs (hd_fields h) /\ hd_valid h' = true /\ hd_fail h' = false.
Proof.
  induction hs as [|p t IH]; intros n h rest Hws Hok Hf Hcr Hfail Hwi Hn.
  - (* the empty line *)
    destruct n as [|n]; [cbn in Hn; lia|]. unfold lines_bytes. cbn [map concat app hd_loop].
    rewrite Hcr, Hf. cbn [negb andb fl_started fl_init fl_length N.ltb N.compare orb]. change (is_end_of_line 13) with true. cbn [negb].
    unfold hd_blank_line. rewrite Hcr. cbn [negb andb N.eqb Pos.eqb]. cbv iota.
    eexists. split; [reflexivity|]. cbn [hd_fields hd_valid hd_fail fold_left]. repeat split; try reflexivity. exact Hfail.
  - inversion Hok as [|? ? Hp Hok']; subst. destruct Hp as (Hn1 & Hne & Hv & Hb & Hlen).
    destruct n as [|n]; [cbn in Hn; lia|]. cbn [length] in Hn.
    cbn [within] in Hwi. destruct Hwi as (Hl1 & Hn2 & Hwi').
    unfold lines_bytes. cbn [map concat]. fold (lines_bytes t). rewrite <- app_assoc.
    destruct (next_not_blank L t rest Hok') as [Hnb Hne2].
    destruct (header_line_roundtrip L (fst p) (snd p) (lines_bytes t ++ [13; 10] ++ rest) Hn1 Hne Hv Hb Hws Hlen Hnb Hne2) as [f [Hfp [Hfn Hfv]]].
    cbn [hd_loop]. rewrite Hcr, Hf.
    assert (Hfirst : exists c0 s0, to_header (fst p) (snd p) ++ lines_bytes t ++ [13; 10] ++ rest = c0 :: s0 /\ is_end_of_line c0 = false).
    { unfold to_header. destruct (fst p) as [|c0 nm]; [congruence|]. inversion Hn1 as [|? ? Hc _]; subst.
      exists c0. eexists. split; [reflexivity|]. apply Bool.andb_true_iff in Hc. destruct Hc as [Hc _].
      unfold is_end_of_line. destruct (c0 =? 13) eqn:E1; [assert (c0 = 13) by lia; subst; vm_compute in Hc; discriminate|].
      destruct (c0 =? 10) eqn:E2; [assert (c0 = 10) by lia; subst; vm_compute in Hc; discriminate|]. reflexivity. }
    destruct Hfirst as [c0 [s0 [Hs0 Hc0]]]. rewrite Hs0. cbn [negb andb]. rewrite Hc0. cbn [negb orb fl_started fl_init fl_length N.ltb N.compare].
    rewrite <- Hs0, Hfp.
    destruct (lines_bytes t ++ [13; 10] ++ rest) as [|d rest'] eqn:Er; [congruence|].
    unfold fl_len. rewrite Hfn, Hfv.
    assert (E : (max_hdr_len L <? hd_length h + (nlen (map tolower (fst p)) + nlen (snd p))) || (max_hdr_num L <? N.of_nat (length (fields_add (hd_fields h) (map tolower (fst p)) (snd p)))) = false).
    { unfold add_line in Hn2. lia. }
    rewrite E. rewrite <- Er.
    destruct (IH n (mk_hd (fields_add (hd_fields h) (map tolower (fst p)) (snd p)) fl_init (hd_valid h) (hd_fail h) false
                          (hd_length h + (nlen (map tolower (fst p)) + nlen (snd p)))) rest Hws Hok' eq_refl eq_refl Hfail) as [h' [H1 [H2 [H3 H4]]]].
    + cbn [hd_fields hd_length]. replace (hd_length h + (nlen (map tolower (fst p)) + nlen (snd p))) with (hd_length h + nlen (map tolower (fst p)) + nlen (snd p)) by lia. exact Hwi'.
    + lia.
    + exists h'. split; [exact H1 | split; [|split; assumption]]. rewrite H2. reflexivity.
Qed.

Lemma lines_bytes_length L hs : Forall (line_ok L) hs -> (length hs <= length (lines_bytes hs))%nat.
Proof.
  induction hs as [|p t IH]; intros H; [cbn; lia|]. inversion H as [|? ? Hp Ht]; subst.
  unfold lines_bytes. cbn [map concat length]. fold (lines_bytes t). rewrite app_length. specialize (IH Ht).
  destruct Hp as (_ & Hne & _). unfold to_header. destruct (fst p); [congruence|]. cbn [app length]. lia.
Qed.

(* the head of a request as tx_request writes it - request line, the header lines, the empty line - is parsed back:
   same method, target, version, and the fields of the lines *)
Theorem request_head_roundtrip L m u ma mi hs rest :
  forallb isupper m = true -> m <> [] -> nlen m <= max_method L ->
  forallb uri_char u = true -> u <> [] -> nlen u <= max_uri L ->
  isdigit ma = true -> isdigit mi = true ->
  1 <= max_ws L -> Forall (line_ok L) hs -> within L [] 0 hs ->
  exists h', rq_parse L rq_init (request_line_string (mk_tx_request m u ma mi (lines_bytes hs)) ++ lines_bytes hs ++ [13; 10] ++ rest)
             = (mk_rq (mk_rl m u ma mi R_VALID 1 true false) h' true, rest, Done) /\
             hd_fields h' = fold_left add_line hs [] /\ hd_valid h' = true.
Proof.
  intros Hm Hmn Hml Hu Hun Hul Ha Hi Hws Hok Hwi.
  unfold rq_parse. cbn [rq_line rq_init rl_init rl_valid]. fold rl_init.
  rewrite (request_line_roundtrip L m u ma mi (lines_bytes hs) _ Hm Hmn Hml Hu Hun Hul Ha Hi).
  cbn [rq_headers rq_init hd_init hd_valid]. fold hd_init.
  unfold hd_parse. cbn [hd_fail hd_init].
  destruct (header_block_roundtrip L hs (S (S (length (lines_bytes hs ++ [13; 10] ++ rest)))) hd_init rest Hws Hok eq_refl eq_refl eq_refl Hwi) as [h' [H1 [H2 [H3 H4]]]].
  { pose proof (lines_bytes_length L hs Hok). rewrite app_length. lia. }
  rewrite H1. exists h'. split; [reflexivity | split; [exact H2 | exact H3]].
Qed.
