(* P_Loop.v — the hand-written models of the buffer-level parser functions (rl_parse, sl_parse, ck_parse) compute, for
   every parser state and every input, what the bodies of the C++ functions compute - the bodies as translated from
   clang's AST on this run (Gen_Parse.v), under the meaning of M_Loop.v, with parse_char being the translated body
   that P_Imp.v relates to the model. *)
From Via Require Import M_Char M_Parse M_Imp M_Loop Gen_Parse P_Imp.
From Coq Require Import List NArith Bool Lia.
Arguments nlen : simpl never.
Arguments snoc : simpl never.
Import ListNotations.
Local Open Scope N_scope.

Lemma lexec_seq lim pc fuel a b s :
  lexec lim pc fuel (LSeq a b) s = match lexec lim pc fuel a s with Some (LNormal, s1) => lexec lim pc fuel b s1 | r => r end.
Proof. destruct fuel; reflexivity. Qed.

Lemma lexec_while lim pc n c b s :
  lexec lim pc (S n) (LWhile c b) s =
  let '(v, s1) := leval lim pc c s in
  if v then match lexec lim pc (S n) b s1 with Some (LNormal, s2) => lexec lim pc n (LWhile c b) s2 | r => r end
  else Some (LNormal, s1).
Proof. reflexivity. Qed.

Section Simple.
  Variable lim : nat -> N.
  Variable pc : stmt.
  Variables V kv kf : nat.

  Definition finish (st : store) (buf : str) : bool * store * str :=
    let d := Nat.eqb V (s_state st) in
    let st' := set_num st kv (b2n d) in (negb (get_num st' kv =? 0), st', buf).

  (* what the loop computes, on stores *)
  Fixpoint sspec (st : store) (buf : str) : bool * store * str :=
    match buf with
    | [] => finish st []
    | c :: t =>
        if Nat.eqb V (s_state st) then finish st buf
        else let '(st1, ok) := run_body lim c pc st in
             if ok then sspec (set_num st1 kf 0) t else (false, set_num st1 kf 1, t)
    end.

  Definition the_while : lstmt :=
    LWhile (LAnd LMore (LNot (LStateIs V))) (LSeq LNext (LIf (LAssign kf (LNot LCall)) (LReturn (LConst false)) LSkip)).
  Definition the_tail : lstmt := LSeq (LDo (LAssign kv (LStateIs V))) (LReturn (LFlag kv)).

  Definition out_of (r : option (lout * lstate)) : option (bool * store * str) :=
    match r with Some (LRet v, s) => Some (v, ls_store s, ls_in s) | _ => None end.

  Lemma tail_runs fuel st c0 buf :
    out_of (lexec lim pc fuel the_tail (mk_ls st c0 buf)) = Some (finish st buf).
  Proof. destruct fuel; reflexivity. Qed.

  Lemma simple_loop_steps buf : forall fuel st c0, (length buf < fuel)%nat ->
    out_of (match lexec lim pc fuel the_while (mk_ls st c0 buf) with
            | Some (LNormal, s1) => lexec lim pc fuel the_tail s1 | r => r end) = Some (sspec st buf).
  Proof.
    induction buf as [|c t IH]; intros fuel st c0 Hf; (destruct fuel as [|n]; [cbn in Hf; lia|]).
    - unfold the_while. rewrite lexec_while. cbn [leval ls_in]. cbn [sspec]. apply tail_runs.
    - unfold the_while. rewrite lexec_while. cbn [leval ls_in ls_store negb]. cbn [sspec].
      destruct (Nat.eqb V (s_state st)) eqn:EV; cbn [negb].
      + apply tail_runs.
      + rewrite lexec_seq. cbn [lexec ls_in ls_store ls_c leval].
        destruct (run_body lim c pc st) as [st1 ok] eqn:ER. cbn [ls_store ls_c ls_in].
        destruct ok; cbn [negb b2n out_of ls_store ls_in].
        * specialize (IH n (set_num st1 kf 0) c). unfold the_while in IH.
          destruct n as [|m]; [cbn in Hf; lia|].
          assert (Hm : (length t < S m)%nat) by (cbn in Hf; lia).
          specialize (IH Hm).
          (* the tail after the shorter run is the same statement; fuel plays no part in it *)
          destruct (lexec lim pc (S m) _ (mk_ls (set_num st1 kf 0) c t)) as [[[|v] s2]|] eqn:EW; cbn [out_of] in *.
          -- rewrite <- IH. destruct s2. rewrite !tail_runs. reflexivity.
          -- exact IH.
          -- discriminate IH.
        * reflexivity.
  Qed.

  Theorem simple_loop_runs fuel st buf : (length buf < fuel)%nat ->
    lrun lim pc fuel (simple_loop V kv kf) st buf = Some (sspec st buf).
  Proof.
    intros Hf. unfold lrun, simple_loop. rewrite lexec_seq.
    pose proof (simple_loop_steps buf fuel st 0 Hf) as H. unfold the_while, the_tail, out_of in H.
    destruct (lexec lim pc fuel (LWhile _ _) _) as [[[|v] s2]|]; exact H.
  Qed.

  Theorem guarded_loop_runs fuel st buf : (length buf < fuel)%nat ->
    lrun lim pc fuel (guarded_loop V kv kf) st buf =
    Some (if negb (get_num st kf =? 0) then (false, st, buf) else sspec st buf).
  Proof.
    intros Hf. unfold lrun, guarded_loop. rewrite lexec_seq.
    assert (E : lexec lim pc fuel (LIf (LFlag kf) (LReturn (LConst false)) LSkip) (mk_ls st 0 buf) =
                if negb (get_num st kf =? 0) then Some (LRet false, mk_ls st 0 buf) else Some (LNormal, mk_ls st 0 buf)).
    { destruct fuel; cbn [lexec leval ls_store]; destruct (negb _); reflexivity. }
    rewrite E. destruct (negb (get_num st kf =? 0)); [reflexivity|].
    apply (simple_loop_runs fuel st buf Hf).
  Qed.
End Simple.

Definition is_done (p : pres) : bool := match p with Done => true | _ => false end.

(* ---- request_line::parse ---- *)
Lemma rl_parse_src_is_the_simple_loop : rl_parse_src = simple_loop 12 3 4.
Proof. reflexivity. Qed.

Lemma rl_sspec L : forall buf r,
  sspec (rl_lim L) (rl_src L) 12 3 4 (rl_store r) buf =
  (let '(r', rest, p) := rl_parse L r buf in (is_done p, rl_store r', rest)).
Proof.
  induction buf as [|c t IH]; intros r.
  - destruct r as [m u ma mi st ws v f]; destruct st; reflexivity.
  - cbn [sspec rl_parse].
    replace (Nat.eqb 12 (s_state (rl_store r))) with (rl_done r) by (destruct r as [m u ma mi st ws v f]; destruct st; reflexivity).
    destruct (rl_done r) eqn:Ed.
    + destruct r as [m u ma mi st ws v f]; destruct st; try discriminate Ed; reflexivity.
    + rewrite rl_parse_char_is_the_source. destruct (rl_parse_char L r c) as [r1 ok]. cbn [fst snd].
      destruct ok.
      * replace (set_num (rl_store r1) 4 0) with (rl_store (rl_set_fail r1 false)) by (destruct r1; reflexivity).
        apply IH.
      * destruct r1; reflexivity.
Qed.

Theorem rl_parse_is_the_source L r buf fuel : (length buf < fuel)%nat ->
  lrun (rl_lim L) (rl_src L) fuel rl_parse_src (rl_store r) buf =
  Some (let '(r', rest, p) := rl_parse L r buf in (is_done p, rl_store r', rest)).
Proof. intros Hf. rewrite rl_parse_src_is_the_simple_loop, simple_loop_runs by exact Hf. rewrite rl_sspec. reflexivity. Qed.

(* ---- response_line::parse ---- *)
Lemma sl_parse_src_is_the_simple_loop : sl_parse_src = simple_loop 13 5 6.
Proof. reflexivity. Qed.

Lemma sl_sspec L : forall buf r,
  sspec (sl_lim L) (sl_src L) 13 5 6 (sl_store r) buf =
  (let '(r', rest, p) := sl_parse L r buf in (is_done p, sl_store r', rest)).
Proof.
  induction buf as [|c t IH]; intros r.
  - destruct r as [st rs ma mi s ws sr v f]; destruct s; reflexivity.
  - cbn [sspec sl_parse].
    replace (Nat.eqb 13 (s_state (sl_store r))) with (sl_done r) by (destruct r as [st rs ma mi s ws sr v f]; destruct s; reflexivity).
    destruct (sl_done r) eqn:Ed.
    + destruct r as [st rs ma mi s ws sr v f]; destruct s; try discriminate Ed; reflexivity.
    + rewrite sl_parse_char_is_the_source. destruct (sl_parse_char L r c) as [r1 ok]. cbn [fst snd].
      destruct ok.
      * replace (set_num (sl_store r1) 6 0) with (sl_store (sl_set_fail r1 false)) by (destruct r1; reflexivity).
        apply IH.
      * destruct r1; reflexivity.
Qed.

Theorem sl_parse_is_the_source L r buf fuel : (length buf < fuel)%nat ->
  lrun (sl_lim L) (sl_src L) fuel sl_parse_src (sl_store r) buf =
  Some (let '(r', rest, p) := sl_parse L r buf in (is_done p, sl_store r', rest)).
Proof. intros Hf. rewrite sl_parse_src_is_the_simple_loop, simple_loop_runs by exact Hf. rewrite sl_sspec. reflexivity. Qed.

(* ---- chunk_header::parse ---- *)
Lemma ck_parse_src_is_the_guarded_loop : ck_parse_src = guarded_loop 5 5 6.
Proof. reflexivity. Qed.

Lemma ck_sspec L : forall buf k,
  sspec (ck_lim L) (ck_src L) 5 5 6 (ck_store k) buf =
  (let '(k', rest, p) := ck_loop L k buf in (is_done p, ck_store k', rest)).
Proof.
  induction buf as [|c t IH]; intros k.
  - destruct k as [mx sz len ws hx ex s sr v f]; destruct s; reflexivity.
  - cbn [sspec ck_loop].
    replace (Nat.eqb 5 (s_state (ck_store k))) with (ck_done k) by (destruct k as [mx sz len ws hx ex s sr v f]; destruct s; reflexivity).
    destruct (ck_done k) eqn:Ed.
    + destruct k as [mx sz len ws hx ex s sr v f]; destruct s; try discriminate Ed; reflexivity.
    + rewrite ck_parse_char_is_the_source. destruct (ck_parse_char L k c) as [k1 ok]. cbn [fst snd].
      destruct ok.
      * replace (set_num (ck_store k1) 6 0) with (ck_store (ck_set_fail k1 false)) by (destruct k1; reflexivity).
        apply IH.
      * destruct k1; reflexivity.
Qed.

Theorem ck_parse_is_the_source L k buf fuel : (length buf < fuel)%nat ->
  lrun (ck_lim L) (ck_src L) fuel ck_parse_src (ck_store k) buf =
  Some (let '(k', rest, p) := ck_parse L k buf in (is_done p, ck_store k', rest)).
Proof.
  intros Hf. rewrite ck_parse_src_is_the_guarded_loop, guarded_loop_runs by exact Hf. unfold ck_parse.
  replace (negb (get_num (ck_store k) 6 =? 0)) with (ck_fail k) by (destruct k as [mx sz len ws hx ex s sr v f]; destruct f; reflexivity).
  destruct (ck_fail k); [reflexivity|]. rewrite ck_sspec. reflexivity.
Qed.
Definition fl_look : lstmt := LIf (LAnd LMore (LPeek PBlank)) (LSeq (LPush 1 32) (LState 1)) LSkip.
Definition fl_while : lstmt :=
  LWhile (LAnd LMore (LNot (LStateIs 4)))
         (LSeq LNext (LIf (LAssign 2 (LNot LCall)) (LReturn (LConst false)) (LIf (LStateIs 4) fl_look LSkip))).

Lemma fl_parse_src_shape :
  fl_parse_src = LSeq (LIf (LFlag 2) (LReturn (LConst false)) LSkip)
                      (LSeq (LIf (LAnd (LAnd (LStateIs 4) LMore) (LPeek PBlank)) (LSeq (LPush 1 32) (LState 1)) LSkip)
                            (LSeq fl_while (LReturn (LStateIs 4)))).
Proof. reflexivity. Qed.

Lemma fl_done_store f : Nat.eqb 4 (s_state (fl_store f)) = fl_done f.
Proof. destruct f as [nm vl len ws s fa]; destruct s; reflexivity. Qed.

Lemma fl_while_runs L : forall buf f fuel c0, (length buf < fuel)%nat ->
  exists c1, lexec (fl_lim L) (fl_src L) fuel fl_while (mk_ls (fl_store f) c0 buf) =
    (let '(f', rest, p) := fl_loop L f buf in
     Some (match p with Fail => LRet false | _ => LNormal end, mk_ls (fl_store f') c1 rest)).
Proof.
  induction buf as [|c t IH]; intros f fuel c0 Hf; (destruct fuel as [|n]; [cbn in Hf; lia|]).
  - exists c0. unfold fl_while. rewrite lexec_while. cbn [leval ls_in fl_loop]. destruct (fl_done f); reflexivity.
  - unfold fl_while. rewrite lexec_while. cbn [leval ls_in ls_store fl_loop]. rewrite fl_done_store.
    destruct (fl_done f) eqn:Ed; cbn [negb].
    + exists c0. reflexivity.
    + rewrite lexec_seq. cbn [lexec ls_in ls_store ls_c leval].
      rewrite fl_parse_char_is_the_source. destruct (fl_parse_char L f c) as [f1 ok]. cbn [fst snd ls_store ls_c ls_in].
      destruct ok; cbn [negb b2n].
      * replace (set_num (fl_store f1) 2 0) with (fl_store (fl_set_fail f1 false)) by (destruct f1; reflexivity).
        set (f2 := fl_set_fail f1 false). cbn [ls_store ls_c ls_in]. rewrite fl_done_store.
        assert (Hn : (length t < n)%nat) by (cbn in Hf; lia).
        destruct (fl_done f2) eqn:Ed2; cbn [andb].
        -- unfold fl_look. cbn [lexec leval ls_in ls_store ls_c].
           destruct t as [|x t']; cbn [next_is_blank].
           ++ apply (IH f2 n c Hn).
           ++ change (cpred_eval PBlank x) with (isblank x). destruct (isblank x) eqn:Eb.
              ** replace (set_state _ 1) with (fl_store (fl_continue f2)) by (destruct f2; reflexivity).
                 apply (IH (fl_continue f2) n c Hn).
              ** apply (IH f2 n c Hn).
        -- apply (IH f2 n c Hn).
      * exists c. destruct f1; reflexivity.
Qed.

Lemma fl_loop_done L : forall buf f,
  match fl_loop L f buf with (f', _, Fail) => True | (f', _, p) => fl_done f' = is_done p end.
Proof.
  induction buf as [|c t IH]; intros f; cbn [fl_loop].
  - destruct (fl_done f) eqn:E; cbn [is_done]; rewrite ?E; reflexivity.
  - destruct (fl_done f) eqn:E; [cbn [is_done]; rewrite ?E; reflexivity|].
    destruct (fl_parse_char L f c) as [f1 ok]. destruct ok; [|exact I].
    destruct (fl_done (fl_set_fail f1 false) && next_is_blank t); apply IH.
Qed.

Theorem fl_parse_is_the_source L f buf fuel : (length buf < fuel)%nat ->
  lrun (fl_lim L) (fl_src L) fuel fl_parse_src (fl_store f) buf =
  Some (let '(f', rest, p) := fl_parse L f buf in (is_done p, fl_store f', rest)).
Proof.
  intros Hf. rewrite fl_parse_src_shape. unfold lrun, fl_parse. rewrite lexec_seq.
  assert (E1 : lexec (fl_lim L) (fl_src L) fuel (LIf (LFlag 2) (LReturn (LConst false)) LSkip) (mk_ls (fl_store f) 0 buf) =
               if fl_fail f then Some (LRet false, mk_ls (fl_store f) 0 buf) else Some (LNormal, mk_ls (fl_store f) 0 buf)).
  { destruct fuel; destruct f as [nm vl len ws s fa]; destruct fa; reflexivity. }
  rewrite E1. destruct (fl_fail f); [reflexivity|].
  rewrite lexec_seq.
  assert (E2 : lexec (fl_lim L) (fl_src L) fuel (LIf (LAnd (LAnd (LStateIs 4) LMore) (LPeek PBlank)) (LSeq (LPush 1 32) (LState 1)) LSkip) (mk_ls (fl_store f) 0 buf) =
               Some (LNormal, mk_ls (fl_store (if fl_done f && next_is_blank buf then fl_continue f else f)) 0 buf)).
  { destruct f as [nm vl len ws s fa]; destruct fuel; destruct s; cbn [lexec leval ls_store ls_in ls_c fl_store M_Parse.fl_state fl_st_index s_state Nat.eqb fl_done andb];
      try reflexivity; (destruct buf as [|x t]; cbn [next_is_blank]; [reflexivity|]);
      change (cpred_eval PBlank x) with (isblank x); destruct (isblank x); reflexivity. }
  rewrite E2. rewrite lexec_seq.
  set (g := if fl_done f && next_is_blank buf then fl_continue f else f).
  destruct (fl_while_runs L buf g fuel 0 Hf) as [c1 EW]. rewrite EW.
  assert (EL : fl_loop L g buf = (if fl_done f && next_is_blank buf then fl_loop L (fl_continue f) buf else fl_loop L f buf))
    by (unfold g; destruct (fl_done f && next_is_blank buf); reflexivity).
  rewrite <- EL. pose proof (fl_loop_done L buf g) as HD.
  destruct (fl_loop L g buf) as [[f' rest] p].
  destruct p; try reflexivity; (destruct fuel; cbn [lexec leval ls_store ls_in]; rewrite fl_done_store, HD; reflexivity).
Qed.
