(* P_C08.v — a header line written by to_header is parsed back by field_line. *)
From Via Require Import M_Char M_Encode M_Parse P_Parse.
Require Import ZifyBool ZifyNat ZifyN.
Local Open Scope N_scope.
Arguments nlen : simpl never.

Lemma all_header_ids_ok :
  forallb (fun p => forallb (fun c => is_token c && (c <? 128)) (fst p) && negb (match fst p with [] => true | _ => false end)
                    && str_eqb (map tolower (fst p)) (snd p)) header_table = true.
Proof. vm_compute. reflexivity. Qed.

Lemma nlen_cons (c : N) s : nlen (c :: s) = nlen s + 1.
Proof. unfold nlen. cbn [length]. lia. Qed.
Lemma nlen_app a b : nlen (a ++ b) = nlen a + nlen b.
Proof. unfold nlen. rewrite app_length. lia. Qed.

Section Line.
  Variable L : limits.

  (* the name: token characters accumulate, case-folded *)
  Lemma name_phase name : forall acc val len ws t,
    Forall (fun c => is_token c && (c <? 128) = true) name ->
    len + nlen name <= max_line L ->
    fl_loop L (mk_fl acc val len ws H_NAME false) (name ++ t) =
    fl_loop L (mk_fl (acc ++ map tolower name) val (len + nlen name) ws H_NAME false) t.
  Proof.
    induction name as [|c name IH]; intros acc val len ws t Hn Hl.
    - cbn [app map]. rewrite app_nil_r. replace (len + nlen []) with len by (unfold nlen; cbn; lia). reflexivity.
    - inversion Hn as [|? ? Hc Hn']; subst. rewrite nlen_cons in Hl.
      cbn [app fl_loop fl_done fl_state]. unfold fl_parse_char. cbn [fl_length fl_name fl_value fl_ws fl_state fl_fail].
      replace (max_line L <? len + 1) with false by lia. cbn [fl_state]. rewrite Hc.
      cbn [fl_set_fail fl_done fl_state andb]. unfold fl_set_fail. cbn.
      rewrite IH by (assumption || lia). unfold snoc. rewrite nlen_cons, <- app_assoc. cbn [app map].
      replace (len + 1 + nlen name) with (len + (nlen name + 1)) by lia. reflexivity.
  Qed.

  (* the value: anything but CR / LF is stored *)
  Lemma value_phase value : forall nm acc len ws t,
    Forall (fun c => is_end_of_line c = false) value ->
    len + nlen value <= max_line L ->
    fl_loop L (mk_fl nm acc len ws H_VALUE false) (value ++ t) =
    fl_loop L (mk_fl nm (acc ++ value) (len + nlen value) ws H_VALUE false) t.
  Proof.
    induction value as [|c value IH]; intros nm acc len ws t Hv Hl.
    - cbn [app]. rewrite app_nil_r. replace (len + nlen []) with len by (unfold nlen; cbn; lia). reflexivity.
    - inversion Hv as [|? ? Hc Hv']; subst. rewrite nlen_cons in Hl.
      cbn [app fl_loop fl_done fl_state]. unfold fl_parse_char. cbn [fl_length fl_name fl_value fl_ws fl_state fl_fail].
      replace (max_line L <? len + 1) with false by lia. cbn [fl_state]. unfold fl_value_case. rewrite Hc. cbn [negb].
      unfold fl_push_value, fl_set_fail. cbn.
      rewrite IH by (assumption || lia). unfold snoc. rewrite nlen_cons, <- app_assoc. cbn [app].
      replace (len + 1 + nlen value) with (len + (nlen value + 1)) by lia. reflexivity.
  Qed.

  Lemma map_tolower_nonempty name : name <> [] -> map tolower name <> [].
  Proof. destruct name; [congruence|discriminate]. Qed.

  (* one iteration of the loop on a character the machine accepts *)
  Lemma set_fail_id f : fl_fail f = false -> fl_set_fail f false = f.
  Proof. destruct f; cbn; intros ->; reflexivity. Qed.

  Lemma step_nd f c t f1 : fl_parse_char L f c = (f1, true) -> fl_done f = false -> fl_fail f1 = false -> fl_done f1 = false ->
    fl_loop L f (c :: t) = fl_loop L f1 t.
  Proof. intros Hp Hd Hf Hd1. cbn [fl_loop]. rewrite Hd, Hp, (set_fail_id _ Hf), Hd1. reflexivity. Qed.

  Lemma step_done f c t f1 : fl_parse_char L f c = (f1, true) -> fl_done f = false -> fl_fail f1 = false -> fl_done f1 = true ->
    next_is_blank t = false -> fl_loop L f (c :: t) = (f1, t, Done).
  Proof.
    intros Hp Hd Hf Hd1 Hb. cbn [fl_loop]. rewrite Hd, Hp, (set_fail_id _ Hf), Hd1, Hb. cbn [andb]. apply fl_loop_done, Hd1.
  Qed.

  Lemma pc_colon nm len ws : nm <> [] -> len + 1 <= max_line L ->
    fl_parse_char L (mk_fl nm [] len ws H_NAME false) 58 = (mk_fl nm [] (len + 1) ws H_VALUE_LS false, true).
  Proof.
    intros Hn Hl. unfold fl_parse_char. cbn [fl_length fl_name fl_value fl_ws fl_state fl_fail].
    replace (max_line L <? len + 1) with false by lia. cbn [fl_state fl_name].
    change (is_token 58 && (58 <? 128)) with false. change (58 =? 58) with true.
    destruct nm; [congruence|reflexivity].
  Qed.

  Lemma pc_blank nm val len ws c : isblank c = true -> len + 1 <= max_line L -> ws + 1 <= max_ws L ->
    fl_parse_char L (mk_fl nm val len ws H_VALUE_LS false) c = (mk_fl nm val (len + 1) (ws + 1) H_VALUE_LS false, true).
  Proof.
    intros Hb Hl Hw. unfold fl_parse_char. cbn [fl_length fl_name fl_value fl_ws fl_state fl_fail].
    replace (max_line L <? len + 1) with false by lia. cbn [fl_state]. rewrite Hb. cbn [fl_ws].
    replace (max_ws L <? ws + 1) with false by lia. reflexivity.
  Qed.

  Lemma pc_value nm val len ws st c : (st = H_VALUE_LS \/ st = H_VALUE) -> isblank c = false -> is_end_of_line c = false ->
    len + 1 <= max_line L ->
    fl_parse_char L (mk_fl nm val len ws st false) c = (mk_fl nm (snoc val c) (len + 1) ws H_VALUE false, true).
  Proof.
    intros Hst Hb He Hl. unfold fl_parse_char. cbn [fl_length fl_name fl_value fl_ws fl_state fl_fail].
    replace (max_line L <? len + 1) with false by lia.
    destruct Hst as [-> | ->]; cbn [fl_state]; rewrite ?Hb; unfold fl_value_case, fl_set_state, fl_push_value;
      cbn [fl_name fl_value fl_length fl_ws fl_state fl_fail]; rewrite He; reflexivity.
  Qed.

  Lemma pc_cr nm val len ws st : (st = H_VALUE_LS \/ st = H_VALUE) -> len + 1 <= max_line L ->
    fl_parse_char L (mk_fl nm val len ws st false) 13 = (mk_fl nm val (len + 1) ws H_LF false, true).
  Proof.
    intros Hst Hl. unfold fl_parse_char. cbn [fl_length fl_name fl_value fl_ws fl_state fl_fail].
    replace (max_line L <? len + 1) with false by lia.
    destruct Hst as [-> | ->]; cbn [fl_state]; change (isblank 13) with false; unfold fl_value_case, fl_set_state;
      cbn [fl_name fl_value fl_length fl_ws fl_state fl_fail]; reflexivity.
  Qed.

  Lemma pc_lf nm val len ws : len + 1 <= max_line L ->
    fl_parse_char L (mk_fl nm val len ws H_LF false) 10 = (mk_fl nm val (len + 1) ws H_VALID false, true).
  Proof.
    intros Hl. unfold fl_parse_char. cbn [fl_length fl_name fl_value fl_ws fl_state fl_fail].
    replace (max_line L <? len + 1) with false by lia. reflexivity.
  Qed.

  Lemma header_line_roundtrip name value rest :
    Forall (fun c => is_token c && (c <? 128) = true) name -> name <> [] ->
    Forall (fun c => is_end_of_line c = false) value -> (match value with c :: _ => isblank c = false | [] => True end) ->
    1 <= max_ws L -> nlen (to_header name value) <= max_line L ->
    next_is_blank rest = false -> rest <> [] ->
    exists f, fl_parse L fl_init (to_header name value ++ rest) = (f, rest, Done)
              /\ fl_name f = map tolower name /\ fl_value f = value.
  Proof.
    intros Hn Hne Hv Hb Hws Hlen Hnb Hrest.
    unfold to_header in *. change hf_SEPARATOR with [58; 32] in *. change CRLF with [13; 10] in *.
    rewrite !nlen_app in Hlen. change (nlen [58; 32]) with 2 in Hlen. change (nlen [13; 10]) with 2 in Hlen.
    unfold fl_parse. cbn [fl_fail fl_init fl_done fl_state andb].
    rewrite <- !app_assoc. unfold fl_init.
    rewrite name_phase by (assumption || lia). cbn [app].
    pose proof (map_tolower_nonempty name Hne) as Hmn.
    rewrite (step_nd _ 58 _ _ (pc_colon (map tolower name) (0 + nlen name) 0 Hmn ltac:(lia)) eq_refl eq_refl eq_refl).
    rewrite (step_nd _ 32 _ _ (pc_blank (map tolower name) [] (0 + nlen name + 1) 0 32 eq_refl ltac:(lia) ltac:(lia)) eq_refl eq_refl eq_refl).
    destruct value as [|v0 vs].
    - change (nlen []) with 0 in Hlen. cbn [app].
      rewrite (step_nd _ 13 _ _ (pc_cr (map tolower name) [] (0 + nlen name + 1 + 1) (0 + 1) H_VALUE_LS (or_introl eq_refl) ltac:(lia)) eq_refl eq_refl eq_refl).
      rewrite (step_done _ 10 _ _ (pc_lf (map tolower name) [] (0 + nlen name + 1 + 1 + 1) (0 + 1) ltac:(lia)) eq_refl eq_refl eq_refl Hnb).
      eexists. split; [reflexivity|]. split; reflexivity.
    - inversion Hv as [|? ? Hv0 Hvs]; subst. rewrite nlen_cons in Hlen. cbn [app].
      rewrite (step_nd _ v0 _ _ (pc_value (map tolower name) [] (0 + nlen name + 1 + 1) (0 + 1) H_VALUE_LS v0 (or_introl eq_refl) Hb Hv0 ltac:(lia)) eq_refl eq_refl eq_refl).
      rewrite value_phase by (assumption || lia).
      rewrite (step_nd _ 13 _ _ (pc_cr (map tolower name) (snoc [] v0 ++ vs) (0 + nlen name + 1 + 1 + 1 + nlen vs) (0 + 1) H_VALUE (or_intror eq_refl) ltac:(lia)) eq_refl eq_refl eq_refl).
      rewrite (step_done _ 10 _ _ (pc_lf (map tolower name) (snoc [] v0 ++ vs) (0 + nlen name + 1 + 1 + 1 + nlen vs + 1) (0 + 1) ltac:(lia)) eq_refl eq_refl eq_refl Hnb).
      eexists. split; [reflexivity|]. split; reflexivity.
  Qed.
End Line.
