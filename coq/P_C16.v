(* P_C16.v — the router refines the segment-wise specification (RouterSpec in M_Router.v). *)
From Via Require Import M_Char M_Router.
Local Open Scope N_scope.

(* ---- string equality ---- *)
Lemma str_eqb_eq a b : str_eqb a b = true <-> a = b.
Proof.
  revert b; induction a as [|x a IH]; intros [|y b]; cbn; try (split; congruence).
  rewrite Bool.andb_true_iff, N.eqb_eq, IH. split; [intros [-> ->]; reflexivity|intros H; inversion H; auto].
Qed.
Lemma str_eqb_refl a : str_eqb a a = true.
Proof. apply str_eqb_eq. reflexivity. Qed.

Lemma is_prefix_app p s : is_prefix p s = true <-> exists r, s = p ++ r.
Proof.
  revert s; induction p as [|x p IH]; intros s; cbn.
  - split; [eexists; reflexivity|reflexivity].
  - destruct s as [|y s]; [split; [discriminate|intros [r H]; discriminate]|].
    rewrite Bool.andb_true_iff, N.eqb_eq, IH. split.
    + intros [-> [r ->]]. exists r. reflexivity.
    + intros [r H]. inversion H. split; [reflexivity|eexists; reflexivity].
Qed.

(* ---- split / join ---- *)
Definition join := join_with [47].

Lemma split_acc_cur d s cur : split_acc d s cur =
  match split_acc d s [] with
  | [] => []
  | x :: t => (rev cur ++ x) :: t
  end.
Proof.
  revert cur; induction s as [|c s IH]; intros cur; cbn [split_acc].
  - cbn. rewrite app_nil_r. reflexivity.
  - destruct (c =? d).
    + cbn. rewrite app_nil_r. reflexivity.
    + rewrite (IH (c :: cur)), (IH [c]). destruct (split_acc d s []); [reflexivity|].
      cbn. rewrite <- app_assoc. reflexivity.
Qed.

Lemma split_cons d c s : split d (c :: s) =
  if c =? d then [] :: split d s
  else match split d s with [] => [] | x :: t => (c :: x) :: t end.
Proof.
  unfold split. cbn [split_acc]. destruct (c =? d); [reflexivity|].
  rewrite split_acc_cur. reflexivity.
Qed.

Lemma split_nil d : split d [] = [[]].
Proof. reflexivity. Qed.

Lemma split_nonempty d s : split d s <> [].
Proof.
  induction s as [|c s IH]; [discriminate|]. rewrite split_cons.
  destruct (c =? d); [discriminate|]. destruct (split d s); [congruence|discriminate].
Qed.

(* split (a ++ d :: b) = split a ++ split b *)
Lemma split_app_delim d a b : split d (a ++ d :: b) = split d a ++ split d b.
Proof.
  induction a as [|c a IH]; cbn [app].
  - rewrite split_cons, N.eqb_refl. reflexivity.
  - rewrite !split_cons. destruct (c =? d); [rewrite IH; reflexivity|].
    rewrite IH. destruct (split d a) eqn:E; [exfalso; eapply split_nonempty, E|reflexivity].
Qed.

Lemma join_cons2 x y t : join (x :: y :: t) = x ++ [47] ++ join (y :: t).
Proof. reflexivity. Qed.

Lemma join_split s : join (split 47 s) = s.
Proof.
  induction s as [|c s IH]; [reflexivity|]. rewrite split_cons.
  destruct (c =? 47) eqn:E.
  - apply N.eqb_eq in E; subst c. destruct (split 47 s) as [|y t] eqn:Es; [exfalso; eapply split_nonempty, Es|].
    rewrite join_cons2, IH. reflexivity.
  - destruct (split 47 s) as [|x t] eqn:Es; [exfalso; eapply split_nonempty, Es|].
    destruct t as [|y t]; [cbn in *; congruence|].
    rewrite join_cons2. rewrite join_cons2 in IH. rewrite <- IH. reflexivity.
Qed.

Lemma join_app A B : A <> [] -> B <> [] -> join (A ++ B) = join A ++ [47] ++ join B.
Proof.
  induction A as [|x A IH]; [congruence|]. intros _ HB.
  destruct A as [|y A].
  - cbn [app]. destruct B as [|b B]; [congruence|]. rewrite join_cons2. reflexivity.
  - cbn [app] in *. rewrite !join_cons2. rewrite IH by (discriminate || assumption).
    rewrite <- !app_assoc. reflexivity.
Qed.

Lemma split_In_chars d s x c : In x (split d s) -> In c x -> In c s.
Proof.
  revert x; induction s as [|e s IH]; intros x.
  - cbn. intros [<-|[]] [].
  - rewrite split_cons. destruct (e =? d).
    + intros [<-|H] Hc; [destruct Hc|right; eapply IH; eassumption].
    + destruct (split d s) as [|y t] eqn:Es; [intros []|].
      intros [<-|H] Hc.
      * destruct Hc as [<-|Hc]; [left; reflexivity|right; eapply IH; [left; reflexivity|exact Hc]].
      * right. eapply IH; [right; exact H|exact Hc].
Qed.

(* ---- segment matching ---- *)
Definition literal (A : list str) : Prop := forall x, In x A -> is_param_name x = false.

Lemma seg_match_app_lit A : literal A -> forall N V acc, seg_match (A ++ N) (A ++ V) acc = seg_match N V acc.
Proof.
  induction A as [|a A IH]; intros HA N V acc; [reflexivity|].
  cbn [app seg_match]. rewrite (HA a (or_introl eq_refl)), str_eqb_refl.
  apply IH. intros x Hx. apply HA. right; exact Hx.
Qed.

Lemma seg_match_prefix A : literal A -> forall N tgt acc p,
  seg_match (A ++ N) tgt acc = Some p -> exists V, tgt = A ++ V /\ seg_match N V acc = Some p.
Proof.
  induction A as [|a A IH]; intros HA N tgt acc p H.
  - exists tgt. split; [reflexivity|exact H].
  - cbn [app seg_match] in H. destruct tgt as [|v vs]; [discriminate|].
    rewrite (HA a (or_introl eq_refl)) in H. destruct (str_eqb a v) eqn:E; [|discriminate].
    apply str_eqb_eq in E; subst v.
    destruct (IH (fun x Hx => HA x (or_intror Hx)) N vs acc p H) as [V [-> HV]].
    exists V. split; [reflexivity|exact HV].
Qed.

Lemma seg_match_names N : forall V acc,
  seg_match N V acc = if Nat.eqb (length N) (length V) then match_names N V acc else None.
Proof.
  induction N as [|n N IH]; intros [|v V] acc; cbn [seg_match match_names length Nat.eqb]; try reflexivity.
  rewrite !IH. destruct (is_param_name n); [reflexivity|]. destruct (str_eqb n v); [reflexivity|].
  destruct (Nat.eqb (length N) (length V)); reflexivity.
Qed.

Lemma seg_match_literal_eq A : literal A -> forall tgt acc p, seg_match A tgt acc = Some p -> tgt = A /\ p = acc.
Proof.
  induction A as [|a A IH]; intros HA [|v vs] acc p H; cbn [seg_match] in H; try discriminate.
  - inversion H. split; reflexivity.
  - rewrite (HA a (or_introl eq_refl)) in H. destruct (str_eqb a v) eqn:E; [|discriminate].
    apply str_eqb_eq in E; subst v.
    destruct (IH (fun x Hx => HA x (or_intror Hx)) vs acc p H) as [-> ->]. split; reflexivity.
Qed.

Lemma seg_match_literal_refl A : literal A -> forall acc, seg_match A A acc = Some acc.
Proof.
  intros HA acc. rewrite <- (app_nil_r A) at 1 2. rewrite seg_match_app_lit by exact HA. reflexivity.
Qed.

Lemma params_insert_nonempty acc k v : params_insert acc k v <> [].
Proof. unfold params_insert. destruct (params_mem k acc) eqn:E; [destruct acc; [discriminate|discriminate]|destruct acc; discriminate]. Qed.

Lemma match_names_nonempty N : forall V acc p, acc <> [] -> match_names N V acc = Some p -> p <> [].
Proof.
  induction N as [|n N IH]; intros V acc p Hacc H; cbn [match_names] in H.
  - inversion H; subst; exact Hacc.
  - destruct V as [|v V]; [discriminate|]. destruct (is_param_name n).
    + eapply IH; [|exact H]. apply params_insert_nonempty.
    + destruct (str_eqb n v); [eapply IH; eassumption|discriminate].
Qed.

(* ---- find_char ---- *)
Lemma find_char_none c s : find_char c s = None <-> ~ In c s.
Proof.
  induction s as [|x s IH]; cbn; [tauto|].
  destruct (x =? c) eqn:E.
  - apply N.eqb_eq in E. split; [discriminate|intros H; exfalso; apply H; left; exact E].
  - apply N.eqb_neq in E. destruct (find_char c s); cbn.
    + split; [discriminate|]. intros H. exfalso. apply H. right. apply Decidable.not_not; [|intros Hn; apply IH in Hn; discriminate].
      unfold Decidable.decidable. destruct (in_dec N.eq_dec c s); tauto.
    + split; [|reflexivity]. intros _ [H|H]; [congruence|]. apply IH in H; [exact H|reflexivity].
Qed.

Lemma find_char_some c s i : find_char c s = Some i ->
  exists a b, s = a ++ c :: b /\ length a = i /\ ~ In c a.
Proof.
  revert i; induction s as [|x s IH]; cbn; intros i H; [discriminate|].
  destruct (x =? c) eqn:E.
  - apply N.eqb_eq in E; subst x. inversion H; subst. exists [], s. repeat split. intros [].
  - destruct (find_char c s) as [j|]; [|discriminate]. cbn in H. inversion H; subst.
    destruct (IH j eq_refl) as [a [b [-> [<- Hn]]]]. exists (x :: a), b. repeat split.
    intros [Hx|Hx]; [apply N.eqb_neq in E; congruence|exact (Hn Hx)].
Qed.

Lemma last_indep {A} (l : list A) d1 d2 : l <> [] -> last l d1 = last l d2.
Proof. induction l as [|x [|y l] IH]; [congruence|reflexivity|]. intros _. cbn [last] in *. apply IH. discriminate. Qed.

Lemma colons_ok_app prev a c b : colons_ok prev (a ++ c :: b) = true ->
  c = 58 -> ~ In 58 a -> last a prev = 47 /\ ~ In 0 a.
Proof.
  revert prev; induction a as [|x a IH]; intros prev H Hc Hn; cbn [app colons_ok last] in *.
  - subst c. cbn in H. destruct (prev =? 47) eqn:E; [apply N.eqb_eq in E; split; [exact E|intros []]|discriminate].
  - apply Bool.andb_true_iff in H. destruct H as [H1 H2]. apply Bool.andb_true_iff in H1. destruct H1 as [_ H0].
    destruct (IH x H2 Hc (fun h => Hn (or_intror h))) as [Hl Hz].
    split.
    + destruct a as [|y a]; [exact Hl|]. rewrite (last_indep (y :: a) prev x) by discriminate. exact Hl.
    + intros [E|E]; [subst x; discriminate|exact (Hz E)].
Qed.

Lemma last_split_off (a : str) d : a <> [] -> a = removelast a ++ [last a d].
Proof. intros H. apply app_removelast_last, H. Qed.

(* a wf pattern with a ':' is  a ++ "/" ++ ":..." with no ':' in a *)
Lemma pattern_decompose pat ps : wf_pattern pat = true -> find_char 58 pat = Some ps ->
  exists a rest, pat = a ++ 47 :: 58 :: rest /\ (length a + 1 = ps)%nat /\ ~ In 58 a.
Proof.
  intros Hwf Hf. destruct (find_char_some _ _ _ Hf) as [a0 [b [-> [Hl Hn]]]].
  destruct (colons_ok_app 0 a0 58 b Hwf eq_refl Hn) as [Hlast _].
  destruct a0 as [|x a0]; [cbn in Hlast; discriminate|].
  assert (E : x :: a0 = removelast (x :: a0) ++ [47]).
  { rewrite <- Hlast. apply app_removelast_last. discriminate. }
  remember (removelast (x :: a0)) as a1 eqn:Ea1. clear Ea1.
  rewrite E in *. clear E.
  exists a1, b. split; [rewrite <- app_assoc; reflexivity|].
  split.
  - rewrite <- Hl. rewrite app_length. reflexivity.
  - intros H. apply Hn. apply in_or_app. left; exact H.
Qed.

Lemma literal_split a : ~ In 58 a -> literal (split 47 a).
Proof.
  intros Hn x Hx. destruct x as [|c x]; [reflexivity|]. cbn. apply N.eqb_neq. intros ->.
  apply Hn. eapply split_In_chars; [exact Hx|left; reflexivity].
Qed.

(* ---- one route ---- *)
Definition wf_route (r : route) : Prop :=
  wf_pattern (r_path r) = true /\ r_search r = search_path_of (r_path r).

Lemma route_no_params r upath : wf_route r -> find_char 58 (r_path r) = None ->
  (is_prefix (r_search r) upath && Nat.eqb (length upath) (length (r_search r)) = true
     <-> pattern_match (r_path r) upath = Some [])
  /\ (forall p, pattern_match (r_path r) upath = Some p -> p = [])
  /\ has_parameters r = false.
Proof.
  intros [Hwf Hs] Hf. unfold search_path_of in Hs. rewrite Hf in Hs. rewrite Hs.
  assert (Hlit : literal (split 47 (r_path r))) by (apply literal_split, find_char_none, Hf).
  split; [|split].
  - split.
    + intros H. apply Bool.andb_true_iff in H. destruct H as [H1 H2].
      apply is_prefix_app in H1. destruct H1 as [rr ->]. apply Nat.eqb_eq in H2.
      rewrite app_length in H2. destruct rr; [|cbn in H2; lia]. rewrite app_nil_r.
      unfold pattern_match. apply seg_match_literal_refl, Hlit.
    + intros H. unfold pattern_match in H. apply seg_match_literal_eq in H; [|exact Hlit].
      destruct H as [H _]. assert (upath = r_path r) by (rewrite <- (join_split upath), H; apply join_split).
      subst upath. apply Bool.andb_true_iff. split; [apply is_prefix_app; exists []; rewrite app_nil_r; reflexivity|apply Nat.eqb_refl].
  - intros p H. unfold pattern_match in H. apply seg_match_literal_eq in H; [tauto|exact Hlit].
  - unfold has_parameters. rewrite Hs, Nat.eqb_refl. reflexivity.
Qed.

Lemma skipn_app_exact {A} (a b : list A) : skipn (length a) (a ++ b) = b.
Proof. induction a; cbn; auto. Qed.

Lemma firstn_app_exact {A} (a b : list A) : firstn (length a) (a ++ b) = a.
Proof. induction a; cbn; [reflexivity|f_equal; assumption]. Qed.

Lemma route_with_params r upath ps : wf_route r -> find_char 58 (r_path r) = Some ps ->
  has_parameters r = true /\
  (if is_prefix (r_search r) upath
   then get_route_parameters upath (r_path r)
          = Some (match pattern_match (r_path r) upath with Some p => p | None => [] end)
        /\ (forall p, pattern_match (r_path r) upath = Some p -> p <> [])
   else pattern_match (r_path r) upath = None).
Proof.
  intros [Hwf Hs] Hf. destruct (pattern_decompose _ _ Hwf Hf) as [a [rest [Hp [Hl Hn]]]].
  unfold search_path_of in Hs. rewrite Hf in Hs.
  assert (Hps : ps = length (a ++ [47])) by (rewrite app_length; cbn; lia).
  assert (Hsearch : r_search r = a ++ [47]).
  { rewrite Hs, Hp, Hps. replace (a ++ 47 :: 58 :: rest) with ((a ++ [47]) ++ 58 :: rest) by (rewrite <- app_assoc; reflexivity).
    apply firstn_app_exact. }
  assert (Hlit : literal (split 47 a)) by (apply literal_split, Hn).
  assert (Hsplit : split 47 (r_path r) = split 47 a ++ split 47 (58 :: rest)) by (rewrite Hp; apply split_app_delim).
  split.
  - unfold has_parameters. rewrite Hsearch, Hp, !app_length. cbn. apply Bool.negb_true_iff, Nat.eqb_neq. lia.
  - destruct (is_prefix (r_search r) upath) eqn:Epre.
    + apply is_prefix_app in Epre. destruct Epre as [u' ->]. rewrite Hsearch.
      unfold get_route_parameters. rewrite Hf.
      match goal with |- context [Nat.ltb ?x ?y] => destruct (Nat.ltb x y) eqn:Hlen end.
      { exfalso. apply Nat.ltb_lt in Hlen. rewrite Hps, !app_length in Hlen. lia. }
      assert (E1 : skipn ps (r_path r) = 58 :: rest).
      { rewrite Hp, Hps. replace (a ++ 47 :: 58 :: rest) with ((a ++ [47]) ++ 58 :: rest) by (rewrite <- app_assoc; reflexivity).
        apply skipn_app_exact. }
      assert (E2 : skipn ps ((a ++ [47]) ++ u') = u') by (rewrite Hps; apply skipn_app_exact).
      assert (E3 : split 47 ((a ++ [47]) ++ u') = split 47 a ++ split 47 u').
      { replace ((a ++ [47]) ++ u') with (a ++ 47 :: u') by (rewrite <- app_assoc; reflexivity). apply split_app_delim. }
      rewrite E1, E2. unfold pattern_match. rewrite Hsplit, E3.
      rewrite seg_match_app_lit by exact Hlit. rewrite seg_match_names.
      destruct (Nat.eqb (length (split 47 (58 :: rest))) (length (split 47 u'))).
      * destruct (match_names (split 47 (58 :: rest)) (split 47 u') []) as [p|] eqn:Em.
        -- split; [reflexivity|]. intros p' Hp'. inversion Hp'; subst p'.
           rewrite split_cons in Em. change (58 =? 47) with false in Em.
           destruct (split 47 rest) as [|x t] eqn:Er; [exfalso; eapply split_nonempty, Er|].
           cbn [match_names is_param_name] in Em. rewrite N.eqb_refl in Em.
           destruct (split 47 u') as [|v V]; [discriminate|].
           eapply match_names_nonempty; [|exact Em]. apply params_insert_nonempty.
        -- split; [reflexivity|discriminate].
      * split; [reflexivity|discriminate].
    + destruct (pattern_match (r_path r) upath) as [p|] eqn:Em; [exfalso|reflexivity].
      unfold pattern_match in Em. rewrite Hsplit in Em.
      destruct (seg_match_prefix _ Hlit _ _ _ _ Em) as [V [HV HmV]].
      assert (V <> []).
      { intros ->. rewrite split_cons in HmV. change (58 =? 47) with false in HmV.
        destruct (split 47 rest) eqn:Er; [exfalso; eapply split_nonempty, Er|cbn in HmV; discriminate]. }
      assert (upath = a ++ [47] ++ join V).
      { rewrite <- (join_split upath), HV, join_app; [rewrite join_split; reflexivity|apply split_nonempty|assumption]. }
      rewrite Hsearch in Epre. assert (is_prefix (a ++ [47]) upath = true); [|congruence].
      apply is_prefix_app. exists (join V). rewrite H0. rewrite <- app_assoc. reflexivity.
Qed.

(* ---- the whole table ---- *)
Lemma find_route_spec rs upath : Forall wf_route rs ->
  find_route rs upath = match spec_find rs upath with Some (r, p) => Found r p | None => NoRoute end.
Proof.
  induction 1 as [|r rs Hr _ IH]; cbn [find_route spec_find]; [reflexivity|].
  destruct (find_char 58 (r_path r)) as [ps|] eqn:Ef.
  - destruct (route_with_params r upath ps Hr Ef) as [Hhp Hm]. rewrite Hhp.
    destruct (is_prefix (r_search r) upath).
    + destruct Hm as [-> Hne]. destruct (pattern_match (r_path r) upath) as [p|] eqn:Em.
      * specialize (Hne p eq_refl). destruct p; [congruence|reflexivity].
      * exact IH.
    + rewrite Hm. exact IH.
  - destruct (route_no_params r upath Hr Ef) as [[A1 A2] [Hnil Hhp]]. rewrite Hhp.
    destruct (pattern_match (r_path r) upath) as [p|] eqn:Em.
    + pose proof (Hnil p eq_refl) as Hp; subst p. specialize (A2 eq_refl).
      apply Bool.andb_true_iff in A2. destruct A2 as [-> ->]. reflexivity.
    + destruct (is_prefix (r_search r) upath); [|exact IH].
      destruct (Nat.eqb (length upath) (length (r_search r))); [|exact IH].
      specialize (A1 eq_refl). discriminate.
Qed.

(* request_uri: without NUL bytes the path is the target up to the first '?' or '#' *)
Lemma c_trunc_id s : ~ In 0 s -> c_trunc s = s.
Proof.
  induction s as [|c s IH]; [reflexivity|]. intros H. cbn.
  destruct (c =? 0) eqn:E; [apply N.eqb_eq in E; exfalso; apply H; left; exact E|].
  rewrite IH; [reflexivity|]. intros Hs. apply H. right; exact Hs.
Qed.

Lemma uri_path_spec target : uri_path target = spec_path target.
Proof.
  unfold uri_path.
  induction target as [|c t IH]; [reflexivity|].
  cbn [find_char spec_path].
  destruct (c =? 63) eqn:E63.
  - cbn. destruct (c =? 35) eqn:E35; [apply N.eqb_eq in E63; apply N.eqb_eq in E35; congruence|].
    destruct (find_char 35 t); reflexivity.
  - destruct (c =? 35) eqn:E35; cbn [orb].
    + destruct (find_char 63 t); reflexivity.
    + destruct (find_char 63 t) as [q|], (find_char 35 t) as [f|]; cbn [option_map firstn] in *;
        try (rewrite <- IH; reflexivity).
      change (Nat.ltb (S q) (S f)) with (Nat.ltb q f). rewrite <- IH. destruct (Nat.ltb q f); reflexivity.
Qed.

Lemma handle_request_is_dispatch rs method target : Forall wf_route rs ->
  handle_request rs method target = dispatch rs method target.
Proof.
  intros Hrs. unfold handle_request, dispatch. rewrite find_route_spec by exact Hrs.
  rewrite uri_path_spec. destruct (spec_find rs (spec_path target)) as [[r p]|]; reflexivity.
Qed.

(* tables built through add_method from well-formed patterns *)
Lemma wf_pattern_no_nul p : wf_pattern p = true -> ~ In 0 p.
Proof.
  unfold wf_pattern. generalize 0 at 1. induction p as [|c p IH]; intros prev H; [intros []|].
  cbn [colons_ok] in H. apply Bool.andb_true_iff in H. destruct H as [H1 H2].
  apply Bool.andb_true_iff in H1. destruct H1 as [_ H0]. apply Bool.negb_true_iff, N.eqb_neq in H0.
  intros [E|E]; [congruence|exact (IH c H2 E)].
Qed.

Lemma add_to_routes_wf rs path e : Forall wf_route rs -> wf_pattern path = true ->
  Forall wf_route (fst (add_to_routes rs path e)).
Proof.
  intros Hrs Hp. induction Hrs as [|r rs Hr Hrs IH]; cbn [add_to_routes].
  - constructor; [split; [exact Hp|reflexivity]|constructor].
  - destruct (str_eqb (r_path r) path).
    + constructor; [exact Hr|exact Hrs].
    + destruct (add_to_routes rs path e) as [t' b]. cbn [fst] in *. constructor; [exact Hr|exact IH].
Qed.

Definition wf_registration (g : registration) : Prop := wf_pattern (g_path g) = true.

Lemma build_table_wf regs : Forall wf_registration regs -> Forall wf_route (build_table regs).
Proof.
  unfold build_table. assert (G : forall rs, Forall wf_route rs -> Forall wf_registration regs ->
    Forall wf_route (fold_left (fun rs g => fst (add_method rs (g_method g) (g_path g) (g_handler g) (g_auth g))) regs rs)).
  { induction regs as [|g regs IH]; intros rs Hrs Hregs; cbn [fold_left]; [exact Hrs|].
    inversion Hregs; subst. apply IH; [|assumption]. unfold add_method.
    rewrite c_trunc_id by (apply wf_pattern_no_nul; assumption). apply add_to_routes_wf; assumption. }
  intros H. apply G; [constructor|exact H].
Qed.

Lemma C16_refines_lemma regs method target : Forall wf_registration regs ->
  handle_request (build_table regs) method target = dispatch (build_table regs) method target.
Proof. intros H. apply handle_request_is_dispatch. apply build_table_wf, H. Qed.

Lemma C16_never_throws_lemma regs method target : Forall wf_registration regs ->
  handle_request (build_table regs) method target <> DThrow.
Proof.
  intros H. rewrite C16_refines_lemma by assumption. unfold dispatch.
  destruct (spec_find _ _) as [[r p]|]; [|discriminate]. destruct (find_method _ _); discriminate.
Qed.
