(* M_Locks.v — the locking protocol of thread/threadsafe_hash_map.hpp.
   translate/locks.py reduces every member function to the statements below (Gen_Locks.v); this file
   gives them their meaning: [program] compiles a member function, for a map of [n] buckets and a key
   that hashes to bucket [own], into the sequence of atomic actions the calling thread performs
   (acquire / release a bucket's shared_mutex, read / write a bucket's vector), following C++ scoping:
   a scoped lock object is released when its block ends (in reverse order of declaration), a lock moved
   into a function-level container when the function returns.
   [wl] is the protocol: every access happens under a lock of its bucket (a write under an exclusive
   one), locks are acquired in strictly ascending bucket order, nothing is acquired after the first
   release (two-phase), and everything is released at the end.  M_Conc.v / P_Conc.v show what the
   protocol buys for every interleaving. *)
From Coq Require Import List String Bool Arith.
Import ListNotations.

Inductive lkind := Sh | Ex.
Inductive target := Own | Elem.
Inductive callee := CSame | CBucket | CElem.

Inductive stmt :=
| LockScoped (k : lkind) (t : target)
| LockKept (k : lkind) (t : target)
| Access (w : bool) (t : target)
| ForBuckets (body : list stmt)
| Block (body : list stmt)
| Call (c : callee) (name : string)
| Ret
| Unknown.

Inductive action := Acq (k : lkind) (b : nat) | Rel (b : nat) | Rd (b : nat) | Wr (b : nat).

Record frag := { f_acts : list action; f_scoped : list nat; f_kept : list nat; f_ok : bool }.

Definition f_empty : frag := {| f_acts := []; f_scoped := []; f_kept := []; f_ok := true |}.
Definition f_bad : frag := {| f_acts := []; f_scoped := []; f_kept := []; f_ok := false |}.
Definition f_app (a b : frag) : frag :=
  {| f_acts := f_acts a ++ f_acts b; f_scoped := f_scoped a ++ f_scoped b;
     f_kept := f_kept a ++ f_kept b; f_ok := f_ok a && f_ok b |}.
(* the end of a block: its scoped lock objects are destroyed, last declared first *)
Definition close_scope (f : frag) : frag :=
  {| f_acts := f_acts f ++ map Rel (rev (f_scoped f)); f_scoped := []; f_kept := f_kept f; f_ok := f_ok f |}.
(* the end of a function: scoped locks, then the container of kept locks (a vector destroys its elements
   first to last) *)
Definition close_function (f : frag) : frag :=
  {| f_acts := f_acts f ++ map Rel (rev (f_scoped f)) ++ map Rel (f_kept f);
     f_scoped := []; f_kept := []; f_ok := f_ok f |}.

Definition lkind_eqb (a b : lkind) : bool :=
  match a, b with Sh, Sh => true | Ex, Ex => true | _, _ => false end.

Section Compile.
  Variable methods : list (string * list stmt).
  Variable n : nat.

  Definition lookup (name : string) : option (list stmt) :=
    match find (fun p => String.eqb (fst p) name) methods with Some p => Some (snd p) | None => None end.

  Definition tgt (own : nat) (elem : option nat) (t : target) : option nat :=
    match t with Own => Some own | Elem => elem end.

  Fixpoint cstmt (fuel : nat) (own : nat) (elem : option nat) (s : stmt) {struct fuel} : frag :=
    match fuel with
    | O => f_bad
    | S fuel' =>
      let seq_of (own : nat) (elem : option nat) :=
        fix go (ss : list stmt) : frag :=
          match ss with [] => f_empty | s :: r => f_app (cstmt fuel' own elem s) (go r) end in
      match s with
      | LockScoped k t =>
          match tgt own elem t with
          | Some b => {| f_acts := [Acq k b]; f_scoped := [b]; f_kept := []; f_ok := true |}
          | None => f_bad end
      | LockKept k t =>
          match tgt own elem t with
          | Some b => {| f_acts := [Acq k b]; f_scoped := []; f_kept := [b]; f_ok := true |}
          | None => f_bad end
      | Access w t =>
          match tgt own elem t with
          | Some b => {| f_acts := [if w then Wr b else Rd b]; f_scoped := []; f_kept := []; f_ok := true |}
          | None => f_bad end
      | Block body => close_scope (seq_of own elem body)
      | ForBuckets body =>
          fold_right (fun b acc => f_app (close_scope (seq_of own (Some b) body)) acc) f_empty (seq 0 n)
      | Call c name =>
          match lookup name with
          | None => f_bad
          | Some body =>
              match c with
              | CSame | CBucket => close_function (seq_of own None body)
              | CElem => match elem with Some b => close_function (seq_of b None body) | None => f_bad end
              end
          end
      | Ret => f_empty
      | Unknown => f_bad
      end
    end.

  Definition program (name : string) (own : nat) : frag := cstmt 40 own None (Call CSame name).
End Compile.

(* ---- the protocol ---- *)
Definition held_t := list (nat * lkind).

Definition holds (b : nat) (h : held_t) : bool := existsb (fun e => Nat.eqb (fst e) b) h.
Definition holds_ex (b : nat) (h : held_t) : bool :=
  existsb (fun e => Nat.eqb (fst e) b && lkind_eqb (snd e) Ex) h.
Definition drop (b : nat) (h : held_t) : held_t := filter (fun e => negb (Nat.eqb (fst e) b)) h.

Fixpoint wl (h : held_t) (released : bool) (acts : list action) : bool :=
  match acts with
  | [] => match h with [] => true | _ => false end
  | Acq k b :: r => negb released && forallb (fun e => Nat.ltb (fst e) b) h && wl ((b, k) :: h) false r
  | Rel b :: r => holds b h && wl (drop b h) true r
  | Rd b :: r => holds b h && wl h released r
  | Wr b :: r => holds_ex b h && wl h released r
  end.

(* every public member function, for every bucket its key can hash to *)
Definition api_ok (methods : list (string * list stmt)) (api : list string) (n : nat) : bool :=
  forallb (fun name => forallb (fun own => let f := program methods n name own in
                                           f_ok f && wl [] false (f_acts f)) (seq 0 n)) api.
