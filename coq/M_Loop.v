(* M_Loop.v — the second layer of the small imperative language: the bodies of the buffer-level parser functions
   (parse(iter, end)) as clang's AST gives them: a loop over the input that takes one character at a time, calls
   parse_char on it and looks at the parser's state and flags.  A body works on the store of M_Imp.v, the local
   character and the unread input; parse_char is the translated body of the first layer, run by M_Imp.run_body.
   Reading past the end of the input and running out of fuel are both `None`: the theorems of P_Loop.v show neither
   happens. *)
From Via Require Import M_Char M_Parse M_Imp.
From Coq Require Import List NArith Bool.
Import ListNotations.
Local Open Scope N_scope.

Inductive lexp :=
  | LMore                                    (* iter != end *)
  | LPeek (p : cpred)                        (* p( *iter ) *)
  | LStateIs (k : nat)                       (* Enum::K == state_ *)
  | LFlag (k : nat)                          (* a bool member *)
  | LNot (a : lexp) | LAnd (a b : lexp) | LOr (a b : lexp)
  | LCall                                    (* parse_char(c) *)
  | LAssign (k : nat) (a : lexp)             (* (member = a), as an expression *)
  | LConst (v : bool).

Inductive lstmt :=
  | LSkip
  | LSeq (a b : lstmt)
  | LIf (c : lexp) (t e : lstmt)
  | LWhile (c : lexp) (body : lstmt)
  | LNext                                    (* char c( *iter++ ) *)
  | LDo (e : lexp)                           (* an expression statement *)
  | LPush (k : nat) (ch : N)                 (* member.push_back('x') *)
  | LState (v : nat)                         (* state_ = Enum::V *)
  | LReturn (e : lexp).

Record lstate := mk_ls { ls_store : store; ls_c : byte; ls_in : str }.

Inductive lout := LNormal | LRet (v : bool).

Section Loop.
  Variable lim : nat -> N.
  Variable pc : stmt.                        (* the body of parse_char *)

  Fixpoint leval (e : lexp) (s : lstate) : bool * lstate :=
    match e with
    | LMore => (match ls_in s with [] => false | _ => true end, s)
    | LPeek p => (match ls_in s with [] => false | x :: _ => cpred_eval p x end, s)
    | LStateIs k => (Nat.eqb k (s_state (ls_store s)), s)
    | LFlag k => (negb (get_num (ls_store s) k =? 0), s)
    | LNot a => let '(v, s1) := leval a s in (negb v, s1)
    | LAnd a b => let '(v, s1) := leval a s in if v then leval b s1 else (false, s1)
    | LOr a b => let '(v, s1) := leval a s in if v then (true, s1) else leval b s1
    | LCall => let '(st, ok) := run_body lim (ls_c s) pc (ls_store s) in (ok, mk_ls st (ls_c s) (ls_in s))
    | LAssign k a => let '(v, s1) := leval a s in (v, mk_ls (set_num (ls_store s1) k (b2n v)) (ls_c s1) (ls_in s1))
    | LConst v => (v, s)
    end.

  Fixpoint lexec (fuel : nat) : lstmt -> lstate -> option (lout * lstate) :=
    fix go (st : lstmt) (s : lstate) {struct st} : option (lout * lstate) :=
      match st with
      | LSkip => Some (LNormal, s)
      | LSeq a b => match go a s with Some (LNormal, s1) => go b s1 | r => r end
      | LIf c t e => let '(v, s1) := leval c s in if v then go t s1 else go e s1
      | LWhile c body =>
          match fuel with
          | O => None
          | S n =>
              let '(v, s1) := leval c s in
              if v then match go body s1 with Some (LNormal, s2) => lexec n (LWhile c body) s2 | r => r end
              else Some (LNormal, s1)
          end
      | LNext => match ls_in s with [] => None | x :: t => Some (LNormal, mk_ls (ls_store s) x t) end
      | LDo e => let '(_, s1) := leval e s in Some (LNormal, s1)
      | LPush k ch => Some (LNormal, mk_ls (set_str (ls_store s) k (snoc (get_str (ls_store s) k) ch)) (ls_c s) (ls_in s))
      | LState v => Some (LNormal, mk_ls (set_state (ls_store s) v) (ls_c s) (ls_in s))
      | LReturn e => let '(v, s1) := leval e s in Some (LRet v, s1)
      end.

  (* what a caller sees of a run: the value returned (a body that falls off its end is not translated), the store and
     the unread input *)
  Definition lrun (fuel : nat) (body : lstmt) (st : store) (input : str) : option (bool * store * str) :=
    match lexec fuel body (mk_ls st 0 input) with
    | Some (LRet v, s) => Some (v, ls_store s, ls_in s)
    | _ => None
    end.
End Loop.

(* the loop of request_line, response_line and chunk_header: while there is input and the line is not finished, take a
   character; a character that does not fit sets the fail flag and returns false; afterwards the valid flag says
   whether the line is finished *)
Definition simple_loop (V kv kf : nat) : lstmt :=
  LSeq (LWhile (LAnd LMore (LNot (LStateIs V)))
               (LSeq LNext (LIf (LAssign kf (LNot LCall)) (LReturn (LConst false)) LSkip)))
       (LSeq (LDo (LAssign kv (LStateIs V))) (LReturn (LFlag kv))).

(* chunk_header::parse refuses to go on after a failure *)
Definition guarded_loop (V kv kf : nat) : lstmt :=
  LSeq (LIf (LFlag kf) (LReturn (LConst false)) LSkip) (simple_loop V kv kf).

(* a for loop over a string whose body is a statement of M_Imp.v on the character *iter (are_headers_split): the body
   runs once per character, a return inside it ends the function, falling out of the loop returns `final` *)
Fixpoint run_for (lim : nat -> N) (body : stmt) (final : bool) (s : store) (l : str) : bool :=
  match l with
  | [] => final
  | c :: t => match exec lim c body s with
              | (OReturn v, _) => v
              | (_, s1) => run_for lim body final s1 t
              end
  end.
