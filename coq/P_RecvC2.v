(* P_RecvC2.v — the client receiver never reaches the undefined case of the model (RX_UB: `iter + required` with a
   negative `required`): an invariant on the body collected so far, kept by every call of creceive on a non-empty buffer
   (http_client::receive_handler calls receive only while iter != end) and by the loop's dispatch. *)
From Via Require Import M_Char M_Parse M_Receive P_Parse P_C05 P_FragC P_TermC.
From Coq Require Import List NArith ZArith Bool Lia.
Import ListNotations.
Local Open Scope N_scope.

Definition cbound (cfg : ccfg) (q : rx_response) (n : N) : N :=
  if (n =? 0) && negb (nonempty (hd_find (rp_headers q) hf_LC_CONTENT_LENGTH)) then cc_max_body cfg else n.

Definition cbody_inv (cfg : ccfg) (c : creceiver) : Prop :=
  (rp_valid (cv_rsp c) = false -> cv_body c = []) /\
  (rp_valid (cv_rsp c) = true -> hd_is_chunked (rp_headers (cv_rsp c)) = false ->
   forall n, hd_content_length (rp_headers (cv_rsp c)) = Some n -> nlen (cv_body c) <= cbound cfg (cv_rsp c) n).

Lemma cbody_inv_init cfg : cbody_inv cfg (cv_init cfg).
Proof. split; [reflexivity | discriminate]. Qed.
Lemma cbody_inv_clear cfg c : cbody_inv cfg (cv_clear c).
Proof. split; [reflexivity | discriminate]. Qed.

Lemma rp_parse_valid L q buf q1 rest r : rp_parse L q buf = (q1, rest, r) ->
  rp_valid q = false -> (rp_valid q1 = true <-> r = Done).
Proof.
  unfold rp_parse. intros H Hv.
  destruct (if sl_valid (rp_line q) then (rp_line q, buf, Done) else sl_parse L (rp_line q) buf) as [[l1 b1] r1].
  destruct r1.
  - destruct (if hd_valid (rp_headers q) then (rp_headers q, b1, Done) else hd_parse L (rp_headers q) b1) as [[h1 b2] r2].
    destruct r2; inversion H; subst; cbn; rewrite ?Hv; split; congruence.
  - inversion H; subst; cbn; rewrite Hv; split; congruence.
  - inversion H; subst; cbn; rewrite Hv; split; congruence.
Qed.

(* the Content-Length branch, on a valid head q1 with `body` collected (at most cbound) *)
Lemma ccl_safe cfg q1 k body b1 n :
  rp_valid q1 = true -> hd_is_chunked (rp_headers q1) = false -> hd_content_length (rp_headers q1) = Some n ->
  nlen body <= cbound cfg q1 n -> (body = [] \/ b1 <> []) ->
  let rx_size := nlen b1 in
  let no_content_length := (0 <? rx_size) && (n =? 0) && negb (nonempty (hd_find (rp_headers q1) hf_LC_CONTENT_LENGTH)) in
  let cl := if no_content_length then cc_max_body cfg else n in
  let required := (Z.of_N cl - Z.of_N (nlen body))%Z in
  let res :=
    if (required <? Z.of_N rx_size)%Z && no_content_length then (cv_clear (mk_cv q1 k body), b1, RX_INVALID)
    else if (required <? 0)%Z && (required <? Z.of_N rx_size)%Z then (mk_cv q1 k body, b1, RX_UB)
    else
      let '(body', b2) :=
        if (required <? Z.of_N rx_size)%Z
        then (body ++ firstn (Z.to_nat required) b1, skipn (Z.to_nat required) b1)
        else (body ++ b1, []) in
      let c2 := mk_cv q1 k body' in
      if nlen body' =? n then (c2, b2, RX_VALID) else (c2, b2, RX_INCOMPLETE) in
  cbody_inv cfg (fst (fst res)) /\ snd res <> RX_UB.
Proof.
  intros Hv Hch Hcl Hb Hne. cbv zeta. unfold cbound in Hb.
  set (noh := negb (nonempty (hd_find (rp_headers q1) hf_LC_CONTENT_LENGTH))) in *.
  assert (Hrx : b1 <> [] -> (0 <? nlen b1) = true).
  { intros H. destruct b1; [congruence|]. unfold nlen. cbn [length]. apply N.ltb_lt. lia. }
  assert (Hcase : nlen body <= (if (0 <? nlen b1) && (n =? 0) && noh then cc_max_body cfg else n) \/
                  ((0 <? nlen b1) = false /\ body = [])).
  { destruct Hne as [-> | Hne].
    - destruct (0 <? nlen b1) eqn:E; [left; apply N.le_0_l | right; split; reflexivity].
    - left. rewrite (Hrx Hne). cbn [andb]. exact Hb. }
  set (nocl := (0 <? nlen b1) && (n =? 0) && noh) in *.
  set (cl := if nocl then cc_max_body cfg else n) in *.
  assert (Hreq : (0 <= Z.of_N cl - Z.of_N (nlen body))%Z).
  { destruct Hcase as [H | [_ ->]]; [lia | unfold nlen; cbn; lia]. }
  replace (Z.of_N cl - Z.of_N (nlen body) <? 0)%Z with false by (symmetry; apply Z.ltb_ge; exact Hreq). cbn [andb].
  destruct (Z.of_N cl - Z.of_N (nlen body) <? Z.of_N (nlen b1))%Z eqn:Elt; cbn [andb].
  - destruct nocl eqn:En.
    + split; [apply cbody_inv_clear | discriminate].
    + assert (Hk : (Z.to_nat (Z.of_N cl - Z.of_N (nlen body)) <= length b1)%nat) by (apply Z.ltb_lt in Elt; unfold nlen in *; lia).
      assert (Hlen : nlen (body ++ firstn (Z.to_nat (Z.of_N cl - Z.of_N (nlen body))) b1) = cl).
      { rewrite nlen_app, (nlen_firstn _ _ Hk). lia. }
      assert (Hinv : cbody_inv cfg (mk_cv q1 k (body ++ firstn (Z.to_nat (Z.of_N cl - Z.of_N (nlen body))) b1))).
      { split; cbn [cv_rsp cv_body]; [congruence|]. intros _ _ m Hm. rewrite Hcl in Hm. inversion Hm; subst m. rewrite Hlen.
        unfold cbound. fold noh. destruct ((n =? 0) && noh) eqn:Ec; [|unfold cl; lia].
        (* nocl is false although n = 0 and there is no header: cl = n = 0 *)
        apply andb_prop in Ec. destruct Ec as [Ec _]. apply N.eqb_eq in Ec. unfold cl. lia. }
      destruct (_ =? n); (split; [exact Hinv | discriminate]).
  - assert (Hlen : nlen (body ++ b1) <= cl) by (rewrite nlen_app; apply Z.ltb_ge in Elt; lia).
    assert (Hinv : cbody_inv cfg (mk_cv q1 k (body ++ b1))).
    { split; cbn [cv_rsp cv_body]; [congruence|]. intros _ _ m Hm. rewrite Hcl in Hm. inversion Hm; subst m.
      unfold cbound. fold noh. unfold cl, nocl in Hlen.
      destruct (0 <? nlen b1) eqn:E0; cbn [andb] in Hlen.
      - exact Hlen.
      - destruct ((n =? 0) && noh) eqn:Ec; [|lia].
        apply andb_prop in Ec. destruct Ec as [Ec _]. apply N.eqb_eq in Ec. lia. }
    destruct (_ =? n); (split; [exact Hinv | discriminate]).
Qed.

Theorem creceive_safe cfg c buf : cbody_inv cfg c -> (rp_valid (cv_rsp c) = true -> buf <> []) ->
  cbody_inv cfg (fst (fst (creceive cfg c buf))) /\ snd (creceive cfg c buf) <> RX_UB.
Proof.
  intros [Hi1 Hi2] Hne. unfold creceive. cbv zeta.
  destruct (rp_valid (cv_rsp c)) eqn:Ev; cbn [negb].
  - (* the head was complete before this call: the buffer is not empty *)
    destruct c as [q k body]. cbn [cv_rsp cv_chunk cv_body] in *.
    destruct (hd_is_chunked (rp_headers q)) eqn:Ech; cbn [negb].
    + (* chunked *)
      destruct (rc_parse (cc_lim cfg) (if rc_valid k then rc_clear k else k) buf) as [[k1 b2] r2].
      assert (Hc : forall kk, cbody_inv cfg (mk_cv q kk body)).
      { intros kk. split; cbn [cv_rsp cv_body]; [congruence | intros _ E; congruence]. }
      destruct (match r2 with Done => false | _ => nonempty b2 || rc_failed k1 end);
        [split; [apply cbody_inv_clear | discriminate]|].
      destruct (rc_valid k1); (split; [apply Hc | discriminate]).
    + destruct (hd_content_length (rp_headers q)) as [n|] eqn:Ecl; [|split; [apply cbody_inv_clear | discriminate]].
      exact (ccl_safe cfg q k body buf n Ev Ech Ecl (Hi2 eq_refl eq_refl n eq_refl) (or_intror (Hne eq_refl))).
  - (* the head is parsed in this call: nothing has been collected *)
    destruct c as [q k body]. cbn [cv_rsp cv_chunk cv_body] in *. rewrite (Hi1 eq_refl).
    destruct (rp_parse (cc_lim cfg) q buf) as [[q1 b1] r1] eqn:Ep.
    pose proof (rp_parse_valid _ _ _ _ _ _ Ep Ev) as Hval.
    destruct r1.
    + assert (Hv1 : rp_valid q1 = true) by (apply Hval; reflexivity).
      destruct (hd_is_chunked (rp_headers q1)) eqn:Ech; cbn [negb].
      * cbn [fst snd]. split; [|discriminate]. split; cbn [cv_rsp cv_body]; [intros _; reflexivity | intros _ E; congruence].
      * destruct (hd_content_length (rp_headers q1)) as [n|] eqn:Ecl; [|split; [apply cbody_inv_clear | discriminate]].
        refine (ccl_safe cfg q1 k [] b1 n Hv1 Ech Ecl _ (or_introl eq_refl)). apply N.le_0_l.
    + assert (Hv1 : rp_valid q1 = false) by (destruct (rp_valid q1); [destruct Hval as [H _]; discriminate (H eq_refl) | reflexivity]).
      destruct (nonempty b1 || sl_fail (rp_line q1) || hd_fail (rp_headers q1)); cbn [fst snd];
        (split; [|discriminate]); [apply cbody_inv_clear|].
      split; cbn [cv_rsp cv_body]; [intros _; reflexivity | intros E; congruence].
    + assert (Hv1 : rp_valid q1 = false) by (destruct (rp_valid q1); [destruct Hval as [H _]; discriminate (H eq_refl) | reflexivity]).
      destruct (nonempty b1 || sl_fail (rp_line q1) || hd_fail (rp_headers q1)); cbn [fst snd];
        (split; [|discriminate]); [apply cbody_inv_clear|].
      split; cbn [cv_rsp cv_body]; [intros _; reflexivity | intros E; congruence].
Qed.

Lemma cdispatch_inv cfg v r : cbody_inv cfg v -> cbody_inv cfg (fst (cdispatch v r)).
Proof.
  intros H. unfold cdispatch. destruct r; cbn [fst]; try exact H; try apply cbody_inv_clear.
  - destruct (hd_is_chunked (rp_headers (cv_rsp v))); [exact H | apply cbody_inv_clear].
  - destruct (rc_is_last (cv_chunk v)); [apply cbody_inv_clear | exact H].
Qed.

(* over the whole read loop of http_client::receive_handler, and over every sequence of reads *)
Lemma crx_loop_safe fuel : forall cfg v buf, cbody_inv cfg v ->
  let '(v', _, calls, _) := crx_loop fuel cfg v buf in cbody_inv cfg v' /\ calls_ok calls.
Proof.
  induction fuel as [|fuel IH]; intros cfg v buf Hv; destruct buf as [|c t]; cbn [crx_loop];
    try (split; [exact Hv|constructor]).
  destruct (creceive cfg v (c :: t)) as [[v1 rest] r] eqn:Er.
  pose proof (creceive_safe cfg v (c :: t) Hv (fun _ => ltac:(discriminate))) as [Hs1 Hs2]. rewrite Er in Hs1, Hs2. cbn [fst snd] in Hs1, Hs2.
  destruct (cdispatch v1 r) as [v2 evs] eqn:Ed.
  pose proof (cdispatch_inv cfg v1 r Hs1) as Hd. rewrite Ed in Hd. cbn [fst] in Hd.
  destruct r; try (split; [exact Hd|repeat constructor; exact Hs2]); try congruence;
    (specialize (IH cfg v2 rest Hd); destruct (crx_loop fuel cfg v2 rest) as [[[v3 evs'] calls] oof];
     destruct IH as [I1 I2]; split; [exact I1|constructor; [exact Hs2|exact I2]]).
Qed.

Theorem cfeed_safe cfg frags : forall v, cbody_inv cfg v ->
  let '(v', _, calls, _) := cfeed cfg v frags in cbody_inv cfg v' /\ Forall calls_ok calls.
Proof.
  induction frags as [|f t IH]; intros v Hv; cbn [cfeed]; [split; [exact Hv|constructor]|].
  unfold cread_loop. pose proof (crx_loop_safe (loop_fuel f) cfg v f Hv) as H1.
  destruct (crx_loop (loop_fuel f) cfg v f) as [[[v1 e1] c1] o1]. destruct H1 as [H1 H1'].
  specialize (IH v1 H1). destruct (cfeed cfg v1 t) as [[[v2 e2] c2] o2]. destruct IH as [I1 I2].
  split; [exact I1 | constructor; assumption].
Qed.
