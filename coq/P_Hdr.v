(* P_Hdr.v — the hand-written model of message_headers::parse (M_Parse.hd_parse) computes, for every state of the
   header block and every input, what the body of the C++ function computes - the body as translated from clang's
   AST on this run (Gen_Parse.hd_parse_src), under the meaning of M_Hdr.v, with the calls into the field line running
   the translated field_line functions that P_Imp.v and P_Loop.v relate to the model. *)
From Via Require Import M_Char M_Parse M_Imp M_Loop M_Hdr Gen_Parse P_Imp P_Loop P_Frag.
From Coq Require Import List NArith Bool Lia.
Import ListNotations.
Local Open Scope N_scope.
Arguments nlen : simpl never.
Arguments snoc : simpl never.

Definition hd_store (h : headers) : hstore :=
  mk_hs (hd_fields h) (fl_store (hd_field h)) [b2n (hd_valid h); b2n (hd_fail h); b2n (hd_cr h); hd_length h].
Definition hd_lim (L : limits) (k : nat) : N := nth k [max_hdr_num L; max_hdr_len L] 0.
Definition fl_code_of (L : limits) : fl_code :=
  mk_flc (fl_src L) fl_parse_src fl_clear_src fl_started_src fl_fail_src fl_length_src fl_name_src fl_value_src.

Definition hd_guard : hstmt := HIf (HFlag 1) (HReturn (HConst false)) HSkip.
Definition hd_cond : hexp := HAnd (HAnd (HNot (HFlag 2)) HMore) (HOr HFieldStarted (HNot (HPeek PEol))).
Definition hd_check : hstmt :=
  HIf (HOr (HGt (HNum 3) (HLim 1)) (HGt HFieldsSize (HLim 0))) (HSeq (HSet 1 (HConst true)) (HReturn (HConst false))) HSkip.
Definition hd_body : hstmt :=
  HSeq (HIf (HNot HFieldParse) (HSeq (HSet 1 HFieldFail) (HReturn (HConst false))) HSkip)
       (HSeq (HIf HAtEnd (HReturn (HConst false)) HSkip)
             (HSeq (HAddTo 3 HFieldLength) (HSeq HAddField (HSeq HFieldClear hd_check)))).
Definition hd_while : hstmt := HWhile hd_cond hd_body.
Definition hd_tail : hstmt :=
  HSeq (HIf HAtEnd (HReturn (HConst false)) HSkip)
       (HSeq (HIf (HAnd (HNot (HFlag 2)) (HPeekIs 13)) (HSeq (HSet 2 (HConst true)) HAdvance) HSkip)
             (HSeq (HIf HAtEnd (HReturn (HConst false)) HSkip)
                   (HSeq (HIf (HNot (HPeekIs 10)) (HSeq (HSet 1 (HConst true)) (HReturn (HConst false))) HSkip)
                         (HSeq HAdvance (HSeq (HSet 0 (HConst true)) (HReturn (HFlag 0))))))).

Lemma hd_parse_src_shape : hd_parse_src = HSeq hd_guard (HSeq hd_while hd_tail).
Proof. reflexivity. Qed.

Lemma hexec_seq flim hlim fc fuel a b s :
  hexec flim hlim fc fuel (HSeq a b) s =
  match hexec flim hlim fc fuel a s with Some (LNormal, s1) => hexec flim hlim fc fuel b s1 | r => r end.
Proof. destruct fuel; reflexivity. Qed.

Lemma hexec_while flim hlim fc n c b s :
  hexec flim hlim fc (S n) (HWhile c b) s =
  match heval flim hlim fc (S n) c s with
  | Some (true, s1) => match hexec flim hlim fc (S n) b s1 with Some (LNormal, s2) => hexec flim hlim fc n (HWhile c b) s2 | r => r end
  | Some (false, s1) => Some (LNormal, s1)
  | None => None
  end.
Proof. reflexivity. Qed.

Section WithL.
  Variable L : limits.
  Notation HX := (hexec (fl_lim L) (hd_lim L) (fl_code_of L)).
  Notation HE := (heval (fl_lim L) (hd_lim L) (fl_code_of L)).

  (* the blank line that ends the block *)
  Lemma hd_tail_runs fuel h buf :
    HX fuel hd_tail (mk_hst (hd_store h) buf) =
    (let '(h', rest, p) := hd_blank_line h buf in Some (LRet (is_done p), mk_hst (hd_store h') rest)).
  Proof.
    destruct h as [flds f v fa cr len].
    destruct fuel; unfold hd_tail, hd_blank_line;
      (destruct buf as [|c t]; [reflexivity|]);
      cbn [hexec heval h_in h_store hd_store hs_nums hnum nth M_Parse.hd_cr negb];
      destruct cr; cbn [b2n negb andb N.eqb];
      try (destruct (c =? 13) eqn:E13; cbn [andb]);
      cbn [hexec heval h_in h_store hd_store hs_nums hnum nth hset set_nth b2n negb andb hs_fields hs_field];
      try (destruct t as [|d t1]; [reflexivity|]);
      cbn [hexec heval h_in h_store hd_store hs_nums hnum nth hset set_nth b2n negb andb hs_fields hs_field];
      try (destruct (d =? 10) eqn:E10); try (destruct (c =? 10) eqn:E10');
      cbn [hexec heval h_in h_store hd_store hs_nums hnum nth hset set_nth b2n negb andb hs_fields hs_field N.eqb is_done hd_set_fail
           M_Parse.hd_fields M_Parse.hd_field M_Parse.hd_valid M_Parse.hd_fail M_Parse.hd_cr M_Parse.hd_length];
      reflexivity.
  Qed.

  Lemma hd_tail_fuel n m s : HX n hd_tail s = HX m hd_tail s.
  Proof. destruct n, m; reflexivity. Qed.

  Lemma fl_started_eval f : fst (beval (fl_lim L) 0 fl_started_src (fl_store f)) = fl_started f.
  Proof. destruct f; reflexivity. Qed.
  Lemma fl_fail_eval f : fst (beval (fl_lim L) 0 fl_fail_src (fl_store f)) = fl_fail f.
  Proof. destruct f as [nm vl len ws s fa]; destruct fa; reflexivity. Qed.
  Lemma fl_length_eval f : fst (neval (fl_lim L) 0 fl_length_src (fl_store f)) = fl_len f.
  Proof. destruct f; reflexivity. Qed.

  Definition enter (h : headers) (buf : str) : bool :=
    negb (hd_cr h) && match buf with [] => false | c :: _ => fl_started (hd_field h) || negb (is_end_of_line c) end.

  Lemma hd_cond_eval fuel h buf :
    HE fuel hd_cond (mk_hst (hd_store h) buf) = Some (enter h buf, mk_hst (hd_store h) buf).
  Proof.
    destruct h as [flds f v fa cr len]. unfold hd_cond, enter.
    destruct cr; [reflexivity|]. destruct buf as [|c t]; [reflexivity|].
    cbn [heval h_in h_store hd_store hs_nums hnum nth M_Parse.hd_cr M_Parse.hd_field hs_field fc_started fl_code_of b2n N.eqb negb andb].
    rewrite fl_started_eval.
    destruct (fl_started f); cbn [orb]; [reflexivity|].
    change (cpred_eval PEol c) with (is_end_of_line c). destruct (is_end_of_line c); reflexivity.
  Qed.

  (* the statements of the loop body, one at a time, on any state *)
  Lemma hx_at_end fuel st inp :
    HX fuel (HIf HAtEnd (HReturn (HConst false)) HSkip) (mk_hst st inp) =
    match inp with [] => Some (LRet false, mk_hst st []) | _ :: _ => Some (LNormal, mk_hst st inp) end.
  Proof. destruct fuel, inp; reflexivity. Qed.
  Lemma hx_add_to fuel flds fs nums inp :
    HX fuel (HAddTo 3 HFieldLength) (mk_hst (mk_hs flds fs nums) inp) =
    Some (LNormal, mk_hst (mk_hs flds fs (set_nth nums 3 (nth 3 nums 0 + fst (neval (fl_lim L) 0 fl_length_src fs)))) inp).
  Proof. destruct fuel; reflexivity. Qed.
  Lemma hx_add_field fuel flds fs nums inp :
    HX fuel HAddField (mk_hst (mk_hs flds fs nums) inp) =
    Some (LNormal, mk_hst (mk_hs (fields_add flds (get_str fs fl_name_src) (get_str fs fl_value_src)) fs nums) inp).
  Proof. destruct fuel; reflexivity. Qed.
  Lemma hx_field_clear fuel flds fs nums inp :
    HX fuel HFieldClear (mk_hst (mk_hs flds fs nums) inp) =
    Some (LNormal, mk_hst (mk_hs flds (snd (exec (fl_lim L) 0 fl_clear_src fs)) nums) inp).
  Proof. destruct fuel; reflexivity. Qed.
  Lemma hx_check fuel st inp :
    HX fuel hd_check (mk_hst st inp) =
    if (hd_lim L 1 <? hnum st 3) || (hd_lim L 0 <? N.of_nat (length (hs_fields st)))
    then Some (LRet false, mk_hst (hset st 1 1) inp) else Some (LNormal, mk_hst st inp).
  Proof.
    destruct fuel; unfold hd_check; cbn [hexec heval hneval h_store h_in];
      destruct (hd_lim L 1 <? hnum st 3); cbn [orb]; try reflexivity;
      destruct (hd_lim L 0 <? N.of_nat (length (hs_fields st))); reflexivity.
  Qed.

  Definition result_of (x : headers * str * pres) : option (lout * hstate) :=
    let '(h', rest, p) := x in Some (LRet (is_done p), mk_hst (hd_store h') rest).

  (* one call of field_.parse from the header block *)
  Lemma field_parse_eval fuel h buf : (length buf < fuel)%nat ->
    HE fuel HFieldParse (mk_hst (hd_store h) buf) =
    (let '(f1, rest, p) := fl_parse L (hd_field h) buf in
     Some (is_done p, mk_hst (mk_hs (hd_fields h) (fl_store f1) (hs_nums (hd_store h))) rest)).
  Proof.
    intros Hf. cbn [heval h_store h_in hd_store hs_field hs_fields fc_pc fc_parse fl_code_of].
    rewrite (fl_parse_is_the_source L (hd_field h) buf fuel Hf).
    destruct (fl_parse L (hd_field h) buf) as [[f1 rest] p]. reflexivity.
  Qed.

  Lemma hd_while_runs : forall n h buf, hd_ok h -> (hd_need h buf <= n)%nat ->
    match HX n hd_while (mk_hst (hd_store h) buf) with Some (LNormal, s1) => HX n hd_tail s1 | r => r end =
    result_of (hd_loop n L h buf).
  Proof.
    induction n as [|n IH]; intros h buf Hok Hn; [unfold hd_need in Hn; lia|].
    unfold hd_while. rewrite hexec_while, hd_cond_eval. cbn [hd_loop]. fold (enter h buf).
    destruct (enter h buf) eqn:Eenter.
    2:{ rewrite hd_tail_runs. unfold result_of. reflexivity. }
    assert (Hlen : (length buf < S n)%nat) by (unfold hd_need in Hn; lia).
    unfold hd_body. rewrite hexec_seq.
    assert (E1 : HX (S n) (HIf (HNot HFieldParse) (HSeq (HSet 1 HFieldFail) (HReturn (HConst false))) HSkip) (mk_hst (hd_store h) buf) =
                 (let '(f1, rest, p) := fl_parse L (hd_field h) buf in
                  match p with
                  | Done => Some (LNormal, mk_hst (mk_hs (hd_fields h) (fl_store f1) (hs_nums (hd_store h))) rest)
                  | _ => Some (LRet false, mk_hst (hd_store (mk_hd (hd_fields h) f1 (hd_valid h) (fl_fail f1) (hd_cr h) (hd_length h))) rest)
                  end)).
    { change (HX (S n) (HIf (HNot HFieldParse) (HSeq (HSet 1 HFieldFail) (HReturn (HConst false))) HSkip) (mk_hst (hd_store h) buf))
        with (match (match HE (S n) HFieldParse (mk_hst (hd_store h) buf) with Some (v, s1) => Some (negb v, s1) | None => None end) with
              | Some (v, s1) => if v then HX (S n) (HSeq (HSet 1 HFieldFail) (HReturn (HConst false))) s1 else Some (LNormal, s1)
              | None => None end).
      rewrite (field_parse_eval (S n) h buf Hlen).
      destruct (fl_parse L (hd_field h) buf) as [[f1 rest] p].
      destruct p; cbn [is_done negb]; try reflexivity;
        cbn [hexec heval h_store h_in hs_field hs_fields hs_nums fc_fail fl_code_of]; rewrite fl_fail_eval;
        destruct h; reflexivity. }
    rewrite E1. clear E1.
    destruct (fl_parse L (hd_field h) buf) as [[f1 rest] p] eqn:Ep.
    destruct p; [|destruct (fl_fail f1); reflexivity|destruct (fl_fail f1); reflexivity].
    rewrite hexec_seq, hx_at_end.
    destruct rest as [|d rest'].
    { destruct h; reflexivity. }
    cbv iota beta.
    rewrite hexec_seq, hx_add_to. cbv iota beta.
    rewrite hexec_seq, hx_add_field. cbv iota beta.
    rewrite hexec_seq, hx_field_clear. cbv iota beta.
    rewrite fl_length_eval, fl_clear_is_the_source. cbn [snd].
    replace (get_str (fl_store f1) fl_name_src) with (fl_name f1) by (destruct f1; reflexivity).
    replace (get_str (fl_store f1) fl_value_src) with (fl_value f1) by (destruct f1; reflexivity).
    set (len := hd_length h + fl_len f1).
    set (flds := fields_add (hd_fields h) (fl_name f1) (fl_value f1)).
    set (h1 := mk_hd flds fl_init (hd_valid h) (hd_fail h) (hd_cr h) len).
    assert (Est : mk_hs flds (fl_store fl_init) (set_nth (hs_nums (hd_store h)) 3 (nth 3 (hs_nums (hd_store h)) 0 + fl_len f1)) = hd_store h1)
      by (destruct h; reflexivity).
    rewrite Est. clear Est.
    rewrite hx_check.
    change (hd_lim L 1) with (max_hdr_len L). change (hd_lim L 0) with (max_hdr_num L).
    change (hnum (hd_store h1) 3) with len. change (hs_fields (hd_store h1)) with flds.
    destruct ((max_hdr_len L <? len) || (max_hdr_num L <? N.of_nat (length flds))).
    { reflexivity. }
    (* next turn of the loop, with less fuel; the tail does not use fuel *)
    destruct (fl_parse_props L _ _ _ _ _ Ep) as [A [B C]].
    assert (Hn1 : (hd_need h1 (d :: rest') <= n)%nat).
    { unfold hd_need in *. cbn [hd_field h1]. change (fl_started fl_init) with false. cbv iota.
      destruct (fl_started (hd_field h)) eqn:Es; [lia|].
      assert (E0 : hd_field h = fl_init) by (apply fl_ok_started; assumption).
      assert (buf <> []) by (destruct buf; [unfold enter in Eenter; rewrite Bool.andb_false_r in Eenter; discriminate | discriminate]).
      destruct (C E0 H) as [C1 _]. lia. }
    specialize (IH h1 (d :: rest') fl_ok_init Hn1).
    fold hd_cond hd_check hd_body hd_while.
    destruct (HX n hd_while (mk_hst (hd_store h1) (d :: rest'))) as [[[|v] s2]|]; try exact IH.
    rewrite (hd_tail_fuel (S n) n). exact IH.
  Qed.
End WithL.

(* message_headers::parse: for every header block whose field line, if it has consumed nothing, is the initial one
   (hd_ok: true initially and kept by every parse - P_Frag.hd_loop_ok), every input and every fuel of at least the
   length of the input plus two *)
Theorem hd_parse_is_the_source L h buf fuel : hd_ok h -> (length buf + 2 <= fuel)%nat ->
  hrun (fl_lim L) (hd_lim L) (fl_code_of L) fuel hd_parse_src (hd_store h) buf =
  Some (let '(h', rest, p) := hd_parse L h buf in (is_done p, hd_store h', rest)).
Proof.
  intros Hok Hf. rewrite hd_parse_src_shape. unfold hrun, hd_parse. rewrite hexec_seq.
  assert (E1 : hexec (fl_lim L) (hd_lim L) (fl_code_of L) fuel hd_guard (mk_hst (hd_store h) buf) =
               if hd_fail h then Some (LRet false, mk_hst (hd_store h) buf) else Some (LNormal, mk_hst (hd_store h) buf)).
  { destruct h as [flds f v fa cr len]; destruct fuel, fa; reflexivity. }
  rewrite E1. destruct (hd_fail h); [reflexivity|].
  rewrite hexec_seq.
  assert (Hn : (hd_need h buf <= fuel)%nat) by (unfold hd_need; destruct (fl_started (hd_field h)); lia).
  pose proof (hd_while_runs L fuel h buf Hok Hn) as HW.
  rewrite (hd_loop_fuel L (S (S (length buf))) fuel h buf Hok) by (try exact Hn; unfold hd_need; destruct (fl_started (hd_field h)); lia).
  rewrite HW. unfold result_of. destruct (hd_loop fuel L h buf) as [[h' rest] p]. reflexivity.
Qed.

(* message_headers::clear(): whatever the header block holds, it is reset to the model's initial one *)
Theorem hd_clear_is_the_source L fuel h inp :
  hexec (fl_lim L) (hd_lim L) (fl_code_of L) fuel hd_clear_src (mk_hst (hd_store h) inp) = Some (LNormal, mk_hst (hd_store hd_init) inp).
Proof.
  destruct h as [flds f v fa cr len]. unfold hd_clear_src, hd_store.
  destruct fuel; cbn [hexec heval h_store h_in hs_fields hs_field hs_nums hset set_nth b2n fc_clear fl_code_of
                      M_Parse.hd_fields M_Parse.hd_field M_Parse.hd_valid M_Parse.hd_fail M_Parse.hd_cr M_Parse.hd_length hd_init];
    rewrite fl_clear_is_the_source; reflexivity.
Qed.
