(* Properties_C10.v — C10: lifecycle events are paired and the server forgets closed connections. *)
From Via Require Import M_Char M_Encode M_Parse M_Receive M_Server P_Server.
Local Open Scope N_scope.

From Via Require Import P_C09 P_Shapes.

(* in every reachable state: a connection known to http_server is known to comms::server, is
   connected and its socket is open; so the collections never hold a closed connection *)
Theorem C10_collections_consistent : forall recipe_of o evs,
  Forall conn_ok (w_conns (fst (run recipe_of o w_init evs))).
Proof. exact run_conn_ok. Qed.

Print Assumptions C10_collections_consistent.
