(* Properties_C10.v — C10: lifecycle events are paired and the server forgets closed connections. *)
From Via Require Import M_Char M_Encode M_Parse M_Receive M_Server P_Server.
Local Open Scope N_scope.

From Via Require Import P_C09 P_Shapes P_C10.

(* in every reachable state: a connection known to http_server is known to comms::server, is
   connected and its socket is open; so the collections never hold a closed connection *)
Theorem C10_collections_consistent : forall recipe_of o evs,
  Forall conn_ok (w_conns (fst (run recipe_of o w_init evs))).
Proof. exact run_conn_ok. Qed.

(* over every history - any interleaving, over any number of connections, of accepts (filter accepts or refuses,
   handshake succeeds or fails), request fragments, responses, application disconnects, errors and aborted
   completions of every kind, server shutdown / close / destruction: the events the application sees for each
   connection are accepted by the lifecycle monitor life_run (P_C10.v):
     connected      only when the connection has not been connected before,
     disconnected   only while it is connected (so at most once, and only after connected),
     request, chunk, expect-continue, invalid-request, message-sent   only while it is connected
   (so nothing after disconnected).  None means the monitor has refused an event. *)
Theorem C10_lifecycle_events_are_paired : forall recipe_of o evs,
  life_run (fun _ => Lnone) (snd (run recipe_of o w_init evs)) <> None.
Proof. exact lifecycle_paired. Qed.

(* ... and the monitor's "connected" is exactly http_server's record of the connection, in every reachable state *)
Theorem C10_connected_iff_recorded : forall recipe_of o evs,
  exists s, life_run (fun _ => Lnone) (snd (run recipe_of o w_init evs)) = Some s /\
            forall c, In c (w_conns (fst (run recipe_of o w_init evs))) -> (s (c_id c) = Lconn <-> c_in_http c = true).
Proof.
  intros recipe_of o evs. destruct (run_ok recipe_of o evs w_init _ Inv_init) as [s [R (_ & _ & _ & H & _)]].
  exists s. split; [exact R | exact H].
Qed.

(* the monitor is not vacuous: it refuses a second connected, a disconnected without connected, and a request after
   disconnected; and a plain history is accepted with the connection ending in the disconnected state *)
Example C10_example_monitor_refuses :
  life_run (fun _ => Lnone) [LConnected 1; LConnected 1] = None /\
  life_run (fun _ => Lnone) [LDisconnected 1] = None /\
  life_run (fun _ => Lnone) [LConnected 1; LDisconnected 1; LSent 1] = None /\
  life_run (fun _ => Lnone) [LConnected 1; LDisconnected 1; LDisconnected 1] = None.
Proof. repeat split; reflexivity. Qed.

Example C10_example_history :
  let cfg := mk_rcfg (mk_limits 8190 8 100 65534 1024 8 65534 65534 false) 1048576 1048576 true true false in
  let o := mk_sopts false 0 false false false false false cfg in
  let rq := [71;69;84;32;47;32;72;84;84;80;47;49;46;48;13;10;13;10] in
  let log := snd (run (fun _ => mk_recipe 200 2 1 []) o w_init [([], EvAccept true); ([], EvRead 1 rq); ([], EvWriteDone 1)]) in
  In (LConnected 1) log /\ In (LDisconnected 1) log /\
  match life_run (fun _ => Lnone) log with Some s => s 1%nat = Ldisc | None => False end.
Proof. vm_compute. repeat split; repeat (first [left; reflexivity | right]). Qed.

Print Assumptions C10_collections_consistent.
Print Assumptions C10_lifecycle_events_are_paired.
Print Assumptions C10_connected_iff_recorded.
