(* M_Router.v — character.hpp split, request_uri, request_router.hpp (get_route_parameters,
   Route, find_route, add_method, handle_request) and the segment-wise specification RouterSpec.
   Definitions only. *)
From Via Require Export M_Char.
Local Open Scope N_scope.

(* ---- split(input, delimiter): the pieces between the delimiters ---------------------- *)
Fixpoint split_acc (d : byte) (s : str) (cur : str) : list str :=
  match s with
  | [] => [rev cur]
  | c :: t => if c =? d then rev cur :: split_acc d t [] else split_acc d t (c :: cur)
  end.
Definition split (d : byte) (s : str) : list str := split_acc d s [].

(* const char* construction from data(): stops at the first NUL *)
Fixpoint c_trunc (s : str) : str :=
  match s with
  | [] => []
  | c :: t => if c =? 0 then [] else c :: c_trunc t
  end.

(* ---- request_uri: the path is the target up to the first '?' or '#' ------------------ *)
Definition uri_path (uri : str) : str :=
  let p := uri in
  match find_char 63 p, find_char 35 p with
  | Some q, Some f => if Nat.ltb q f then firstn q p else firstn f p
  | Some q, None => firstn q p
  | None, Some f => firstn f p
  | None, None => p
  end.

(* ---- Parameters: std::map<string,string>; insert keeps an existing entry -------------- *)
Definition Parameters := list (str * str).

Fixpoint params_mem (k : str) (p : Parameters) : bool :=
  match p with
  | [] => false
  | (k', _) :: t => str_eqb k' k || params_mem k t
  end.
Definition params_insert (p : Parameters) (k v : str) : Parameters :=
  if params_mem k p then p else p ++ [(k, v)].

Definition is_param_name (n : str) : bool :=
  match n with c :: _ => c =? 58 | [] => false end.

(* the loop of get_route_parameters over names[i] / values[i] *)
Fixpoint match_names (names values : list str) (acc : Parameters) : option Parameters :=
  match names, values with
  | [], _ => Some acc
  | n :: ns, v :: vs =>
      if is_param_name n then match_names ns vs (params_insert acc (tl n) v)
      else if str_eqb n v then match_names ns vs acc
      else None
  | _ :: _, [] => None
  end.

(* get_route_parameters(uri_path, route_path).  None = std::out_of_range from substr. *)
Definition get_route_parameters (upath rpath : str) : option Parameters :=
  match find_char 58 rpath with
  | None => Some []
  | Some ps =>
      if Nat.ltb (length upath) ps then None
      else
        let names := split 47 (skipn ps rpath) in
        let values := split 47 (skipn ps upath) in
        if Nat.eqb (length names) (length values)
        then match match_names names values [] with Some p => Some p | None => Some [] end
        else Some []
  end.

(* ---- routes ------------------------------------------------------------------------- *)
(* handler = an identifier; auth = index into a table of authenticators, if any *)
Record method_entry := { me_method : str; me_handler : nat; me_auth : option nat }.
Record route := { r_path : str; r_search : str; r_methods : list method_entry }.

Definition search_path_of (path : str) : str :=
  match find_char 58 path with Some i => firstn i path | None => path end.

Definition has_parameters (r : route) : bool := negb (Nat.eqb (length (r_path r)) (length (r_search r))).

Fixpoint find_method (m : str) (l : list method_entry) : option method_entry :=
  match l with
  | [] => None
  | e :: t => if str_eqb (me_method e) m then Some e else find_method m t
  end.

(* std::map::insert: an existing method keeps its handler *)
Definition methods_insert (l : list method_entry) (e : method_entry) : list method_entry :=
  match find_method (me_method e) l with Some _ => l | None => l ++ [e] end.

Fixpoint add_to_routes (rs : list route) (path : str) (e : method_entry) : list route * bool :=
  match rs with
  | [] => ([ {| r_path := path; r_search := search_path_of path; r_methods := [e] |} ], true)
  | r :: t =>
      if str_eqb (r_path r) path
      then ({| r_path := r_path r; r_search := r_search r; r_methods := methods_insert (r_methods r) e |} :: t, false)
      else let (t', b) := add_to_routes t path e in (r :: t', b)
  end.

(* add_method(method, path, handler, auth): path.data() is a C string *)
Definition add_method (rs : list route) (m path : str) (h : nat) (a : option nat) : list route * bool :=
  add_to_routes rs (c_trunc path) {| me_method := m; me_handler := h; me_auth := a |}.

(* find_route: first route, in registration order, that matches *)
Inductive found := Found (r : route) (p : Parameters) | NoRoute | RouteThrow.

Fixpoint find_route (rs : list route) (upath : str) : found :=
  match rs with
  | [] => NoRoute
  | r :: t =>
      if is_prefix (r_search r) upath then
        if has_parameters r then
          match get_route_parameters upath (r_path r) with
          | None => RouteThrow
          | Some [] => find_route t upath
          | Some p => Found r p
          end
        else if Nat.eqb (length upath) (length (r_search r)) then Found r []
        else find_route t upath
      else find_route t upath
  end.

(* Route::allowed_methods(): the map's keys in order, joined with ", " *)
Fixpoint str_ltb (a b : str) : bool :=
  match a, b with
  | [], [] => false
  | [], _ :: _ => true
  | _ :: _, [] => false
  | x :: a', y :: b' => (x <? y) || ((x =? y) && str_ltb a' b')
  end.

Fixpoint insert_sorted (x : str) (l : list str) : list str :=
  match l with
  | [] => [x]
  | y :: t => if str_ltb x y then x :: l else y :: insert_sorted x t
  end.
Definition sort_strs (l : list str) : list str := fold_right insert_sorted [] l.

Fixpoint join_with (sep : str) (l : list str) : str :=
  match l with
  | [] => []
  | [x] => x
  | x :: t => x ++ sep ++ join_with sep t
  end.

Definition allowed_methods (r : route) : str :=
  join_with [44; 32] (sort_strs (map me_method (r_methods r))).

(* handle_request, up to the point where the handler (or the authenticator) is called *)
Inductive dispatch_result :=
  | DHandler (h : nat) (auth : option nat) (p : Parameters)
  | DNotFound
  | DNotAllowed (allow : str)
  | DThrow.

Definition handle_request (rs : list route) (method target : str) : dispatch_result :=
  match find_route rs (uri_path target) with
  | RouteThrow => DThrow
  | NoRoute => DNotFound
  | Found r p =>
      match find_method method (r_methods r) with
      | None => DNotAllowed (allowed_methods r)
      | Some e => DHandler (me_handler e) (me_auth e) p
      end
  end.

(* ---- RouterSpec: matching segment by segment ----------------------------------------- *)
Fixpoint seg_match (pat tgt : list str) (acc : Parameters) : option Parameters :=
  match pat, tgt with
  | [], [] => Some acc
  | n :: ns, v :: vs =>
      if is_param_name n then seg_match ns vs (params_insert acc (tl n) v)
      else if str_eqb n v then seg_match ns vs acc
      else None
  | _, _ => None
  end.

Definition pattern_match (pattern path : str) : option Parameters :=
  seg_match (split 47 pattern) (split 47 path) [].

Fixpoint spec_find (rs : list route) (path : str) : option (route * Parameters) :=
  match rs with
  | [] => None
  | r :: t =>
      match pattern_match (r_path r) path with
      | Some p => Some (r, p)
      | None => spec_find t path
      end
  end.

(* the path of a target: everything before the first '?' or '#' *)
Fixpoint spec_path (target : str) : str :=
  match target with
  | [] => []
  | c :: t => if (c =? 63) || (c =? 35) then [] else c :: spec_path t
  end.

Definition dispatch (rs : list route) (method target : str) : dispatch_result :=
  match spec_find rs (spec_path target) with
  | None => DNotFound
  | Some (r, p) =>
      match find_method method (r_methods r) with
      | None => DNotAllowed (allowed_methods r)
      | Some e => DHandler (me_handler e) (me_auth e) p
      end
  end.

(* table built by a list of registrations *)
Record registration := { g_method : str; g_path : str; g_handler : nat; g_auth : option nat }.
Definition build_table (regs : list registration) : list route :=
  fold_left (fun rs g => fst (add_method rs (g_method g) (g_path g) (g_handler g) (g_auth g))) regs [].

(* well-formed pattern: no NUL, every ':' starts a segment (is preceded by '/') *)
Fixpoint colons_ok (prev : byte) (s : str) : bool :=
  match s with
  | [] => true
  | c :: t => (negb (c =? 58) || (prev =? 47)) && negb (c =? 0) && colons_ok c t
  end.
Definition wf_pattern (p : str) : bool := colons_ok 0 p.
