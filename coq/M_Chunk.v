(* M_Chunk.v — the fifth layer of the small imperative language: the body of rx_chunk::parse(iter, end) as clang's AST
   gives it: the chunk-size line (the base class) unless it is already valid; for the last chunk the trailers (a header
   block); otherwise the data, as many bytes as the size line announces, and the CR LF behind them.  The calls run the
   TRANSLATED functions of the layers below (the size line's parse loop, message_headers::parse, the accessors).
   std::ptrdiff_t is a signed 64-bit number: a conversion from size_t wraps, a subtraction that leaves the range is
   `None` (undefined in C++); `iter + n` beyond `end`, `*iter` or `++iter` at `end` and a failing inner run are `None`
   as well.  The theorems of P_Chunk.v show that none of these happens. *)
From Via Require Import M_Char M_Parse M_Imp M_Loop M_Hdr M_Msg.
From Coq Require Import List NArith ZArith Bool.
Import ListNotations.
Local Open Scope N_scope.

(* the translated functions of the chunk-size line that rx_chunk::parse calls *)
Record size_line_code := mk_slc { kc_pc : stmt; kc_parse : lstmt; kc_valid : bexp; kc_size : nexp; kc_is_last : bexp; kc_clear : stmt; kc_fail : bexp }.

Record cstore := mk_cs { cs_hdr : store; cs_data : str; cs_trailers : hstore; cs_nums : list N }.   (* valid_, cr_, fail_ *)
Record cstate := mk_cst { c_store : cstore; c_in : str; c_req : Z; c_rx : Z; c_next : str }.

Inductive czexp :=
  | CZReq | CZRx                             (* the locals data_required, rx_size *)
  | CZLit (z : Z)
  | CZHdrSize                                (* static_cast<std::ptrdiff_t>(ChunkHeader::size()) *)
  | CZDataSize                               (* static_cast<std::ptrdiff_t>(data_.size()) *)
  | CZDistance                               (* std::distance(iter, end) *)
  | CZSub (a b : czexp).

Inductive cexp :=
  | CFlag (k : nat)
  | CNot (a : cexp) | CAnd (a b : cexp) | COr (a b : cexp)
  | CHdrValid | CHdrParse | CHdrIsLast       (* ChunkHeader::valid(), ::parse(iter, end), ::is_last() *)
  | CTrailersParse                           (* trailers_.parse(iter, end) *)
  | CHdrFail | CTrailersFail                 (* ChunkHeader::fail(), trailers_.fail() *)
  | CAtEnd                                   (* iter == end *)
  | CPeekIs (ch : N)                         (* 'x' == *iter *)
  | CZGt (a b : czexp)
  | CConst (v : bool).

Inductive cstmt :=
  | CSkip
  | CSeq (a b : cstmt)
  | CIf (c : cexp) (t e : cstmt)
  | CReturn (e : cexp)
  | CSet (k : nat) (e : cexp)                (* bool member = e *)
  | CLetReq (e : czexp) | CLetRx (e : czexp) (* the declarations of data_required and rx_size *)
  | CLetNext                                 (* ForwardIterator next(iter + data_required) *)
  | CInsertToNext                            (* data_.insert(data_.end(), iter, next) *)
  | CJumpNext                                (* iter = next *)
  | CInsertRest                              (* data_.insert(data_.end(), iter, end) *)
  | CJumpEnd                                 (* iter = end *)
  | CAdvance                                 (* ++iter *)
  | CHdrClear                                (* ChunkHeader::clear() *)
  | CDataClear                               (* data_.clear() *)
  | CTrailersClear.                          (* trailers_.clear() *)

Definition two63 : Z := 9223372036854775808%Z.
Definition to_ptrdiff (n : N) : Z := if n <? 9223372036854775808 then Z.of_N n else (Z.of_N n - 2 * two63)%Z.
Definition in_ptrdiff (z : Z) : bool := ((- two63 <=? z) && (z <? two63))%Z.

Section Chunk.
  Variable klim : nat -> N.                  (* the limits of the size line *)
  Variable flim : nat -> N.                  (* the limits of a field line *)
  Variable hlim : nat -> N.                  (* the limits of the header block *)
  Variable kc : size_line_code.
  Variable hc : hdr_code.
  Variable fuel : nat.

  Fixpoint czeval (e : czexp) (s : cstate) : option Z :=
    match e with
    | CZReq => Some (c_req s)
    | CZRx => Some (c_rx s)
    | CZLit z => Some z
    | CZHdrSize => Some (to_ptrdiff (fst (neval klim 0 (kc_size kc) (cs_hdr (c_store s)))))
    | CZDataSize => Some (to_ptrdiff (nlen (cs_data (c_store s))))
    | CZDistance => Some (Z.of_nat (length (c_in s)))
    | CZSub a b =>
        match czeval a s, czeval b s with
        | Some x, Some y => if in_ptrdiff (x - y) then Some (x - y)%Z else None
        | _, _ => None
        end
    end.

  Definition cnum (st : cstore) (k : nat) : N := nth k (cs_nums st) 0.
  Definition cset (st : cstore) (k : nat) (v : N) : cstore := mk_cs (cs_hdr st) (cs_data st) (cs_trailers st) (set_nth (cs_nums st) k v).
  Definition with_store (s : cstate) (st : cstore) : cstate := mk_cst st (c_in s) (c_req s) (c_rx s) (c_next s).
  Definition with_in (s : cstate) (i : str) : cstate := mk_cst (c_store s) i (c_req s) (c_rx s) (c_next s).

  Fixpoint ceval (e : cexp) (s : cstate) : option (bool * cstate) :=
    match e with
    | CFlag k => Some (negb (cnum (c_store s) k =? 0), s)
    | CNot a => match ceval a s with Some (v, s1) => Some (negb v, s1) | None => None end
    | CAnd a b => match ceval a s with Some (true, s1) => ceval b s1 | r => r end
    | COr a b => match ceval a s with Some (false, s1) => ceval b s1 | r => r end
    | CHdrValid => Some (fst (beval klim 0 (kc_valid kc) (cs_hdr (c_store s))), s)
    | CHdrIsLast => Some (fst (beval klim 0 (kc_is_last kc) (cs_hdr (c_store s))), s)
    | CHdrParse =>
        match lrun klim (kc_pc kc) fuel (kc_parse kc) (cs_hdr (c_store s)) (c_in s) with
        | Some (v, h1, rest) =>
            let st := c_store s in
            Some (v, mk_cst (mk_cs h1 (cs_data st) (cs_trailers st) (cs_nums st)) rest (c_req s) (c_rx s) (c_next s))
        | None => None
        end
    | CTrailersParse =>
        match hrun flim hlim (hc_field hc) fuel (hc_parse hc) (cs_trailers (c_store s)) (c_in s) with
        | Some (v, t1, rest) =>
            let st := c_store s in
            Some (v, mk_cst (mk_cs (cs_hdr st) (cs_data st) t1 (cs_nums st)) rest (c_req s) (c_rx s) (c_next s))
        | None => None
        end
    | CHdrFail => Some (fst (beval klim 0 (kc_fail kc) (cs_hdr (c_store s))), s)
    | CTrailersFail =>
        match heval flim hlim (hc_field hc) fuel (hc_fail hc) (mk_hst (cs_trailers (c_store s)) (c_in s)) with
        | Some (v, _) => Some (v, s)
        | None => None
        end
    | CAtEnd => Some (match c_in s with [] => true | _ => false end, s)
    | CPeekIs ch => match c_in s with [] => None | x :: _ => Some (x =? ch, s) end
    | CZGt a b => match czeval a s, czeval b s with Some x, Some y => Some ((y <? x)%Z, s) | _, _ => None end
    | CConst v => Some (v, s)
    end.

  Fixpoint cexec (st : cstmt) (s : cstate) : option (lout * cstate) :=
    match st with
    | CSkip => Some (LNormal, s)
    | CSeq a b => match cexec a s with Some (LNormal, s1) => cexec b s1 | r => r end
    | CIf c t e => match ceval c s with Some (v, s1) => if v then cexec t s1 else cexec e s1 | None => None end
    | CReturn e => match ceval e s with Some (v, s1) => Some (LRet v, s1) | None => None end
    | CSet k e => match ceval e s with Some (v, s1) => Some (LNormal, with_store s1 (cset (c_store s1) k (b2n v))) | None => None end
    | CLetReq e => match czeval e s with Some z => Some (LNormal, mk_cst (c_store s) (c_in s) z (c_rx s) (c_next s)) | None => None end
    | CLetRx e => match czeval e s with Some z => Some (LNormal, mk_cst (c_store s) (c_in s) (c_req s) z (c_next s)) | None => None end
    | CLetNext =>
        (* iter + data_required must stay within [iter, end] *)
        if ((0 <=? c_req s) && (c_req s <=? Z.of_nat (length (c_in s))))%Z
        then Some (LNormal, mk_cst (c_store s) (c_in s) (c_req s) (c_rx s) (skipn (Z.to_nat (c_req s)) (c_in s)))
        else None
    | CInsertToNext =>
        let st := c_store s in
        let taken := firstn (length (c_in s) - length (c_next s)) (c_in s) in
        Some (LNormal, with_store s (mk_cs (cs_hdr st) (cs_data st ++ taken) (cs_trailers st) (cs_nums st)))
    | CJumpNext => Some (LNormal, with_in s (c_next s))
    | CInsertRest =>
        let st := c_store s in
        Some (LNormal, with_store s (mk_cs (cs_hdr st) (cs_data st ++ c_in s) (cs_trailers st) (cs_nums st)))
    | CJumpEnd => Some (LNormal, with_in s [])
    | CAdvance => match c_in s with [] => None | _ :: t => Some (LNormal, with_in s t) end
    | CHdrClear =>
        let st := c_store s in
        Some (LNormal, with_store s (mk_cs (snd (exec klim 0 (kc_clear kc) (cs_hdr st))) (cs_data st) (cs_trailers st) (cs_nums st)))
    | CDataClear =>
        let st := c_store s in Some (LNormal, with_store s (mk_cs (cs_hdr st) [] (cs_trailers st) (cs_nums st)))
    | CTrailersClear =>
        let st := c_store s in
        match hexec flim hlim (hc_field hc) fuel (hc_clear hc) (mk_hst (cs_trailers st) (c_in s)) with
        | Some (LNormal, s1) => Some (LNormal, with_store s (mk_cs (cs_hdr st) (cs_data st) (h_store s1) (cs_nums st)))
        | _ => None
        end
    end.

  Definition crun (body : cstmt) (st : cstore) (input : str) : option (bool * cstore * str) :=
    match cexec body (mk_cst st input 0 0 []) with
    | Some (LRet v, s) => Some (v, c_store s, c_in s)
    | _ => None
    end.
End Chunk.
