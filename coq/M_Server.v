(* M_Server.v — comms::connection, http_connection, comms::server and http_server as one state
   machine over an explicit event alphabet, with the socket adaptor as a parameter (plain TCP shape
   or TLS shape) and a scripted application.  The environment (the schedule) chooses which pending
   operation completes next and how.  One pending read, one pending write, one pending handshake
   and one pending TLS shutdown per socket; closing a socket turns its pending operations into
   aborted completions that are delivered later.
   Histories in which the library is used outside its sequential discipline (a send while a write
   is in flight, bytes processed for a connection that has already been erased) are marked
   LUndefined at that point: the model says nothing further about them (known findings F06/F07/F35).
   Definitions only. *)
From Via Require Export M_Receive M_Encode.
Local Open Scope N_scope.

Inductive errc :=
  | EC_ok | EC_eof | EC_reset | EC_aborted | EC_refused | EC_badf | EC_timedout | EC_pipe
  | EC_cancel | EC_sslshut | EC_sslerr | EC_other.

Definition is_error_a_disconnect (e : errc) : bool :=
  match e with EC_eof | EC_refused | EC_reset | EC_aborted | EC_badf => true | _ => false end.
(* ssl_tcp_adaptor::is_disconnect / is_shutdown (never true for tcp_adaptor) *)
Definition is_ssl_disconnect (tls : bool) (e : errc) : bool :=
  tls && match e with EC_sslshut | EC_sslerr => true | _ => false end.
Definition is_ssl_shutdown (tls : bool) (e : errc) : bool :=
  tls && match e with EC_sslerr => true | _ => false end.

Inductive slot := SHeader | SBody | SCrlf | SApp (k : nat).

Record recipe := mk_recipe { rp_status : N; rp_len : nat; rp_ov : N; rp_hdrs : str }.

Record conn := mk_conn
  { c_id : nat;
    (* comms::connection *)
    c_transmitting : bool; c_connected : bool; c_disc_pending : bool; c_shutdown_sent : bool;
    (* the socket *)
    c_closed : bool; c_read_pending : bool; c_handshake_pending : bool; c_tls_shutdown_pending : bool;
    c_write : option (list slot * str);
    (* owned by comms::server::connections_ / http_server::http_connections_ *)
    c_in_comms : bool; c_in_http : bool;
    (* http_connection *)
    c_rx : receiver; c_tx_header : str; c_tx_body : str;
    (* the scripted application *)
    c_pending : list recipe; c_keep : list str; c_chunks_left : nat; c_last_due : bool }.

Inductive logitem :=
  | LMark (e : str)
  | LStart (id : nat) | LHandshake (id : nat) | LRead (id : nat)
  | LWrite (id : nat) (bytes : str) | LWire (id : nat) (bytes : str) | LStale (id : nat)
  | LShutdown (id : nat) | LTruncated (id : nat) | LCancel (id : nat) | LTlsShutdown (id : nat)
  | LClose (id : nat) | LAborted (id : nat) (kind : N)
  | LConnected (id : nat) | LDisconnected (id : nat)
  | LReq (id : nat) (method uri : str) (major minor : byte) (body : str)
  | LChunk (id : nat) (size : N) (data : str) (last : bool)
  | LContinue (id : nat) | LInvalid (id : nat) (code : N) | LSent (id : nat)
  | LSend (id : nat) (what : N) (ok : bool)        (* 0 send, 1 send_chunk, 2 last_chunk *)
  | LNo (id : nat) (what : N)                        (* 0 read 1 write 2 handshake 3 shutdown 4 pending 5 conn gone *)
  | LAppDisconnect (id : nat)
  | LServer (what : N)                               (* 0 shutdown 1 close 2 destroy 3 tick *)
  | LSizes (nhttp ncomms : nat) | LGone
  | LUndefined.

Record sopts := mk_sopts
  { o_tls : bool; o_app : N (* 0 sync 1 async 2 none *); o_chunk : bool; o_cont : bool; o_inv : bool;
    o_trace : bool; o_autod : bool; o_cfg : rcfg }.

Record world := mk_world
  { w_conns : list conn; w_next : nat; w_shutting_down : bool; w_open : bool; w_alive : bool;
    w_aborted : list (nat * N); w_reqno : nat; w_undefined : bool }.

Definition w_init : world := mk_world [] 0 false true true [] 0 false.

Definition new_conn (cfg : rcfg) (id : nat) : conn :=
  mk_conn id false false false false false false false false None true false (rv_init cfg) [] [] [] [] 0 false.

(* ---- record updates --------------------------------------------------------------------- *)
Fixpoint find_conn (id : nat) (l : list conn) : option conn :=
  match l with
  | [] => None
  | c :: t => if Nat.eqb (c_id c) id then Some c else find_conn id t
  end.

Fixpoint put_conn (c : conn) (l : list conn) : list conn :=
  match l with
  | [] => []
  | d :: t => if Nat.eqb (c_id d) (c_id c) then c :: t else d :: put_conn c t
  end.

Definition set_conns (w : world) (l : list conn) : world :=
  mk_world l (w_next w) (w_shutting_down w) (w_open w) (w_alive w) (w_aborted w) (w_reqno w) (w_undefined w).
Definition upd (w : world) (c : conn) : world := set_conns w (put_conn c (w_conns w)).
Definition set_undefined (w : world) : world :=
  mk_world (w_conns w) (w_next w) (w_shutting_down w) (w_open w) (w_alive w) (w_aborted w) (w_reqno w) true.
Definition add_aborted (w : world) (l : list (nat * N)) : world :=
  mk_world (w_conns w) (w_next w) (w_shutting_down w) (w_open w) (w_alive w) (w_aborted w ++ l) (w_reqno w) (w_undefined w).

Definition live (c : conn) : bool := c_in_comms c.      (* the comms connection object exists *)

Definition count_http (w : world) : nat := length (filter c_in_http (w_conns w)).
Definition count_comms (w : world) : nat := length (filter c_in_comms (w_conns w)).

(* ---- the socket -------------------------------------------------------------------------- *)
(* pending reads and writes (and, on close, handshake and TLS shutdown) become aborted completions *)
Definition cancel_pending (c : conn) (on_close : bool) : conn * list (nat * N) :=
  let r := if c_read_pending c then [(c_id c, 0)] else [] in
  let wv := match c_write c with Some _ => [(c_id c, 1)] | None => [] end in
  let h := if on_close && c_handshake_pending c then [(c_id c, 2)] else [] in
  let s := if on_close && c_tls_shutdown_pending c then [(c_id c, 3)] else [] in
  (mk_conn (c_id c) (c_transmitting c) (c_connected c) (c_disc_pending c) (c_shutdown_sent c)
           (c_closed c) false (if on_close then false else c_handshake_pending c)
           (if on_close then false else c_tls_shutdown_pending c) None
           (c_in_comms c) (c_in_http c) (c_rx c) (c_tx_header c) (c_tx_body c)
           (c_pending c) (c_keep c) (c_chunks_left c) (c_last_due c),
   r ++ wv ++ h ++ s).

Definition sock_close (w : world) (c : conn) : world * list logitem :=
  if c_closed c then (w, [])
  else
    let '(c1, ab) := cancel_pending c true in
    let c2 := mk_conn (c_id c1) (c_transmitting c1) (c_connected c1) (c_disc_pending c1) (c_shutdown_sent c1)
                      true (c_read_pending c1) (c_handshake_pending c1) (c_tls_shutdown_pending c1) (c_write c1)
                      (c_in_comms c1) (c_in_http c1) (c_rx c1) (c_tx_header c1) (c_tx_body c1)
                      (c_pending c1) (c_keep c1) (c_chunks_left c1) (c_last_due c1) in
    (add_aborted (upd w c2) ab, [LClose (c_id c)]).

Definition set_read_pending (c : conn) : conn :=
  mk_conn (c_id c) (c_transmitting c) (c_connected c) (c_disc_pending c) (c_shutdown_sent c)
          (c_closed c) true (c_handshake_pending c) (c_tls_shutdown_pending c) (c_write c)
          (c_in_comms c) (c_in_http c) (c_rx c) (c_tx_header c) (c_tx_body c)
          (c_pending c) (c_keep c) (c_chunks_left c) (c_last_due c).

Definition enable_reception (w : world) (id : nat) : world * list logitem :=
  match find_conn id (w_conns w) with
  | Some c => (upd w (set_read_pending c), [LRead id])
  | None => (w, [])
  end.

(* ---- http_server::close(), reached from the last disconnect during a shutdown, from close() and
   from the destructor ------------------------------------------------------------------------ *)
Fixpoint close_all (w : world) (ids : list nat) (f : world -> conn -> world * list logitem) : world * list logitem :=
  match ids with
  | [] => (w, [])
  | id :: t =>
      match find_conn id (w_conns w) with
      | Some c => let '(w1, l1) := f w c in let '(w2, l2) := close_all w1 t f in (w2, l1 ++ l2)
      | None => close_all w t f
      end
  end.

Definition drop_http (w : world) (c : conn) : world * list logitem :=
  (* erase from http_connections_: ~http_connection closes the socket *)
  let c1 := mk_conn (c_id c) (c_transmitting c) (c_connected c) (c_disc_pending c) (c_shutdown_sent c)
                    (c_closed c) (c_read_pending c) (c_handshake_pending c) (c_tls_shutdown_pending c) (c_write c)
                    (c_in_comms c) false (c_rx c) (c_tx_header c) (c_tx_body c)
                    (c_pending c) (c_keep c) (c_chunks_left c) (c_last_due c) in
  sock_close (upd w c1) c1.

(* erase from connections_ (on every path the http_connections_ entry has gone before; it is cleared
   here as well so that the invariant "known to http_server => known to comms::server" is local) *)
Definition drop_comms (w : world) (c : conn) : world * list logitem :=
  let c1 := mk_conn (c_id c) (c_transmitting c) (c_connected c) (c_disc_pending c) (c_shutdown_sent c)
                    (c_closed c) (c_read_pending c) (c_handshake_pending c) (c_tls_shutdown_pending c) (c_write c)
                    false false (c_rx c) (c_tx_header c) (c_tx_body c)
                    (c_pending c) (c_keep c) (c_chunks_left c) (c_last_due c) in
  sock_close (upd w c1) c1.

Definition ids_where (p : conn -> bool) (w : world) : list nat := map c_id (filter p (w_conns w)).

(* the socket of a connection that is being dropped: closed, nothing pending any more *)
Definition kill (c : conn) : conn :=
  mk_conn (c_id c) (c_transmitting c) (c_connected c) (c_disc_pending c) (c_shutdown_sent c)
          true false false false None false false (c_rx c) (c_tx_header c) (c_tx_body c)
          (c_pending c) (c_keep c) (c_chunks_left c) (c_last_due c).

Definition close_log (c : conn) : list logitem := if c_closed c then [] else [LClose (c_id c)].
Definition close_aborts (c : conn) : list (nat * N) := if c_closed c then [] else snd (cancel_pending c true).

(* http_server::close(): the disconnected handler for every open http connection, then
   http_connections_ is cleared (each ~http_connection closes its socket), the acceptors are closed
   and connections_ is cleared *)
Definition server_close_except (held : option nat) (w : world) : world * list logitem :=
  let spared c := match held with Some h => Nat.eqb (c_id c) h | None => false end in
  let http := filter (fun c => c_in_http c && negb (spared c)) (w_conns w) in
  let rest := filter (fun c => c_in_comms c && negb (c_in_http c) && negb (spared c)) (w_conns w) in
  let victims := http ++ rest in
  let conns' := map (fun c => if (c_in_comms c || c_in_http c) && negb (spared c) then kill c else c) (w_conns w) in
  (mk_world conns' (w_next w) (w_shutting_down w) false (w_alive w)
            (w_aborted w ++ concat (map close_aborts victims)) (w_reqno w) (w_undefined w),
   map LDisconnected (map c_id http) ++ concat (map close_log victims)).

Definition server_close (w : world) : world * list logitem := server_close_except None w.

(* DISCONNECTED: comms::server::event_handler -> http_server::event_handler -> disconnected_handler;
   the http_connection (and with it the socket) goes when that handler returns - after the server
   has closed everything else, if this was the last connection of a shutdown - and finally the comms
   connection is erased *)
Definition disconnected (w : world) (id : nat) : world * list logitem :=
  match find_conn id (w_conns w) with
  | None => (w, [])
  | Some c =>
      let '(w1, l1) :=
        if c_in_http c then
          let c1 := mk_conn (c_id c) (c_transmitting c) (c_connected c) (c_disc_pending c) (c_shutdown_sent c)
                            (c_closed c) (c_read_pending c) (c_handshake_pending c) (c_tls_shutdown_pending c) (c_write c)
                            (c_in_comms c) false (c_rx c) (c_tx_header c) (c_tx_body c)
                            (c_pending c) (c_keep c) (c_chunks_left c) (c_last_due c) in
          let w' := upd w c1 in
          let '(w'', l'') :=
            if w_shutting_down w' && Nat.eqb (count_http w') 0
            then server_close_except (Some id) w' else (w', []) in
          match find_conn id (w_conns w'') with
          | Some c2 => let '(w3, l3) := sock_close w'' c2 in (w3, LDisconnected id :: l'' ++ l3)
          | None => (w'', LDisconnected id :: l'')
          end
        else (w, []) in
      match find_conn id (w_conns w1) with
      | Some c1 => if c_in_comms c1 then let '(w2, l2) := drop_comms w1 c1 in (w2, l1 ++ l2) else (w1, l1)
      | None => (w1, l1)
      end
  end.

(* connection::shutdown() *)
Definition comms_shutdown (o : sopts) (w : world) (id : nat) : world * list logitem :=
  match find_conn id (w_conns w) with
  | None => (w, [])
  | Some c =>
      let c1 := mk_conn (c_id c) (c_transmitting c) (c_connected c) (c_disc_pending c) true
                        (c_closed c) (c_read_pending c) (c_handshake_pending c) (c_tls_shutdown_pending c) (c_write c)
                        (c_in_comms c) (c_in_http c) (c_rx c) (c_tx_header c) (c_tx_body c)
                        (c_pending c) (c_keep c) (c_chunks_left c) (c_last_due c) in
      if o_tls o then
        let '(c2, ab) := cancel_pending c1 false in
        let c3 := mk_conn (c_id c2) (c_transmitting c2) (c_connected c2) (c_disc_pending c2) (c_shutdown_sent c2)
                          (c_closed c2) (c_read_pending c2) (c_handshake_pending c2) true (c_write c2)
                          (c_in_comms c2) (c_in_http c2) (c_rx c2) (c_tx_header c2) (c_tx_body c2)
                          (c_pending c2) (c_keep c2) (c_chunks_left c2) (c_last_due c2) in
        (add_aborted (upd w c3) ab, [LCancel id; LTlsShutdown id])
      else
        (* tcp_adaptor::shutdown: socket shutdown, then the handler is called with eof at once:
           write_callback sees shutdown_sent_ and raises DISCONNECTED *)
        let tr := match c_write c1 with Some _ => [LTruncated id] | None => [] end in
        let '(w1, l1) := disconnected (upd w c1) id in
        (w1, LShutdown id :: tr ++ l1)
  end.

(* connection::disconnect() *)
Definition comms_disconnect (o : sopts) (w : world) (id : nat) : world * list logitem :=
  match find_conn id (w_conns w) with
  | None => (w, [])
  | Some c =>
      if negb (c_transmitting c) then comms_shutdown o w id
      else (upd w (mk_conn (c_id c) (c_transmitting c) (c_connected c) true (c_shutdown_sent c)
                           (c_closed c) (c_read_pending c) (c_handshake_pending c) (c_tls_shutdown_pending c) (c_write c)
                           (c_in_comms c) (c_in_http c) (c_rx c) (c_tx_header c) (c_tx_body c)
                           (c_pending c) (c_keep c) (c_chunks_left c) (c_last_due c)), [])
  end.

(* connection::signal_error_or_disconnect *)
Definition signal_error (o : sopts) (w : world) (id : nat) (e : errc) : world * list logitem :=
  match find_conn id (w_conns w) with
  | None => (w, [])
  | Some c =>
      if negb (c_shutdown_sent c) && is_ssl_disconnect (o_tls o) e && is_ssl_shutdown (o_tls o) e
      then comms_shutdown o w id
      else disconnected w id     (* a disconnect code, or (since the repair) any other error *)
  end.

(* ---- sending ------------------------------------------------------------------------------ *)
Definition slot_bytes (c : conn) (s : slot) : str :=
  match s with
  | SHeader => c_tx_header c
  | SBody => c_tx_body c
  | SCrlf => [13; 10]
  | SApp k => nth k (c_keep c) []
  end.
Definition slots_bytes (c : conn) (l : list slot) : str := concat (map (slot_bytes c) l).

(* connection::send_data *)
Definition send_data (w : world) (c : conn) (slots : list slot) : world * list logitem * bool :=
  if c_transmitting c then (set_undefined w, [LUndefined], false)      (* undefined from here on: nothing of the state is meaningful *)
  else if c_connected c then
    let bytes := slots_bytes c slots in
    let c1 := mk_conn (c_id c) true (c_connected c) (c_disc_pending c) (c_shutdown_sent c)
                      (c_closed c) (c_read_pending c) (c_handshake_pending c) (c_tls_shutdown_pending c) (Some (slots, bytes))
                      (c_in_comms c) (c_in_http c) (c_rx c) (c_tx_header c) (c_tx_body c)
                      (c_pending c) (c_keep c) (c_chunks_left c) (c_last_due c) in
    (upd w c1, [LWrite (c_id c) bytes], true)
  else (upd w c, [], false).

Definition set_tx (c : conn) (rx : receiver) (hdr body : str) (keep : list str) : conn :=
  mk_conn (c_id c) (c_transmitting c) (c_connected c) (c_disc_pending c) (c_shutdown_sent c)
          (c_closed c) (c_read_pending c) (c_handshake_pending c) (c_tls_shutdown_pending c) (c_write c)
          (c_in_comms c) (c_in_http c) rx hdr body (c_pending c) keep (c_chunks_left c) (c_last_due c).

(* http_connection::send(buffers, is_continue) *)
Definition http_send (o : sopts) (w : world) (c : conn) (slots : list slot) (is_continue : bool)
  : world * list logitem * bool :=
  let keep_alive := rq_keep_alive (rv_req (c_rx c)) in
  let rx1 := if is_continue then rv_set_continue_sent (c_rx c) else rv_clear (c_rx c) in
  let c1 := set_tx c rx1 (c_tx_header c) (c_tx_body c) (c_keep c) in
  let '(w1, l1, _) := send_data w c1 slots in
  if keep_alive || is_continue then (w1, l1, true)
  else let '(w2, l2) := comms_disconnect o w1 (c_id c) in (w2, l1 ++ l2, false).

(* http_connection::set_version *)
Definition with_version (c : conn) (r : tx_response) : tx_response :=
  let l := rq_line (rv_req (c_rx c)) in
  if negb (rl_major l =? 0) && negb (rl_minor l =? 0)
  then mk_tx_response (rs_status r) (rs_reason r) (rl_major l) (rl_minor l) (rs_headers r)
  else r.

(* send_response(): the status proposed by the receiver *)
Definition http_send_response (o : sopts) (w : world) (c : conn) : world * list logitem * bool :=
  let r := with_version c (tx_response_of_code (rv_code (c_rx c)) []) in
  let c1 := set_tx c (c_rx c) (response_message r 0) (c_tx_body c) (c_keep c) in
  http_send o w c1 [SHeader] (rs_status r =? code_CONTINUE).

(* a body handed over in three buffers *)
Definition parts3 (body : str) : list str :=
  let n := (length body / 3)%nat in [firstn n body; firstn n (skipn n body); skipn (2 * n) body].

Definition unsolicited : recipe := mk_recipe 408 0 1 [].

Definition custom_reason : str := [67; 117; 115; 116; 111; 109].

Definition body_of (reqno len : nat) : str := repeat (97 + N.of_nat (reqno mod 26)) len.

(* the scripted application's response, by overload *)
Definition app_respond (o : sopts) (w : world) (c : conn) (rp : recipe) : world * list logitem :=
  let id := c_id c in
  let body := body_of (w_reqno w) (rp_len rp) in
  let reason := match reason_phrase (rp_status rp) with [] => custom_reason | _ => [] end in
  let resp0 := tx_response_of_reason reason (rp_status rp) (rp_hdrs rp) in
  let is_cont := (rp_status rp =? code_CONTINUE) in
  let '(w1, l1, ok) :=
    match rp_ov rp with
    | 0 =>
        if negb (tx_response_is_valid resp0) then (w, [], false)
        else let r := with_version c resp0 in
             http_send o w (set_tx c (c_rx c) (response_message r 0) (c_tx_body c) (c_keep c)) [SHeader] is_cont
    | 1 =>
        if negb (tx_response_is_valid resp0) then (w, [], false)
        else let r := with_version c resp0 in
             let hdr := response_message r (nlen body) in
             if rv_is_head (c_rx c) || negb (content_permitted (rp_status rp))
             then http_send o w (set_tx c (c_rx c) hdr (c_tx_body c) (c_keep c)) [SHeader] is_cont
             else http_send o w (set_tx c (c_rx c) hdr body (c_keep c)) [SHeader; SBody] is_cont
    | 2 =>
        (* the scatter overload: the application keeps the body, in three buffers *)
        let keep := c_keep c ++ parts3 body in
        let k := length (c_keep c) in
        if negb (tx_response_is_valid resp0) then (upd w (set_tx c (c_rx c) (c_tx_header c) (c_tx_body c) keep), [], false)
        else let r := with_version c resp0 in
             let hdr := response_message r (nlen body) in
             if rv_is_head (c_rx c) || negb (content_permitted (rp_status rp))
             then http_send o w (set_tx c (c_rx c) hdr (c_tx_body c) keep) [SHeader] is_cont
             else http_send o w (set_tx c (c_rx c) hdr (c_tx_body c) keep) [SHeader; SApp k; SApp (S k); SApp (S (S k))] is_cont
    | 3 =>
        let resp1 := add_header resp0 hf_HEADER_TRANSFER_ENCODING hf_CHUNKED in
        if negb (tx_response_is_valid resp1) then (w, [], false)
        else let r := with_version c resp1 in
             let '(w', l', ok') := http_send o w (set_tx c (c_rx c) (response_message r 0) (c_tx_body c) (c_keep c)) [SHeader] is_cont in
             (match find_conn id (w_conns w') with
              | Some c' => upd w' (mk_conn (c_id c') (c_transmitting c') (c_connected c') (c_disc_pending c') (c_shutdown_sent c')
                                           (c_closed c') (c_read_pending c') (c_handshake_pending c') (c_tls_shutdown_pending c') (c_write c')
                                           (c_in_comms c') (c_in_http c') (c_rx c') (c_tx_header c') (c_tx_body c')
                                           (c_pending c') (c_keep c') 2 true)
              | None => w'
              end, l', ok')
    | _ => http_send_response o w c
    end in
  (w1, l1 ++ [LSend id 0 ok]).

(* the message-sent handler of the application: the chunks of a chunked response, one per SENT *)
Definition app_on_sent (o : sopts) (w : world) (id : nat) : world * list logitem :=
  match find_conn id (w_conns w) with
  | None => (w, [])
  | Some c =>
      if negb (Nat.eqb (c_chunks_left c) 0) then
        let n := pred (c_chunks_left c) in
        let data := repeat (107 + N.of_nat n) 3 in
        let ext := if Nat.eqb n 0 then [] else [120; 61; 49] in
        let c1 := mk_conn (c_id c) (c_transmitting c) (c_connected c) (c_disc_pending c) (c_shutdown_sent c)
                          (c_closed c) (c_read_pending c) (c_handshake_pending c) (c_tls_shutdown_pending c) (c_write c)
                          (c_in_comms c) (c_in_http c) (c_rx c) (chunk_header_string 3 ext) data
                          (c_pending c) (c_keep c) n (c_last_due c) in
        let '(w1, l1, ok) := send_data w c1 [SHeader; SBody; SCrlf] in
        (w1, l1 ++ [LSend id 1 true])
      else if c_last_due c then
        let c1 := mk_conn (c_id c) (c_transmitting c) (c_connected c) (c_disc_pending c) (c_shutdown_sent c)
                          (c_closed c) (c_read_pending c) (c_handshake_pending c) (c_tls_shutdown_pending c) (c_write c)
                          (c_in_comms c) (c_in_http c) (c_rx c) (last_chunk_string [] [84; 58; 32; 118; 13; 10]) (c_tx_body c)
                          (c_pending c) (c_keep c) 0 false in
        let '(w1, l1, ok) := send_data w c1 [SHeader] in
        (w1, l1 ++ [LSend id 2 true])
      else (w, [])
  end.

(* ---- http_server::receive_handler --------------------------------------------------------- *)
Section Loop.
  Variable recipe_of : str -> recipe.
  Variable o : sopts.

  Definition push_pending (c : conn) (rp : recipe) : conn :=
    mk_conn (c_id c) (c_transmitting c) (c_connected c) (c_disc_pending c) (c_shutdown_sent c)
            (c_closed c) (c_read_pending c) (c_handshake_pending c) (c_tls_shutdown_pending c) (c_write c)
            (c_in_comms c) (c_in_http c) (c_rx c) (c_tx_header c) (c_tx_body c)
            (c_pending c ++ [rp]) (c_keep c) (c_chunks_left c) (c_last_due c).

  Definition set_rx (c : conn) (rx : receiver) : conn := set_tx c rx (c_tx_header c) (c_tx_body c) (c_keep c).

  Definition bump_reqno (w : world) : world :=
    mk_world (w_conns w) (w_next w) (w_shutting_down w) (w_open w) (w_alive w) (w_aborted w) (S (w_reqno w)) (w_undefined w).

  (* the request handler of the scripted application *)
  Definition app_request (w : world) (c : conn) : world * list logitem :=
    let q := rv_req (c_rx c) in
    let l := rq_line q in
    let w0 := if o_app o =? 2 then w else bump_reqno w in
    let lg := LReq (c_id c) (rl_method l) (rl_uri l) (rl_major l) (rl_minor l) (rv_body (c_rx c)) in
    let rp := recipe_of (rl_uri l) in
    if o_app o =? 2 then (w0, [lg])
    else if hd_is_chunked (rq_headers q) && o_chunk o then (upd w0 (push_pending c rp), [lg])
    else if o_app o =? 0 then let '(w1, l1) := app_respond o w0 c rp in (w1, lg :: l1)
    else (upd w0 (push_pending c rp), [lg]).

  (* after the handler: the server clears the receiver of a non-chunked request *)
  Definition clear_rx_if (w : world) (id : nat) (cond : conn -> bool) : world :=
    match find_conn id (w_conns w) with
    | Some c => if cond c then upd w (set_rx c (rv_clear (c_rx c))) else w
    | None => w
    end.

  Definition server_dispatch (w : world) (id : nat) (r : rx) : world * list logitem :=
    match find_conn id (w_conns w) with
    | None => (w, [])
    | Some c =>
        match r with
        | RX_VALID =>
            if negb (rq_is_trace (rv_req (c_rx c))) then
              let chunked := hd_is_chunked (rq_headers (rv_req (c_rx c))) in
              let '(w1, l1) := app_request w c in
              (clear_rx_if w1 id (fun _ => negb chunked), l1)
            else if o_trace o then
              (* the TRACE echo is not modelled (the header map's iteration order is unspecified) *)
              (set_undefined w, [LUndefined])
            else
              if o_inv o then
                let '(w1, l1, ok) := http_send_response o w c in
                let '(w2, l2) := comms_disconnect o w1 id in
                (clear_rx_if w2 id (fun _ => true), LInvalid id (rv_code (c_rx c)) :: l1 ++ [LSend id 0 ok] ++ l2)
              else
                let '(w1, l1, _) := http_send_response o w c in
                let '(w2, l2) := if o_autod o then comms_disconnect o w1 id else (w1, []) in
                (clear_rx_if w2 id (fun _ => true), l1 ++ l2)
        | RX_INVALID =>
            if o_inv o then
              let '(w1, l1, ok) := http_send_response o w c in
              let '(w2, l2) := comms_disconnect o w1 id in
              (clear_rx_if w2 id (fun _ => true), LInvalid id (rv_code (c_rx c)) :: l1 ++ [LSend id 0 ok] ++ l2)
            else
              let '(w1, l1, _) := http_send_response o w c in
              let '(w2, l2) := if o_autod o then comms_disconnect o w1 id else (w1, []) in
              (clear_rx_if w2 id (fun _ => true), l1 ++ l2)
        | RX_EXPECT_CONTINUE =>
            if o_cont o then
              let uri := rl_uri (rq_line (rv_req (c_rx c))) in
              if is_prefix [47; 110; 111] uri then
                let r417 := with_version c (tx_response_of_code code_EXPECTATION_FAILED []) in
                let '(w1, l1, ok) := http_send o w (set_tx c (c_rx c) (response_message r417 0) (c_tx_body c) (c_keep c)) [SHeader] false in
                (w1, LContinue id :: l1 ++ [LSend id 0 ok])
              else
                let '(w1, l1, ok) := http_send_response o w c in
                (w1, LContinue id :: l1 ++ [LSend id 0 ok])
            else let '(w1, l1, _) := http_send_response o w c in (w1, l1)
        | RX_CHUNK =>
            let k := rv_chunk (c_rx c) in
            let last := rc_is_last k in
            let '(w1, l1) :=
              if o_chunk o then
                let lg := LChunk id (ck_size (rc_hdr k)) (rc_data k) last in
                if last && (o_app o =? 0) then
                  match c_pending c with
                  | rp :: rest =>
                      let c1 := mk_conn (c_id c) (c_transmitting c) (c_connected c) (c_disc_pending c) (c_shutdown_sent c)
                                        (c_closed c) (c_read_pending c) (c_handshake_pending c) (c_tls_shutdown_pending c) (c_write c)
                                        (c_in_comms c) (c_in_http c) (c_rx c) (c_tx_header c) (c_tx_body c)
                                        rest (c_keep c) (c_chunks_left c) (c_last_due c) in
                      let '(w', l') := app_respond o (upd w c1) c1 rp in (w', lg :: l')
                  | [] => (w, [lg])
                  end
                else (w, [lg])
              else (w, []) in
            (clear_rx_if w1 id (fun _ => last), l1)
        | _ => (w, [])
        end
    end.

  Fixpoint server_loop (fuel : nat) (w : world) (id : nat) (buf : str) : world * list logitem :=
    match buf with
    | [] => (w, [])
    | _ :: _ =>
        match fuel with
        | O => (set_undefined w, [LUndefined])
        | S fuel' =>
            match find_conn id (w_conns w) with
            | None => (w, [])
            | Some c =>
                if negb (c_in_http c) then
                  (* the connection was erased during this read and bytes remain: F35 *)
                  (set_undefined w, [LUndefined])
                else
                  let '(rx1, rest, r) := receive (o_cfg o) (c_rx c) buf in
                  let w1 := upd w (set_rx c rx1) in
                  let '(w2, l2) := server_dispatch w1 id r in
                  if w_undefined w2 then (w2, l2)
                  else
                    match r with
                    | RX_INVALID | RX_UB => (w2, l2)
                    | _ => let '(w3, l3) := server_loop fuel' w2 id rest in (w3, l2 ++ l3)
                    end
            end
        end
    end.

  (* ---- the events of a history ---------------------------------------------------------- *)
  Inductive sevent :=
    | EvAccept (filter_ok : bool)
    | EvHandshake (id : nat) (e : errc)
    | EvRead (id : nat) (bytes : str)
    | EvReadErr (id : nat) (e : errc)
    | EvWriteDone (id : nat)
    | EvWriteErr (id : nat) (e : errc)
    | EvTlsShutdownDone (id : nat) (e : errc)
    | EvAborted
    | EvAppRespond (id : nat)
    | EvAppDisconnect (id : nat)
    | EvServerShutdown | EvServerClose | EvServerDestroy | EvTick.

  (* handshake_callback with success: CONNECTED, then the first read *)
  Definition connected_ok (w : world) (c : conn) : world * list logitem :=
    let c1 := mk_conn (c_id c) (c_transmitting c) true (c_disc_pending c) (c_shutdown_sent c)
                      (c_closed c) (c_read_pending c) false (c_tls_shutdown_pending c) (c_write c)
                      (c_in_comms c) true (rv_init (o_cfg o)) (c_tx_header c) (c_tx_body c)
                      (c_pending c) (c_keep c) (c_chunks_left c) (c_last_due c) in
    let '(w1, l1) := enable_reception (upd w c1) (c_id c) in
    (w1, LConnected (c_id c) :: l1).

  Definition step (w : world) (e : sevent) : world * list logitem :=
    if w_undefined w then (w, [])
    else
    match e with
    | EvAccept filter_ok =>
        if w_alive w && w_open w && filter_ok then
          let id := S (w_next w) in
          let c := new_conn (o_cfg o) id in
          let w1 := mk_world (w_conns w ++ [c]) id (w_shutting_down w) (w_open w) (w_alive w) (w_aborted w) (w_reqno w) (w_undefined w) in
          if o_tls o then
            (upd w1 (mk_conn id false false false false false false true false None true false (rv_init (o_cfg o)) [] [] [] [] 0 false),
             [LStart id; LHandshake id])
          else let '(w2, l2) := connected_ok w1 c in (w2, LStart id :: l2)
        else (w, [])
    | EvHandshake id e =>
        match find_conn id (w_conns w) with
        | Some c =>
            if live c && c_handshake_pending c then
              match e with
              | EC_cancel => (upd w (mk_conn (c_id c) (c_transmitting c) (c_connected c) (c_disc_pending c) (c_shutdown_sent c)
                                             (c_closed c) (c_read_pending c) false (c_tls_shutdown_pending c) (c_write c)
                                             (c_in_comms c) (c_in_http c) (c_rx c) (c_tx_header c) (c_tx_body c)
                                             (c_pending c) (c_keep c) (c_chunks_left c) (c_last_due c)), [])
              | EC_ok => connected_ok w c
              | _ =>
                  let c0 := mk_conn (c_id c) (c_transmitting c) (c_connected c) (c_disc_pending c) (c_shutdown_sent c)
                                    (c_closed c) (c_read_pending c) false (c_tls_shutdown_pending c) (c_write c)
                                    (c_in_comms c) (c_in_http c) (c_rx c) (c_tx_header c) (c_tx_body c)
                                    (c_pending c) (c_keep c) (c_chunks_left c) (c_last_due c) in
                  let '(w1, l1) := sock_close (upd w c0) c0 in
                  (* comms::server::error_handler forgets a connection that never connected *)
                  match find_conn id (w_conns w1) with
                  | Some c1 => let '(w2, l2) := drop_comms w1 c1 in (w2, l1 ++ l2)
                  | None => (w1, l1)
                  end
              end
            else (w, [LNo id 2])
        | None => (w, [LNo id 2])
        end
    | EvRead id bytes =>
        match find_conn id (w_conns w) with
        | Some c =>
            if live c && c_read_pending c then
              let c1 := mk_conn (c_id c) (c_transmitting c) (c_connected c) (c_disc_pending c) (c_shutdown_sent c)
                                (c_closed c) false (c_handshake_pending c) (c_tls_shutdown_pending c) (c_write c)
                                (c_in_comms c) (c_in_http c) (c_rx c) (c_tx_header c) (c_tx_body c)
                                (c_pending c) (c_keep c) (c_chunks_left c) (c_last_due c) in
              let '(w1, l1) := server_loop (loop_fuel bytes) (upd w c1) id bytes in
              match find_conn id (w_conns w1) with
              | Some c2 =>
                  if live c2 && negb (c_shutdown_sent c2) && negb (w_undefined w1)
                  then let '(w2, l2) := enable_reception w1 id in (w2, l1 ++ l2) else (w1, l1)
              | None => (w1, l1)
              end
            else (w, [LNo id 0])
        | None => (w, [LNo id 0])
        end
    | EvReadErr id e =>
        match find_conn id (w_conns w) with
        | Some c =>
            if live c && c_read_pending c then
              let c1 := mk_conn (c_id c) (c_transmitting c) (c_connected c) (c_disc_pending c) (c_shutdown_sent c)
                                (c_closed c) false (c_handshake_pending c) (c_tls_shutdown_pending c) (c_write c)
                                (c_in_comms c) (c_in_http c) (c_rx c) (c_tx_header c) (c_tx_body c)
                                (c_pending c) (c_keep c) (c_chunks_left c) (c_last_due c) in
              match e with
              | EC_cancel => (upd w c1, [])
              | EC_ok => (upd w c1, [])
              | _ => signal_error o (upd w c1) id e
              end
            else (w, [LNo id 0])
        | None => (w, [LNo id 0])
        end
    | EvWriteDone id =>
        match find_conn id (w_conns w) with
        | Some c =>
            match c_write c with
            | Some (slots, snapshot) =>
                if live c then
                  let now := slots_bytes c slots in
                  let lw := if str_eqb now snapshot then [LWire id now] else [LStale id] in
                  let c1 := mk_conn (c_id c) (c_transmitting c) (c_connected c) (c_disc_pending c) (c_shutdown_sent c)
                                    (c_closed c) (c_read_pending c) (c_handshake_pending c) (c_tls_shutdown_pending c) None
                                    (c_in_comms c) (c_in_http c) (c_rx c) (c_tx_header c) (c_tx_body c)
                                    (c_pending c) (c_keep c) (c_chunks_left c) (c_last_due c) in
                  let w1 := upd w c1 in
                  if c_shutdown_sent c1 then let '(w2, l2) := disconnected w1 id in (w2, lw ++ l2)
                  else if c_disc_pending c1 then let '(w2, l2) := comms_shutdown o w1 id in (w2, lw ++ l2)
                  else
                    let c2 := mk_conn (c_id c1) false (c_connected c1) (c_disc_pending c1) (c_shutdown_sent c1)
                                      (c_closed c1) (c_read_pending c1) (c_handshake_pending c1) (c_tls_shutdown_pending c1) None
                                      (c_in_comms c1) (c_in_http c1) (c_rx c1) (c_tx_header c1) (c_tx_body c1)
                                      (c_pending c1) (c_keep c1) (c_chunks_left c1) (c_last_due c1) in
                    if c_in_http c2 then
                      let '(w2, l2) := app_on_sent o (upd w1 c2) id in (w2, lw ++ [LSent id] ++ l2)
                    else (upd w1 c2, lw)
                else (w, [LNo id 1])
            | None => (w, [LNo id 1])
            end
        | None => (w, [LNo id 1])
        end
    | EvWriteErr id e =>
        match find_conn id (w_conns w) with
        | Some c =>
            match c_write c with
            | Some _ =>
                if live c then
                  let c1 := mk_conn (c_id c) (c_transmitting c) (c_connected c) (c_disc_pending c) (c_shutdown_sent c)
                                    (c_closed c) (c_read_pending c) (c_handshake_pending c) (c_tls_shutdown_pending c) None
                                    (c_in_comms c) (c_in_http c) (c_rx c) (c_tx_header c) (c_tx_body c)
                                    (c_pending c) (c_keep c) (c_chunks_left c) (c_last_due c) in
                  let w1 := upd w c1 in
                  match e with
                  | EC_cancel => (w1, [])
                  | _ =>
                      if c_shutdown_sent c1 then disconnected w1 id
                      else match e with EC_ok => (w1, []) | _ => signal_error o w1 id e end
                  end
                else (w, [LNo id 1])
            | None => (w, [LNo id 1])
            end
        | None => (w, [LNo id 1])
        end
    | EvTlsShutdownDone id e =>
        match find_conn id (w_conns w) with
        | Some c =>
            if live c && c_tls_shutdown_pending c then
              let c1 := mk_conn (c_id c) (c_transmitting c) (c_connected c) (c_disc_pending c) (c_shutdown_sent c)
                                (c_closed c) (c_read_pending c) (c_handshake_pending c) false (c_write c)
                                (c_in_comms c) (c_in_http c) (c_rx c) (c_tx_header c) (c_tx_body c)
                                (c_pending c) (c_keep c) (c_chunks_left c) (c_last_due c) in
              match e with
              | EC_cancel => (upd w c1, [])
              | _ => disconnected (upd w c1) id        (* shutdown_sent_: the next completion means DISCONNECTED *)
              end
            else (w, [LNo id 3])
        | None => (w, [LNo id 3])
        end
    | EvAborted =>
        (mk_world (w_conns w) (w_next w) (w_shutting_down w) (w_open w) (w_alive w) [] (w_reqno w) (w_undefined w),
         map (fun p => LAborted (fst p) (snd p)) (w_aborted w))
    | EvAppRespond id =>
        match find_conn id (w_conns w) with
        | Some c =>
            match c_pending c with
            | rp :: rest =>
                if c_in_http c then
                  let c1 := mk_conn (c_id c) (c_transmitting c) (c_connected c) (c_disc_pending c) (c_shutdown_sent c)
                                    (c_closed c) (c_read_pending c) (c_handshake_pending c) (c_tls_shutdown_pending c) (c_write c)
                                    (c_in_comms c) (c_in_http c) (c_rx c) (c_tx_header c) (c_tx_body c)
                                    rest (c_keep c) (c_chunks_left c) (c_last_due c) in
                  app_respond o (upd w c1) c1 rp
                else (upd w (mk_conn (c_id c) (c_transmitting c) (c_connected c) (c_disc_pending c) (c_shutdown_sent c)
                                     (c_closed c) (c_read_pending c) (c_handshake_pending c) (c_tls_shutdown_pending c) (c_write c)
                                     (c_in_comms c) (c_in_http c) (c_rx c) (c_tx_header c) (c_tx_body c)
                                     rest (c_keep c) (c_chunks_left c) (c_last_due c)), [LNo id 5])
            | [] =>
                (* nothing to answer: the application speaks on its own (e.g. its request timer answers 408), whatever
                   the receiver holds at that moment *)
                if c_in_http c then app_respond o w c unsolicited else (w, [LNo id 4])
            end
        | None => (w, [LNo id 4])
        end
    | EvAppDisconnect id =>
        match find_conn id (w_conns w) with
        | Some c =>
            if c_in_http c then let '(w1, l1) := comms_disconnect o w id in (w1, LAppDisconnect id :: l1)
            else if c_connected c then (w, [LNo id 5]) else (w, [])
        | None => (w, [])
        end
    | EvServerShutdown =>
        if w_alive w then
          if negb (Nat.eqb (count_http w) 0) then
            let w1 := mk_world (w_conns w) (w_next w) true (w_open w) (w_alive w) (w_aborted w) (w_reqno w) (w_undefined w) in
            let '(w2, l2) := close_all w1 (ids_where c_in_http w1) (fun w' c' => comms_disconnect o w' (c_id c')) in
            (w2, LServer 0 :: l2)
          else let '(w1, l1) := server_close w in (w1, LServer 0 :: l1)
        else (w, [])
    | EvServerClose =>
        if w_alive w then let '(w1, l1) := server_close w in (w1, LServer 1 :: l1) else (w, [])
    | EvServerDestroy =>
        if w_alive w then
          let '(w1, l1) := server_close w in
          (mk_world (w_conns w1) (w_next w1) (w_shutting_down w1) false false (w_aborted w1) (w_reqno w1) (w_undefined w1), LServer 2 :: l1)
        else (w, [LServer 2])
    | EvTick => (w, [LServer 3])
    end.

  (* a history; after every event the sizes of the two collections are logged *)
  Fixpoint run (w : world) (evs : list (str * sevent)) : world * list logitem :=
    match evs with
    | [] => (w, [])
    | (name, e) :: t =>
        let '(w1, l1) := step w e in
        let sz := if w_alive w1 then LSizes (count_http w1) (count_comms w1) else LGone in
        let '(w2, l2) := run w1 t in
        (w2, LMark name :: l1 ++ [sz] ++ l2)
    end.
End Loop.

(* what is left pending at the end (the event loop could not return while these exist) *)
Definition pending_ops (w : world) : list (nat * bool * bool * bool * bool) :=
  map (fun c => (c_id c, c_read_pending c, match c_write c with Some _ => true | None => false end,
                 c_handshake_pending c, c_tls_shutdown_pending c))
      (filter (fun c => live c && (c_read_pending c || match c_write c with Some _ => true | None => false end
                                   || c_handshake_pending c || c_tls_shutdown_pending c)) (w_conns w)).
