(* P_C06.v — size invariants of the sub-parsers. *)
From Via Require Import M_Char M_Parse M_Receive.
Require Import ZifyBool ZifyNat ZifyN.
Local Open Scope N_scope.

Arguments nlen : simpl never.
Arguments snoc : simpl never.
Lemma nlen_cons (c : N) s : nlen (c :: s) = nlen s + 1.
Proof. unfold nlen. cbn [length]. lia. Qed.
Lemma nlen_nil : nlen [] = 0.
Proof. reflexivity. Qed.

Lemma nlen_snoc s c : nlen (snoc s c) = nlen s + 1.
Proof. unfold nlen, snoc. rewrite app_length. cbn. lia. Qed.

(* request line: the method and the target are rejected one byte past their limits *)
Definition rl_bounded (L : limits) (r : req_line) : Prop :=
  nlen (rl_method r) <= max_method L + 1 /\ nlen (rl_uri r) <= max_uri L + 1 /\
  (rl_state r = R_METHOD -> nlen (rl_method r) <= max_method L /\ rl_uri r = []) /\
  (rl_state r = R_URI -> nlen (rl_uri r) <= max_uri L).

Ltac dif := match goal with |- context [if ?b then _ else _] => destruct b eqn:? end.

Lemma rl_parse_char_bounded L r c : rl_bounded L r -> rl_bounded L (fst (rl_parse_char L r c)).
Proof.
  intros (Hm & Hu & Hsm & Hsu). unfold rl_parse_char, expect_char.
  destruct (rl_state r) eqn:Es;
    try (repeat dif; cbn [fst]; unfold rl_bounded; cbn; rewrite ?Es; repeat split; intros; try discriminate; lia).
  - (* METHOD *) destruct (Hsm eq_refl) as [Hsm' Hnil].
    repeat dif; cbn [fst]; unfold rl_bounded; cbn; rewrite ?nlen_snoc, ?Es, ?Hnil;
      repeat split; intros; try discriminate; try assumption; try (cbn in *; rewrite ?nlen_snoc, ?nlen_cons, ?nlen_nil in *; lia).
  - (* URI *) specialize (Hsu eq_refl).
    destruct (rl_uri r) eqn:Eu; repeat dif; cbn [fst]; unfold rl_bounded; cbn; rewrite ?nlen_snoc, ?Es, ?Eu;
      repeat split; intros; try discriminate; try assumption; try (cbn in *; rewrite ?nlen_snoc, ?nlen_cons, ?nlen_nil in *; lia).
Qed.

Lemma rl_flags_bounded L r b : rl_bounded L r -> rl_bounded L (rl_set_fail r b) /\ rl_bounded L (rl_set_valid r b).
Proof. intros H. split; exact H. Qed.

Lemma rl_parse_bounded L buf : forall r, rl_bounded L r -> rl_bounded L (fst (fst (rl_parse L r buf))).
Proof.
  induction buf as [|c t IH]; intros r H; cbn [rl_parse].
  - exact H.
  - destruct (rl_done r); [exact H|].
    pose proof (rl_parse_char_bounded L r c H) as H1.
    destruct (rl_parse_char L r c) as [r1 ok]. cbn [fst] in H1. destruct ok; [apply IH; exact H1|exact H1].
Qed.

