(* P_C06.v — size invariants of the sub-parsers. *)
From Via Require Import M_Char M_Parse M_Receive P_Parse P_Frag.
Require Import ZifyBool ZifyNat ZifyN.
Local Open Scope N_scope.

Arguments nlen : simpl never.
Arguments snoc : simpl never.
Lemma nlen_cons (c : N) s : nlen (c :: s) = nlen s + 1.
Proof. unfold nlen. cbn [length]. lia. Qed.
Lemma nlen_nil : nlen [] = 0.
Proof. reflexivity. Qed.

Lemma nlen_snoc s c : nlen (snoc s c) = nlen s + 1.
Proof. unfold nlen, snoc. rewrite app_length. cbn. lia. Qed.

(* request line: the method and the target are rejected one byte past their limits *)
Definition rl_bounded (L : limits) (r : req_line) : Prop :=
  nlen (rl_method r) <= max_method L + 1 /\ nlen (rl_uri r) <= max_uri L + 1 /\
  (rl_state r = R_METHOD -> nlen (rl_method r) <= max_method L /\ rl_uri r = []) /\
  (rl_state r = R_URI -> nlen (rl_uri r) <= max_uri L).

Ltac dif := match goal with |- context [if ?b then _ else _] => destruct b eqn:? end.

Lemma rl_parse_char_bounded L r c : rl_bounded L r -> rl_bounded L (fst (rl_parse_char L r c)).
Proof.
  intros (Hm & Hu & Hsm & Hsu). unfold rl_parse_char, expect_char.
  destruct (rl_state r) eqn:Es;
    try (repeat dif; cbn [fst]; unfold rl_bounded; cbn; rewrite ?Es; repeat split; intros; try discriminate; lia).
  - (* METHOD *) destruct (Hsm eq_refl) as [Hsm' Hnil].
    repeat dif; cbn [fst]; unfold rl_bounded; cbn; rewrite ?nlen_snoc, ?Es, ?Hnil;
      repeat split; intros; try discriminate; try assumption; try (cbn in *; rewrite ?nlen_snoc, ?nlen_cons, ?nlen_nil in *; lia).
  - (* URI *) specialize (Hsu eq_refl).
    destruct (rl_uri r) eqn:Eu; repeat dif; cbn [fst]; unfold rl_bounded; cbn; rewrite ?nlen_snoc, ?Es, ?Eu;
      repeat split; intros; try discriminate; try assumption; try (cbn in *; rewrite ?nlen_snoc, ?nlen_cons, ?nlen_nil in *; lia).
Qed.

Lemma rl_flags_bounded L r b : rl_bounded L r -> rl_bounded L (rl_set_fail r b) /\ rl_bounded L (rl_set_valid r b).
Proof. intros H. split; exact H. Qed.

Lemma rl_parse_bounded L buf : forall r, rl_bounded L r -> rl_bounded L (fst (fst (rl_parse L r buf))).
Proof.
  induction buf as [|c t IH]; intros r H; cbn [rl_parse].
  - exact H.
  - destruct (rl_done r); [exact H|].
    pose proof (rl_parse_char_bounded L r c H) as H1.
    destruct (rl_parse_char L r c) as [r1 ok]. cbn [fst] in H1. destruct ok; [apply IH; exact H1|exact H1].
Qed.


(* ---- field_line: the stored name and value are bounded by the characters counted ---- *)
Definition fl_slack (s : fl_st) : N :=
  match s with H_VALUE_LS | H_VALUE | H_LF => 1 | H_VALID => 2 | _ => 0 end.
Definition past_colon (s : fl_st) : bool :=
  match s with H_VALUE_LS | H_VALUE | H_LF | H_VALID => true | _ => false end.

Definition fl_core (f : field) : Prop :=
  nlen (fl_name f) + nlen (fl_value f) + fl_slack (fl_state f) <= fl_length f /\
  (fl_state f = H_NAME -> fl_value f = []) /\
  (past_colon (fl_state f) = true -> fl_name f <> []).

Definition fl_inv (L : limits) (f : field) : Prop :=
  fl_core f /\ fl_length f <= max_line L + 1 /\ (fl_fail f = false -> fl_length f <= max_line L).

Lemma fl_inv_init L : fl_inv L fl_init.
Proof. unfold fl_inv, fl_core, nlen. cbn. repeat split; try lia; congruence. Qed.

Lemma fl_value_case_core L f c :
  nlen (fl_name f) + nlen (fl_value f) + 2 <= fl_length f -> fl_state f = H_VALUE -> fl_name f <> [] ->
  fl_core (fst (fl_value_case L f c)) /\ fl_length (fst (fl_value_case L f c)) = fl_length f.
Proof.
  intros Hs Hst Hn. unfold fl_value_case.
  destruct (negb (is_end_of_line c)); [|destruct (c =? 13); [|destruct (strict_crlf L)]];
    unfold fl_core; cbn; rewrite ?nlen_snoc, ?Hst; cbn; repeat split; try lia; try congruence.
Qed.

Lemma fl_parse_char_core L f0 c : fl_core f0 ->
  fl_core (fst (fl_parse_char L f0 c)) /\ fl_length (fst (fl_parse_char L f0 c)) = fl_length f0 + 1 /\
  (snd (fl_parse_char L f0 c) = true -> fl_length f0 + 1 <= max_line L).
Proof.
  intros (Hs & Hv & Hn). unfold fl_parse_char.
  set (f1 := mk_fl (fl_name f0) (fl_value f0) (fl_length f0 + 1) (fl_ws f0) (fl_state f0) (fl_fail f0)).
  destruct (max_line L <? fl_length f1) eqn:Eover.
  - cbn [fl_set_state fl_state fst snd]. unfold fl_core. cbn. repeat split; try lia; try congruence.
  - assert (Hlen : fl_length f0 + 1 <= max_line L) by (cbn in Eover; lia).
    change (fl_state f1) with (fl_state f0).
    destruct (fl_state f0) eqn:Es.
    + (* NAME *)
      destruct (is_token c && (c <? 128)).
      * unfold fl_core. cbn. rewrite ?Es, ?nlen_snoc. cbn in *. rewrite (Hv eq_refl) in *. repeat split; try lia; try congruence.
      * destruct (fl_name f0) eqn:En; cbn [negb andb]; rewrite ?Bool.andb_false_r.
        -- unfold fl_core. cbn. rewrite ?Es, ?En. cbn in *. rewrite (Hv eq_refl) in *. repeat split; try lia; try congruence.
        -- destruct (c =? 58); cbn [andb negb].
           ++ unfold fl_core. cbn. rewrite ?En. cbn in *. rewrite (Hv eq_refl) in *. repeat split; try lia; try congruence.
           ++ unfold fl_core. cbn. rewrite ?Es, ?En. cbn in *. rewrite (Hv eq_refl) in *. repeat split; try lia; try congruence.
    + (* VALUE_LS *)
      assert (Hn' : fl_name f0 <> []) by (apply Hn; reflexivity).
      destruct (isblank c).
      * match goal with |- context [if ?b then _ else _] => destruct b end;
          unfold fl_core; cbn; rewrite ?Es; cbn in *; repeat split; try lia; try congruence.
      * destruct (fl_value_case_core L (fl_set_state f1 H_VALUE) c) as [A B]; [cbn in *; lia | reflexivity | exact Hn'|].
        split; [exact A|]. split; [rewrite B; reflexivity | intros _; exact Hlen].
    + (* VALUE *)
      assert (Hn' : fl_name f0 <> []) by (apply Hn; reflexivity).
      destruct (fl_value_case_core L f1 c) as [A B]; [cbn in *; lia | reflexivity | exact Hn'|].
      split; [exact A|]. split; [rewrite B; reflexivity | intros _; exact Hlen].
    + (* LF *)
      assert (Hn' : fl_name f0 <> []) by (apply Hn; reflexivity).
      destruct (c =? 10); unfold fl_core; cbn; rewrite ?Es; cbn in *; repeat split; try lia; try congruence.
    + unfold fl_core. cbn. rewrite ?Es. cbn in *. repeat split; try lia; try congruence. intros _. apply Hn. reflexivity.
    + unfold fl_core. cbn. rewrite ?Es. cbn in *. repeat split; try lia; try congruence.
    + unfold fl_core. cbn. rewrite ?Es. cbn in *. repeat split; try lia; try congruence.
    + unfold fl_core. cbn. rewrite ?Es. cbn in *. repeat split; try lia; try congruence.
Qed.

Lemma fl_continue_core f : fl_core f -> fl_state f = H_VALID -> fl_core (fl_continue f).
Proof.
  intros (Hs & Hv & Hn) Hst. unfold fl_core, fl_continue. cbn. rewrite nlen_snoc. rewrite Hst in *. cbn in *.
  repeat split; try lia; try congruence. intros _. apply Hn. reflexivity.
Qed.

Lemma fl_done_state f : fl_done f = true -> fl_state f = H_VALID.
Proof. unfold fl_done. destruct (fl_state f); congruence. Qed.

Lemma fl_loop_inv L buf : forall f, fl_inv L f -> fl_fail f = false -> fl_inv L (fst (fst (fl_loop L f buf))).
Proof.
  induction buf as [|c t IH]; intros f Hi Hf; cbn [fl_loop].
  - exact Hi.
  - destruct (fl_done f) eqn:Ed; [exact Hi|].
    destruct Hi as (Hc & Hl & Hlf). specialize (Hlf Hf).
    destruct (fl_parse_char_core L f c Hc) as (Hc1 & Hl1 & Hok).
    destruct (fl_parse_char L f c) as [f1 ok]. cbn [fst snd] in *. destruct ok.
    + specialize (Hok eq_refl).
      assert (Hi2 : fl_inv L (fl_set_fail f1 false)) by (split; [exact Hc1 | cbn; split; [lia | intros _; lia]]).
      destruct (fl_done (fl_set_fail f1 false) && next_is_blank t) eqn:Eb.
      * apply IH; [|reflexivity]. apply Bool.andb_true_iff in Eb. destruct Eb as [Ed2 _].
        destruct Hi2 as (A & B & C). split; [apply fl_continue_core; [exact A | exact (fl_done_state _ Ed2)] | exact (conj B C)].
      * apply IH; [exact Hi2 | reflexivity].
    + cbn [fst]. split; [exact Hc1 | cbn; split; [lia | intros E; discriminate E]].
Qed.

Lemma fl_parse_inv L f buf : fl_inv L f -> fl_inv L (fst (fst (fl_parse L f buf))).
Proof.
  intros Hi. unfold fl_parse. destruct (fl_fail f) eqn:Ef; [exact Hi|].
  destruct (fl_done f && next_is_blank buf) eqn:Eb.
  - apply fl_loop_inv; [|exact Ef]. apply Bool.andb_true_iff in Eb. destruct Eb as [Ed _].
    destruct Hi as (A & B & C). split; [apply fl_continue_core; [exact A | exact (fl_done_state _ Ed)] | exact (conj B C)].
  - apply fl_loop_inv; assumption.
Qed.

(* what a field line holds is at most one byte more than the line limit *)
Lemma fl_inv_bound L f : fl_inv L f -> nlen (fl_name f) + nlen (fl_value f) <= max_line L + 1.
Proof. intros ((Hs & _ & _) & Hl & _). lia. Qed.

(* ---- message_headers ---- *)
Lemma fields_add_size m n v : fields_size (fields_add m n v) <= fields_size m + nlen n + nlen v + 1.
Proof.
  induction m as [|[k w] t IH]; cbn [fields_add fields_size fold_right fst snd].
  - unfold nlen; cbn; lia.
  - destruct (str_eqb k n).
    + cbn [fields_size fold_right fst snd]. rewrite !nlen_app'. unfold nlen at 3. cbn [length].
      change (fold_right (fun kv acc => nlen (fst kv) + nlen (snd kv) + acc) 0 t) with (fields_size t). lia.
    + cbn [fields_size fold_right fst snd].
      change (fold_right (fun kv acc => nlen (fst kv) + nlen (snd kv) + acc) 0 (fields_add t n v)) with (fields_size (fields_add t n v)).
      change (fold_right (fun kv acc => nlen (fst kv) + nlen (snd kv) + acc) 0 t) with (fields_size t). lia.
Qed.

Definition hd_inv (L : limits) (h : headers) : Prop :=
  fl_inv L (hd_field h) /\ fields_size (hd_fields h) <= 2 * hd_length h /\
  hd_length h <= max_hdr_len L + max_line L + 1 /\ (hd_fail h = false -> hd_length h <= max_hdr_len L).

Lemma hd_inv_init L : hd_inv L hd_init.
Proof. split; [apply fl_inv_init|]. cbn. repeat split; lia. Qed.

Ltac hdsolve A B C D :=
  unfold hd_set_fail; cbn [hd_fields hd_length hd_fail hd_field];
  split; [first [exact A | apply fl_inv_init] |
  split; [first [exact B | lia] |
  split; [first [exact C | lia] |
          intros E; first [discriminate E | exact (D E) | lia]]]].

Lemma hd_blank_line_inv L h buf : hd_inv L h -> hd_inv L (fst (fst (hd_blank_line h buf))).
Proof.
  intros (A & B & C & D). unfold hd_blank_line. destruct buf as [|c t]; [exact (conj A (conj B (conj C D)))|].
  destruct (negb (hd_cr h) && (c =? 13)).
  - destruct t as [|d t1]; [exact (conj A (conj B (conj C D)))|].
    destruct (d =? 10); cbn [fst]; hdsolve A B C D.
  - destruct (c =? 10); cbn [fst]; hdsolve A B C D.
Qed.

Lemma hd_loop_inv L : forall n h buf, hd_inv L h -> hd_fail h = false -> hd_inv L (fst (fst (hd_loop n L h buf))).
Proof.
  induction n as [|n IH]; intros h buf Hi Hf; cbn [hd_loop].
  - destruct Hi as (A & B & C & D). cbn [fst]. hdsolve A B C D.
  - match goal with |- context [if ?e then _ else _] => destruct e end; [|apply hd_blank_line_inv; exact Hi].
    destruct Hi as (A & B & C & D). pose proof (D Hf) as D'.
    pose proof (fl_parse_inv L (hd_field h) buf A) as A1.
    destruct (fl_parse L (hd_field h) buf) as [[f1 rest] r] eqn:Ep. cbn [fst] in A1.
    destruct r.
    + destruct rest as [|d rest'].
      * cbn [fst]. hdsolve A1 B C D.
      * (* the completed line is added *)
        assert (Hname : 1 <= nlen (fl_name f1)).
        { destruct (fl_parse_result L _ _ _ _ _ Ep) as [Hd _]. pose proof (fl_done_state _ Hd) as Hst.
          destruct A1 as ((_ & _ & Hn) & _). rewrite Hst in Hn. specialize (Hn eq_refl).
          destruct (fl_name f1); [contradiction | rewrite nlen_cons; lia]. }
        pose proof (fl_inv_bound L f1 A1) as Hfb.
        pose proof (fields_add_size (hd_fields h) (fl_name f1) (fl_value f1)) as Hadd.
        unfold fl_len in *.
        match goal with |- context [if ?e then _ else _] => destruct e eqn:Eover end.
        -- cbn [fst]. unfold hd_set_fail. split; [apply fl_inv_init|]. cbn [hd_fields hd_length hd_fail hd_field]. split; [lia | split; [lia | intros E; discriminate E]].
        -- apply IH; [|exact Hf]. split; [apply fl_inv_init|]. cbn [hd_fields hd_length hd_fail hd_field]. apply Bool.orb_false_iff in Eover. destruct Eover as [Eo _].
           split; [lia | split; [lia | intros _; lia]].
    + cbn [fst]. split; [exact A1|]. cbn [hd_fields hd_length hd_fail hd_field]. split; [exact B | split; [exact C | intros _; exact D']].
    + cbn [fst]. split; [exact A1|]. cbn [hd_fields hd_length hd_fail hd_field]. split; [exact B | split; [exact C | intros _; exact D']].
Qed.

Lemma hd_parse_inv L h buf : hd_inv L h -> hd_inv L (fst (fst (hd_parse L h buf))).
Proof. intros Hi. unfold hd_parse. destruct (hd_fail h) eqn:Ef; [exact Hi|]. apply hd_loop_inv; assumption. Qed.

(* whatever bytes arrive, in whatever pieces: a header block never holds more than this *)
Definition hd_bound (L : limits) : N := 2 * (max_hdr_len L + max_line L + 1) + max_line L + 1.

Lemma hd_inv_bound L h : hd_inv L h -> hd_retained h <= hd_bound L.
Proof.
  intros (A & B & C & D). unfold hd_retained, hd_bound. pose proof (fl_inv_bound L _ A). lia.
Qed.

Fixpoint hd_feed (L : limits) (h : headers) (frags : list str) : headers :=
  match frags with [] => h | f :: t => hd_feed L (fst (fst (hd_parse L h f))) t end.

Theorem hd_feed_bounded L frags : forall h, hd_inv L h -> hd_retained (hd_feed L h frags) <= hd_bound L.
Proof.
  induction frags as [|f t IH]; intros h Hi; cbn [hd_feed]; [apply hd_inv_bound, Hi|].
  apply IH, hd_parse_inv, Hi.
Qed.
