(* Properties_C02.v — C02: malformed or over-limit requests are never accepted, however fragmented.
   Proved here: (1) an error in the request head is always INVALID, never "need more data", whatever
   byte of the read it falls on (the receivers only see `iter != end || fail()`); (2) failures are
   sticky in every sub-parser; (3) the request line, header line and chunk line parsers do not depend
   on the partition into reads (see also Properties_C01); (4) the verdicts as decision rules, for every state and
   buffer: which violation gives which documented status (400 / 411 / 413 / 414 / 501, 405 for TRACE), a rejected
   request is never handed over as a request, and the limits exactly - a method / target / Content-Length /
   gathered chunk total AT the limit is taken, one beyond it is refused (P_C02.v).  Which byte strings count as
   malformed beyond these rules (illegal bytes, whitespace, version syntax, CRLF discipline) is decided against the
   code by the correspondence and the by-construction oracle over mutation classes. *)
From Via Require Import M_Char M_Parse M_Receive P_Parse P_C02.
From Via Require Import M_Imp M_Loop M_Hdr M_Msg M_Query Gen_Parse P_Imp P_Loop P_Hdr P_Frag P_Msg P_Query.
From Via Require Import M_Imp M_Loop M_Hdr M_Msg M_Chunk M_Query M_Recv Gen_Parse P_Frag P_C05 P_C06b P_Chunk P_Recv.
Local Open Scope N_scope.

Theorem C02_head_error_is_invalid : forall cfg v buf q1 rest,
  rq_valid (rv_req v) = false -> rq_parse (c_lim cfg) (rv_req v) buf = (q1, rest, Fail) ->
  snd (receive cfg v buf) = RX_INVALID.
Proof. exact receive_head_failure_is_invalid. Qed.

Theorem C02_head_failure_flagged : forall L q buf q1 rest, rq_parse L q buf = (q1, rest, Fail) ->
  rl_fail (rq_line q1) || hd_fail (rq_headers q1) = true.
Proof. exact rq_parse_fail. Qed.

Theorem C02_sticky_field : forall L f buf, fl_fail f = true -> fl_parse L f buf = (f, buf, Fail).
Proof. exact fl_parse_sticky. Qed.
Theorem C02_sticky_headers : forall L h buf, hd_fail h = true -> hd_parse L h buf = (h, buf, Fail).
Proof. exact hd_parse_sticky. Qed.
Theorem C02_sticky_chunk_line : forall L k buf, ck_fail k = true -> ck_parse L k buf = (k, buf, Fail).
Proof. exact ck_parse_sticky. Qed.
Theorem C02_sticky_chunk : forall L k buf, rc_fail k = true -> rc_parse L k buf = (k, buf, Fail).
Proof. exact rc_parse_sticky. Qed.

Theorem C02_request_line_fragments : forall L a r b, rl_valid r = false ->
  rl_parse L r (a ++ b) =
  match rl_parse L r a with
  | (r1, ra, Done) => (r1, ra ++ b, Done)
  | (r1, ra, Fail) => (r1, ra ++ b, Fail)
  | (r1, _, More) => rl_parse L r1 b
  end.
Proof. intros L a r b. exact (rl_parse_app L a r b). Qed.

(* ---- verdicts and limits (4) ---- *)
(* a method one letter longer than MAX_METHOD_LENGTH: 501, on a fresh connection, whatever follows *)
Theorem C02_method_too_long_is_501 : forall cfg m c rest,
  forallb isupper m = true -> isupper c = true -> nlen m = max_method (c_lim cfg) ->
  exists v1, receive cfg (rv_init cfg) (m ++ c :: rest) = (v1, rest, RX_INVALID) /\ rv_code v1 = code_NOT_IMPLEMENTED.
Proof. exact method_too_long_is_501. Qed.

(* a method of up to MAX_METHOD_LENGTH letters is collected and parsing goes on *)
Theorem C02_method_at_limit_is_taken : forall L m r rest, rl_state r = R_METHOD -> forallb isupper m = true -> m <> [] ->
  nlen (rl_method r) + nlen m <= max_method L ->
  rl_parse L r (m ++ rest) =
  rl_parse L (mk_rl (rl_method r ++ m) (rl_uri r) (rl_major r) (rl_minor r) R_METHOD (rl_ws r) (rl_valid r) false) rest.
Proof. exact rl_parse_method. Qed.

(* a target one byte longer than MAX_URI_LENGTH: 414 *)
Theorem C02_target_too_long_is_414 : forall cfg m u c rest,
  forallb isupper m = true -> m <> [] -> nlen m <= max_method (c_lim cfg) ->
  forallb uri_char u = true -> uri_char c = true -> nlen u = max_uri (c_lim cfg) ->
  exists v1, receive cfg (rv_init cfg) (m ++ 32 :: u ++ c :: rest) = (v1, rest, RX_INVALID) /\ rv_code v1 = code_REQUEST_URI_TOO_LONG.
Proof. exact target_too_long_is_414. Qed.

Theorem C02_target_at_limit_is_taken : forall L u r rest, rl_state r = R_URI -> forallb uri_char u = true -> u <> [] ->
  nlen (rl_uri r) + nlen u <= max_uri L ->
  rl_parse L r (u ++ rest) =
  rl_parse L (mk_rl (rl_method r) (rl_uri r ++ u) (rl_major r) (rl_minor r) R_URI (rl_ws r) (rl_valid r) false) rest.
Proof. exact rl_parse_uri. Qed.

(* once the head is complete - receive hands over to receive_body (the two C02_head_complete theorems), whose verdicts are: *)
Theorem C02_head_complete_now : forall cfg v buf q1 b1, rq_valid (rv_req v) = false -> rq_parse (c_lim cfg) (rv_req v) buf = (q1, b1, Done) ->
  receive cfg v buf = receive_body cfg true (mk_rv q1 (rv_chunk v) (rv_body v) (rv_code v) (rv_continue_sent v) (rv_is_head v)) b1.
Proof. exact receive_head_done. Qed.
Theorem C02_head_complete_before : forall cfg v buf, rq_valid (rv_req v) = true -> receive cfg v buf = receive_body cfg false v buf.
Proof. exact receive_head_before. Qed.

Theorem C02_missing_host_is_400 : forall cfg rp v1 b1, rq_missing_host (rv_req v1) = true ->
  receive_body cfg rp v1 b1 = (rv_set_code v1 code_BAD_REQUEST, b1, RX_INVALID).
Proof. exact missing_host_is_400. Qed.

Theorem C02_bad_content_length_is_400 : forall cfg rp v1 b1, unchunked v1 -> hd_content_length (rq_headers (rv_req v1)) = None ->
  exists v, receive_body cfg rp v1 b1 = (v, b1, RX_INVALID) /\ rv_code v = code_BAD_REQUEST.
Proof. exact bad_content_length_is_400. Qed.

Theorem C02_content_length_over_limit_is_413 : forall cfg rp v1 b1 n, unchunked v1 -> rq_is_trace (rv_req v1) = false ->
  hd_content_length (rq_headers (rv_req v1)) = Some n -> c_max_content cfg < n ->
  exists v, receive_body cfg rp v1 b1 = (v, b1, RX_INVALID) /\ rv_code v = code_PAYLOAD_TOO_LARGE.
Proof. exact content_length_over_limit_is_413. Qed.

Theorem C02_content_length_at_limit_is_taken : forall cfg rp v1 b1, unchunked v1 -> rq_is_trace (rv_req v1) = false ->
  hd_content_length (rq_headers (rv_req v1)) = Some (c_max_content cfg) -> 0 < c_max_content cfg ->
  snd (receive_body cfg rp v1 b1) <> RX_INVALID.
Proof. exact content_length_at_limit_is_taken. Qed.

Theorem C02_body_without_length_is_411 : forall cfg rp v1 b1, unchunked v1 -> rq_is_trace (rv_req v1) = false ->
  nonempty (hd_find (rq_headers (rv_req v1)) hf_LC_CONTENT_LENGTH) = false -> b1 <> [] ->
  exists v, receive_body cfg rp v1 b1 = (v, b1, RX_INVALID) /\ rv_code v = code_LENGTH_REQUIRED.
Proof. exact body_without_length_is_411. Qed.

Theorem C02_trace_with_body_is_400 : forall cfg rp v1 b1, unchunked v1 -> rq_is_trace (rv_req v1) = true ->
  hd_content_length (rq_headers (rv_req v1)) <> Some 0 ->
  exists v, receive_body cfg rp v1 b1 = (v, b1, RX_INVALID) /\ rv_code v = code_BAD_REQUEST.
Proof. exact trace_with_body_is_400. Qed.

Theorem C02_trace_is_405_and_not_echoed : forall cfg rp v1, unchunked v1 -> rq_is_trace (rv_req v1) = true ->
  hd_content_length (rq_headers (rv_req v1)) = Some 0 -> rv_body v1 = [] ->
  exists v, receive_body cfg rp v1 [] = (v, [], RX_VALID) /\ rv_code v = code_METHOD_NOT_ALLOWED /\
            rq_is_trace (rv_req v) = true /\ snd (dispatch_rx cfg v RX_VALID) = [ETrace code_METHOD_NOT_ALLOWED].
Proof. exact trace_is_405. Qed.

Theorem C02_bad_chunk_is_400 : forall cfg v1 b1 k1 b2 r2, chunked v1 ->
  rc_parse (c_lim cfg) (chunk_in v1) b1 = (k1, b2, r2) -> r2 <> Done -> nonempty b2 || rc_failed k1 = true ->
  exists v, receive_body cfg false v1 b1 = (v, b2, RX_INVALID) /\ rv_code v = code_BAD_REQUEST.
Proof. exact bad_chunk_is_400. Qed.

Theorem C02_chunks_over_limit_is_413 : forall cfg v1 b1 k1 b2, chunked v1 -> c_concat cfg = true ->
  rc_parse (c_lim cfg) (chunk_in v1) b1 = (k1, b2, Done) -> rc_valid k1 = true -> rc_is_last k1 = false ->
  c_max_content cfg < nlen (rv_body v1) + nlen (rc_data k1) ->
  exists v, receive_body cfg false v1 b1 = (v, b2, RX_INVALID) /\ rv_code v = code_PAYLOAD_TOO_LARGE.
Proof. exact chunks_over_limit_is_413. Qed.

Theorem C02_chunks_at_limit_are_taken : forall cfg v1 b1 k1 b2, chunked v1 -> c_concat cfg = true ->
  rc_parse (c_lim cfg) (chunk_in v1) b1 = (k1, b2, Done) -> rc_valid k1 = true -> rc_is_last k1 = false ->
  nlen (rv_body v1) + nlen (rc_data k1) = c_max_content cfg ->
  exists v, receive_body cfg false v1 b1 = (v, b2, RX_INCOMPLETE) /\ rv_body v = rv_body v1 ++ rc_data k1.
Proof. exact chunks_at_limit_are_taken. Qed.

Theorem C02_rejected_is_never_delivered : forall cfg v, dispatch_rx cfg v RX_INVALID = (rv_clear v, [EInvalid (rv_code v)]).
Proof. exact invalid_is_never_delivered. Qed.

(* non-vacuity: tiny limits, a method of exactly 4 letters is accepted and delivered, one of 5 is 501 *)
Example C02_example_method_limit :
  let cfg := mk_rcfg (mk_limits 16 4 100 65534 1024 8 65534 65534 false) 1048576 1048576 true true false in
  let tail := [32;47;32;72;84;84;80;47;49;46;49;13;10;72;111;115;116;58;32;104;13;10;13;10] in
  snd (receive cfg (rv_init cfg) ([80;79;83;84] ++ tail)) = RX_VALID /\
  snd (receive cfg (rv_init cfg) ([80;79;83;84;83] ++ tail)) = RX_INVALID /\
  rv_code (fst (fst (receive cfg (rv_init cfg) ([80;79;83;84;83] ++ tail)))) = code_NOT_IMPLEMENTED.
Proof. vm_compute. repeat split. Qed.

(* non-vacuity: "Ho@" at the end of one read, "st: a" in the next: the historical accepted input *)
Example C02_example_error_on_last_byte :
  let cfg := mk_rcfg (mk_limits 8190 8 100 65534 1024 8 65534 65534 false) 1048576 1048576 true true false in
  let a := [71;69;84;32;47;32;72;84;84;80;47;49;46;49;13;10;72;111;64] in
  snd (receive cfg (rv_init cfg) a) = RX_INVALID.
Proof. vm_compute. reflexivity. Qed.

Print Assumptions C02_head_error_is_invalid.
Print Assumptions C02_sticky_headers.
Print Assumptions C02_method_too_long_is_501.
Print Assumptions C02_target_too_long_is_414.
Print Assumptions C02_content_length_over_limit_is_413.
Print Assumptions C02_body_without_length_is_411.
Print Assumptions C02_trace_is_405_and_not_echoed.
Print Assumptions C02_bad_chunk_is_400.
Print Assumptions C02_chunks_over_limit_is_413.

(* ---- the tie to the source, as a theorem ----
   The character-level parser functions of the model are not only compared with the code on generated inputs: the bodies
   of the C++ functions (parse_char) are translated from clang's AST on every run (translate/parse.py -> Gen_Parse.v, a
   term of the small imperative language of M_Imp.v), and the model function is proved to compute, for EVERY state,
   character and limit configuration (strict and lenient CRLF), exactly what the translated body computes.  A change of
   the source that changes what parse_char does makes this theorem fail. *)
Theorem C02_request_line_model_is_the_source : forall L r c,
  run_body (rl_lim L) c (rl_src L) (rl_store r) = (rl_store (fst (rl_parse_char L r c)), snd (rl_parse_char L r c)).
Proof. exact rl_parse_char_is_the_source. Qed.
Theorem C02_field_line_model_is_the_source : forall L f c,
  run_body (fl_lim L) c (fl_src L) (fl_store f) = (fl_store (fst (fl_parse_char L f c)), snd (fl_parse_char L f c)).
Proof. exact fl_parse_char_is_the_source. Qed.
Print Assumptions C02_request_line_model_is_the_source.
Print Assumptions C02_field_line_model_is_the_source.

(* the chunk-size line, whose limits (line length, whitespace, 16 hex digits, the configured chunk size) the chunked
   verdicts rest on; the loops around parse_char, which stop at the first character that does not fit and set the
   fail flag; and clear(), so that the limits of a later request are counted from zero *)
Theorem C02_chunk_line_model_is_the_source : forall L k c,
  run_body (ck_lim L) c (ck_src L) (ck_store k) = (ck_store (fst (ck_parse_char L k c)), snd (ck_parse_char L k c)).
Proof. exact ck_parse_char_is_the_source. Qed.
Theorem C02_request_line_loop_is_the_source : forall L r buf fuel, (length buf < fuel)%nat ->
  lrun (rl_lim L) (rl_src L) fuel rl_parse_src (rl_store r) buf =
  Some (let '(r', rest, p) := rl_parse L r buf in (is_done p, rl_store r', rest)).
Proof. exact rl_parse_is_the_source. Qed.
Theorem C02_field_line_loop_is_the_source : forall L f buf fuel, (length buf < fuel)%nat ->
  lrun (fl_lim L) (fl_src L) fuel fl_parse_src (fl_store f) buf =
  Some (let '(f', rest, p) := fl_parse L f buf in (is_done p, fl_store f', rest)).
Proof. exact fl_parse_is_the_source. Qed.
Theorem C02_chunk_line_loop_is_the_source : forall L k buf fuel, (length buf < fuel)%nat ->
  lrun (ck_lim L) (ck_src L) fuel ck_parse_src (ck_store k) buf =
  Some (let '(k', rest, p) := ck_parse L k buf in (is_done p, ck_store k', rest)).
Proof. exact ck_parse_is_the_source. Qed.
Theorem C02_field_line_reset_is_the_source : forall lim c f,
  exec lim c fl_clear_src (fl_store f) = (ONormal, fl_store fl_init).
Proof. exact fl_clear_is_the_source. Qed.
Theorem C02_chunk_line_reset_is_the_source : forall lim c k,
  exec lim c ck_clear_src (ck_store k) = (ONormal, ck_store (ck_init (ck_max k))).
Proof. exact ck_clear_is_the_source. Qed.
(* the translated loop refuses: a method of nine letters under a limit of eight stops after the ninth (ERROR_METHOD_LENGTH is state 15), fail flag set *)
Example C02_request_line_loop_example :
  let L := mk_limits 8190 8 100 65534 1024 8 65534 65534 false in
  lrun (rl_lim L) (rl_src L) 40 rl_parse_src (rl_store rl_init) [65;66;67;68;69;70;71;72;73;74;32] =
  Some (false, mk_store 15 [[65;66;67;68;69;70;71;72;73]; []] [0; 0; 0; 0; 1], [74;32]).
Proof. vm_compute. reflexivity. Qed.
Print Assumptions C02_chunk_line_model_is_the_source.
Print Assumptions C02_request_line_loop_is_the_source.
Print Assumptions C02_field_line_loop_is_the_source.
Print Assumptions C02_chunk_line_loop_is_the_source.
Print Assumptions C02_field_line_reset_is_the_source.
Print Assumptions C02_chunk_line_reset_is_the_source.

(* the header block's own limits - number of lines and accumulated length, checked after every stored line - are those
   of the translated message_headers::parse: the model's hd_parse is that function (see Properties_C01.v) *)
Theorem C02_header_block_is_the_source : forall L h buf fuel, hd_ok h -> (length buf + 2 <= fuel)%nat ->
  hrun (fl_lim L) (hd_lim L) (fl_code_of L) fuel hd_parse_src (hd_store h) buf =
  Some (let '(h', rest, p) := hd_parse L h buf in (is_done p, hd_store h', rest)).
Proof. exact hd_parse_is_the_source. Qed.
(* three lines under a limit of two: refused when the third is stored, fail flag set *)
Example C02_header_block_source_example :
  let L := mk_limits 8190 8 2 65534 1024 8 65534 65534 false in
  match hrun (fl_lim L) (hd_lim L) (fl_code_of L) 40 hd_parse_src (hd_store hd_init) [65;58;49;10;66;58;50;10;67;58;51;10;10] with
  | Some (false, st, rest) => hs_nums st = [0; 1; 0; 6] /\ rest = [10]
  | _ => False
  end.
Proof. vm_compute. split; reflexivity. Qed.
Print Assumptions C02_header_block_is_the_source.

Theorem C02_request_head_is_the_source : forall L q buf fuel, hd_ok (rq_headers q) -> (length buf + 2 <= fuel)%nat ->
  mrun (rl_lim L) (fl_lim L) (hd_lim L) (rl_code_of L) (hd_code_of L) fuel rq_parse_src (rq_store q) buf =
  Some (let '(q', rest, p) := rq_parse L q buf in (is_done p, rq_store q', rest)).
Proof. exact rq_parse_is_the_source. Qed.
Print Assumptions C02_request_head_is_the_source.

(* the queries behind the verdicts: the Host check, TRACE, chunked framing (translated; see Properties_C09.v) *)
Theorem C02_missing_host_is_the_source : forall q, rq_ev q rq_missing_host_header_src = rq_missing_host q.
Proof. exact rq_missing_host_is_the_source. Qed.
Theorem C02_is_trace_is_the_source : forall q, rq_ev q rq_is_trace_src = rq_is_trace q.
Proof. exact rq_is_trace_is_the_source. Qed.
Theorem C02_is_chunked_is_the_source : forall h, hq_eval hd_is_chunked_src h = hd_is_chunked h.
Proof. exact hd_is_chunked_is_the_source. Qed.
Print Assumptions C02_missing_host_is_the_source.
Print Assumptions C02_is_trace_is_the_source.
Print Assumptions C02_is_chunked_is_the_source.

(* ---- request_receiver::receive itself ----
   The whole function - head, failure classification (501 / 414 / 400), Host check, TRACE, 400 / 413 / 411, the bytes of
   the body, VALID, 100-continue, the chunked branch with its 400 / 413 - is translated from clang's AST on every run (a
   term of M_Recv.v whose calls run the translated functions of all the layers below) and the model's receive, about
   which the verdict theorems of this file speak, is proved to return what the translated body returns: the Rx value,
   the receiver afterwards (response code, body, flags, the parsed request and chunk) and the input left unread - for
   every receiver whose parts satisfy the invariants the connection keeps (body_inv: P_C05; rc_inv: P_C06b; hd_ok:
   P_Frag), limits below 2^63, every input and every fuel of at least the length of the input plus two. *)
Theorem C02_receive_is_the_source : forall cfg v buf fuel,
  body_inv v ->
  hd_ok (rq_headers (rv_req v)) -> rc_inv (c_lim cfg) (rv_chunk v) -> hd_ok (rc_trailers (rv_chunk v)) ->
  small (ck_max (rc_hdr (rv_chunk v))) -> small (c_max_content cfg) -> small (nlen (rv_body v)) ->
  (length buf + 2 <= fuel)%nat ->
  rrun (rl_lim (c_lim cfg)) (fl_lim (c_lim cfg)) (hd_lim (c_lim cfg)) (ck_lim (c_lim cfg)) (rcode_of (c_lim cfg))
       (c_max_content cfg) (c_translate_head cfg) (c_concat cfg) rv_clear_src fuel rv_receive_src (rv_store v) buf =
  (let '(v', rest, r) := receive cfg v buf in
   match rx_of r with Some c => Some (c, rv_store v', rest) | None => None end).
Proof. exact receive_is_the_source. Qed.
(* the premises hold at the start of a connection *)
Example C02_receive_source_premises :
  let cfg := mk_rcfg (mk_limits 8190 8 100 65534 1024 8 65534 65534 false) 1048576 1048576 true true false in
  let v := rv_init cfg in
  body_inv v /\ hd_ok (rq_headers (rv_req v)) /\ rc_inv (c_lim cfg) (rv_chunk v) /\ hd_ok (rc_trailers (rv_chunk v)) /\
  small (ck_max (rc_hdr (rv_chunk v))) /\ small (c_max_content cfg) /\ small (nlen (rv_body v)).
Proof.
  cbv zeta. split; [apply body_inv_init|]. split; [exact fl_ok_init|]. split; [apply rc_inv_init|]. split; [exact fl_ok_init|]. repeat split.
Qed.
(* the translated function really runs: a POST without a length followed by a byte is refused with 411 *)
Example C02_receive_source_example :
  let cfg := mk_rcfg (mk_limits 8190 8 100 65534 1024 8 65534 65534 false) 1048576 1048576 true true false in
  match rrun (rl_lim (c_lim cfg)) (fl_lim (c_lim cfg)) (hd_lim (c_lim cfg)) (ck_lim (c_lim cfg)) (rcode_of (c_lim cfg))
             (c_max_content cfg) (c_translate_head cfg) (c_concat cfg) rv_clear_src 80 rv_receive_src (rv_store (rv_init cfg))
             [80;79;83;84;32;47;32;72;84;84;80;47;49;46;49;13;10;72;111;115;116;58;104;13;10;13;10;120] with
  | Some (VX_INVALID, st, rest) => nth 0 (rs_nums st) 0 = 411 /\ rest = [120]
  | _ => False
  end.
Proof. vm_compute. split; reflexivity. Qed.
Print Assumptions C02_receive_is_the_source.
