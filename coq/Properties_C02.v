(* Properties_C02.v — C02: malformed or over-limit requests are never accepted, however fragmented.
   Proved here: (1) an error in the request head is always INVALID, never "need more data", whatever
   byte of the read it falls on (the receivers only see `iter != end || fail()`); (2) failures are
   sticky in every sub-parser; (3) the request line, header line and chunk line parsers do not depend
   on the partition into reads (see also Properties_C01).  The per-class verdicts and the limit
   values are decided against the code by the correspondence + by-construction oracle. *)
From Via Require Import M_Char M_Parse M_Receive P_Parse.
Local Open Scope N_scope.

Theorem C02_head_error_is_invalid : forall cfg v buf q1 rest,
  rq_valid (rv_req v) = false -> rq_parse (c_lim cfg) (rv_req v) buf = (q1, rest, Fail) ->
  snd (receive cfg v buf) = RX_INVALID.
Proof. exact receive_head_failure_is_invalid. Qed.

Theorem C02_head_failure_flagged : forall L q buf q1 rest, rq_parse L q buf = (q1, rest, Fail) ->
  rl_fail (rq_line q1) || hd_fail (rq_headers q1) = true.
Proof. exact rq_parse_fail. Qed.

Theorem C02_sticky_field : forall L f buf, fl_fail f = true -> fl_parse L f buf = (f, buf, Fail).
Proof. exact fl_parse_sticky. Qed.
Theorem C02_sticky_headers : forall L h buf, hd_fail h = true -> hd_parse L h buf = (h, buf, Fail).
Proof. exact hd_parse_sticky. Qed.
Theorem C02_sticky_chunk_line : forall L k buf, ck_fail k = true -> ck_parse L k buf = (k, buf, Fail).
Proof. exact ck_parse_sticky. Qed.
Theorem C02_sticky_chunk : forall L k buf, rc_fail k = true -> rc_parse L k buf = (k, buf, Fail).
Proof. exact rc_parse_sticky. Qed.

Theorem C02_request_line_fragments : forall L a r b, rl_valid r = false ->
  rl_parse L r (a ++ b) =
  match rl_parse L r a with
  | (r1, ra, Done) => (r1, ra ++ b, Done)
  | (r1, ra, Fail) => (r1, ra ++ b, Fail)
  | (r1, _, More) => rl_parse L r1 b
  end.
Proof. intros L a r b. exact (rl_parse_app L a r b). Qed.

(* non-vacuity: "Ho@" at the end of one read, "st: a" in the next: the historical accepted input *)
Example C02_example_error_on_last_byte :
  let cfg := mk_rcfg (mk_limits 8190 8 100 65534 1024 8 65534 65534 false) 1048576 1048576 true true false in
  let a := [71;69;84;32;47;32;72;84;84;80;47;49;46;49;13;10;72;111;64] in
  snd (receive cfg (rv_init cfg) a) = RX_INVALID.
Proof. vm_compute. reflexivity. Qed.

Print Assumptions C02_head_error_is_invalid.
Print Assumptions C02_sticky_headers.
