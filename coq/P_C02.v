(* P_C02.v — the verdicts of C02 as decision rules: which violation gives which status, and the limits of the request
   line exactly: a method / target of exactly the configured length is taken, one byte more is refused. *)
From Via Require Import M_Char M_Parse M_Receive P_Parse P_Frag P_C06 P_C06b.
From Coq Require Import Lia ZifyBool ZifyNat ZifyN.
Local Open Scope N_scope.
Arguments nlen : simpl never.
Arguments snoc : simpl never.

(* ---- the method ---- *)
Definition in_method (r : req_line) : Prop := rl_state r = R_METHOD /\ rl_fail r = false.

Lemma snoc_app (s : str) c t : snoc s c ++ t = s ++ c :: t.
Proof. unfold snoc. rewrite <- app_assoc. reflexivity. Qed.

(* letters up to the limit are collected, whatever follows *)
Lemma rl_parse_method L : forall m r rest, rl_state r = R_METHOD -> forallb isupper m = true -> m <> [] ->
  nlen (rl_method r) + nlen m <= max_method L ->
  rl_parse L r (m ++ rest) =
  rl_parse L (mk_rl (rl_method r ++ m) (rl_uri r) (rl_major r) (rl_minor r) R_METHOD (rl_ws r) (rl_valid r) false) rest.
Proof.
  induction m as [|c m IH]; intros r rest Hs Hu Hne Hl; [congruence|].
  cbn [forallb] in Hu. apply Bool.andb_true_iff in Hu. destruct Hu as [Hc Hm].
  rewrite nlen_cons in Hl.
  change ((c :: m) ++ rest) with (c :: (m ++ rest)). cbn [rl_parse]. unfold rl_done. rewrite Hs.
  unfold rl_parse_char. rewrite Hs, Hc. cbv zeta. unfold rl_set_method. cbn [rl_method].
  rewrite nlen_snoc. destruct (max_method L <? nlen (rl_method r) + 1) eqn:E; [lia|].
  unfold rl_set_fail. cbn [rl_method rl_uri rl_major rl_minor rl_state rl_ws rl_valid rl_fail]. rewrite Hs.
  destruct m as [|d m'].
  - unfold snoc. reflexivity.
  - rewrite IH; [| reflexivity | exact Hm | discriminate | cbn [rl_method]; rewrite nlen_snoc; lia].
    cbn [rl_method rl_uri rl_major rl_minor rl_state rl_ws rl_valid rl_fail]. rewrite snoc_app. reflexivity.
Qed.

(* one letter beyond the limit is refused with the state that selects 501 *)
Lemma rl_parse_method_too_long L m r c rest : rl_state r = R_METHOD -> forallb isupper m = true -> isupper c = true ->
  nlen (rl_method r) + nlen m = max_method L ->
  exists r1, rl_parse L r (m ++ c :: rest) = (r1, rest, Fail) /\ rl_state r1 = R_ERROR_METHOD_LENGTH /\ rl_fail r1 = true.
Proof.
  intros Hs Hm Hc Hl.
  assert (Step : forall r0, rl_state r0 = R_METHOD -> nlen (rl_method r0) = max_method L ->
                 exists r1, rl_parse L r0 (c :: rest) = (r1, rest, Fail) /\ rl_state r1 = R_ERROR_METHOD_LENGTH /\ rl_fail r1 = true).
  { intros r0 Hs0 Hl0. cbn [rl_parse]. unfold rl_done. rewrite Hs0. unfold rl_parse_char. rewrite Hs0, Hc. cbv zeta.
    unfold rl_set_method. cbn [rl_method]. rewrite nlen_snoc.
    destruct (max_method L <? nlen (rl_method r0) + 1) eqn:E; [|lia].
    eexists. split; [reflexivity | split; reflexivity]. }
  destruct m as [|d m'].
  - cbn [app]. apply Step; [exact Hs | rewrite nlen_nil in Hl; lia].
  - rewrite rl_parse_method; [| exact Hs | exact Hm | discriminate | lia].
    apply Step; [reflexivity | cbn [rl_method]; rewrite nlen_app'; exact Hl].
Qed.

(* ---- the target ---- *)
Definition uri_char (c : byte) : bool := negb (is_end_of_line c) && negb (isblank c).

Lemma rl_parse_uri L : forall u r rest, rl_state r = R_URI -> forallb uri_char u = true -> u <> [] ->
  nlen (rl_uri r) + nlen u <= max_uri L ->
  rl_parse L r (u ++ rest) =
  rl_parse L (mk_rl (rl_method r) (rl_uri r ++ u) (rl_major r) (rl_minor r) R_URI (rl_ws r) (rl_valid r) false) rest.
Proof.
  induction u as [|c u IH]; intros r rest Hs Hu Hne Hl; [congruence|].
  cbn [forallb] in Hu. apply Bool.andb_true_iff in Hu. destruct Hu as [Hc Hm].
  unfold uri_char in Hc. apply Bool.andb_true_iff in Hc. destruct Hc as [Hc1 Hc2].
  apply Bool.negb_true_iff in Hc1. apply Bool.negb_true_iff in Hc2.
  rewrite nlen_cons in Hl.
  change ((c :: u) ++ rest) with (c :: (u ++ rest)). cbn [rl_parse]. unfold rl_done. rewrite Hs.
  unfold rl_parse_char. rewrite Hs, Hc1, Hc2. cbv zeta. cbn [rl_uri].
  rewrite nlen_snoc. destruct (max_uri L <? nlen (rl_uri r) + 1) eqn:E; [lia|].
  unfold rl_set_fail. cbn [rl_method rl_uri rl_major rl_minor rl_state rl_ws rl_valid rl_fail]. rewrite ?Hs.
  destruct u as [|d u'].
  - unfold snoc. reflexivity.
  - rewrite IH; [| reflexivity | exact Hm | discriminate | cbn [rl_uri]; rewrite nlen_snoc; lia].
    cbn [rl_method rl_uri rl_major rl_minor rl_state rl_ws rl_valid rl_fail]. rewrite snoc_app. reflexivity.
Qed.

Lemma rl_parse_uri_too_long L u r c rest : rl_state r = R_URI -> forallb uri_char u = true -> uri_char c = true ->
  nlen (rl_uri r) + nlen u = max_uri L ->
  exists r1, rl_parse L r (u ++ c :: rest) = (r1, rest, Fail) /\ rl_state r1 = R_ERROR_URI_LENGTH /\ rl_fail r1 = true.
Proof.
  intros Hs Hm Hc Hl.
  unfold uri_char in Hc. apply Bool.andb_true_iff in Hc. destruct Hc as [Hc1 Hc2].
  apply Bool.negb_true_iff in Hc1. apply Bool.negb_true_iff in Hc2.
  assert (Step : forall r0, rl_state r0 = R_URI -> nlen (rl_uri r0) = max_uri L ->
                 exists r1, rl_parse L r0 (c :: rest) = (r1, rest, Fail) /\ rl_state r1 = R_ERROR_URI_LENGTH /\ rl_fail r1 = true).
  { intros r0 Hs0 Hl0. cbn [rl_parse]. unfold rl_done. rewrite Hs0. unfold rl_parse_char. rewrite Hs0, Hc1, Hc2. cbv zeta.
    cbn [rl_uri]. rewrite nlen_snoc.
    destruct (max_uri L <? nlen (rl_uri r0) + 1) eqn:E; [|lia].
    eexists. split; [reflexivity | split; reflexivity]. }
  destruct u as [|d u'].
  - cbn [app]. apply Step; [exact Hs | rewrite nlen_nil in Hl; lia].
  - rewrite rl_parse_uri; [| exact Hs | exact Hm | discriminate | lia].
    apply Step; [reflexivity | cbn [rl_uri]; rewrite nlen_app'; exact Hl].
Qed.

(* the blank that ends the method *)
Lemma rl_parse_method_end L r rest : rl_state r = R_METHOD -> rl_method r <> [] ->
  rl_parse L r (32 :: rest) =
  rl_parse L (mk_rl (rl_method r) (rl_uri r) (rl_major r) (rl_minor r) R_URI 1 (rl_valid r) false) rest.
Proof.
  intros Hs Hm. cbn [rl_parse]. unfold rl_done. rewrite Hs. unfold rl_parse_char. rewrite Hs.
  change (isupper 32) with false. change (isblank 32) with true. cbv iota.
  destruct (rl_method r) eqn:Em; [congruence|]. cbn [negb andb]. cbv iota. unfold rl_set_fail, rl_set_state, rl_set_ws.
  cbn [rl_method rl_uri rl_major rl_minor rl_state rl_ws rl_valid rl_fail]. rewrite Em. reflexivity.
Qed.

(* ---- the verdicts at the receiver: a fresh connection ---- *)
Lemma receive_line_failure cfg buf l1 b1 : rl_parse (c_lim cfg) rl_init buf = (l1, b1, Fail) -> rl_fail l1 = true ->
  receive cfg (rv_init cfg) buf =
  (rv_clear (rv_set_code (mk_rv (mk_rq l1 hd_init false) (rc_init (c_max_chunk cfg)) [] code_NO_CONTENT false false)
                         (match rl_state l1 with
                          | R_ERROR_METHOD_LENGTH => code_NOT_IMPLEMENTED
                          | R_ERROR_URI_LENGTH => code_REQUEST_URI_TOO_LONG
                          | _ => code_BAD_REQUEST
                          end)), b1, RX_INVALID).
Proof.
  intros Hp Hf. unfold receive, rv_init. cbn [rv_req rq_valid rq_init negb rv_chunk rv_body rv_code rv_continue_sent rv_is_head].
  unfold rq_parse. cbn [rq_line rq_init rl_init rl_valid]. fold rl_init. rewrite Hp.
  cbn [rq_headers rq_valid rq_line]. rewrite Hf, Bool.orb_true_r. cbn [orb]. unfold invalid. reflexivity.
Qed.

Theorem method_too_long_is_501 cfg m c rest : forallb isupper m = true -> isupper c = true -> nlen m = max_method (c_lim cfg) ->
  exists v1, receive cfg (rv_init cfg) (m ++ c :: rest) = (v1, rest, RX_INVALID) /\ rv_code v1 = code_NOT_IMPLEMENTED.
Proof.
  intros Hm Hc Hl.
  destruct (rl_parse_method_too_long (c_lim cfg) m rl_init c rest eq_refl Hm Hc) as [r1 [Hp [Hs Hf]]].
  { cbn [rl_init rl_method]. rewrite nlen_nil. lia. }
  rewrite (receive_line_failure cfg _ _ _ Hp Hf), Hs. eexists. split; reflexivity.
Qed.

Theorem target_too_long_is_414 cfg m u c rest : forallb isupper m = true -> m <> [] -> nlen m <= max_method (c_lim cfg) ->
  forallb uri_char u = true -> uri_char c = true -> nlen u = max_uri (c_lim cfg) ->
  exists v1, receive cfg (rv_init cfg) (m ++ 32 :: u ++ c :: rest) = (v1, rest, RX_INVALID) /\ rv_code v1 = code_REQUEST_URI_TOO_LONG.
Proof.
  intros Hm Hne Hl Hu Hc Hlu.
  assert (Hp : exists r1, rl_parse (c_lim cfg) rl_init (m ++ 32 :: u ++ c :: rest) = (r1, rest, Fail) /\
                          rl_state r1 = R_ERROR_URI_LENGTH /\ rl_fail r1 = true).
  { rewrite rl_parse_method; [| reflexivity | exact Hm | exact Hne | cbn [rl_init rl_method]; rewrite nlen_nil; lia].
    rewrite rl_parse_method_end; [| reflexivity | cbn [rl_method rl_init app]; exact Hne].
    apply rl_parse_uri_too_long; [reflexivity | exact Hu | exact Hc | cbn [rl_uri rl_init]; rewrite nlen_nil; lia]. }
  destruct Hp as [r1 [Hp [Hs Hf]]].
  rewrite (receive_line_failure cfg _ _ _ Hp Hf), Hs. eexists. split; reflexivity.
Qed.

(* ---- the verdicts once the head is complete: receive hands the receiver holding the head to receive_body ---- *)
Lemma receive_head_done cfg v buf q1 b1 : rq_valid (rv_req v) = false -> rq_parse (c_lim cfg) (rv_req v) buf = (q1, b1, Done) ->
  receive cfg v buf = receive_body cfg true (mk_rv q1 (rv_chunk v) (rv_body v) (rv_code v) (rv_continue_sent v) (rv_is_head v)) b1.
Proof. intros Hv Hp. unfold receive. rewrite Hv. cbn [negb]. rewrite Hp. reflexivity. Qed.

Lemma receive_head_before cfg v buf : rq_valid (rv_req v) = true -> receive cfg v buf = receive_body cfg false v buf.
Proof. intros Hv. unfold receive. rewrite Hv. cbn [negb]. rewrite rv_eta. reflexivity. Qed.

Theorem missing_host_is_400 cfg rp v1 b1 : rq_missing_host (rv_req v1) = true ->
  receive_body cfg rp v1 b1 = (rv_set_code v1 code_BAD_REQUEST, b1, RX_INVALID).
Proof. intros H. unfold receive_body. rewrite H. reflexivity. Qed.

Definition unchunked (v1 : receiver) : Prop :=
  rq_missing_host (rv_req v1) = false /\ hd_is_chunked (rq_headers (rv_req v1)) = false.

Lemma receive_body_cl cfg rp v1 b1 : unchunked v1 -> receive_body cfg rp v1 b1 = receive_cl cfg rp v1 b1.
Proof. intros [H1 H2]. unfold receive_body. rewrite H1, H2. reflexivity. Qed.

Theorem bad_content_length_is_400 cfg rp v1 b1 : unchunked v1 -> hd_content_length (rq_headers (rv_req v1)) = None ->
  exists v, receive_body cfg rp v1 b1 = (v, b1, RX_INVALID) /\ rv_code v = code_BAD_REQUEST.
Proof.
  intros Hu Hc. rewrite (receive_body_cl _ _ _ _ Hu). unfold receive_cl, invalid. rewrite Hc. cbv zeta.
  destruct (rq_is_trace (rv_req v1) && _); [eexists; split; reflexivity|].
  match goal with |- context [if ?e then _ else _] => destruct e end; eexists; split; reflexivity.
Qed.

Theorem content_length_over_limit_is_413 cfg rp v1 b1 n : unchunked v1 -> rq_is_trace (rv_req v1) = false ->
  hd_content_length (rq_headers (rv_req v1)) = Some n -> c_max_content cfg < n ->
  exists v, receive_body cfg rp v1 b1 = (v, b1, RX_INVALID) /\ rv_code v = code_PAYLOAD_TOO_LARGE.
Proof.
  intros Hu Ht Hc Hn. rewrite (receive_body_cl _ _ _ _ Hu). unfold receive_cl, invalid. rewrite Hc, Ht. cbv zeta. cbn [andb].
  assert (E : (0 <? n) && (c_max_content cfg <? n) = true) by lia. rewrite E. eexists; split; reflexivity.
Qed.

(* exactly at the limit it is taken: the call does not reject *)
Theorem content_length_at_limit_is_taken cfg rp v1 b1 : unchunked v1 -> rq_is_trace (rv_req v1) = false ->
  hd_content_length (rq_headers (rv_req v1)) = Some (c_max_content cfg) -> 0 < c_max_content cfg ->
  snd (receive_body cfg rp v1 b1) <> RX_INVALID.
Proof.
  intros Hu Ht Hc Hpos. rewrite (receive_body_cl _ _ _ _ Hu). unfold receive_cl, invalid. rewrite Hc, Ht. cbv zeta. cbn [andb].
  assert (E : (0 <? c_max_content cfg) && (c_max_content cfg <? c_max_content cfg) = false) by lia. rewrite E.
  assert (E2 : (c_max_content cfg =? 0) = false) by lia. rewrite E2. cbn [andb].
  repeat match goal with |- context [if ?e then _ else _] => destruct e end; cbn [snd]; discriminate.
Qed.

Theorem body_without_length_is_411 cfg rp v1 b1 : unchunked v1 -> rq_is_trace (rv_req v1) = false ->
  nonempty (hd_find (rq_headers (rv_req v1)) hf_LC_CONTENT_LENGTH) = false -> b1 <> [] ->
  exists v, receive_body cfg rp v1 b1 = (v, b1, RX_INVALID) /\ rv_code v = code_LENGTH_REQUIRED.
Proof.
  intros Hu Ht Hh Hb. rewrite (receive_body_cl _ _ _ _ Hu). unfold receive_cl, invalid.
  rewrite (hd_content_length_absent _ Hh), Ht, Hh. cbv zeta. cbn [andb negb N.ltb N.compare N.eqb].
  assert (E : (0 <? nlen b1) = true) by (destruct b1; [congruence | rewrite nlen_cons; lia]). rewrite E.
  eexists; split; reflexivity.
Qed.

Theorem trace_with_body_is_400 cfg rp v1 b1 : unchunked v1 -> rq_is_trace (rv_req v1) = true ->
  hd_content_length (rq_headers (rv_req v1)) <> Some 0 ->
  exists v, receive_body cfg rp v1 b1 = (v, b1, RX_INVALID) /\ rv_code v = code_BAD_REQUEST.
Proof.
  intros Hu Ht Hc. rewrite (receive_body_cl _ _ _ _ Hu). unfold receive_cl, invalid. rewrite Ht. cbv zeta. cbn [andb].
  destruct (hd_content_length (rq_headers (rv_req v1))) as [[|p]|]; [congruence | |]; eexists; split; reflexivity.
Qed.

(* TRACE without a body: complete, with 405 proposed - and what the application is handed is the 405, never the request *)
Theorem trace_is_405 cfg rp v1 : unchunked v1 -> rq_is_trace (rv_req v1) = true ->
  hd_content_length (rq_headers (rv_req v1)) = Some 0 -> rv_body v1 = [] ->
  exists v, receive_body cfg rp v1 [] = (v, [], RX_VALID) /\ rv_code v = code_METHOD_NOT_ALLOWED /\
            rq_is_trace (rv_req v) = true /\ snd (dispatch_rx cfg v RX_VALID) = [ETrace code_METHOD_NOT_ALLOWED].
Proof.
  intros Hu Ht Hc Hb. rewrite (receive_body_cl _ _ _ _ Hu). unfold receive_cl, invalid. rewrite Ht, Hc. cbv zeta. cbn [andb negb].
  cbn [rv_set_code rv_body]. rewrite Hb.
  change (nlen []) with 0. cbn.
  assert (Hh : rq_is_head (rv_req v1) = false).
  { unfold rq_is_trace, rq_is_head in *. destruct (str_eqb (rl_method (rq_line (rv_req v1))) method_HEAD) eqn:E; [|reflexivity].
    assert (L1 := str_eqb_len _ _ E). assert (L2 := str_eqb_len _ _ Ht). exfalso. change (nlen method_HEAD) with 4 in L1. change (nlen method_TRACE) with 5 in L2. lia. }
  rewrite Hh. cbn [andb]. eexists. split; [reflexivity|]. cbn [rv_code rv_req]. split; [reflexivity | split; [exact Ht|]].
  unfold dispatch_rx. cbn [rv_req]. rewrite Ht. reflexivity.
Qed.

(* a rejected request is never handed over as a request *)
Theorem invalid_is_never_delivered cfg v : dispatch_rx cfg v RX_INVALID = (rv_clear v, [EInvalid (rv_code v)]).
Proof. reflexivity. Qed.

(* ---- chunked requests ---- *)
Definition chunked (v1 : receiver) : Prop :=
  rq_missing_host (rv_req v1) = false /\ hd_is_chunked (rq_headers (rv_req v1)) = true.

Definition chunk_in (v1 : receiver) : rx_chunk := if rc_valid (rv_chunk v1) then rc_clear (rv_chunk v1) else rv_chunk v1.

(* a chunk size line, chunk terminator or trailer that fails - or stops with bytes left over - is 400 *)
Theorem bad_chunk_is_400 cfg v1 b1 k1 b2 r2 : chunked v1 ->
  rc_parse (c_lim cfg) (chunk_in v1) b1 = (k1, b2, r2) -> r2 <> Done -> nonempty b2 || rc_failed k1 = true ->
  exists v, receive_body cfg false v1 b1 = (v, b2, RX_INVALID) /\ rv_code v = code_BAD_REQUEST.
Proof.
  intros [H1 H2] Hp Hr Hf. unfold receive_body. rewrite H1, H2. cbn [negb]. unfold receive_chunked, invalid. cbv zeta. cbn [andb].
  fold (chunk_in v1). rewrite Hp. cbn [rv_req rv_body rv_chunk rv_code rv_continue_sent rv_is_head].
  destruct r2; [congruence | |]; rewrite Hf; eexists; split; reflexivity.
Qed.

(* chunks gathered into one body: the chunk that takes the total over the limit is 413 *)
Theorem chunks_over_limit_is_413 cfg v1 b1 k1 b2 : chunked v1 -> c_concat cfg = true ->
  rc_parse (c_lim cfg) (chunk_in v1) b1 = (k1, b2, Done) -> rc_valid k1 = true -> rc_is_last k1 = false ->
  c_max_content cfg < nlen (rv_body v1) + nlen (rc_data k1) ->
  exists v, receive_body cfg false v1 b1 = (v, b2, RX_INVALID) /\ rv_code v = code_PAYLOAD_TOO_LARGE.
Proof.
  intros [H1 H2] Hc Hp Hv Hl Hn. unfold receive_body. rewrite H1, H2. cbn [negb]. unfold receive_chunked, invalid. cbv zeta. cbn [andb].
  fold (chunk_in v1). rewrite Hp. cbn [rv_req rv_body rv_chunk rv_code rv_continue_sent rv_is_head]. rewrite Hv, Hc, Hl.
  assert (E : (c_max_content cfg <? nlen (rv_body v1) + nlen (rc_data k1)) = true) by lia. rewrite E.
  eexists; split; reflexivity.
Qed.

(* exactly at the limit the chunk is added *)
Theorem chunks_at_limit_are_taken cfg v1 b1 k1 b2 : chunked v1 -> c_concat cfg = true ->
  rc_parse (c_lim cfg) (chunk_in v1) b1 = (k1, b2, Done) -> rc_valid k1 = true -> rc_is_last k1 = false ->
  nlen (rv_body v1) + nlen (rc_data k1) = c_max_content cfg ->
  exists v, receive_body cfg false v1 b1 = (v, b2, RX_INCOMPLETE) /\ rv_body v = rv_body v1 ++ rc_data k1.
Proof.
  intros [H1 H2] Hc Hp Hv Hl Hn. unfold receive_body. rewrite H1, H2. cbn [negb]. unfold receive_chunked, invalid. cbv zeta. cbn [andb].
  fold (chunk_in v1). rewrite Hp. cbn [rv_req rv_body rv_chunk rv_code rv_continue_sent rv_is_head]. rewrite Hv, Hc, Hl.
  assert (E : (c_max_content cfg <? nlen (rv_body v1) + nlen (rc_data k1)) = false) by lia. rewrite E.
  eexists; split; reflexivity.
Qed.

(* a chunk size over the configured chunk limit fails the size line *)
Lemma ck_size_over_limit L k c : ck_state k = K_SIZE -> isxdigit c = false -> (is_end_of_line c || (c =? 59)) = true ->
  ck_length k + 1 <= max_line L -> ck_max k < size_of_hex (ck_hex k) ->
  snd (ck_parse_char L k c) = false /\ ck_state (fst (ck_parse_char L k c)) = K_ERROR_SIZE.
Proof.
  intros Hs Hx He Hl Hm. unfold ck_parse_char. cbn [ck_length].
  assert (E : (max_line L <? ck_length k + 1) = false) by lia. rewrite E. cbn [ck_state]. rewrite Hs.
  unfold ck_size_case. rewrite Hx, He. cbv zeta. cbn [ck_max ck_hex].
  assert (E2 : (ck_max k <? size_of_hex (ck_hex k)) = true) by lia. rewrite E2. split; reflexivity.
Qed.
