(* P_Server.v — lemmas about the server state machine (M_Server.v). *)
From Via Require Import M_Char M_Encode M_Parse M_Receive M_Server.
Local Open Scope N_scope.

(* C20: time passing is not an event the library reacts to: there is no timer anywhere in the
   connection, so a Tick leaves every connection exactly as it was (in particular open, with the
   same read pending) - whatever timeout has been configured *)
Lemma tick_changes_nothing recipe_of o w : fst (step recipe_of o w EvTick) = w.
Proof. unfold step. destruct (w_undefined w); reflexivity. Qed.

Lemma ticks_change_nothing recipe_of o n : forall w,
  fst (run recipe_of o w (repeat ([], EvTick) n)) = w.
Proof.
  induction n as [|n IH]; intros w; cbn [repeat run]; [reflexivity|].
  pose proof (tick_changes_nothing recipe_of o w) as H.
  destruct (step recipe_of o w EvTick) as [w1 l1]. cbn [fst] in H. subst w1.
  specialize (IH w). destruct (run recipe_of o w (repeat ([], EvTick) n)) as [w2 l2]. exact IH.
Qed.

(* C13: a response whose header block would split is refused by every send overload: nothing is
   written and send() returns false *)
Lemma split_response_refused o w c rp :
  tx_response_is_valid
    (tx_response_of_reason (match reason_phrase (rp_status rp) with [] => custom_reason | _ => [] end) (rp_status rp) (rp_hdrs rp)) = false ->
  (rp_ov rp = 0 \/ rp_ov rp = 1 \/ rp_ov rp = 2) ->
  snd (app_respond o w c rp) = [LSend (c_id c) 0 false].
Proof.
  intros Hv Hov. unfold app_respond. rewrite Hv. cbn [negb].
  destruct Hov as [->|[->| ->]]; reflexivity.
Qed.

(* the detector sees the header string the application supplied *)
Lemma split_headers_make_invalid reason st hs :
  are_headers_split hs = true -> tx_response_is_valid (tx_response_of_reason reason st hs) = false.
Proof. intros H. unfold tx_response_is_valid, tx_response_of_reason. cbn [rs_headers]. rewrite H. reflexivity. Qed.

(* C03 / C04: what a write puts on the wire *)
Lemma chunk_frame_bytes c : slots_bytes c [SHeader; SBody; SCrlf] = c_tx_header c ++ c_tx_body c ++ [13; 10].
Proof. unfold slots_bytes. cbn [map concat slot_bytes]. rewrite app_nil_r. reflexivity. Qed.

Lemma send_data_idle w c slots : c_transmitting c = false -> c_connected c = true ->
  snd (fst (send_data w c slots)) = [LWrite (c_id c) (slots_bytes c slots)] /\ snd (send_data w c slots) = true.
Proof. intros Ht Hc. unfold send_data. rewrite Ht, Hc. split; reflexivity. Qed.

(* a send while a write is in flight is outside the model (and is where the library drops data) *)
Lemma send_data_busy w c slots : c_transmitting c = true ->
  snd (fst (send_data w c slots)) = [LUndefined] /\ snd (send_data w c slots) = false.
Proof. intros Ht. unfold send_data. rewrite Ht. split; reflexivity. Qed.

(* C14: the head of a response to HEAD is the head of the response to GET, and no body buffer is attached *)
Lemma head_response_same_header o w c rp hdr body :
  rp_ov rp = 1 ->
  tx_response_is_valid (tx_response_of_reason (match reason_phrase (rp_status rp) with [] => custom_reason | _ => [] end) (rp_status rp) (rp_hdrs rp)) = true ->
  body = body_of (w_reqno w) (rp_len rp) ->
  hdr = response_message (with_version c (tx_response_of_reason (match reason_phrase (rp_status rp) with [] => custom_reason | _ => [] end) (rp_status rp) (rp_hdrs rp))) (nlen body) ->
  app_respond o w c rp =
  (let '(w1, l1, ok) :=
     if rv_is_head (c_rx c) || negb (content_permitted (rp_status rp))
     then http_send o w (set_tx c (c_rx c) hdr (c_tx_body c) (c_keep c)) [SHeader] (rp_status rp =? code_CONTINUE)
     else http_send o w (set_tx c (c_rx c) hdr body (c_keep c)) [SHeader; SBody] (rp_status rp =? code_CONTINUE) in
   (w1, l1 ++ [LSend (c_id c) 0 ok])).
Proof. intros Hov Hv -> ->. unfold app_respond. rewrite Hov, Hv. reflexivity. Qed.

(* C15: at most one interim response per request; none for HTTP/1.0 *)
Lemma no_second_continue_cl cfg rp v b : rv_continue_sent v = true -> snd (receive_cl cfg rp v b) <> RX_EXPECT_CONTINUE.
Proof.
  intros Hc. destruct v as [q k body code cs ih]. cbn in Hc. subst cs. unfold receive_cl.
  cbn [rv_req rv_body rv_chunk rv_code rv_continue_sent rv_is_head rv_set_code].
  repeat match goal with
         | |- context [if ?b then rv_set_code _ _ else _] => destruct b; cbn [rv_req rv_body rv_chunk rv_code rv_continue_sent rv_is_head rv_set_code]
         end;
  repeat match goal with
         | |- context [negb true] => cbn [negb]; rewrite ?Bool.andb_false_r
         | |- context [if ?b then _ else _] => destruct b
         | |- context [match ?x with Some _ => _ | None => _ end] => destruct x
         end; cbn; try discriminate.
Qed.

Lemma no_second_continue_chunked cfg rp v b : rv_continue_sent v = true -> snd (receive_chunked cfg rp v b) <> RX_EXPECT_CONTINUE.
Proof.
  intros Hc. destruct v as [q k body code cs ih]. cbn in Hc. subst cs. unfold receive_chunked.
  cbn [rv_req rv_body rv_chunk rv_code rv_continue_sent rv_is_head rv_set_code negb]. rewrite Bool.andb_false_r.
  destruct (rp && negb (c_concat cfg)); [cbn; discriminate|].
  destruct (rc_parse _ _ _) as [[k1 b2] r2].
  repeat match goal with
         | |- context [if ?b then _ else _] => destruct b
         end; cbn; discriminate.
Qed.

Lemma no_continue_for_http_1_0 q : is_http_1_0_or_earlier (rl_major (rq_line q)) (rl_minor (rq_line q)) = true ->
  rq_expect_continue q = false.
Proof. intros H. unfold rq_expect_continue. rewrite H. reflexivity. Qed.
