(* M_Auth.v — authentication/base64.hpp, basic.hpp, authentication.hpp and the 401 branch of the
   router.  The boost archive iterators are modelled functionally (modelled, not verified):
     transform_width<_,6,8>      : enc_sextets (zero fill of the last partial sextet)
     base64_from_binary          : b64_char
     insert_linebreaks<_,76>     : insert_linebreaks
     binary_from_base64          : b64_val (None = dataflow_exception, caught by decode)
     transform_width<_,8,6>      : bytes_of
   Definitions only. *)
From Via Require Export M_Char M_Router.
Local Open Scope N_scope.

Definition b64_alphabet : str :=
  [65;66;67;68;69;70;71;72;73;74;75;76;77;78;79;80;81;82;83;84;85;86;87;88;89;90;
   97;98;99;100;101;102;103;104;105;106;107;108;109;110;111;112;113;114;115;116;117;118;119;120;121;122;
   48;49;50;51;52;53;54;55;56;57;43;47].

Definition b64_char (i : N) : byte := nth (N.to_nat i) b64_alphabet 0.

(* to_6_bit: the lookup table of binary_from_base64 ('=' is rendered as 0) *)
Definition b64_val (c : byte) : option N :=
  if isupper c then Some (c - 65)
  else if islower c then Some (c - 71)
  else if isdigit c then Some (c + 4)
  else if c =? 43 then Some 62
  else if c =? 47 then Some 63
  else if c =? 61 then Some 0
  else None.

Fixpoint enc_sextets (x : str) : list N :=
  match x with
  | [] => []
  | [a] => [a / 4; (a mod 4) * 16]
  | [a; b] => [a / 4; (a mod 4) * 16 + b / 16; (b mod 16) * 4]
  | a :: b :: c :: t => [a / 4; (a mod 4) * 16 + b / 16; (b mod 16) * 4 + c / 64; c mod 64] ++ enc_sextets t
  end.

Fixpoint insert_linebreaks (count : nat) (l : str) : str :=
  match l with
  | [] => []
  | c :: t => if Nat.eqb count 76 then 10 :: c :: insert_linebreaks 1 t
              else c :: insert_linebreaks (S count) t
  end.

Definition num_pad3 (x : str) : nat := ((3 - length x mod 3) mod 3)%nat.

Definition b64_encode (x : str) : str :=
  insert_linebreaks 0 (map b64_char (enc_sextets x)) ++ repeat 61 (num_pad3 x).

Fixpoint bytes_of (l : list N) : str :=
  match l with
  | s1 :: s2 :: s3 :: s4 :: t =>
      [s1 * 4 + s2 / 16; (s2 mod 16) * 16 + s3 / 4; (s3 mod 4) * 64 + s4] ++ bytes_of t
  | _ => []
  end.

Fixpoint map_opt {A B} (f : A -> option B) (l : list A) : option (list B) :=
  match l with
  | [] => Some []
  | x :: t => match f x, map_opt f t with
              | Some y, Some r => Some (y :: r)
              | _, _ => None
              end
  end.

Fixpoint count_byte (c : byte) (l : str) : nat :=
  match l with
  | [] => O
  | x :: t => (if x =? c then 1 else 0) + count_byte c t
  end.

(* decode: strip whitespace, pad to a multiple of four, count and neutralise the pad characters,
   decode every character, drop as many bytes as there were pad characters (never more than
   there are); an invalid character makes the result empty *)
Definition b64_decode (s : str) : str :=
  let s1 := filter (fun c => negb (isspace c)) s in
  let npad := ((4 - length s1 mod 4) mod 4)%nat in
  let s2 := s1 ++ repeat PAD_CHARACTER npad in
  let pads := count_byte PAD_CHARACTER s2 in
  let s3 := map (fun c => if c =? PAD_CHARACTER then 65 else c) s2 in
  match map_opt b64_val s3 with
  | None => []
  | Some v => let out := bytes_of v in firstn (length out - Nat.min pads (length out)) out
  end.

(* ---- basic authentication ------------------------------------------------------------ *)
(* StringMap (unordered_map): first insertion of a key wins *)
Fixpoint assoc (k : str) (m : list (str * str)) : option str :=
  match m with
  | [] => None
  | (k', v) :: t => if str_eqb k' k then Some v else assoc k t
  end.

Inductive auth_outcome := AuthOk (b : bool) | AuthThrow.

(* std::string::substr(pos): throws std::out_of_range when pos > size() *)
Definition substr_from (s : str) (pos : nat) : option str :=
  if Nat.ltb (length s) pos then None else Some (skipn pos s).

(* basic::is_valid(header_fields).  Nothing catches an exception here: AuthThrow leaves the
   router and the server's receive handler. *)
Definition basic_is_valid (users headers : list (str * str)) : auth_outcome :=
  match assoc hf_LC_AUTHORIZATION headers with
  | None => AuthOk false
  | Some a =>
      match find_sub tok_BASIC a with
      | None => AuthOk false
      | Some pos =>
          (* basic_pos += 6; if (basic_pos > authorization.size()) return false; *)
          if Nat.ltb (length a) (pos + 6) then AuthOk false
          else
            match substr_from a (pos + 6) with
            | None => AuthThrow
            | Some rest =>
                let d := b64_decode rest in
                match find_char 58 d with
                | None => AuthOk false
                | Some ue =>
                    match assoc (firstn ue d) users with
                    | None => AuthOk false
                    | Some pw =>
                        match substr_from d (S ue) with
                        | None => AuthThrow
                        | Some given => AuthOk (str_eqb given pw)
                        end
                    end
                end
            end
      end
  end.

(* basic::authenticate_value *)
Definition basic_challenge (realm : str) : str :=
  match realm with
  | [] => tok_BASIC
  | _ => tok_BASIC ++ tok_REALM ++ tok_QUOTE ++ realm ++ tok_QUOTE
  end.

(* the protected branch of handle_request *)
Inductive protected_result :=
  | PRun                      (* the handler is called *)
  | PUnauthorised (challenge : str)
  | PThrow.

Definition authenticate_route (realm : str) (users headers : list (str * str)) : protected_result :=
  match basic_is_valid users headers with
  | AuthThrow => PThrow
  | AuthOk true => PRun
  | AuthOk false => PUnauthorised (basic_challenge realm)
  end.
