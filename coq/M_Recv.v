(* M_Recv.v — the sixth layer of the small imperative language: the body of request_receiver::receive(iter, end) as
   clang's AST gives it: parse the request head (unless valid), classify a failure (501 / 414 / 400), the Host check,
   then either the Content-Length body (TRACE, 400 / 413 / 411, the bytes of the body, VALID, 100-continue) or the chunked
   one (clear a delivered chunk, 100-continue, VALID for a chunk handler, parse a chunk, gather it under the body limit).
   The calls run the TRANSLATED functions of the layers below: rx_request::parse and clear (M_Msg), rx_chunk::parse
   and clear (M_Chunk), the queries (M_Query), the accessors.  request_.content_length() is the model's
   hd_content_length (from_dec_string: -1 for anything that is not a number below LONG_MAX).  std::ptrdiff_t is a
   signed 64-bit number, size_t an unsigned one (the sum of two sizes wraps); `iter + n` outside [iter, end] and a
   failing inner run are `None`.  The members of the configuration (max_content_length_, translate_head_,
   concatenate_chunks_) are an environment. *)
From Via Require Import M_Char M_Parse M_Imp M_Loop M_Hdr M_Msg M_Chunk M_Query.
From Coq Require Import List NArith ZArith Bool.
Import ListNotations.
Local Open Scope N_scope.

Inductive rxv := VX_INVALID | VX_EXPECT_CONTINUE | VX_INCOMPLETE | VX_VALID | VX_CHUNK.

Record rcode := mk_rcode
  { xc_line : line_code; xc_hdr : hdr_code; xc_req_parse : mstmt; xc_req_clear : mstmt;
    xc_size_line : size_line_code; xc_chunk_parse : cstmt; xc_chunk_clear : cstmt; xc_chunk_fail : cexp }.

Record rstore := mk_rs { rs_req : mstore; rs_chunk : cstore; rs_body : str; rs_nums : list N }.  (* response_code_, continue_sent_, is_head_ *)
Record rstate := mk_rst
  { r_store : rstore; r_in : str; r_parsed : bool; r_rx : Z; r_cl : Z; r_req : Z; r_next : str;
    r_nocl : bool (* the local no_content_length of response_receiver::receive *) }.

Inductive rzexp :=
  | RZRx | RZCl | RZReq                      (* the locals rx_size, content_length, required *)
  | RZLit (z : Z)
  | RZDistance                               (* std::distance(iter, end) *)
  | RZContentLength                          (* request_.content_length() *)
  | RZMaxContent                             (* static_cast<std::ptrdiff_t>(max_content_length_) *)
  | RZBodySize                               (* static_cast<std::ptrdiff_t>(body_.size()) *)
  | RZSub (a b : rzexp).

Inductive rcmp := RGt | RLt | REq.

Inductive rexp :=
  | RConst (v : bool)
  | RNot (a : rexp) | RAnd (a b : rexp) | ROr (a b : rexp)
  | RParsed                                  (* the local request_parsed / response_parsed *)
  | RNoCl                                    (* the local no_content_length *)
  | RMore                                    (* iter != end, end > iter *)
  | RReqValid | RReqParse                    (* request_.valid(), request_.parse(iter, end) *)
  | RReqLineFail | RReqHdrFail               (* request_.fail(), request_.headers().fail() *)
  | RLineStateIs (k : nat)                   (* request_.state() == Request::K (a case of the switch) *)
  | RQuery (q : rqexp)                       (* request_.keep_alive() etc. *)
  | RFindEmpty (name : str)                  (* request_.headers().find(name).empty() *)
  | RFlag (k : nat)                          (* continue_sent_, is_head_ *)
  | RTranslateHead | RConcat                 (* translate_head_, concatenate_chunks_ *)
  | RZCmp (o : rcmp) (a b : rzexp)
  | RBodyIsContentLength                     (* body_.size() == static_cast<size_t>(request_.content_length()) *)
  | RChunkValid | RChunkParse | RChunkFail | RChunkIsLast
  | RSumOverLimit.                           (* (body_.size() + chunk_.data().size()) > max_content_length_ *)

Inductive rstmt :=
  | RSkip
  | RSeq (a b : rstmt)
  | RIf (c : rexp) (t e : rstmt)
  | RReturn (v : rxv)
  | RLetParsed (e : rexp)
  | RLetRx (e : rzexp) | RLetCl (e : rzexp) | RLetReq (e : rzexp)
  | RLetNoCl (e : rexp)                      (* bool no_content_length(e) *)
  | RAssignCl (e : rzexp)                    (* content_length = e *)
  | RLetNext                                 (* ForwardIterator next(iter + required) *)
  | RInsertToNext | RJumpNext                (* body_.insert(body_.end(), iter, next); iter = next *)
  | RInsertRest | RJumpEnd                   (* body_.insert(body_.end(), iter, end); iter = end *)
  | RSetCode (c : N)                         (* response_code_ = response_status::code::C *)
  | RSetFlag (k : nat) (e : rexp)            (* continue_sent_ / is_head_ = e *)
  | RSetMethod (m : str)                     (* request_.set_method(m) *)
  | RReqClear | RChunkClear | RBodyClear     (* request_.clear(), chunk_.clear(), body_.clear() *)
  | RClear                                   (* clear(): the translated body of request_receiver::clear *)
  | RAppendChunk.                            (* body_.insert(body_.end(), chunk_.data().begin(), chunk_.data().end()) *)

Definition two64 : N := 18446744073709551616.
Definition to_size_t (z : Z) : N := Z.to_N (z mod (Z.of_N two64)).

Section Recv.
  Variable llim flim hlim klim : nat -> N.
  Variable rc : rcode.
  Variable max_content : N.
  Variable translate_head concat : bool.
  Variable clear_body : rstmt.               (* the translated body of request_receiver::clear() *)
  Variable fuel : nat.

  Definition req_headers (st : rstore) : hstore := ms_hdr (rs_req st).
  Definition req_line (st : rstore) : store := ms_line (rs_req st).
  (* the header block of the request as the model's record: only its field map is looked at *)
  Definition req_fields (st : rstore) : headers := mk_hd (hs_fields (req_headers st)) fl_init false false false 0.

  Definition content_length_of (st : rstore) : Z :=
    match hd_content_length (req_fields st) with Some n => Z.of_N n | None => (-1)%Z end.

  Fixpoint rzeval (e : rzexp) (s : rstate) : option Z :=
    match e with
    | RZRx => Some (r_rx s) | RZCl => Some (r_cl s) | RZReq => Some (r_req s)
    | RZLit z => Some z
    | RZDistance => Some (Z.of_nat (length (r_in s)))
    | RZContentLength => Some (content_length_of (r_store s))
    | RZMaxContent => Some (to_ptrdiff max_content)
    | RZBodySize => Some (to_ptrdiff (nlen (rs_body (r_store s))))
    | RZSub a b =>
        match rzeval a s, rzeval b s with
        | Some x, Some y => if in_ptrdiff (x - y) then Some (x - y)%Z else None
        | _, _ => None
        end
    end.

  Definition rnum (st : rstore) (k : nat) : N := nth k (rs_nums st) 0.
  Definition rset (st : rstore) (k : nat) (v : N) : rstore := mk_rs (rs_req st) (rs_chunk st) (rs_body st) (set_nth (rs_nums st) k v).
  Definition rwith (s : rstate) (st : rstore) : rstate := mk_rst st (r_in s) (r_parsed s) (r_rx s) (r_cl s) (r_req s) (r_next s) (r_nocl s).
  Definition rwith_in (s : rstate) (st : rstore) (i : str) : rstate := mk_rst st i (r_parsed s) (r_rx s) (r_cl s) (r_req s) (r_next s) (r_nocl s).

  Fixpoint reval (e : rexp) (s : rstate) : option (bool * rstate) :=
    let st := r_store s in
    match e with
    | RConst v => Some (v, s)
    | RNot a => match reval a s with Some (v, s1) => Some (negb v, s1) | None => None end
    | RAnd a b => match reval a s with Some (true, s1) => reval b s1 | r => r end
    | ROr a b => match reval a s with Some (false, s1) => reval b s1 | r => r end
    | RParsed => Some (r_parsed s, s)
    | RNoCl => Some (r_nocl s, s)
    | RMore => Some (match r_in s with [] => false | _ => true end, s)
    | RReqValid => Some (negb (ms_valid (rs_req st) =? 0), s)
    | RReqParse =>
        match mrun llim flim hlim (xc_line rc) (xc_hdr rc) fuel (xc_req_parse rc) (rs_req st) (r_in s) with
        | Some (v, q1, rest) => Some (v, rwith_in s (mk_rs q1 (rs_chunk st) (rs_body st) (rs_nums st)) rest)
        | None => None
        end
    | RReqLineFail => Some (fst (beval llim 0 (lc_fail (xc_line rc)) (req_line st)), s)
    | RReqHdrFail =>
        match heval flim hlim (hc_field (xc_hdr rc)) fuel (hc_fail (xc_hdr rc)) (mk_hst (req_headers st) (r_in s)) with
        | Some (v, _) => Some (v, s)
        | None => None
        end
    | RLineStateIs k => Some (Nat.eqb k (s_state (req_line st)), s)
    | RQuery q => Some (rq_eval (req_line st) (req_fields st) q, s)
    | RFindEmpty name => Some (match hd_find (req_fields st) name with [] => true | _ => false end, s)
    | RFlag k => Some (negb (rnum st k =? 0), s)
    | RTranslateHead => Some (translate_head, s)
    | RConcat => Some (concat, s)
    | RZCmp o a b =>
        match rzeval a s, rzeval b s with
        | Some x, Some y => Some (match o with RGt => (y <? x)%Z | RLt => (x <? y)%Z | REq => (x =? y)%Z end, s)
        | _, _ => None
        end
    | RBodyIsContentLength => Some (nlen (rs_body st) =? to_size_t (content_length_of st), s)
    | RChunkValid => Some (negb (cnum (rs_chunk st) 0 =? 0), s)
    | RChunkIsLast => Some (fst (beval klim 0 (kc_is_last (xc_size_line rc)) (cs_hdr (rs_chunk st))), s)
    | RChunkFail =>
        match ceval klim flim hlim (xc_size_line rc) (xc_hdr rc) fuel (xc_chunk_fail rc) (mk_cst (rs_chunk st) (r_in s) 0 0 []) with
        | Some (v, _) => Some (v, s)
        | None => None
        end
    | RChunkParse =>
        match crun klim flim hlim (xc_size_line rc) (xc_hdr rc) fuel (xc_chunk_parse rc) (rs_chunk st) (r_in s) with
        | Some (v, k1, rest) => Some (v, rwith_in s (mk_rs (rs_req st) k1 (rs_body st) (rs_nums st)) rest)
        | None => None
        end
    | RSumOverLimit => Some (max_content <? (nlen (rs_body st) + nlen (cs_data (rs_chunk st))) mod two64, s)
    end.

  (* clear() is a call of request_receiver::clear, whose translated body is `clear_body`: the statements are run by
     rexec_gen, told what a call of clear() does; inside clear() itself a further call is `None` (there is none) *)
  Fixpoint rexec_gen (on_clear : rstate -> option (option rxv * rstate)) (stm : rstmt) (s : rstate) {struct stm}
    : option (option rxv * rstate) :=
    let st := r_store s in
    match stm with
    | RSkip => Some (None, s)
    | RSeq a b => match rexec_gen on_clear a s with Some (None, s1) => rexec_gen on_clear b s1 | r => r end
    | RIf c t e => match reval c s with Some (v, s1) => if v then rexec_gen on_clear t s1 else rexec_gen on_clear e s1 | None => None end
    | RReturn v => Some (Some v, s)
    | RLetParsed e => match reval e s with Some (v, s1) => Some (None, mk_rst (r_store s1) (r_in s1) v (r_rx s1) (r_cl s1) (r_req s1) (r_next s1) (r_nocl s1)) | None => None end
    | RLetRx e => match rzeval e s with Some z => Some (None, mk_rst st (r_in s) (r_parsed s) z (r_cl s) (r_req s) (r_next s) (r_nocl s)) | None => None end
    | RLetCl e => match rzeval e s with Some z => Some (None, mk_rst st (r_in s) (r_parsed s) (r_rx s) z (r_req s) (r_next s) (r_nocl s)) | None => None end
    | RLetReq e => match rzeval e s with Some z => Some (None, mk_rst st (r_in s) (r_parsed s) (r_rx s) (r_cl s) z (r_next s) (r_nocl s)) | None => None end
    | RLetNoCl e => match reval e s with Some (v, s1) => Some (None, mk_rst (r_store s1) (r_in s1) (r_parsed s1) (r_rx s1) (r_cl s1) (r_req s1) (r_next s1) v) | None => None end
    | RAssignCl e => match rzeval e s with Some z => Some (None, mk_rst st (r_in s) (r_parsed s) (r_rx s) z (r_req s) (r_next s) (r_nocl s)) | None => None end
    | RLetNext =>
        if ((0 <=? r_req s) && (r_req s <=? Z.of_nat (length (r_in s))))%Z
        then Some (None, mk_rst st (r_in s) (r_parsed s) (r_rx s) (r_cl s) (r_req s) (skipn (Z.to_nat (r_req s)) (r_in s)) (r_nocl s))
        else None
    | RInsertToNext =>
        let taken := firstn (length (r_in s) - length (r_next s)) (r_in s) in
        Some (None, rwith s (mk_rs (rs_req st) (rs_chunk st) (rs_body st ++ taken) (rs_nums st)))
    | RJumpNext => Some (None, rwith_in s st (r_next s))
    | RInsertRest => Some (None, rwith s (mk_rs (rs_req st) (rs_chunk st) (rs_body st ++ r_in s) (rs_nums st)))
    | RJumpEnd => Some (None, rwith_in s st [])
    | RSetCode c => Some (None, rwith s (rset st 0 c))
    | RSetFlag k e => match reval e s with Some (v, s1) => Some (None, rwith s1 (rset (r_store s1) k (b2n v))) | None => None end
    | RSetMethod m =>
        let q := rs_req st in
        Some (None, rwith s (mk_rs (mk_ms (set_str (ms_line q) 0 m) (ms_hdr q) (ms_valid q)) (rs_chunk st) (rs_body st) (rs_nums st)))
    | RReqClear =>
        match mexec llim flim hlim (xc_line rc) (xc_hdr rc) fuel (xc_req_clear rc) (mk_mst (rs_req st) (r_in s)) with
        | Some (LNormal, m1) => Some (None, rwith s (mk_rs (m_store m1) (rs_chunk st) (rs_body st) (rs_nums st)))
        | _ => None
        end
    | RChunkClear =>
        match cexec klim flim hlim (xc_size_line rc) (xc_hdr rc) fuel (xc_chunk_clear rc) (mk_cst (rs_chunk st) (r_in s) 0 0 []) with
        | Some (LNormal, c1) => Some (None, rwith s (mk_rs (rs_req st) (c_store c1) (rs_body st) (rs_nums st)))
        | _ => None
        end
    | RBodyClear => Some (None, rwith s (mk_rs (rs_req st) (rs_chunk st) [] (rs_nums st)))
    | RClear => on_clear s
    | RAppendChunk => Some (None, rwith s (mk_rs (rs_req st) (rs_chunk st) (rs_body st ++ cs_data (rs_chunk st)) (rs_nums st)))
    end.

  Definition rexec_clear (s : rstate) : option (option rxv * rstate) := rexec_gen (fun _ => None) clear_body s.
  Definition rexec (stm : rstmt) (s : rstate) : option (option rxv * rstate) := rexec_gen rexec_clear stm s.

  (* a call of receive: the value returned, the receiver afterwards, the input left unread *)
  Definition rrun (body : rstmt) (st : rstore) (input : str) : option (rxv * rstore * str) :=
    match rexec body (mk_rst st input false 0 0 0 [] false) with
    | Some (Some v, s) => Some (v, r_store s, r_in s)
    | _ => None
    end.
End Recv.
