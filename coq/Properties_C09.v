(* Properties_C09.v — C09: connections close exactly when HTTP says so, never before the response is out.
   Proved on the model: over the plain TCP adaptor no history whatsoever - any interleaving of reads,
   completions, errors, application and server actions - shuts a socket down while a response write
   is pending (C09_never_truncated); the close decision is taken from the request before the receiver
   is cleared (http_send). *)
From Via Require Import M_Char M_Encode M_Parse M_Receive M_Server P_Server.
Local Open Scope N_scope.

From Via Require Import P_C09 P_Shapes.
From Via Require Import M_Imp M_Query Gen_Parse P_Query.

Theorem C09_never_truncated : forall recipe_of o evs, o_tls o = false ->
  ~ In_truncated (snd (run recipe_of o w_init evs)).
Proof. exact never_truncated. Qed.

Print Assumptions C09_never_truncated.

(* ---- the tie to the source, as a theorem ----
   The queries on a received request are translated from clang's AST on every run (translate/parse.py -> Gen_Parse.v,
   terms of M_Query.v: functions of the request line as M_Imp expressions over its members; queries of the header block
   as "which header, which token, what a hit means", their common frame - look up, false if empty, lower-case, search -
   checked by the translator).  The model's decision is, for EVERY received request, the translated one. *)
Theorem C09_keep_alive_is_the_source : forall q, rq_ev q rq_keep_alive_src = rq_keep_alive q.
Proof. exact rq_keep_alive_is_the_source. Qed.
Theorem C09_close_connection_is_the_source : forall h, hq_eval hd_close_connection_src h = hd_close_connection h.
Proof. exact hd_close_connection_is_the_source. Qed.
Print Assumptions C09_keep_alive_is_the_source.
Print Assumptions C09_close_connection_is_the_source.
