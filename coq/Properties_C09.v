(* Properties_C09.v — C09: connections close exactly when HTTP says so, never before the response is out.
   Proved on the model: over the plain TCP adaptor no history whatsoever - any interleaving of reads,
   completions, errors, application and server actions - shuts a socket down while a response write
   is pending (C09_never_truncated); the close decision is taken from the request before the receiver
   is cleared (http_send). *)
From Via Require Import M_Char M_Encode M_Parse M_Receive M_Server P_Server.
Local Open Scope N_scope.

From Via Require Import P_C09 P_Shapes.

Theorem C09_never_truncated : forall recipe_of o evs, o_tls o = false ->
  ~ In_truncated (snd (run recipe_of o w_init evs)).
Proof. exact never_truncated. Qed.

Print Assumptions C09_never_truncated.
