(* P_Chunk.v — the hand-written model of rx_chunk::parse (M_Parse.rc_parse) computes, for every chunk in a state the
   receiver can reach (rc_inv, kept by every parse; a chunk limit below 2^63), every input and every sufficient fuel,
   what the body of the C++ function computes - the body as translated from clang's AST on this run
   (Gen_Parse.rc_parse_src_lax / _strict), under the meaning of M_Chunk.v, whose calls run the translated functions of
   the chunk-size line and of the header block (P_Loop.v, P_Hdr.v).  In particular the ptrdiff_t arithmetic of the
   source never leaves its range and `iter + data_required` never passes `end`. *)
From Via Require Import M_Char M_Parse M_Imp M_Loop M_Hdr M_Msg M_Chunk Gen_Parse P_Imp P_Loop P_Frag P_Hdr P_Msg P_Term P_C06 P_C06b.
From Coq Require Import List NArith ZArith Bool Lia.
Import ListNotations.
Local Open Scope N_scope.

Definition rc_store (k : rx_chunk) : cstore :=
  mk_cs (ck_store (rc_hdr k)) (rc_data k) (hd_store (rc_trailers k)) [b2n (rc_valid k); b2n (rc_cr k); b2n (rc_fail k)].
Definition kc_of (L : limits) : size_line_code := mk_slc (ck_src L) ck_parse_src ck_valid_src ck_size_src ck_is_last_src ck_clear_src ck_fail_src.
Definition rc_src (L : limits) : cstmt := if strict_crlf L then rc_parse_src_strict else rc_parse_src_lax.

(* the pieces of the body *)
Definition c_guard : cstmt := CIf (CFlag 2) (CReturn (CConst false)) CSkip.
Definition c_hdr : cstmt := CIf (CAnd (CNot CHdrValid) (CNot CHdrParse)) (CReturn (CConst false)) CSkip.
Definition c_trailers : cstmt := CIf (CNot CTrailersParse) (CReturn (CConst false)) CSkip.
Definition c_take : cstmt := CIf (CZGt CZReq (CZLit 0)) (CSeq CLetNext (CSeq CInsertToNext CJumpNext)) CSkip.
Definition c_cr (strict : bool) : cstmt :=
  CIf (CNot (CFlag 1)) (CIf (CPeekIs 13) (CSeq (CSet 1 (CConst true)) CAdvance)
                            (CIf (CConst strict) (CSeq (CSet 2 (CConst true)) (CReturn (CConst false))) CSkip)) CSkip.
Definition c_at_end : cstmt := CIf CAtEnd (CReturn (CConst false)) CSkip.
Definition c_lf : cstmt := CIf (CNot (CPeekIs 10)) (CSeq (CSet 2 (CConst true)) (CReturn (CConst false))) CAdvance.
Definition c_rest : cstmt := CSeq CInsertRest (CSeq CJumpEnd (CReturn (CConst false))).
Definition c_fin : cstmt := CSeq (CSet 0 (CConst true)) (CReturn (CFlag 0)).
Definition c_data (strict : bool) : cstmt :=
  CSeq (CLetReq (CZSub CZHdrSize CZDataSize)) (CSeq (CLetRx CZDistance)
    (CIf (CZGt CZRx CZReq) (CSeq c_take (CSeq (c_cr strict) (CSeq c_at_end c_lf))) c_rest)).
Definition c_body (strict : bool) : cstmt :=
  CSeq c_guard (CSeq c_hdr (CSeq (CIf CHdrIsLast c_trailers (c_data strict)) c_fin)).

Lemma rc_parse_src_shape : rc_parse_src_strict = c_body true /\ rc_parse_src_lax = c_body false.
Proof. split; reflexivity. Qed.

Section WithL.
  Variable L : limits.
  Variable fuel : nat.
  Notation CX := (cexec (ck_lim L) (fl_lim L) (hd_lim L) (kc_of L) (hd_code_of L) fuel).

  Lemma ck_valid_eval h : fst (beval (ck_lim L) 0 ck_valid_src (ck_store h)) = ck_valid h.
  Proof. destruct h as [mx sz len ws hx ex s sr v f]; destruct v; reflexivity. Qed.
  Lemma ck_size_eval h : fst (neval (ck_lim L) 0 ck_size_src (ck_store h)) = ck_size h.
  Proof. destruct h; reflexivity. Qed.
  Lemma ck_is_last_eval h : fst (beval (ck_lim L) 0 ck_is_last_src (ck_store h)) = (ck_size h =? 0).
  Proof. destruct h; reflexivity. Qed.

  (* the CR LF behind the data, and the end of the function: on any chunk, with at least one byte to look at *)
  Lemma data_end_runs k c t rq rx nx :
    match CX (CSeq (c_cr (strict_crlf L)) (CSeq c_at_end c_lf)) (mk_cst (rc_store k) (c :: t) rq rx nx) with
    | Some (LNormal, s1) => CX c_fin s1
    | r => r
    end =
    (let '(k', rest, p) := rc_data_end L k (c :: t) in Some (LRet (is_done p), mk_cst (rc_store k') rest rq rx nx)).
  Proof.
    destruct k as [h data tr v cr fa]. unfold rc_data_end, c_cr, c_at_end, c_lf, c_fin, rc_store.
    cbn [rc_hdr rc_data rc_trailers rc_valid rc_cr rc_fail].
    destruct cr; cbn [cexec ceval c_store c_in cnum cs_nums nth b2n N.eqb negb].
    - (* the CR has been seen before *)
      destruct (c =? 10) eqn:E10; cbn [negb cexec ceval c_store c_in with_store with_in cset cs_hdr cs_data cs_trailers cs_nums set_nth cnum nth b2n N.eqb is_done c_req c_rx c_next];
        destruct v, fa; reflexivity.
    - destruct (c =? 13) eqn:E13; cbn [negb cexec ceval c_store c_in with_store with_in cset cs_hdr cs_data cs_trailers cs_nums set_nth cnum nth b2n N.eqb is_done c_req c_rx c_next].
      + destruct t as [|d t1]; cbn [negb cexec ceval c_store c_in with_store with_in cset cs_hdr cs_data cs_trailers cs_nums set_nth cnum nth b2n N.eqb is_done c_req c_rx c_next].
        * destruct v, fa; reflexivity.
        * destruct (d =? 10) eqn:E10; cbn [negb cexec ceval c_store c_in with_store with_in cset cs_hdr cs_data cs_trailers cs_nums set_nth cnum nth b2n N.eqb is_done c_req c_rx c_next];
            destruct v, fa; reflexivity.
      + destruct (strict_crlf L); cbn [negb cexec ceval c_store c_in with_store with_in cset cs_hdr cs_data cs_trailers cs_nums set_nth cnum nth b2n N.eqb is_done c_req c_rx c_next].
        * destruct v, fa; reflexivity.
        * destruct (c =? 10) eqn:E10; cbn [negb cexec ceval c_store c_in with_store with_in cset cs_hdr cs_data cs_trailers cs_nums set_nth cnum nth b2n N.eqb is_done c_req c_rx c_next];
            destruct v, fa; reflexivity.
  Qed.

  Definition st0 (k : rx_chunk) (buf : str) : cstate := mk_cst (rc_store k) buf 0 0 [].

  Lemma guard_runs k buf :
    CX c_guard (st0 k buf) = if rc_fail k then Some (LRet false, st0 k buf) else Some (LNormal, st0 k buf).
  Proof. destruct k as [h data tr v cr fa]; destruct fa; reflexivity. Qed.

  Lemma hdr_runs k buf : (length buf < fuel)%nat ->
    CX c_hdr (st0 k buf) =
    (let '(h1, b1, r1) := if ck_valid (rc_hdr k) then (rc_hdr k, buf, Done) else ck_parse L (rc_hdr k) buf in
     let k1 := mk_rc h1 (rc_data k) (rc_trailers k) (rc_valid k) (rc_cr k) (rc_fail k) in
     match r1 with Done => Some (LNormal, st0 k1 b1) | _ => Some (LRet false, st0 k1 b1) end).
  Proof.
    intros Hf. destruct k as [h data tr v cr fa]. unfold c_hdr, st0, rc_store.
    cbn [rc_hdr rc_data rc_trailers rc_valid rc_cr rc_fail cexec ceval c_store c_in cs_hdr kc_valid kc_pc kc_parse kc_of].
    rewrite ck_valid_eval. destruct (ck_valid h); cbn [negb]; [reflexivity|].
    rewrite (ck_parse_is_the_source L h buf fuel Hf).
    destruct (ck_parse L h buf) as [[h1 b1] r1]. destruct r1; reflexivity.
  Qed.

  Lemma fin_runs k buf rq rx nx :
    CX c_fin (mk_cst (rc_store k) buf rq rx nx) =
    Some (LRet true, mk_cst (rc_store (mk_rc (rc_hdr k) (rc_data k) (rc_trailers k) true (rc_cr k) (rc_fail k))) buf rq rx nx).
  Proof. destruct k as [h data tr v cr fa]; reflexivity. Qed.

  Lemma trailers_run k buf : hd_ok (rc_trailers k) -> (length buf + 2 <= fuel)%nat ->
    CX c_trailers (st0 k buf) =
    (let '(t1, b2, r2) := hd_parse L (rc_trailers k) buf in
     let k2 := mk_rc (rc_hdr k) (rc_data k) t1 (rc_valid k) (rc_cr k) (rc_fail k) in
     match r2 with Done => Some (LNormal, st0 k2 b2) | _ => Some (LRet false, st0 k2 b2) end).
  Proof.
    intros Hok Hf. destruct k as [h data tr v cr fa]. unfold c_trailers, st0, rc_store.
    cbn [rc_hdr rc_data rc_trailers rc_valid rc_cr rc_fail cexec ceval c_store c_in cs_trailers hc_field hc_parse hd_code_of] in *.
    rewrite (hd_parse_is_the_source L tr buf fuel Hok Hf).
    destruct (hd_parse L tr buf) as [[t1 b2] r2]. destruct r2; reflexivity.
  Qed.
End WithL.

Lemma ck_loop_done_valid L : forall buf k k1 rest, ck_loop L k buf = (k1, rest, Done) -> ck_valid k1 = true.
Proof.
  induction buf as [|c t IH]; intros k k1 rest H; cbn [ck_loop] in H.
  - destruct (ck_done k); inversion H; reflexivity.
  - destruct (ck_done k); [inversion H; reflexivity|].
    destruct (ck_parse_char L k c) as [k2 ok]. destruct ok; [exact (IH _ _ _ H) | discriminate H].
Qed.

Lemma ck_parse_done_valid L k buf k1 rest : ck_parse L k buf = (k1, rest, Done) -> ck_valid k1 = true.
Proof. unfold ck_parse. destruct (ck_fail k); [discriminate | apply ck_loop_done_valid]. Qed.

Definition small (n : N) : Prop := n < 9223372036854775808.

Lemma to_ptrdiff_small n : small n -> to_ptrdiff n = Z.of_N n.
Proof. unfold small, to_ptrdiff. intros H. destruct (N.ltb_spec n 9223372036854775808); [reflexivity | lia]. Qed.

Definition proj (r : option (lout * cstate)) : option (bool * cstore * str) :=
  match r with Some (LRet v, s) => Some (v, c_store s, c_in s) | _ => None end.

Lemma firstn_skipn_len {A} (l : list A) n : (n <= length l)%nat -> firstn (length l - length (skipn n l)) l = firstn n l.
Proof. intros H. rewrite skipn_length. replace (length l - (length l - n))%nat with n by lia. reflexivity. Qed.

(* the data of a chunk whose size line is complete and announces data *)
Lemma data_runs L fuel k buf :
  small (ck_size (rc_hdr k)) -> nlen (rc_data k) <= ck_size (rc_hdr k) ->
  proj (match cexec (ck_lim L) (fl_lim L) (hd_lim L) (kc_of L) (hd_code_of L) fuel (c_data (strict_crlf L)) (st0 k buf) with
        | Some (LNormal, s1) => cexec (ck_lim L) (fl_lim L) (hd_lim L) (kc_of L) (hd_code_of L) fuel c_fin s1
        | r => r
        end) =
  Some (let required := ck_size (rc_hdr k) - nlen (rc_data k) in
        let '(k', rest, p) :=
          if required <? nlen buf then
            let n := N.to_nat required in
            rc_data_end L (mk_rc (rc_hdr k) (rc_data k ++ firstn n buf) (rc_trailers k) (rc_valid k) (rc_cr k) (rc_fail k)) (skipn n buf)
          else (mk_rc (rc_hdr k) (rc_data k ++ buf) (rc_trailers k) (rc_valid k) (rc_cr k) (rc_fail k), [], More) in
        (is_done p, rc_store k', rest)).
Proof.
  intros Hs Hd. destruct k as [h data tr v cr fa]. cbn [rc_hdr rc_data rc_trailers rc_valid rc_cr rc_fail] in *.
  assert (Hds : small (nlen data)) by (unfold small in *; lia).
  set (required := ck_size h - nlen data).
  unfold c_data, st0, rc_store. cbn [cexec czeval c_store c_in c_req c_rx c_next cs_hdr cs_data kc_size kc_of rc_hdr rc_data rc_trailers rc_valid rc_cr rc_fail].
  rewrite ck_size_eval, (to_ptrdiff_small _ Hs), (to_ptrdiff_small _ Hds).
  assert (Hr : (Z.of_N (ck_size h) - Z.of_N (nlen data))%Z = Z.of_N required) by (unfold required; lia).
  rewrite Hr.
  assert (Hin : in_ptrdiff (Z.of_N required) = true).
  { unfold in_ptrdiff, two63, small in *. apply andb_true_intro. split; [apply Z.leb_le | apply Z.ltb_lt]; unfold required; lia. }
  rewrite Hin. cbn [cexec czeval ceval c_store c_in c_req c_rx c_next].
  assert (Hcmp : (Z.of_N required <? Z.of_nat (length buf))%Z = (required <? nlen buf)).
  { unfold nlen. destruct (Z.ltb_spec (Z.of_N required) (Z.of_nat (length buf))); destruct (N.ltb_spec required (N.of_nat (length buf))); try reflexivity; lia. }
  rewrite Hcmp. destruct (required <? nlen buf) eqn:Elt.
  2:{ (* not enough data: keep it all *) reflexivity. }
  assert (Hn : (N.to_nat required < length buf)%nat) by (apply N.ltb_lt in Elt; unfold nlen in Elt; lia).
  (* take the data *)
  unfold c_take. cbn [cexec ceval czeval c_store c_in c_req c_rx c_next].
  destruct (0 <? Z.of_N required)%Z eqn:Epos.
  - assert (Hle : ((0 <=? Z.of_N required) && (Z.of_N required <=? Z.of_nat (length buf)))%Z = true).
    { apply andb_true_intro. split; apply Z.leb_le; lia. }
    cbn [cexec]. cbn [c_req c_in]. rewrite Hle.
    cbn [cexec c_store c_in c_req c_rx c_next with_store with_in cs_hdr cs_data cs_trailers cs_nums].
    replace (Z.to_nat (Z.of_N required)) with (N.to_nat required) by lia.
    rewrite (firstn_skipn_len buf (N.to_nat required)) by lia.
    destruct (skipn (N.to_nat required) buf) as [|c t] eqn:Esk.
    { exfalso. assert (length (skipn (N.to_nat required) buf) = 0%nat) by (rewrite Esk; reflexivity). rewrite skipn_length in H. lia. }
    pose proof (data_end_runs L fuel (mk_rc h (data ++ firstn (N.to_nat required) buf) tr v cr fa) c t (Z.of_N required) (Z.of_nat (length buf)) (c :: t)) as HE.
    unfold rc_store in HE. cbn [rc_hdr rc_data rc_trailers rc_valid rc_cr rc_fail] in HE.
    match goal with |- proj ?X = _ => match type of HE with ?Y = _ => change X with Y end end.
    rewrite HE. destruct (rc_data_end L _ (c :: t)) as [[k' rest] p]. reflexivity.
  - (* nothing left to take *)
    assert (Hz : required = 0) by (apply Z.ltb_ge in Epos; lia).
    cbn [cexec]. rewrite Hz in *. cbn [N.to_nat firstn skipn]. rewrite app_nil_r.
    destruct buf as [|c t]; [cbn in Hn; lia|].
    pose proof (data_end_runs L fuel (mk_rc h data tr v cr fa) c t (Z.of_N 0) (Z.of_nat (length (c :: t))) []) as HE.
    unfold rc_store in HE. cbn [rc_hdr rc_data rc_trailers rc_valid rc_cr rc_fail] in HE.
    match goal with |- proj ?X = _ => match type of HE with ?Y = _ => change X with Y end end.
    rewrite HE. destruct (rc_data_end L _ (c :: t)) as [[k' rest] p]. reflexivity.
Qed.

Theorem rc_parse_is_the_source L k buf fuel :
  rc_inv L k -> hd_ok (rc_trailers k) -> small (ck_max (rc_hdr k)) -> (length buf + 2 <= fuel)%nat ->
  crun (ck_lim L) (fl_lim L) (hd_lim L) (kc_of L) (hd_code_of L) fuel (rc_src L) (rc_store k) buf =
  Some (let '(k', rest, p) := rc_parse L k buf in (is_done p, rc_store k', rest)).
Proof.
  intros Hinv Hok Hmax Hf.
  assert (Esrc : rc_src L = c_body (strict_crlf L)) by (unfold rc_src; destruct (strict_crlf L); reflexivity).
  rewrite Esrc. unfold crun, c_body, rc_parse. fold (st0 k buf). cbn [cexec].
  destruct Hinv as (Hck & Hhd & Hnodata & Hdata).
  destruct k as [h data tr v cr fa]. cbn [rc_hdr rc_data rc_trailers rc_valid rc_cr rc_fail] in *.
  rewrite guard_runs. cbn [rc_fail].
  destruct fa; [reflexivity|].
  rewrite (hdr_runs L fuel (mk_rc h data tr v cr false) buf) by lia.
  cbn [rc_hdr rc_data rc_trailers rc_valid rc_cr rc_fail].
  (* the size line *)
  assert (Hhdr : forall h1 b1, (if ck_valid h then (h, buf, Done) else ck_parse L h buf) = (h1, b1, Done) ->
                 (length b1 <= length buf)%nat /\ ck_valid h1 = true /\ small (ck_size h1) /\ nlen data <= ck_size h1).
  { intros h1 b1 E. destruct (ck_valid h) eqn:Ev.
    - inversion E; subst h1 b1. destruct Hck as (_ & _ & _ & Hsz & Hst).
      assert (ck_size h <= ck_max h) by (apply Hsz; rewrite (Hst Ev); reflexivity).
      repeat split; [lia | exact Ev | unfold small in *; lia | exact (Hdata eq_refl)].
    - pose proof (ck_parse_len L _ _ _ _ _ E) as Hl. pose proof (ck_parse_done_valid L _ _ _ _ E) as Hv1.
      destruct (ck_parse_inv L h buf Hck Ev) as [Hi1 Hm1]. rewrite E in Hi1, Hm1. cbn [fst] in Hi1, Hm1.
      destruct Hi1 as (_ & _ & _ & Hsz & Hst).
      assert (ck_size h1 <= ck_max h1) by (apply Hsz; rewrite (Hst Hv1); reflexivity).
      repeat split; [exact Hl | exact Hv1 | unfold small in *; lia | rewrite (Hnodata eq_refl); unfold nlen; cbn; lia]. }
  destruct (if ck_valid h then (h, buf, Done) else ck_parse L h buf) as [[h1 b1] r1].
  destruct r1; try reflexivity.
  destruct (Hhdr h1 b1 eq_refl) as (Hl & Hv1 & Hs1 & Hd1). clear Hhdr.
  cbv zeta. cbv iota beta.
  set (k1 := mk_rc h1 data tr v cr false).
  (* last chunk or data *)
  assert (Elast : ceval (ck_lim L) (fl_lim L) (hd_lim L) (kc_of L) (hd_code_of L) fuel CHdrIsLast (st0 k1 b1) = Some (ck_size h1 =? 0, st0 k1 b1)).
  { unfold st0, rc_store, k1. cbn [ceval c_store cs_hdr kc_is_last kc_of rc_hdr]. rewrite ck_is_last_eval. reflexivity. }
  rewrite Elast. destruct (ck_size h1 =? 0) eqn:Ez.
  - (* the trailers *)
    rewrite (trailers_run L fuel k1 b1); [|exact Hok|lia].
    cbn [rc_trailers rc_hdr rc_data rc_valid rc_cr rc_fail k1].
    destruct (hd_parse L tr b1) as [[t1 b2] r2].
    destruct r2; try reflexivity; unfold st0; rewrite fin_runs; reflexivity.
  - pose proof (data_runs L fuel k1 b1 Hs1 Hd1) as HD. unfold proj in HD.
    cbn [rc_hdr rc_data rc_trailers rc_valid rc_cr rc_fail k1] in HD.
    rewrite HD. reflexivity.
Qed.

(* rx_chunk::clear(): back to the initial chunk, keeping the configured maximum chunk size *)
Theorem rc_clear_is_the_source L fuel k inp rq rx nx :
  cexec (ck_lim L) (fl_lim L) (hd_lim L) (kc_of L) (hd_code_of L) fuel rc_clear_src (mk_cst (rc_store k) inp rq rx nx) =
  Some (LNormal, mk_cst (rc_store (rc_clear k)) inp rq rx nx).
Proof.
  destruct k as [h data tr v cr fa]. unfold rc_clear_src, rc_store, kc_of, hd_code_of, rc_clear.
  cbn [cexec ceval c_store c_in c_req c_rx c_next with_store with_in cs_hdr cs_data cs_trailers cs_nums cset set_nth kc_clear hc_clear hc_field
       rc_hdr rc_data rc_trailers rc_valid rc_cr rc_fail].
  rewrite ck_clear_is_the_source, hd_clear_is_the_source. reflexivity.
Qed.
