(* P_ImpF.v — field_line::parse_char and clear: the hand-written model computes, for every state, every character and every limit
   configuration, exactly what the body of the C++ function computes - the body as translated from clang's AST on this
   run (Gen_Parse.v), under the meaning of statements defined in M_Imp.v. *)
From Via Require Import M_Char M_Parse M_Imp Gen_Parse.
From Coq Require Import List NArith Bool Lia.
Import ListNotations.
Local Open Scope N_scope.
Arguments nlen : simpl never.
Arguments snoc : simpl never.
From Via Require Import P_Imp0.

Definition fl_store (f : field) : store :=
  mk_store (fl_st_index (fl_state f)) [fl_name f; fl_value f] [fl_length f; fl_ws f; b2n (fl_fail f)].
Definition fl_lim (L : limits) (k : nat) : N := nth k [max_line L; max_ws L] 0.
Definition fl_src (L : limits) : stmt := if strict_crlf L then fl_src_strict else fl_src_lax.

Theorem fl_parse_char_is_the_source L f c :
  run_body (fl_lim L) c (fl_src L) (fl_store f) = (fl_store (fst (fl_parse_char L f c)), snd (fl_parse_char L f c)).
Proof.
  unfold fl_src, fl_parse_char, fl_value_case. destruct f as [nm vl len ws s fa]. cbn [fl_state fl_name fl_value fl_length fl_ws fl_fail].
  destruct (strict_crlf L) eqn:Es; destruct s;
    unfold run_body, fl_src_strict, fl_src_lax, fl_store, fl_set_state; norm; unfold fl_lim; cbn [nth];
    (* the length check in front of the switch decides which case the switch takes *)
    destruct (max_line L <? len + 1) eqn:Elen; norm;
    repeat (split_ifs; norm); try reflexivity;
    try (cbn [negb andb orb] in *; congruence); try (norm_all; flags).
Qed.



Theorem fl_clear_is_the_source lim c f : exec lim c fl_clear_src (fl_store f) = (ONormal, fl_store fl_init).
Proof. destruct f; reflexivity. Qed.
