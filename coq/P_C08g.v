(* P_C08g.v — a whole response as tx_response::message writes it (status line, header lines, the Content-Length line
   the encoder adds, empty line) followed by its body is received back by response_receiver as one valid response. *)
From Via Require Import M_Char M_Encode M_Parse M_Receive P_Parse P_Frag P_FragC P_C06 P_C08 P_C02 P_C08b P_C08c P_C08d P_C08e P_C08f.
From Coq Require Import Lia ZifyBool ZifyNat ZifyN.
Local Open Scope N_scope.
Arguments nlen : simpl never.
Arguments snoc : simpl never.

Theorem response_head_roundtrip L st reason ma mi hs rest :
  isdigit ma = true -> isdigit mi = true -> st <= max_status L -> st <= LONG_MAX ->
  forallb reason_char reason = true -> (match reason with c :: _ => isblank c = false | [] => True end) ->
  nlen reason <= max_reason L ->
  1 <= max_ws L -> Forall (line_ok L) hs -> within L [] 0 hs ->
  exists h', rp_parse L rp_init (response_line_string (mk_tx_response st reason ma mi (lines_bytes hs)) ++ lines_bytes hs ++ [13; 10] ++ rest)
             = (mk_rp (mk_sl st reason ma mi S_VALID 1 true true false) h' true, rest, Done) /\
             hd_fields h' = fold_left add_line hs [] /\ hd_valid h' = true.
Proof.
  intros Ha Hi Hst Hlm Hr Hb Hl Hws Hok Hwi.
  unfold rp_parse. cbn [rp_line rp_init sl_init sl_valid]. fold sl_init.
  rewrite (status_line_roundtrip L st reason ma mi (lines_bytes hs) _ Ha Hi Hst Hlm Hr Hb Hl).
  cbn [rp_headers rp_init hd_init hd_valid]. fold hd_init.
  unfold hd_parse. cbn [hd_fail hd_init].
  destruct (header_block_roundtrip L hs (S (S (length (lines_bytes hs ++ [13; 10] ++ rest)))) hd_init rest Hws Hok eq_refl eq_refl eq_refl Hwi) as [h' [H1 [H2 [H3 H4]]]].
  { pose proof (lines_bytes_length L hs Hok). rewrite app_length. lia. }
  rewrite H1. exists h'. split; [reflexivity | split; [exact H2 | exact H3]].
Qed.

Theorem response_message_roundtrip cfg st reason ma mi hs body rest :
  let L := cc_lim cfg in
  let n := nlen body in
  let hs' := hs ++ [cl_line n] in
  let F := fold_left add_line hs' [] in
  isdigit ma = true -> isdigit mi = true -> st <= max_status L -> st <= LONG_MAX ->
  forallb reason_char reason = true -> (match reason with c :: _ => isblank c = false | [] => True end) ->
  nlen reason <= max_reason L -> 1 <= max_ws L ->
  Forall (line_ok L) hs' -> within L [] 0 hs' ->
  response_adds_content_length (mk_tx_response st reason ma mi (lines_bytes hs)) = true ->
  fields_find hf_LC_TRANSFER_ENCODING F = None ->
  fields_find hf_LC_CONTENT_LENGTH F = Some (to_dec_string n) ->
  n <= LONG_MAX ->
  exists v1, creceive cfg (cv_init cfg) (response_message (mk_tx_response st reason ma mi (lines_bytes hs)) n ++ body ++ rest) = (v1, rest, RX_VALID) /\
             rp_line (cv_rsp v1) = mk_sl st reason ma mi S_VALID 1 true true false /\
             hd_fields (rp_headers (cv_rsp v1)) = F /\ cv_body v1 = body.
Proof.
  intros L n hs' F Ha Hi Hst Hlm Hr Hb Hl Hws Hok Hwi Hadd Hte Hcl Hn.
  unfold response_message. rewrite Hadd. cbn [rs_headers].
  rewrite <- cl_line_bytes.
  replace (response_line_string (mk_tx_response st reason ma mi (lines_bytes hs)) ++ lines_bytes hs ++ lines_bytes [cl_line n] ++ CRLF)
    with (response_line_string (mk_tx_response st reason ma mi (lines_bytes hs')) ++ lines_bytes hs' ++ [13; 10])
    by (unfold hs'; rewrite lines_bytes_app, <- !app_assoc; reflexivity).
  rewrite <- !app_assoc.
  destruct (response_head_roundtrip L st reason ma mi hs' (body ++ rest) Ha Hi Hst Hlm Hr Hb Hl Hws Hok Hwi) as [h' [Hp [Hf Hv]]].
  fold F in Hf.
  rewrite creceive_unfold. cbn [cv_init cv_rsp rp_init rp_valid negb]. fold rp_init. fold L. rewrite Hp.
  unfold cbody. cbv zeta. cbn [rp_headers cv_chunk cv_body].
  assert (Hfind : forall name, hd_find h' name = match fields_find name F with Some v => v | None => [] end).
  { intros name. unfold hd_find. rewrite Hf. reflexivity. }
  assert (Hch : hd_is_chunked h' = false) by (unfold hd_is_chunked; rewrite Hfind, Hte; reflexivity).
  rewrite Hch. cbn [negb].
  assert (Hclv : hd_content_length h' = Some n).
  { unfold hd_content_length. rewrite Hfind, Hcl.
    destruct (dec_string_digits n) as [_ Hne]. destruct (to_dec_string n) eqn:Ed; [congruence|]. rewrite <- Ed. apply dec_roundtrip, Hn. }
  rewrite Hclv.
  assert (Hne : nonempty (hd_find h' hf_LC_CONTENT_LENGTH) = true).
  { rewrite Hfind, Hcl. destruct (dec_string_digits n) as [_ Hne]. destruct (to_dec_string n); [congruence | reflexivity]. }
  rewrite Hne. cbn [negb]. rewrite Bool.andb_false_r. cbv iota.
  change (cv_body (cv_init cfg)) with (@nil N). change (cv_chunk (cv_init cfg)) with (rc_init (cc_max_chunk cfg)).
  change (nlen []) with 0. replace (Z.of_N n - Z.of_N 0)%Z with (Z.of_N n) by lia. rewrite ?Bool.andb_false_r.
  assert (E2 : ((Z.of_N n <? 0)%Z && (Z.of_N n <? Z.of_N (nlen (body ++ rest)))%Z) = false) by lia. rewrite E2.
  rewrite nlen_app'. fold n.
  destruct (Z.of_N n <? Z.of_N (n + nlen rest))%Z eqn:E3.
  - cbn [app]. replace (Z.to_nat (Z.of_N n)) with (length body) by (unfold n, nlen; lia).
    rewrite firstn_app_exact, skipn_app_exact. fold n. rewrite N.eqb_refl.
    eexists. split; [reflexivity|]. cbn [cv_rsp cv_body rp_line rp_headers]. repeat split; [exact Hf].
  - assert (Hr0 : rest = []) by (destruct rest; [reflexivity | rewrite nlen_cons in E3; lia]). subst rest.
    cbn [app]. rewrite app_nil_r. fold n. rewrite N.eqb_refl.
    eexists. split; [reflexivity|]. cbn [cv_rsp cv_body rp_line rp_headers]. repeat split; [exact Hf].
Qed.
