(* M_Msg.v — the fourth layer of the small imperative language: the bodies of rx_request::parse(iter, end) and
   rx_response::parse(iter, end) as clang's AST gives them: the start line (the base class) is parsed unless it is
   already valid, then the header block (the member headers_) unless it is already valid, then the message is valid.
   The calls run the TRANSLATED functions of the layers below: the line's parse loop (M_Loop), message_headers::parse
   (M_Hdr) and the valid() accessors.  A failing inner run is `None`. *)
From Via Require Import M_Char M_Parse M_Imp M_Loop M_Hdr.
From Coq Require Import List NArith Bool.
Import ListNotations.
Local Open Scope N_scope.

(* the translated functions of the start line and of the header block that the message's parse calls *)
Record line_code := mk_lnc { lc_pc : stmt; lc_parse : lstmt; lc_valid : bexp; lc_clear : stmt; lc_fail : bexp }.
Record hdr_code := mk_hdc { hc_field : fl_code; hc_parse : hstmt; hc_valid : hexp; hc_clear : hstmt; hc_fail : hexp }.

Record mstore := mk_ms { ms_line : store; ms_hdr : hstore; ms_valid : N }.
Record mstate := mk_mst { m_store : mstore; m_in : str }.

Inductive mexp :=
  | MLineValid | MLineParse                  (* line::valid(), line::parse(iter, end) *)
  | MHdrValid | MHdrParse                    (* headers_.valid(), headers_.parse(iter, end) *)
  | MFlag                                    (* valid_ *)
  | MNot (a : mexp) | MAnd (a b : mexp) | MOr (a b : mexp)
  | MConst (v : bool).

Inductive mstmt :=
  | MSkip
  | MSeq (a b : mstmt)
  | MIf (c : mexp) (t e : mstmt)
  | MReturn (e : mexp)
  | MSet (e : mexp)                          (* valid_ = e *)
  | MLineClear                               (* line::clear() *)
  | MHdrClear.                               (* headers_.clear() *)

Section Msg.
  Variable llim : nat -> N.                  (* the limits of the start line *)
  Variable flim : nat -> N.                  (* the limits of a field line *)
  Variable hlim : nat -> N.                  (* the limits of the header block *)
  Variable lc : line_code.
  Variable hc : hdr_code.
  Variable fuel : nat.

  Fixpoint meval (e : mexp) (s : mstate) : option (bool * mstate) :=
    match e with
    | MLineValid => Some (fst (beval llim 0 (lc_valid lc) (ms_line (m_store s))), s)
    | MLineParse =>
        match lrun llim (lc_pc lc) fuel (lc_parse lc) (ms_line (m_store s)) (m_in s) with
        | Some (v, l1, rest) => Some (v, mk_mst (mk_ms l1 (ms_hdr (m_store s)) (ms_valid (m_store s))) rest)
        | None => None
        end
    | MHdrValid =>
        match heval flim hlim (hc_field hc) fuel (hc_valid hc) (mk_hst (ms_hdr (m_store s)) (m_in s)) with
        | Some (v, _) => Some (v, s)
        | None => None
        end
    | MHdrParse =>
        match hrun flim hlim (hc_field hc) fuel (hc_parse hc) (ms_hdr (m_store s)) (m_in s) with
        | Some (v, h1, rest) => Some (v, mk_mst (mk_ms (ms_line (m_store s)) h1 (ms_valid (m_store s))) rest)
        | None => None
        end
    | MFlag => Some (negb (ms_valid (m_store s) =? 0), s)
    | MNot a => match meval a s with Some (v, s1) => Some (negb v, s1) | None => None end
    | MAnd a b => match meval a s with Some (true, s1) => meval b s1 | r => r end
    | MOr a b => match meval a s with Some (false, s1) => meval b s1 | r => r end
    | MConst v => Some (v, s)
    end.

  Fixpoint mexec (st : mstmt) (s : mstate) : option (lout * mstate) :=
    match st with
    | MSkip => Some (LNormal, s)
    | MSeq a b => match mexec a s with Some (LNormal, s1) => mexec b s1 | r => r end
    | MIf c t e => match meval c s with Some (v, s1) => if v then mexec t s1 else mexec e s1 | None => None end
    | MReturn e => match meval e s with Some (v, s1) => Some (LRet v, s1) | None => None end
    | MSet e =>
        match meval e s with
        | Some (v, s1) => Some (LNormal, mk_mst (mk_ms (ms_line (m_store s1)) (ms_hdr (m_store s1)) (b2n v)) (m_in s1))
        | None => None
        end
    | MLineClear =>
        let st := m_store s in
        Some (LNormal, mk_mst (mk_ms (snd (exec llim 0 (lc_clear lc) (ms_line st))) (ms_hdr st) (ms_valid st)) (m_in s))
    | MHdrClear =>
        let st := m_store s in
        match hexec flim hlim (hc_field hc) fuel (hc_clear hc) (mk_hst (ms_hdr st) (m_in s)) with
        | Some (LNormal, s1) => Some (LNormal, mk_mst (mk_ms (ms_line st) (h_store s1) (ms_valid st)) (m_in s))
        | _ => None
        end
    end.

  Definition mrun (body : mstmt) (st : mstore) (input : str) : option (bool * mstore * str) :=
    match mexec body (mk_mst st input) with
    | Some (LRet v, s) => Some (v, m_store s, m_in s)
    | _ => None
    end.
End Msg.
