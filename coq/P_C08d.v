(* P_C08d.v — the status line written by tx_response is parsed back by response_line: version, status and reason
   phrase unchanged. *)
From Via Require Import M_Char M_Encode M_Parse P_Parse P_C06 P_C08c.
From Coq Require Import Lia ZifyBool ZifyNat ZifyN.
Local Open Scope N_scope.
Arguments nlen : simpl never.
Arguments snoc : simpl never.

Lemma snoc_app' (s : str) c t : snoc s c ++ t = s ++ c :: t.
Proof. unfold snoc. rewrite <- app_assoc. reflexivity. Qed.

Lemma dval_mono ds : forall a, a <= dval ds a.
Proof. induction ds as [|d ds IH]; intros a; cbn [dval fold_left]; [lia|]. specialize (IH (a * 10 + digit_val d)). fold (dval ds (a * 10 + digit_val d)). lia. Qed.

(* the digits of the status *)
Lemma sl_parse_status L : forall ds r rest, sl_state r = S_STATUS -> forallb isdigit ds = true -> ds <> [] ->
  dval ds (sl_status r) <= max_status L ->
  sl_parse L r (ds ++ rest) =
  sl_parse L (mk_sl (dval ds (sl_status r)) (sl_reason r) (sl_major r) (sl_minor r) S_STATUS (sl_ws r) true (sl_valid r) false) rest.
Proof.
  induction ds as [|d ds IH]; intros r rest Hs Hd Hne Hm; [congruence|].
  cbn [forallb] in Hd. apply Bool.andb_true_iff in Hd. destruct Hd as [Hc Hds].
  change ((d :: ds) ++ rest) with (d :: (ds ++ rest)). cbn [sl_parse]. unfold sl_done. rewrite Hs.
  unfold sl_parse_char. rewrite Hs, Hc. cbv zeta.
  cbn [dval fold_left] in Hm. fold (dval ds (sl_status r * 10 + digit_val d)) in Hm.
  pose proof (dval_mono ds (sl_status r * 10 + digit_val d)) as Hmono.
  destruct (max_status L <? sl_status r * 10 + digit_val d) eqn:E; [lia|].
  unfold sl_set_fail. cbn [sl_status sl_reason sl_major sl_minor sl_state sl_ws sl_status_read sl_valid sl_fail]. rewrite ?Hs.
  destruct ds as [|e ds'].
  - cbn [dval fold_left]. reflexivity.
  - rewrite IH; [| reflexivity | exact Hds | discriminate | cbn [sl_status]; exact Hm].
    cbn [sl_status sl_reason sl_major sl_minor sl_state sl_ws sl_status_read sl_valid sl_fail]. reflexivity.
Qed.

Definition reason_char (c : byte) : bool := negb (is_end_of_line c).

(* the reason phrase: any bytes but line ends, the first one not a blank *)
Lemma sl_parse_reason L : forall rs r rest, sl_state r = S_REASON -> forallb reason_char rs = true -> rs <> [] ->
  sl_reason r <> [] -> nlen (sl_reason r) + nlen rs <= max_reason L ->
  sl_parse L r (rs ++ rest) =
  sl_parse L (mk_sl (sl_status r) (sl_reason r ++ rs) (sl_major r) (sl_minor r) S_REASON (sl_ws r) (sl_status_read r) (sl_valid r) false) rest.
Proof.
  induction rs as [|c rs IH]; intros r rest Hs Hc Hne Hr Hl; [congruence|].
  cbn [forallb] in Hc. apply Bool.andb_true_iff in Hc. destruct Hc as [Hc Hrs]. unfold reason_char in Hc.
  rewrite nlen_cons in Hl.
  change ((c :: rs) ++ rest) with (c :: (rs ++ rest)). cbn [sl_parse]. unfold sl_done. rewrite Hs.
  unfold sl_parse_char. rewrite Hs, Hc. cbv zeta.
  destruct (sl_reason r) as [|r0 rr] eqn:Er; [congruence|]. cbn [andb]. cbv iota. cbn [sl_reason].
  rewrite nlen_snoc. destruct (max_reason L <? nlen (r0 :: rr) + 1) eqn:E; [lia|].
  unfold sl_set_fail. cbn [sl_status sl_reason sl_major sl_minor sl_state sl_ws sl_status_read sl_valid sl_fail]. rewrite ?Hs.
  destruct rs as [|e rs'].
  - unfold snoc. reflexivity.
  - rewrite IH; [| reflexivity | exact Hrs | discriminate | cbn [sl_reason]; unfold snoc; destruct rr; discriminate | cbn [sl_reason]; rewrite nlen_snoc; lia].
    cbn [sl_status sl_reason sl_major sl_minor sl_state sl_ws sl_status_read sl_valid sl_fail]. rewrite snoc_app'. reflexivity.
Qed.

Ltac sl_step := cbn [sl_parse]; unfold sl_done at 1; cbn [sl_state]; unfold sl_parse_char at 1; cbn [sl_state].
Ltac sl_norm := unfold sl_set_fail, sl_set_state, sl_set_ws; cbn [sl_status sl_reason sl_major sl_minor sl_state sl_ws sl_status_read sl_valid sl_fail].

(* "HTTP/M.m " : up to the status *)
Lemma sl_parse_version L ma mi rest : isdigit ma = true -> isdigit mi = true ->
  sl_parse L sl_init (http_version ma mi ++ [32] ++ rest) =
  sl_parse L (mk_sl 0 [] ma mi S_STATUS 1 false false false) rest.
Proof.
  intros Ha Hi. unfold http_version, sl_init. cbn [app].
  sl_step. change (isblank 72) with false. cbv iota. unfold sl_expect. cbn [N.eqb Pos.eqb]. cbv iota. sl_norm.
  do 4 (sl_step; unfold sl_expect; cbn [N.eqb Pos.eqb]; cbv iota; sl_norm).
  sl_step. rewrite Ha. sl_norm.
  sl_step. unfold sl_expect. cbn [N.eqb Pos.eqb]. cbv iota. sl_norm.
  sl_step. rewrite Hi. sl_norm.
  sl_step. change (isblank 32) with true. cbv iota. sl_norm. reflexivity.
Qed.

(* CR LF after the reason phrase (or directly after the blank that follows the status) *)
Lemma sl_parse_end L st rs ma mi ws sr rest :
  sl_parse L (mk_sl st rs ma mi S_REASON ws sr false false) ([13; 10] ++ rest) =
  (mk_sl st rs ma mi S_VALID ws sr true false, rest, Done).
Proof.
  cbn [app]. sl_step. change (is_end_of_line 13) with true. cbn [negb]. cbv iota. unfold sl_cr_case. cbn [N.eqb Pos.eqb]. cbv iota. sl_norm.
  sl_step. cbn [N.eqb Pos.eqb]. cbv iota. sl_norm.
  destruct rest as [|x rest']; cbn [sl_parse]; unfold sl_done; cbn [sl_state]; unfold sl_set_valid; reflexivity.
Qed.

Theorem status_line_roundtrip L st reason ma mi hs rest :
  isdigit ma = true -> isdigit mi = true -> st <= max_status L -> st <= LONG_MAX ->
  forallb reason_char reason = true -> (match reason with c :: _ => isblank c = false | [] => True end) ->
  nlen reason <= max_reason L ->
  sl_parse L sl_init (response_line_string (mk_tx_response st reason ma mi hs) ++ rest) =
  (mk_sl st reason ma mi S_VALID 1 true true false, rest, Done).
Proof.
  intros Ha Hi Hst Hlm Hr Hb Hl.
  unfold response_line_string. cbn [rs_major rs_minor rs_status rs_reason].
  rewrite <- !app_assoc.
  rewrite (sl_parse_version L ma mi _ Ha Hi).
  unfold to_dec_string.
  destruct (to_base_dec (N.to_nat (N.size st)) st [] ltac:(lia)) as [ds [H1 [H2 [H3 H4]]]].
  rewrite H1, app_nil_r.
  rewrite sl_parse_status; [| reflexivity | exact H3 | exact H4 | cbn [sl_status]; rewrite H2; exact Hst].
  cbn [sl_status sl_reason sl_major sl_minor sl_ws sl_valid]. rewrite H2.
  (* the blank after the status *)
  cbn [app]. sl_step. change (isdigit 32) with false. change (isblank 32) with true. cbv iota. sl_norm.
  destruct reason as [|c0 rs].
  - (* no reason phrase *)
    cbn [app]. change CRLF with [13; 10]. exact (sl_parse_end L st [] ma mi 1 true rest).
  - cbn [forallb] in Hr. apply Bool.andb_true_iff in Hr. destruct Hr as [Hc0 Hrs]. unfold reason_char in Hc0.
    rewrite nlen_cons in Hl.
    change ((c0 :: rs) ++ CRLF ++ rest) with (c0 :: (rs ++ CRLF ++ rest)).
    sl_step. rewrite Hc0, Hb. cbv beta iota zeta. cbn [negb andb sl_reason]. cbv beta iota zeta. cbn [sl_reason]. rewrite nlen_snoc. change (nlen []) with 0.
    destruct (max_reason L <? 0 + 1) eqn:E; [lia|]. cbv beta iota. sl_norm.
    destruct rs as [|c1 rs'].
    + cbn [app]. change CRLF with [13; 10]. unfold snoc. cbn [app]. exact (sl_parse_end L st [c0] ma mi 1 true rest).
    + rewrite sl_parse_reason; [| reflexivity | exact Hrs | discriminate | unfold snoc; discriminate | cbn [sl_reason]; rewrite nlen_snoc; change (nlen []) with 0; lia].
      cbn [sl_status sl_reason sl_major sl_minor sl_ws sl_status_read sl_valid]. unfold snoc. cbn [app].
      change CRLF with [13; 10]. exact (sl_parse_end L st (c0 :: c1 :: rs') ma mi 1 true rest).
Qed.
