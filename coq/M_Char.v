(* M_Char.v — bytes, <cctype> in the "C" locale, string helpers, numeric conversions.
   Model definitions only (no proofs): Extract.v depends on M_*.v files only, so the
   model still runs when a proof is broken.

   A byte is an N in 0..255.  The C++ passes a possibly negative `char` to the <cctype>
   functions; glibc's tables define the result for -128..-1 exactly as for 128..255 in the
   "C" locale (all classes false, tolower = identity).  The correspondence check compares
   all 256 values x every function on every run (harness h_pure, kind `ctype`). *)
From Coq Require Export List NArith ZArith Bool Lia.
Export ListNotations.
From Via Require Export Gen_Tables.
Local Open Scope N_scope.

(* notations, not definitions: `byte`/`str` never appear as constants of their own, so rewriting
   and unification see plain N / list N *)
Notation byte := N (only parsing).
Notation str := (list N) (only parsing).

Definition CR : byte := 13.
Definition LF : byte := 10.
Definition SP : byte := 32.
Definition HT : byte := 9.
Definition CRLF : str := tok_CRLF.   (* Gen_Tables: character.hpp CRLF *)

Definition in_range (lo hi c : N) : bool := (lo <=? c) && (c <=? hi).

Definition isupper (c : byte) : bool := in_range 65 90 c.
Definition islower (c : byte) : bool := in_range 97 122 c.
Definition isalpha (c : byte) : bool := isupper c || islower c.
Definition isdigit (c : byte) : bool := in_range 48 57 c.
Definition isalnum (c : byte) : bool := isalpha c || isdigit c.
Definition isxdigit (c : byte) : bool := isdigit c || in_range 65 70 c || in_range 97 102 c.
Definition isblank (c : byte) : bool := (c =? 32) || (c =? 9).
Definition isspace (c : byte) : bool := (c =? 32) || in_range 9 13 c.
Definition iscntrl (c : byte) : bool := (c <? 32) || (c =? 127).
Definition tolower (c : byte) : byte := if isupper c then c + 32 else c.

(* character.hpp *)
Definition is_end_of_line (c : byte) : bool := (c =? 13) || (c =? 10).

(* the case sets are regenerated from character.hpp (Gen_Tables) *)
Definition is_separator (c : byte) : bool := existsb (N.eqb c) is_separator_chars.
Definition is_gen_delim (c : byte) : bool := existsb (N.eqb c) is_gen_delim_chars.
Definition is_sub_delim (c : byte) : bool := existsb (N.eqb c) is_sub_delim_chars.

Definition is_token (c : byte) : bool := negb (iscntrl c) && negb (is_separator c).

(* ASCII helpers for writing constants *)
Definition ch (n : N) : byte := n.

(* string equality / search *)
Fixpoint str_eqb (a b : str) : bool :=
  match a, b with
  | [], [] => true
  | x :: a', y :: b' => (x =? y) && str_eqb a' b'
  | _, _ => false
  end.

Fixpoint is_prefix (p s : str) : bool :=
  match p, s with
  | [], _ => true
  | x :: p', y :: s' => (x =? y) && is_prefix p' s'
  | _ :: _, [] => false
  end.

(* std::string::find(needle) != npos *)
Fixpoint contains (needle s : str) : bool :=
  is_prefix needle s ||
  match s with
  | [] => false
  | _ :: s' => contains needle s'
  end.

(* std::string::find(needle): Some position, None = npos *)
Fixpoint find_sub (needle s : str) : option nat :=
  if is_prefix needle s then Some O
  else match s with
       | [] => None
       | _ :: s' => option_map S (find_sub needle s')
       end.

Fixpoint find_char (c : byte) (s : str) : option nat :=
  match s with
  | [] => None
  | x :: s' => if x =? c then Some O else option_map S (find_char c s')
  end.

Definition map_lower (s : str) : str := map tolower s.

(* decimal / hex *)
Definition digit_val (c : byte) : N := c - 48.
Definition hex_val (c : byte) : N :=
  if isdigit c then c - 48
  else if in_range 65 70 c then c - 55
  else c - 87.

Definition dec_value (s : str) : N := fold_left (fun acc c => acc * 10 + digit_val c) s 0.
Definition hex_value (s : str) : N := fold_left (fun acc c => acc * 16 + hex_val c) s 0.

Definition LONG_MAX : N := 9223372036854775807.
Definition SIZE_MAX : N := 18446744073709551615.

(* from_dec_string: None models the -1 return.  strtol sets ERANGE above LONG_MAX.
   The `(value == 0) && (s[0] != '0')` clause cannot fire for an all-digit string. *)
Definition from_dec_string (s : str) : option N :=
  match s with
  | [] => None
  | _ => if forallb isdigit s
         then (if dec_value s <=? LONG_MAX then Some (dec_value s) else None)
         else None
  end.

Definition from_hex_string (s : str) : option N :=
  match s with
  | [] => None
  | _ => if forallb isxdigit s
         then (if hex_value s <=? LONG_MAX then Some (hex_value s) else None)
         else None
  end.

(* std::to_string(size_t) / to_hex_string *)
Definition dec_digit (d : N) : byte := 48 + d.
Definition hex_digit (d : N) : byte := if d <? 10 then 48 + d else 87 + d.

Fixpoint to_base_fuel (fuel : nat) (base : N) (dig : N -> byte) (n : N) (acc : str) : str :=
  match fuel with
  | O => acc
  | S f => let acc' := dig (n mod base) :: acc in
           if n / base =? 0 then acc' else to_base_fuel f base dig (n / base) acc'
  end.

(* N.size n + 1 bits bound the number of digits in any base >= 2 *)
Definition to_dec_string (n : N) : str := to_base_fuel (S (N.to_nat (N.size n))) 10 dec_digit n [].
Definition to_hex_string (n : N) : str := to_base_fuel (S (N.to_nat (N.size n))) 16 hex_digit n [].

(* http_version(major, minor) = "HTTP/M.m" *)
Definition http_version (ma mi : byte) : str := [72; 84; 84; 80; 47; ma; 46; mi].
