(* Properties_C03.v — C03: each request gets exactly one complete response, in order, in every schedule.
   The model (M_Server.v) is the library as a state machine over completions chosen by the
   environment.  Proved: an idle, connected connection turns a send into exactly one write of the
   bytes of the referenced buffers; a send while a write is in flight is refused and leaves the
   model (that is where the library drops or corrupts a response: open findings F06/F07, and F10 for
   responses issued after the handler has returned).  Over whole histories: every write that completes
   carries exactly the bytes that were issued, and a pending write's buffers are intact in every reachable
   state (C03_completed_writes_carry_the_issued_bytes, C03_pending_write_intact).  The ordered-concatenation
   statement is decided against the code by the history correspondence and the wire monitor. *)
From Via Require Import M_Char M_Encode M_Parse M_Receive M_Server P_Server P_C09.
Local Open Scope N_scope.

Theorem C03_idle_send_writes_the_buffers : forall w c slots, c_transmitting c = false -> c_connected c = true ->
  snd (fst (send_data w c slots)) = [LWrite (c_id c) (slots_bytes c slots)] /\ snd (send_data w c slots) = true.
Proof. exact send_data_idle. Qed.

Theorem C03_send_while_transmitting_is_refused : forall w c slots, c_transmitting c = true ->
  snd (fst (send_data w c slots)) = [LUndefined] /\ snd (send_data w c slots) = false.
Proof. exact send_data_busy. Qed.

(* every history - any interleaving of accepts, reads, completions, errors, application and server actions - up to
   the first send-while-transmitting (where the model stops): no completed write finds its buffers rewritten *)
Theorem C03_completed_writes_carry_the_issued_bytes : forall recipe_of o evs id,
  ~ In (LStale id) (snd (run recipe_of o w_init evs)).
Proof. exact never_stale. Qed.

Theorem C03_pending_write_intact : forall recipe_of o evs c slots snap,
  In c (w_conns (fst (run recipe_of o w_init evs))) -> c_write c = Some (slots, snap) ->
  slots_bytes c slots = snap /\ c_transmitting c = true.
Proof. exact pending_write_intact. Qed.

Example C03_example_exchange :
  let cfg := mk_rcfg (mk_limits 8190 8 100 65534 1024 8 65534 65534 false) 1048576 1048576 true true false in
  let o := mk_sopts false 0 false false false false false cfg in
  let rq := [71;69;84;32;47;32;72;84;84;80;47;49;46;49;13;10;72;111;115;116;58;32;104;13;10;13;10] in
  let '(w, l) := run (fun _ => mk_recipe 200 2 1 []) o w_init [([], EvAccept true); ([], EvRead 1 rq); ([], EvWriteDone 1)] in
  exists b, In (LWire 1 b) l /\ In (LSent 1) l /\ w_undefined w = false.
Proof. vm_compute. eexists. split; [|split; [|reflexivity]]; repeat (first [left; reflexivity|right]). Qed.

Print Assumptions C03_idle_send_writes_the_buffers.
Print Assumptions C03_completed_writes_carry_the_issued_bytes.
Print Assumptions C03_pending_write_intact.
