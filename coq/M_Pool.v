(* M_Pool.v — the server in thread-pool mode: which work runs on which executor.
   An io_context run by any number of threads executes queued tasks.  A task bound to the strand of
   connection c is started only while no other task of that strand is running (asio's strand guarantee:
   modelled, not verified); a task bound to the io_context itself (Pool) may be started at any time by
   any idle thread.  Per-connection work is of four kinds; which executor each kind is bound to is read
   off the source by translate/access.py (Gen_Access.v) and passed in as [facts].

   KConnected  the synchronous connected path: run by the accept handler (on the io_context, not on the new
               socket's strand) for a connection no operation has been started on yet; it starts the first
               read as its last action (fact connected_path_arms_last), which is modelled by letting it
               enqueue completions only when it finishes
   KCompletion a completion handler of an operation on the connection's socket (read, write, handshake,
               TLS shutdown).  It runs on the socket's executor: the strand given to async_accept, provided
               no handler is rebound elsewhere.  While it runs it may start further operations, whose
               completions are queued at once
   KSweep f    function f of the server applied to this connection from a loop over all connections
               (shutdown(), close()); direct: on whatever thread runs the loop; deferred: posted to the strand
   KApp        the application calling into the connection from a thread of its own *)
From Coq Require Import List Bool Arith String.
Import ListNotations.

Inductive ctx := Strand (c : nat) | Pool.
Inductive kind := KConnected | KCompletion | KSweep (callee : string) | KApp.
Record task := { tk_conn : nat; tk_kind : kind; tk_ctx : ctx }.

Record facts := { f_accept_on_strand : bool; f_rebinds : nat; f_arms_last : bool;
                  f_sweeps : list (string * string * string) }.

Definition sweep_direct (f : facts) (callee : string) : bool :=
  existsb (fun s => String.eqb (snd (fst s)) callee && String.eqb (snd s) "direct") (f_sweeps f).

Definition completions_on_strand (f : facts) : bool := f_accept_on_strand f && Nat.eqb (f_rebinds f) 0.

Definition ctx_of (f : facts) (c : nat) (k : kind) : ctx :=
  match k with
  | KConnected => Pool
  | KCompletion => if completions_on_strand f then Strand c else Pool
  | KSweep callee => if sweep_direct f callee then Pool else Strand c
  | KApp => Pool
  end.

Definition mk (f : facts) (c : nat) (k : kind) : task := {| tk_conn := c; tk_kind := k; tk_ctx := ctx_of f c k |}.

Record pstate := { p_run : list (nat * task); p_queue : list task; p_next : nat }.

Definition p_init : pstate := {| p_run := []; p_queue := []; p_next := 0 |}.

Definition strand_free (s : pstate) (t : task) : Prop :=
  match tk_ctx t with
  | Strand c => forall r, In r (p_run s) -> tk_ctx (snd r) <> Strand c
  | Pool => True
  end.

Inductive pstep (f : facts) : pstate -> pstate -> Prop :=
| PAccept : forall s,       (* a connection is accepted: its connected path is queued on the io_context *)
    pstep f s {| p_run := p_run s; p_queue := p_queue s ++ [mk f (p_next s) KConnected]; p_next := S (p_next s) |}
| PExternal : forall s c k, (* shutdown()/close() reach connection c; the application calls into it *)
    c < p_next s -> (k = KApp \/ exists callee, k = KSweep callee) ->
    pstep f s {| p_run := p_run s; p_queue := p_queue s ++ [mk f c k]; p_next := p_next s |}
| PStart : forall s th t q1 q2,
    p_queue s = q1 ++ t :: q2 -> ~ In th (map fst (p_run s)) -> strand_free s t ->
    pstep f s {| p_run := (th, t) :: p_run s; p_queue := q1 ++ q2; p_next := p_next s |}
| PSpawn : forall s th t,   (* a running completion handler starts another operation on its socket *)
    In (th, t) (p_run s) -> tk_kind t = KCompletion ->
    pstep f s {| p_run := p_run s; p_queue := p_queue s ++ [mk f (tk_conn t) KCompletion]; p_next := p_next s |}
| PFinish : forall s th t r1 r2 n,
    p_run s = r1 ++ (th, t) :: r2 ->
    (n = 0 \/ tk_kind t = KCompletion \/ (tk_kind t = KConnected /\ f_arms_last f = true)) ->
    pstep f s {| p_run := r1 ++ r2; p_queue := p_queue s ++ repeat (mk f (tk_conn t) KCompletion) n; p_next := p_next s |}
| PFinishEarly : forall s th t,  (* a connected path that starts reception before it is done *)
    In (th, t) (p_run s) -> tk_kind t = KConnected -> f_arms_last f = false ->
    pstep f s {| p_run := p_run s; p_queue := p_queue s ++ [mk f (tk_conn t) KCompletion]; p_next := p_next s |}.

Inductive preach (f : facts) : pstate -> Prop :=
| PR0 : preach f p_init
| PRS : forall s s', preach f s -> pstep f s s' -> preach f s'.

(* the library's own per-connection work *)
Definition lib_kind (k : kind) : Prop := k = KConnected \/ k = KCompletion.

(* two threads are inside work of the same connection at once *)
Definition overlap (s : pstate) (c : nat) (P : kind -> Prop) : Prop :=
  exists th1 th2 t1 t2, th1 <> th2 /\ In (th1, t1) (p_run s) /\ In (th2, t2) (p_run s) /\
                        tk_conn t1 = c /\ tk_conn t2 = c /\ P (tk_kind t1) /\ P (tk_kind t2).
