(* P_Parse.v — fragment lemmas for the sub-parsers: parsing a ++ b is parsing a, then b. *)
From Via Require Import M_Char M_Parse M_Receive.
Local Open Scope N_scope.

(* ---- request_line: parse (a ++ b) = parse a, then parse b --------------------------------- *)
Lemma rl_set_valid_false r : rl_valid r = false -> rl_set_valid r false = r.
Proof. destruct r; cbn; intros ->; reflexivity. Qed.

Lemma rl_set_fail_valid r b : rl_valid (rl_set_fail r b) = rl_valid r.
Proof. reflexivity. Qed.

Lemma rl_parse_char_valid L r c : rl_valid (fst (rl_parse_char L r c)) = rl_valid r.
Proof.
  unfold rl_parse_char, expect_char.
  destruct (rl_state r); cbn;
    repeat match goal with |- context [if ?b then _ else _] => destruct b; cbn end;
    try reflexivity; destruct (rl_uri r); cbn;
    repeat match goal with |- context [if ?b then _ else _] => destruct b; cbn end; reflexivity.
Qed.

Lemma rl_parse_app L a : forall r b, rl_valid r = false ->
  rl_parse L r (a ++ b) =
  match rl_parse L r a with
  | (r1, ra, Done) => (r1, ra ++ b, Done)
  | (r1, ra, Fail) => (r1, ra ++ b, Fail)
  | (r1, _, More) => rl_parse L r1 b
  end.
Proof.
  induction a as [|c a IH]; intros r b Hv.
  - cbn [app rl_parse]. destruct (rl_done r) eqn:Ed.
    + destruct b as [|d b]; cbn [rl_parse app]; rewrite ?Ed; reflexivity.
    + rewrite rl_set_valid_false by exact Hv. reflexivity.
  - cbn [app rl_parse]. destruct (rl_done r); [reflexivity|].
    destruct (rl_parse_char L r c) as [r1 ok] eqn:Ep. destruct ok; [|reflexivity].
    apply IH. rewrite rl_set_fail_valid. pose proof (rl_parse_char_valid L r c) as H. rewrite Ep in H. cbn in H. congruence.
Qed.

(* ---- response_line ------------------------------------------------------------------------ *)
Lemma sl_set_valid_false r : sl_valid r = false -> sl_set_valid r false = r.
Proof. destruct r; cbn; intros ->; reflexivity. Qed.

Lemma sl_parse_char_valid L r c : sl_valid (fst (sl_parse_char L r c)) = sl_valid r.
Proof.
  unfold sl_parse_char, sl_expect, sl_cr_case.
  destruct (sl_state r); cbn;
    repeat match goal with |- context [if ?b then _ else _] => destruct b; cbn end;
    try reflexivity.
Qed.

Lemma sl_parse_app L a : forall r b, sl_valid r = false ->
  sl_parse L r (a ++ b) =
  match sl_parse L r a with
  | (r1, ra, Done) => (r1, ra ++ b, Done)
  | (r1, ra, Fail) => (r1, ra ++ b, Fail)
  | (r1, _, More) => sl_parse L r1 b
  end.
Proof.
  induction a as [|c a IH]; intros r b Hv.
  - cbn [app sl_parse]. destruct (sl_done r) eqn:Ed.
    + destruct b as [|d b]; cbn [sl_parse app]; rewrite ?Ed; reflexivity.
    + rewrite sl_set_valid_false by exact Hv. reflexivity.
  - cbn [app sl_parse]. destruct (sl_done r); [reflexivity|].
    destruct (sl_parse_char L r c) as [r1 ok] eqn:Ep. destruct ok; [|reflexivity].
    apply IH. pose proof (sl_parse_char_valid L r c) as H. rewrite Ep in H. cbn in H.
    destruct r1; cbn in *; congruence.
Qed.

(* ---- chunk_header --------------------------------------------------------------------------- *)
Lemma ck_set_valid_false k : ck_valid k = false -> ck_set_valid k false = k.
Proof. destruct k; cbn; intros ->; reflexivity. Qed.

Lemma ck_parse_char_valid L k c : ck_valid (fst (ck_parse_char L k c)) = ck_valid k.
Proof.
  unfold ck_parse_char, ck_size_case, ck_ext_case.
  destruct (max_line L <? ck_length k + 1); cbn;
  destruct (ck_state k); cbn;
    repeat match goal with |- context [if ?b then _ else _] => destruct b; cbn end;
    try reflexivity.
Qed.

Lemma ck_parse_char_fail L k c : ck_fail (fst (ck_parse_char L k c)) = ck_fail k.
Proof.
  unfold ck_parse_char, ck_size_case, ck_ext_case.
  destruct (max_line L <? ck_length k + 1); cbn;
  destruct (ck_state k); cbn;
    repeat match goal with |- context [if ?b then _ else _] => destruct b; cbn end;
    try reflexivity.
Qed.

Lemma ck_loop_app L a : forall k b, ck_valid k = false ->
  ck_loop L k (a ++ b) =
  match ck_loop L k a with
  | (k1, ra, Done) => (k1, ra ++ b, Done)
  | (k1, ra, Fail) => (k1, ra ++ b, Fail)
  | (k1, _, More) => ck_loop L k1 b
  end.
Proof.
  induction a as [|c a IH]; intros k b Hv.
  - cbn [app ck_loop]. destruct (ck_done k) eqn:Ed.
    + destruct b as [|d b]; cbn [ck_loop app]; rewrite ?Ed; reflexivity.
    + rewrite ck_set_valid_false by exact Hv. reflexivity.
  - cbn [app ck_loop]. destruct (ck_done k); [reflexivity|].
    destruct (ck_parse_char L k c) as [k1 ok] eqn:Ep. destruct ok; [|reflexivity].
    apply IH. pose proof (ck_parse_char_valid L k c) as H. rewrite Ep in H. cbn in H.
    destruct k1; cbn in *; congruence.
Qed.

(* a failed chunk line stays failed; an unfailed More result can be continued *)
Lemma ck_loop_fail_flag L a : forall k k1 ra r, ck_loop L k a = (k1, ra, r) ->
  ck_fail k = false -> (ck_fail k1 = true <-> r = Fail).
Proof.
  induction a as [|c a IH]; intros k k1 ra r H Hf; cbn [ck_loop] in H.
  - inversion H; subst. destruct k; cbn in *. subst. destruct (ck_done _); split; congruence.
  - destruct (ck_done k) eqn:Ed.
    + inversion H; subst. destruct k; cbn in *; subst. split; congruence.
    + destruct (ck_parse_char L k c) as [k2 ok] eqn:Ep. destruct ok.
      * eapply IH; [exact H|]. destruct k2; reflexivity.
      * inversion H; subst. destruct k2; cbn. split; congruence.
Qed.

Lemma ck_parse_app L a k b : ck_valid k = false ->
  ck_parse L k (a ++ b) =
  match ck_parse L k a with
  | (k1, ra, Done) => (k1, ra ++ b, Done)
  | (k1, ra, Fail) => (k1, ra ++ b, Fail)
  | (k1, _, More) => ck_parse L k1 b
  end.
Proof.
  intros Hv. unfold ck_parse. destruct (ck_fail k) eqn:Ef; [reflexivity|].
  rewrite ck_loop_app by exact Hv.
  destruct (ck_loop L k a) as [[k1 ra] r] eqn:El. destruct r; try reflexivity.
  destruct (ck_loop_fail_flag L a k k1 ra More El Ef) as [H1 _].
  destruct (ck_fail k1); [specialize (H1 eq_refl); discriminate|reflexivity].
Qed.

(* ---- field_line: the look-ahead ------------------------------------------------------------ *)
Lemma fl_loop_done L f buf : fl_done f = true -> fl_loop L f buf = (f, buf, Done).
Proof. intros H. destruct buf; cbn [fl_loop]; rewrite H; reflexivity. Qed.

Lemma fl_continue_not_done f : fl_done (fl_continue f) = false.
Proof. reflexivity. Qed.

Lemma next_is_blank_app a b : a <> [] -> next_is_blank (a ++ b) = next_is_blank a.
Proof. destruct a; [congruence|reflexivity]. Qed.

(* what the loop returns *)
Lemma fl_loop_result L buf : forall f f1 ra r, fl_loop L f buf = (f1, ra, r) -> fl_fail f = false ->
  match r with
  | Done => fl_done f1 = true /\ fl_fail f1 = false
  | More => fl_done f1 = false /\ fl_fail f1 = false /\ ra = []
  | Fail => fl_fail f1 = true
  end.
Proof.
  induction buf as [|c t IH]; intros f f1 ra r H Hf; cbn [fl_loop] in H.
  - destruct (fl_done f) eqn:Ed; inversion H; subst; auto.
  - destruct (fl_done f) eqn:Ed; [inversion H; subst; auto|].
    destruct (fl_parse_char L f c) as [f2 ok]. destruct ok.
    + destruct (fl_done (fl_set_fail f2 false) && next_is_blank t); (eapply IH; [exact H|reflexivity]).
    + inversion H; subst. reflexivity.
Qed.

Lemma fl_loop_app L a : forall f b, fl_done f = false ->
  fl_loop L f (a ++ b) =
  match fl_loop L f a with
  | (f1, ra, r) =>
      match r with
      | Fail => (f1, ra ++ b, Fail)
      | More => fl_loop L f1 b
      | Done => match ra with
                | [] => if next_is_blank b then fl_loop L (fl_continue f1) b else (f1, b, Done)
                | _ => (f1, ra ++ b, Done)
                end
      end
  end.
Proof.
  induction a as [|c a IH]; intros f b Hd.
  - cbn [app fl_loop]. rewrite Hd. reflexivity.
  - cbn [app fl_loop]. rewrite Hd.
    destruct (fl_parse_char L f c) as [f2 ok]. destruct ok; [|reflexivity].
    set (f3 := fl_set_fail f2 false).
    destruct a as [|d a'].
    + cbn [app next_is_blank andb]. rewrite Bool.andb_false_r. cbn [fl_loop].
      destruct (fl_done f3) eqn:Ed3; cbn [andb].
      * destruct (next_is_blank b); [reflexivity|]. apply fl_loop_done, Ed3.
      * reflexivity.
    + rewrite next_is_blank_app by discriminate.
      destruct (fl_done f3 && next_is_blank (d :: a')) eqn:Eb.
      * apply IH. reflexivity.
      * destruct (fl_done f3) eqn:Ed3.
        -- rewrite (fl_loop_done L f3 ((d :: a') ++ b) Ed3), (fl_loop_done L f3 (d :: a') Ed3). reflexivity.
        -- apply IH, Ed3.
Qed.

Lemma fl_parse_app L a f b :
  fl_parse L f (a ++ b) =
  match fl_parse L f a with
  | (f1, ra, r) =>
      match r with
      | Fail => (f1, ra ++ b, Fail)
      | More => fl_parse L f1 b
      | Done => match ra with [] => fl_parse L f1 b | _ => (f1, ra ++ b, Done) end
      end
  end.
Proof.
  unfold fl_parse at 1 2. destruct (fl_fail f) eqn:Ef; [reflexivity|].
  assert (G : forall g, fl_done g = false -> fl_fail g = false ->
    fl_loop L g (a ++ b) =
    match fl_loop L g a with
    | (f1, ra, r) =>
        match r with
        | Fail => (f1, ra ++ b, Fail)
        | More => fl_parse L f1 b
        | Done => match ra with [] => fl_parse L f1 b | _ => (f1, ra ++ b, Done) end
        end
    end).
  { intros g Hd Hf. rewrite fl_loop_app by exact Hd.
    destruct (fl_loop L g a) as [[f1 ra] r] eqn:El. pose proof (fl_loop_result L a g f1 ra r El Hf) as Hr.
    destruct r.
    - destruct Hr as [Hd1 Hf1]. destruct ra; [|reflexivity]. unfold fl_parse. rewrite Hf1, Hd1. cbn [andb].
      destruct (next_is_blank b); [reflexivity|]. symmetry. apply fl_loop_done, Hd1.
    - destruct Hr as [Hd1 [Hf1 _]]. unfold fl_parse. rewrite Hf1, Hd1. reflexivity.
    - reflexivity. }
  destruct (fl_done f) eqn:Ed; cbn [andb].
  - destruct a as [|c a'].
    + cbn [app next_is_blank]. rewrite (fl_loop_done L f [] Ed). unfold fl_parse. rewrite Ef, Ed. reflexivity.
    + rewrite next_is_blank_app by discriminate. destruct (next_is_blank (c :: a')).
      * apply G; reflexivity || exact Ef.
      * rewrite (fl_loop_done L f ((c :: a') ++ b) Ed), (fl_loop_done L f (c :: a') Ed). reflexivity.
  - apply G; assumption.
Qed.
(* ---- a failure is recorded in a flag (so that it is not mistaken for "need more data") ------ *)
Lemma rl_parse_fail L buf : forall r r1 rest, rl_parse L r buf = (r1, rest, Fail) -> rl_fail r1 = true.
Proof.
  induction buf as [|c t IH]; intros r r1 rest H; cbn [rl_parse] in H.
  - destruct (rl_done r); inversion H.
  - destruct (rl_done r); [inversion H|].
    destruct (rl_parse_char L r c) as [r2 ok]. destruct ok; [eapply IH, H|].
    inversion H; subst. reflexivity.
Qed.

Lemma sl_parse_fail L buf : forall r r1 rest, sl_parse L r buf = (r1, rest, Fail) -> sl_fail r1 = true.
Proof.
  induction buf as [|c t IH]; intros r r1 rest H; cbn [sl_parse] in H.
  - destruct (sl_done r); inversion H.
  - destruct (sl_done r); [inversion H|].
    destruct (sl_parse_char L r c) as [r2 ok]. destruct ok; [eapply IH, H|].
    inversion H; subst. reflexivity.
Qed.

Lemma fl_parse_fail L f buf f1 rest : fl_parse L f buf = (f1, rest, Fail) -> fl_fail f1 = true.
Proof.
  unfold fl_parse. destruct (fl_fail f) eqn:Ef; [intros H; inversion H; subst; exact Ef|].
  intros H. destruct (fl_done f && next_is_blank buf);
    (eapply (fl_loop_result L buf _ f1 rest Fail) in H; [exact H|reflexivity || exact Ef]).
Qed.

Lemma hd_blank_line_fail h buf h1 rest : hd_blank_line h buf = (h1, rest, Fail) -> hd_fail h1 = true.
Proof.
  unfold hd_blank_line. destruct buf as [|c t]; [discriminate|].
  destruct (negb (hd_cr h) && (c =? 13)).
  - destruct t as [|d t1]; [discriminate|]. destruct (d =? 10); intros H; inversion H; subst; reflexivity.
  - destruct (c =? 10); intros H; inversion H; subst; reflexivity.
Qed.

Lemma hd_loop_fail L fuel : forall h buf h1 rest, hd_loop fuel L h buf = (h1, rest, Fail) -> hd_fail h1 = true.
Proof.
  induction fuel as [|fuel IH]; intros h buf h1 rest H; cbn [hd_loop] in H.
  - inversion H; subst. reflexivity.
  - match type of H with (if ?e then _ else _) = _ => destruct e end.
    + destruct (fl_parse L (hd_field h) buf) as [[f1 r1] p] eqn:Ep. destruct p.
      * destruct r1 as [|x r1']; [discriminate|].
        match type of H with (if ?e then _ else _) = _ => destruct e end.
        -- inversion H; subst. reflexivity.
        -- eapply IH, H.
      * destruct (fl_fail f1) eqn:Ef; [|discriminate]. inversion H; subst. reflexivity.
      * apply fl_parse_fail in Ep. rewrite Ep in H. inversion H; subst. reflexivity.
    + eapply hd_blank_line_fail, H.
Qed.

Lemma hd_parse_fail L h buf h1 rest : hd_parse L h buf = (h1, rest, Fail) -> hd_fail h1 = true.
Proof.
  unfold hd_parse. destruct (hd_fail h) eqn:Ef; [intros H; inversion H; subst; exact Ef|]. apply hd_loop_fail.
Qed.

(* request head: a Fail result always leaves a flag the receiver consults *)
Lemma rq_parse_fail L q buf q1 rest : rq_parse L q buf = (q1, rest, Fail) ->
  rl_fail (rq_line q1) || hd_fail (rq_headers q1) = true.
Proof.
  unfold rq_parse. destruct (rl_valid (rq_line q)) eqn:Ev.
  - destruct (hd_valid (rq_headers q)); [discriminate|].
    destruct (hd_parse L (rq_headers q) buf) as [[h1 b2] r2] eqn:Eh. destruct r2; try discriminate.
    intros H; inversion H; subst. cbn. rewrite (hd_parse_fail _ _ _ _ _ Eh). apply Bool.orb_true_r.
  - destruct (rl_parse L (rq_line q) buf) as [[l1 b1] r1] eqn:El. destruct r1; try discriminate.
    + destruct (hd_valid (rq_headers q)); [discriminate|].
      destruct (hd_parse L (rq_headers q) b1) as [[h1 b2] r2] eqn:Eh. destruct r2; try discriminate.
      intros H; inversion H; subst. cbn. rewrite (hd_parse_fail _ _ _ _ _ Eh). apply Bool.orb_true_r.
    + intros H; inversion H; subst. cbn. rewrite (rl_parse_fail _ _ _ _ _ El). reflexivity.
Qed.

(* hence: when the head fails to parse, receive answers INVALID - never INCOMPLETE - even if the
   offending byte was the last byte of the read *)
Lemma receive_head_failure_is_invalid cfg v buf q1 rest :
  rq_valid (rv_req v) = false -> rq_parse (c_lim cfg) (rv_req v) buf = (q1, rest, Fail) ->
  snd (receive cfg v buf) = RX_INVALID.
Proof.
  intros Hv Hp. unfold receive. rewrite Hv. cbn [negb]. rewrite Hp.
  assert (E : nonempty rest || rl_fail (rq_line q1) || hd_fail (rq_headers q1) = true).
  { rewrite <- Bool.orb_assoc. rewrite (rq_parse_fail _ _ _ _ _ Hp). apply Bool.orb_true_r. }
  rewrite E. reflexivity.
Qed.

(* sticky failure: a failed sub-parser refuses every later call without consuming anything *)
Lemma fl_parse_sticky L f buf : fl_fail f = true -> fl_parse L f buf = (f, buf, Fail).
Proof. unfold fl_parse. intros ->. reflexivity. Qed.
Lemma hd_parse_sticky L h buf : hd_fail h = true -> hd_parse L h buf = (h, buf, Fail).
Proof. unfold hd_parse. intros ->. reflexivity. Qed.
Lemma ck_parse_sticky L k buf : ck_fail k = true -> ck_parse L k buf = (k, buf, Fail).
Proof. unfold ck_parse. intros ->. reflexivity. Qed.
Lemma rc_parse_sticky L k buf : rc_fail k = true -> rc_parse L k buf = (k, buf, Fail).
Proof. unfold rc_parse. intros ->. reflexivity. Qed.
