(* Properties_C05.v — C05: arbitrary bytes never crash, corrupt memory, throw or hang the receivers.
   What the model can carry: every receive() call is total (a Gallina function), its one possible
   undefined slice (`iter + required` with a negative distance) is unreachable from a fresh
   connection for every sequence of reads over all 256 byte values, and the body never outgrows its
   Content-Length.  What it cannot exhibit - memory errors inside libstdc++/boost - is covered by
   the ASan+UBSan run of the same streams (supporting, see evidence). *)
From Via Require Import M_Char M_Parse M_Receive P_Parse P_C05.
Local Open Scope N_scope.

(* one call, from any state satisfying the invariant *)
Theorem C05_receive_safe : forall cfg v buf, body_inv v ->
  body_inv (fst (fst (receive cfg v buf))) /\ snd (receive cfg v buf) <> RX_UB.
Proof. exact receive_safe. Qed.

(* every call of every read loop of a connection, for all fragment lists *)
Theorem C05_no_undefined_slice : forall cfg frags,
  let '(_, _, calls, _) := feed cfg (rv_init cfg) frags in Forall calls_ok calls.
Proof. exact C05_no_ub_lemma. Qed.

(* a sub-parser failure is never silently dropped: it is INVALID even on the last byte of a read *)
Theorem C05_failure_reported : forall cfg v buf q1 rest,
  rq_valid (rv_req v) = false -> rq_parse (c_lim cfg) (rv_req v) buf = (q1, rest, Fail) ->
  snd (receive cfg v buf) = RX_INVALID.
Proof. exact receive_head_failure_is_invalid. Qed.

Example C05_example_reachable :
  let cfg := mk_rcfg (mk_limits 8190 8 100 65534 1024 8 65534 65534 false) 1048576 1048576 true true in
  body_inv (rv_init cfg).
Proof. apply body_inv_init. Qed.

Print Assumptions C05_receive_safe.
Print Assumptions C05_no_undefined_slice.
