(* Properties_C05.v — C05: arbitrary bytes never crash, corrupt memory, throw or hang the receivers.
   What the model can carry: every receive() call is total (a Gallina function), its one possible
   undefined slice (`iter + required` with a negative distance) is unreachable from a fresh
   connection for every sequence of reads over all 256 byte values, and the body never outgrows its
   Content-Length.  What it cannot exhibit - memory errors inside libstdc++/boost - is covered by
   the ASan+UBSan run of the same streams (supporting, see evidence). *)
From Via Require Import M_Char M_Parse M_Receive P_Parse P_C05 P_Term P_TermC.
From Via Require Import M_Imp M_Loop M_Hdr M_Msg M_Chunk Gen_Parse P_Imp P_Loop P_Hdr P_Msg P_Frag P_C06b P_Chunk.
From Via Require Import M_Query M_Recv P_Recv.
Local Open Scope N_scope.

(* one call, from any state satisfying the invariant *)
Theorem C05_receive_safe : forall cfg v buf, body_inv v ->
  body_inv (fst (fst (receive cfg v buf))) /\ snd (receive cfg v buf) <> RX_UB.
Proof. exact receive_safe. Qed.

(* every call of every read loop of a connection, for all fragment lists *)
Theorem C05_no_undefined_slice : forall cfg frags,
  let '(_, _, calls, _) := feed cfg (rv_init cfg) frags in Forall calls_ok calls.
Proof. exact C05_no_ub_lemma. Qed.

(* a sub-parser failure is never silently dropped: it is INVALID even on the last byte of a read *)
Theorem C05_failure_reported : forall cfg v buf q1 rest,
  rq_valid (rv_req v) = false -> rq_parse (c_lim cfg) (rv_req v) buf = (q1, rest, Fail) ->
  snd (receive cfg v buf) = RX_INVALID.
Proof. exact receive_head_failure_is_invalid. Qed.

(* never hangs: for every sequence of reads of any bytes, every read loop of a connection ends by itself - the
   model's fuel is never exhausted - after at most 2 * |read| + 1 calls of receive() (each call ends the loop,
   consumes a byte, or completes a request whose head was parsed earlier) *)
Theorem C05_read_loop_terminates : forall cfg frags,
  let '(_, _, calls, out_of_fuel) := feed cfg (rv_init cfg) frags in
  out_of_fuel = false /\ Forall2 (fun c f => (length c <= 2 * length f + 1)%nat) calls frags.
Proof.
  intros cfg frags. pose proof (feed_terminates cfg frags (rv_init cfg) (rv_inv3_init cfg)) as H.
  destruct (feed cfg (rv_init cfg) frags) as [[[v e] c] o]. destruct H as [H1 [_ H2]]. split; assumption.
Qed.

(* the same for the client's receiver and http_client::receive_handler *)
Theorem C05_client_read_loop_terminates : forall cfg frags,
  let '(_, _, calls, out_of_fuel) := cfeed cfg (cv_init cfg) frags in
  out_of_fuel = false /\ Forall2 (fun c f => (length c <= 2 * length f + 1)%nat) calls frags.
Proof.
  intros cfg frags. pose proof (cfeed_terminates cfg frags (cv_init cfg) (cv_inv3_init cfg)) as H.
  destruct (cfeed cfg (cv_init cfg) frags) as [[[v e] c] o]. destruct H as [H1 [_ H2]]. split; assumption.
Qed.

(* non-vacuity: two pipelined requests with bodies in one read and a third cut inside its body: three calls in the
   first read, one in the second, three requests delivered, no fuel exhausted *)
Example C05_example_calls :
  let cfg := mk_rcfg (mk_limits 8190 8 100 65534 1024 8 65534 65534 false) 1048576 1048576 true true false in
  let rq := [80;79;83;84;32;47;32;72;84;84;80;47;49;46;49;13;10;72;111;115;116;58;32;104;13;10;67;111;110;116;101;110;116;45;76;101;110;103;116;104;58;32;50;13;10;13;10;120;121] in
  let '(_, ev, calls, oof) := feed cfg (rv_init cfg) [rq ++ rq ++ firstn 46 rq; skipn 46 rq] in
  oof = false /\ length ev = 3%nat /\ map (fun c => length c) calls = [3%nat; 1%nat].
Proof. vm_compute. repeat split. Qed.

Example C05_example_reachable :
  let cfg := mk_rcfg (mk_limits 8190 8 100 65534 1024 8 65534 65534 false) 1048576 1048576 true true false in
  body_inv (rv_init cfg).
Proof. apply body_inv_init. Qed.

Print Assumptions C05_receive_safe.
Print Assumptions C05_no_undefined_slice.
Print Assumptions C05_read_loop_terminates.
Print Assumptions C05_client_read_loop_terminates.

(* ---- the loops of the source itself ----
   The four character loops (request line, status line, field line, chunk-size line) are translated from clang's AST
   on every run (translate/parse.py -> Gen_Parse.v, a term of M_Loop.v).  Run with ANY fuel that exceeds the length
   of the input they return a value: they do not run out of fuel - each turn of the while loop of the source consumes a
   byte - and they never read at or past `end` (reading there is `None` in M_Loop.lexec).  This is a statement about
   the translated source, not about the model. *)
Theorem C05_source_loops_finish_within_the_input : forall L buf fuel, (length buf < fuel)%nat ->
  (forall r, lrun (rl_lim L) (rl_src L) fuel rl_parse_src (rl_store r) buf <> None) /\
  (forall r, lrun (sl_lim L) (sl_src L) fuel sl_parse_src (sl_store r) buf <> None) /\
  (forall f, lrun (fl_lim L) (fl_src L) fuel fl_parse_src (fl_store f) buf <> None) /\
  (forall k, lrun (ck_lim L) (ck_src L) fuel ck_parse_src (ck_store k) buf <> None).
Proof.
  intros L buf fuel Hf. repeat split; intros x.
  - rewrite (rl_parse_is_the_source L x buf fuel Hf). discriminate.
  - rewrite (sl_parse_is_the_source L x buf fuel Hf). discriminate.
  - rewrite (fl_parse_is_the_source L x buf fuel Hf). discriminate.
  - rewrite (ck_parse_is_the_source L x buf fuel Hf). discriminate.
Qed.
Print Assumptions C05_source_loops_finish_within_the_input.

(* rx_chunk::parse, the one place in the receivers with pointer and ptrdiff_t arithmetic: run on any chunk the receiver
   can reach, any input, the TRANSLATED source returns a value - the subtraction of the two sizes stays in the range of
   std::ptrdiff_t, `iter + data_required` stays within [iter, end], and no byte is read or skipped at `end` (each of
   these would be `None` in M_Chunk.cexec). *)
Theorem C05_chunk_source_is_defined : forall L k buf fuel,
  rc_inv L k -> hd_ok (rc_trailers k) -> small (ck_max (rc_hdr k)) -> (length buf + 2 <= fuel)%nat ->
  crun (ck_lim L) (fl_lim L) (hd_lim L) (kc_of L) (hd_code_of L) fuel (rc_src L) (rc_store k) buf <> None.
Proof. intros L k buf fuel Hi Ho Hm Hf. rewrite (rc_parse_is_the_source L k buf fuel Hi Ho Hm Hf). discriminate. Qed.
Example C05_chunk_source_premises : let L := mk_limits 8190 8 100 65534 1024 8 65534 65534 false in
  rc_inv L (rc_init 1048576) /\ hd_ok (rc_trailers (rc_init 1048576)) /\ small (ck_max (rc_hdr (rc_init 1048576))).
Proof. split; [apply rc_inv_init | split; [apply fl_ok_init | reflexivity]]. Qed.
Print Assumptions C05_chunk_source_is_defined.

(* request_receiver::receive, translated: run on any receiver the connection can reach and any input it returns a value -
   no `iter + required` outside [iter, end], no ptrdiff_t subtraction out of range, no read at `end`, in the function or
   in anything it calls (each would be `None`) *)
Theorem C05_receive_source_is_defined : forall cfg v buf fuel,
  body_inv v ->
  hd_ok (rq_headers (rv_req v)) -> rc_inv (c_lim cfg) (rv_chunk v) -> hd_ok (rc_trailers (rv_chunk v)) ->
  small (ck_max (rc_hdr (rv_chunk v))) -> small (c_max_content cfg) -> small (nlen (rv_body v)) ->
  (length buf + 2 <= fuel)%nat ->
  rrun (rl_lim (c_lim cfg)) (fl_lim (c_lim cfg)) (hd_lim (c_lim cfg)) (ck_lim (c_lim cfg)) (rcode_of (c_lim cfg))
       (c_max_content cfg) (c_translate_head cfg) (c_concat cfg) rv_clear_src fuel rv_receive_src (rv_store v) buf <> None.
Proof.
  intros cfg v buf fuel Hbi H1 H2 H3 H4 H5 H6 Hf. rewrite (receive_is_the_source cfg v buf fuel Hbi H1 H2 H3 H4 H5 H6 Hf).
  pose proof (receive_safe cfg v buf Hbi) as [_ Hub].
  destruct (receive cfg v buf) as [[v' rest] r]. cbn [snd] in Hub. destruct r; cbn [rx_of]; try discriminate. exfalso; apply Hub; reflexivity.
Qed.
Print Assumptions C05_receive_source_is_defined.
