(* Properties_C04.v — C04: every message written to the wire is well-formed, correctly framed HTTP/1.1.
   Proved on the model: a chunk is written as  size-line ++ data ++ CR LF  (exactly two bytes of
   terminator); the response head has no empty line before its end (Properties_C13).  The grammar of
   whole wire streams is decided by an independent recogniser run over the bytes the real server hands
   to write() in every history (props/simgen.py recognise_responses). *)
From Via Require Import M_Char M_Encode M_Parse M_Receive M_Server P_Server.
Local Open Scope N_scope.

Theorem C04_chunk_frame : forall c, slots_bytes c [SHeader; SBody; SCrlf] = c_tx_header c ++ c_tx_body c ++ [13; 10].
Proof. exact chunk_frame_bytes. Qed.

Example C04_example_chunk_header : chunk_header_string 26 [120; 61; 49] = [49; 97; 59; 32; 120; 61; 49; 13; 10]
  /\ last_chunk_string [] [] = [48; 13; 10; 13; 10].
Proof. vm_compute. split; reflexivity. Qed.

Print Assumptions C04_chunk_frame.
