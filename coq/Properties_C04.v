(* Properties_C04.v — C04: every message written to the wire is well-formed, correctly framed HTTP/1.1.
   Proved on the model: a chunk is written as  size-line ++ data ++ CR LF  (exactly two bytes of
   terminator); the response head has no empty line before its end (Properties_C13).  The grammar of
   whole wire streams is decided by an independent recogniser run over the bytes the real server hands
   to write() in every history (props/simgen.py recognise_responses). *)
From Via Require Import M_Char M_Encode M_Parse M_Receive M_Server P_Server.
From Via Require Import M_Client P_Client.
Local Open Scope N_scope.

Theorem C04_chunk_frame : forall c, slots_bytes c [SHeader; SBody; SCrlf] = c_tx_header c ++ c_tx_body c ++ [13; 10].
Proof. exact chunk_frame_bytes. Qed.

Example C04_example_chunk_header : chunk_header_string 26 [120; 61; 49] = [49; 97; 59; 32; 120; 61; 49; 13; 10]
  /\ last_chunk_string [] [] = [48; 13; 10; 13; 10].
Proof. vm_compute. split; reflexivity. Qed.

(* ---- client requests ---- *)
Theorem C04_client_request_framing : forall o ov m u h b,
  let r := {| tq_method := m; tq_uri := u; tq_major := 49; tq_minor := 49;
              tq_headers := h ++ to_header hf_HEADER_HOST (http_host_name o) |} in
  let n := if N.eqb ov 0 then 0 else nlen b in
  request_bytes o ov m u h b =
    request_line_string r ++ tq_headers r
    ++ (if request_adds_content_length r then content_length_line n else []) ++ CRLF
    ++ (if N.eqb ov 0 then [] else b).
Proof. exact client_request_framing. Qed.

Theorem C04_client_chunk_framing : forall d x,
  chunk_header_string (nlen d) x ++ d ++ CRLF = to_hex_string (nlen d) ++ ext_string x ++ CRLF ++ d ++ CRLF.
Proof. exact client_chunk_framing. Qed.

Print Assumptions C04_chunk_frame.
Print Assumptions C04_client_request_framing.
Print Assumptions C04_client_chunk_framing.
