(* Properties_C04.v — C04: every message written to the wire is well-formed, correctly framed HTTP/1.1.
   Proved on the model: a chunk is written as  size-line ++ data ++ CR LF  (exactly two bytes of
   terminator); the response head has no empty line before its end (Properties_C13).  The grammar of
   whole wire streams is decided by an independent recogniser run over the bytes the real server hands
   to write() in every history (props/simgen.py recognise_responses).  In Coq, for a response with a body sent by
   an idle connection: the bytes handed to the socket are tx_response::message followed by the body, and the
   library's own response receiver reads exactly these bytes back as one valid response with that body, leaving
   whatever follows (C04_response_with_body_is_one_valid_response; the grammar here is the receiver's). *)
From Via Require Import M_Char M_Encode M_Parse M_Receive M_Server P_Server.
From Via Require Import M_Client P_Client.
From Via Require Import P_C04 P_C02 P_C08c P_C08d P_C08e P_C08f P_C08g.
From Via Require Import M_Str Gen_Parse P_Str.
Local Open Scope N_scope.

Theorem C04_chunk_frame : forall c, slots_bytes c [SHeader; SBody; SCrlf] = c_tx_header c ++ c_tx_body c ++ [13; 10].
Proof. exact chunk_frame_bytes. Qed.

Example C04_example_chunk_header : chunk_header_string 26 [120; 61; 49] = [49; 97; 59; 32; 120; 61; 49; 13; 10]
  /\ last_chunk_string [] [] = [48; 13; 10; 13; 10].
Proof. vm_compute. split; reflexivity. Qed.

(* ---- server responses ---- *)
Theorem C04_response_bytes : forall o w c rp,
  c_transmitting c = false -> c_connected c = true -> rp_ov rp = 1 ->
  let reason := match reason_phrase (rp_status rp) with [] => custom_reason | _ => [] end in
  let resp0 := tx_response_of_reason reason (rp_status rp) (rp_hdrs rp) in
  let body := body_of (w_reqno w) (rp_len rp) in
  tx_response_is_valid resp0 = true ->
  rv_is_head (c_rx c) = false -> content_permitted (rp_status rp) = true ->
  exists l, snd (app_respond o w c rp) =
            LWrite (c_id c) (response_message (with_version c resp0) (nlen body) ++ body) :: l.
Proof. exact response_write_bytes. Qed.

Theorem C04_response_with_body_is_one_valid_response : forall o w c rp ccfg st rs ma mi hs rest,
  c_transmitting c = false -> c_connected c = true -> rp_ov rp = 1 ->
  let reason := match reason_phrase (rp_status rp) with [] => custom_reason | _ => [] end in
  let resp0 := tx_response_of_reason reason (rp_status rp) (rp_hdrs rp) in
  let body := body_of (w_reqno w) (rp_len rp) in
  tx_response_is_valid resp0 = true ->
  rv_is_head (c_rx c) = false -> content_permitted (rp_status rp) = true ->
  (* the response as it goes out: status, reason, the version taken from the request, the caller's header lines *)
  with_version c resp0 = mk_tx_response st rs ma mi (lines_bytes hs) ->
  let L := cc_lim ccfg in
  let n := nlen body in
  let hs' := hs ++ [cl_line n] in
  let F := fold_left add_line hs' [] in
  isdigit ma = true -> isdigit mi = true -> st <= max_status L -> st <= LONG_MAX ->
  forallb reason_char rs = true -> (match rs with c0 :: _ => isblank c0 = false | [] => True end) ->
  nlen rs <= max_reason L -> 1 <= max_ws L ->
  Forall (line_ok L) hs' -> within L [] 0 hs' ->
  response_adds_content_length (mk_tx_response st rs ma mi (lines_bytes hs)) = true ->
  fields_find hf_LC_TRANSFER_ENCODING F = None ->
  fields_find hf_LC_CONTENT_LENGTH F = Some (to_dec_string n) ->
  n <= LONG_MAX ->
  exists bytes l v1,
    snd (app_respond o w c rp) = LWrite (c_id c) bytes :: l /\
    creceive ccfg (cv_init ccfg) (bytes ++ rest) = (v1, rest, RX_VALID) /\ cv_body v1 = body.
Proof.
  intros o w c rp ccfg st rs ma mi hs rest Ht Hc Hov reason resp0 body Hv Hh Hp Hwv L n hs' F
         Ha Hi Hst Hlm Hr Hb Hl Hws Hok Hwi Hadd Hte Hcl Hn.
  destruct (response_write_bytes o w c rp Ht Hc Hov Hv Hh Hp) as [l Hlog].
  fold reason resp0 body in Hlog. rewrite Hwv in Hlog.
  destruct (response_message_roundtrip ccfg st rs ma mi hs body rest Ha Hi Hst Hlm Hr Hb Hl Hws Hok Hwi Hadd Hte Hcl Hn) as [v1 [H1 [_ [_ H4]]]].
  exists (response_message (mk_tx_response st rs ma mi (lines_bytes hs)) (nlen body) ++ body), l, v1.
  split; [exact Hlog | split; [rewrite <- app_assoc; exact H1 | exact H4]].
Qed.

(* non-vacuity: a connected idle connection, a 200 with one header line and a two-byte body meet every premise *)
Example C04_example_response :
  let cfg := mk_rcfg (mk_limits 8190 8 100 65534 1024 8 65534 65534 false) 1048576 1048576 true true false in
  let ccfg := mk_ccfg (mk_limits 0 0 65534 9223372036854775807 65534 254 65534 65534 false) 1048576 1048576 in
  let c := mk_conn 1 false true false false false true false false None true true (rv_init cfg) [] [] [] [] 0 false in
  let hs := [([83;101;114;118;101;114], [118])] in
  let rp := mk_recipe 200 2 1 (lines_bytes hs) in
  let resp0 := tx_response_of_reason [] 200 (lines_bytes hs) in
  let body := body_of (w_reqno w_init) 2 in
  let hs' := hs ++ [cl_line (nlen body)] in
  tx_response_is_valid resp0 = true /\ content_permitted 200 = true /\
  with_version c resp0 = mk_tx_response 200 [79;75] 49 49 (lines_bytes hs) /\
  Forall (line_ok (cc_lim ccfg)) hs' /\ within (cc_lim ccfg) [] 0 hs' /\
  response_adds_content_length (mk_tx_response 200 [79;75] 49 49 (lines_bytes hs)) = true /\
  fields_find hf_LC_TRANSFER_ENCODING (fold_left add_line hs' []) = None /\
  fields_find hf_LC_CONTENT_LENGTH (fold_left add_line hs' []) = Some (to_dec_string (nlen body)).
Proof.
  repeat match goal with |- _ /\ _ => split end; try (vm_compute; reflexivity);
    try (repeat constructor; cbn; try discriminate; lia);
    try (cbn [within]; vm_compute; repeat split; intros; discriminate).
Qed.

(* ---- client requests ---- *)
Theorem C04_client_request_framing : forall o ov m u h b,
  let r := {| tq_method := m; tq_uri := u; tq_major := 49; tq_minor := 49;
              tq_headers := h ++ to_header hf_HEADER_HOST (http_host_name o) |} in
  let n := if N.eqb ov 0 then 0 else nlen b in
  request_bytes o ov m u h b =
    request_line_string r ++ tq_headers r
    ++ (if request_adds_content_length r then content_length_line n else []) ++ CRLF
    ++ (if N.eqb ov 0 then [] else b).
Proof. exact client_request_framing. Qed.

Theorem C04_client_chunk_framing : forall d x,
  chunk_header_string (nlen d) x ++ d ++ CRLF = to_hex_string (nlen d) ++ ext_string x ++ CRLF ++ d ++ CRLF.
Proof. exact client_chunk_framing. Qed.

Print Assumptions C04_chunk_frame.
Print Assumptions C04_response_bytes.
Print Assumptions C04_response_with_body_is_one_valid_response.
Print Assumptions C04_client_request_framing.
Print Assumptions C04_client_chunk_framing.

(* ---- the tie to the source, as a theorem ----
   tx_response::message and tx_request::message - how a head is put together and WHEN the Content-Length line is added
   (no Content-Length and no Transfer-Encoding in the header string and, for a response, a status that permits content) -
   are translated from clang's AST on every run (translate/parse.py -> Gen_Parse.v, terms of M_Str.v); the model's
   response_message / request_message, about which the framing theorems speak, are what the translated functions return,
   for EVERY message and length.  (The start line's to_string() is the model's response_line_string /
   request_line_string; content_permitted is the regenerated table function.) *)
Theorem C04_response_message_is_the_source : forall r n,
  srun (mk_senv (response_line_string r) (rs_headers r) (rs_status r) n) tx_response_message_src = Some (response_message r n).
Proof. exact response_message_is_the_source. Qed.
Theorem C04_request_message_is_the_source : forall r n,
  srun (mk_senv (request_line_string r) (tq_headers r) 0 n) tx_request_message_src = Some (request_message r n).
Proof. exact request_message_is_the_source. Qed.
Print Assumptions C04_response_message_is_the_source.
Print Assumptions C04_request_message_is_the_source.

(* the chunk framing: the header of every chunk and the last chunk are the translated chunk_header::to_string() /
   last_chunk::to_string(); the start line of a head is the translated to_string() of the line (see Properties_C08.v) *)
Theorem C04_chunk_header_string_is_the_source : forall size ext,
  xrun (mk_xenv [to_hex_string size; ext] 0 0 0) chunk_header_to_string_src = Some (chunk_header_string size ext).
Proof. exact chunk_header_string_is_the_source. Qed.
Theorem C04_last_chunk_string_is_the_source : forall ext trailers,
  xrun (mk_xenv [ext; trailers] 0 0 0) last_chunk_to_string_src = Some (last_chunk_string ext trailers).
Proof. exact last_chunk_string_is_the_source. Qed.
Theorem C04_response_head_is_the_source : forall r n,
  exists line, xrun (mk_xenv [rs_reason r] (rs_major r) (rs_minor r) (rs_status r)) response_line_to_string_src = Some line
            /\ srun (mk_senv line (rs_headers r) (rs_status r) n) tx_response_message_src = Some (response_message r n).
Proof. exact response_head_is_the_source. Qed.
Print Assumptions C04_chunk_header_string_is_the_source.
Print Assumptions C04_last_chunk_string_is_the_source.
Print Assumptions C04_response_head_is_the_source.
Theorem C04_content_length_line_is_the_source : forall n,
  xrun (mk_xenv [] 0 0 n) hf_content_length_src = Some (content_length_line n).
Proof. exact content_length_line_is_the_source. Qed.
Print Assumptions C04_content_length_line_is_the_source.
