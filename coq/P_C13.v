(* P_C13.v — lemmas for C13: the split detector and the position of empty lines in a
   response head. *)
From Via Require Import M_Char M_Encode.
Local Open Scope N_scope.

(* ---- specification: empty lines, positionally ------------------------------------- *)
(* l begins (right after an LF) with an empty line: LF, or CR LF *)
Definition starts_empty (l : str) : bool :=
  match l with
  | c :: t => (c =? 10) || ((c =? 13) && match t with d :: _ => d =? 10 | [] => false end)
  | [] => false
  end.

(* some LF of l is followed by an empty line *)
Fixpoint has_empty (l : str) : bool :=
  match l with
  | [] => false
  | c :: t => ((c =? 10) && starts_empty t) || has_empty t
  end.

(* ---- the same thing as a three-state automaton (proof device) ---------------------- *)
Inductive lst := L0 | L1 | L2.   (* L1: just after LF;  L2: after LF CR *)

Definition lstep (s : lst) (c : byte) : lst * bool :=
  if c =? 10 then (L1, match s with L0 => false | _ => true end)
  else if c =? 13 then (match s with L1 => L2 | _ => L0 end, false)
  else (L0, false).

Fixpoint count_empty (s : lst) (l : str) : nat :=
  match l with
  | [] => O
  | c :: t => (if snd (lstep s c) then 1 else 0) + count_empty (fst (lstep s c)) t
  end.

Fixpoint final (s : lst) (l : str) : lst :=
  match l with
  | [] => s
  | c :: t => final (fst (lstep s c)) t
  end.

Lemma count_app a b s : count_empty s (a ++ b) = (count_empty s a + count_empty (final s a) b)%nat.
Proof.
  revert s; induction a as [|c a IH]; intros s; cbn [app count_empty final]; [reflexivity|].
  rewrite IH. lia.
Qed.

Lemma final_app a b s : final s (a ++ b) = final (final s a) b.
Proof. revert s; induction a as [|c a IH]; intros s; cbn [app final]; [reflexivity|apply IH]. Qed.

Definition pending (s : lst) (l : str) : bool :=
  match s with
  | L0 => false
  | L1 => starts_empty l
  | L2 => match l with c :: _ => c =? 10 | [] => false end
  end.

Lemma count_zero_iff l : forall s,
  count_empty s l = O <-> (pending s l = false /\ has_empty l = false).
Proof.
  induction l as [|c t IH]; intros s.
  - destruct s; cbn; tauto.
  - cbn [count_empty has_empty]. unfold lstep.
    destruct (c =? 10) eqn:E10; [|destruct (c =? 13) eqn:E13]; cbn [fst snd andb orb].
    + pose proof (IH L1) as I1. cbn [pending] in I1.
      destruct s; cbn [pending starts_empty]; rewrite ?E10; cbn [orb andb plus].
      * rewrite I1. destruct (starts_empty t), (has_empty t); cbn; intuition congruence.
      * intuition (try discriminate; try lia).
      * intuition (try discriminate; try lia).
    + destruct s; cbn [pending starts_empty]; rewrite ?E10, ?E13; cbn [orb andb plus].
      * rewrite (IH L0). cbn [pending]. tauto.
      * rewrite (IH L2). cbn [pending]. destruct t as [|d t']; tauto.
      * rewrite (IH L0). cbn [pending]. tauto.
    + destruct s; cbn [pending starts_empty]; rewrite ?E10, ?E13; cbn [orb andb plus];
          rewrite (IH L0); cbn [pending]; tauto.
Qed.

Corollary has_empty_count l : has_empty l = false <-> count_empty L0 l = O.
Proof. rewrite (count_zero_iff l L0). cbn [pending]. tauto. Qed.

(* ---- the C++ window as an automaton state ------------------------------------------ *)
Definition wst (pp p : byte) : lst :=
  if p =? 10 then L1 else if (p =? 13) && (pp =? 10) then L2 else L0.

Lemma wst_step pp p c :
  fst (lstep (wst pp p) c) = wst p c /\
  snd (lstep (wst pp p) c) = ((c =? 10) && ((p =? 10) || ((p =? 13) && (pp =? 10)))).
Proof.
  unfold lstep, wst.
  destruct (c =? 10) eqn:E10, (c =? 13) eqn:E13, (p =? 10) eqn:P10, (p =? 13) eqn:P13, (pp =? 10) eqn:PP;
    cbn; try (split; reflexivity);
    try (apply N.eqb_eq in E10; apply N.eqb_eq in E13; congruence);
    try (apply N.eqb_eq in P10; apply N.eqb_eq in P13; congruence).
Qed.

Lemma scan_count l : forall pp p, split_scan pp p l = false <-> count_empty (wst pp p) l = O.
Proof.
  induction l as [|c t IH]; intros pp p; cbn [split_scan count_empty]; [tauto|].
  destruct (wst_step pp p c) as [-> ->].
  destruct ((c =? 10) && ((p =? 10) || ((p =? 13) && (pp =? 10)))).
  - split; [discriminate|cbn; lia].
  - rewrite IH. cbn. tauto.
Qed.

(* ---- strings without LF ------------------------------------------------------------ *)
Definition no_lf (l : str) : Prop := Forall (fun c => c <> 10) l.

Lemma no_lf_L0 l : no_lf l -> count_empty L0 l = O /\ final L0 l = L0.
Proof.
  induction 1 as [|c t Hc _ IH]; cbn [count_empty final]; [split; reflexivity|].
  unfold lstep. apply N.eqb_neq in Hc. rewrite Hc.
  destruct (c =? 13); cbn [fst snd]; destruct IH as [-> ->]; split; reflexivity.
Qed.

Lemma no_lf_any l s : no_lf l -> l <> [] -> hd 0 l <> 13 -> count_empty s l = O /\ final s l = L0.
Proof.
  intros H Hne Hcr. destruct l as [|c t]; [congruence|]. cbn [hd] in Hcr.
  inversion H as [|? ? Hc Ht]; subst. cbn [count_empty final]. unfold lstep.
  apply N.eqb_neq in Hc. rewrite Hc. apply N.eqb_neq in Hcr. rewrite Hcr. cbn [fst snd].
  destruct (no_lf_L0 t Ht) as [-> ->]. split; reflexivity.
Qed.

Lemma no_lf_app a b : no_lf a -> no_lf b -> no_lf (a ++ b).
Proof. intros; apply Forall_app; split; assumption. Qed.

(* digits of to_dec_string *)
Ltac generalize_mod := repeat match goal with |- context [?a mod ?b] => generalize (a mod b); intro end.
Lemma to_base_fuel_digits fuel base dig n acc (P : byte -> Prop) :
  (forall d, P (dig d)) -> Forall P acc -> Forall P (to_base_fuel fuel base dig n acc).
Proof.
  intros Hd. revert n acc. induction fuel as [|f IH]; intros n acc Hacc; cbn [to_base_fuel]; [assumption|].
  destruct (n / base =? 0); [constructor; auto|]. apply IH. constructor; auto.
Qed.

Lemma to_dec_string_no_lf n : no_lf (to_dec_string n).
Proof.
  unfold to_dec_string, no_lf. apply to_base_fuel_digits; [|constructor].
  intros d. cbv beta. unfold dec_digit. lia.
Qed.

Lemma to_dec_string_first n : to_dec_string n <> [] /\ hd 0 (to_dec_string n) <> 13.
Proof.
  unfold to_dec_string.
  assert (G : forall fuel n acc, (acc <> [] /\ hd 0 acc <> 13) ->
              to_base_fuel fuel 10 dec_digit n acc <> [] /\ hd 0 (to_base_fuel fuel 10 dec_digit n acc) <> 13).
  { induction fuel as [|f IH]; intros m acc Hacc; cbn [to_base_fuel]; [assumption|].
    destruct (m / 10 =? 0).
    - split; [discriminate|]. cbn [hd]. unfold dec_digit. generalize_mod. lia.
    - apply IH. split; [discriminate|]. cbn [hd]. unfold dec_digit. generalize_mod. lia. }
  cbn [to_base_fuel]. destruct (n / 10 =? 0).
  - split; [discriminate|]. cbn [hd]. unfold dec_digit. generalize_mod. lia.
  - apply G. split; [discriminate|]. cbn [hd]. unfold dec_digit. generalize_mod. lia.
Qed.

(* ---- the response head ------------------------------------------------------------- *)
Definition CRLF_is : CRLF = [13; 10] := eq_refl.

Lemma status_line_state r :
  no_lf (rs_reason r) -> rs_major r <> 10 -> rs_minor r <> 10 ->
  count_empty L0 (response_line_string r) = O /\ final L0 (response_line_string r) = L1.
Proof.
  intros Hr Hma Hmi. unfold response_line_string. rewrite CRLF_is.
  set (body := http_version (rs_major r) (rs_minor r) ++ [32] ++ to_dec_string (rs_status r) ++ [32] ++ rs_reason r).
  assert (Hb : no_lf body).
  { unfold body, http_version. repeat apply no_lf_app; try assumption;
      try apply to_dec_string_no_lf; repeat constructor; try assumption; lia. }
  replace (http_version (rs_major r) (rs_minor r) ++ [32] ++ to_dec_string (rs_status r) ++ [32] ++ rs_reason r ++ [13; 10])
    with (body ++ [13; 10]) by (unfold body; rewrite <- !app_assoc; reflexivity).
  rewrite count_app, final_app. destruct (no_lf_L0 body Hb) as [-> ->]. split; reflexivity.
Qed.

Lemma content_length_line_state n s :
  count_empty s (content_length_line n) = O /\ final s (content_length_line n) = L1.
Proof.
  unfold content_length_line. rewrite CRLF_is.
  set (body := hf_HEADER_CONTENT_LENGTH ++ hf_SEPARATOR ++ to_dec_string n).
  replace (hf_HEADER_CONTENT_LENGTH ++ hf_SEPARATOR ++ to_dec_string n ++ [13; 10])
    with (body ++ [13; 10]) by (unfold body; rewrite <- !app_assoc; reflexivity).
  assert (Hb : no_lf body /\ body <> [] /\ hd 0 body <> 13).
  { unfold body. split; [|split].
    - repeat apply no_lf_app; try apply to_dec_string_no_lf; vm_compute; repeat constructor; discriminate.
    - vm_compute; discriminate.
    - vm_compute; discriminate. }
  destruct Hb as (H1 & H2 & H3).
  rewrite count_app, final_app. destruct (no_lf_any body s H1 H2 H3) as [-> ->]. split; reflexivity.
Qed.

(* state after the header block decides whether CRLF closes the head *)
Lemma crlf_after s :
  count_empty s [13] = O /\
  count_empty s [13; 10] = (match s with L1 => 1 | _ => 0 end)%nat.
Proof. destruct s; split; reflexivity. Qed.

Lemma final_L1_iff hs s : final s hs = L1 <-> ((hs = [] /\ s = L1) \/ (hs <> [] /\ last hs 0 = 10)).
Proof.
  revert s; induction hs as [|c t IH]; intros s; cbn [final].
  - split; [intros ->; left; split; reflexivity|intros [[_ ->]|[H _]]; [reflexivity|congruence]].
  - rewrite IH. destruct t as [|d t'].
    + cbn [last]. unfold lstep. split.
      * intros [[_ H]|[H _]]; [|congruence]. right. split; [discriminate|].
        destruct (c =? 10) eqn:E; [apply N.eqb_eq in E; exact E|].
        destruct (c =? 13); cbn [fst] in H; [destruct s; discriminate|discriminate].
      * intros [[H _]|[_ H]]; [discriminate|]. left. split; [reflexivity|]. subst c. reflexivity.
    + split.
      * intros [[H _]|[_ H]]; [discriminate|]. right. split; [discriminate|exact H].
      * intros [[H _]|[_ H]]; [discriminate|]. right. split; [discriminate|exact H].
Qed.

Lemma removelast_crlf (x : str) : removelast (x ++ [13; 10]) = x ++ [13].
Proof. replace (x ++ [13; 10]) with ((x ++ [13]) ++ [10]) by (rewrite <- app_assoc; reflexivity). apply removelast_last. Qed.

(* The window the code starts with must stand for "just after the status line's LF". *)
Definition window_primed : Prop := wst (fst split_window_init) (snd split_window_init) = L1.

Section Head.
  Variable r : tx_response.
  Variable n : N.
  Hypothesis Hreason : no_lf (rs_reason r).
  Hypothesis Hma : rs_major r <> 10.
  Hypothesis Hmi : rs_minor r <> 10.
  Hypothesis Hprimed : window_primed.
  Hypothesis Hvalid : tx_response_is_valid r = true.

  Lemma headers_clean : count_empty L1 (rs_headers r) = O.
  Proof.
    unfold tx_response_is_valid, are_headers_split in Hvalid.
    apply Bool.negb_true_iff in Hvalid. apply scan_count in Hvalid.
    rewrite Hprimed in Hvalid. exact Hvalid.
  Qed.

  (* no empty line before the very last byte *)
  Lemma no_early_empty_line :
    has_empty (removelast (response_message r n)) = false.
  Proof.
    apply has_empty_count. unfold response_message. rewrite CRLF_is.
    destruct (status_line_state r Hreason Hma Hmi) as [Hc Hf].
    rewrite !app_assoc, removelast_crlf, <- !app_assoc.
    rewrite count_app, Hc, Hf, count_app, headers_clean. cbn [plus].
    rewrite count_app. destruct (response_adds_content_length r).
    - destruct (content_length_line_state n (final L1 (rs_headers r))) as [-> ->]. reflexivity.
    - cbn [count_empty final plus]. destruct (final L1 (rs_headers r)); reflexivity.
  Qed.

  (* and the head does end with exactly one, when the header block is made of whole lines *)
  Lemma terminal_empty_line :
    (rs_headers r = [] \/ last (rs_headers r) 0 = 10 \/ response_adds_content_length r = true) ->
    count_empty L0 (response_message r n) = 1%nat.
  Proof.
    intros Hw. unfold response_message. rewrite CRLF_is.
    destruct (status_line_state r Hreason Hma Hmi) as [Hc Hf].
    rewrite count_app, Hc, Hf, count_app, headers_clean. cbn [plus].
    destruct (response_adds_content_length r) eqn:Ecl.
    - rewrite count_app. destruct (content_length_line_state n (final L1 (rs_headers r))) as [-> ->]. reflexivity.
    - cbn [app]. assert (Hs : final L1 (rs_headers r) = L1).
      { apply final_L1_iff. destruct Hw as [H|[H|H]]; [left; split; [exact H|reflexivity]| |discriminate].
        destruct (rs_headers r) as [|c t] eqn:E; [left; split; reflexivity|right; split; [discriminate|exact H]]. }
      rewrite Hs. reflexivity.
  Qed.
End Head.

(* refusal: a split header block makes the response invalid, for every path that builds it *)
Lemma split_refused r : are_headers_split (rs_headers r) = true -> tx_response_is_valid r = false.
Proof. unfold tx_response_is_valid. intros ->. reflexivity. Qed.

(* completeness of the detector: an empty line inside or at the start of the block is caught *)
Lemma detector_complete hs :
  window_primed -> (starts_empty hs = true \/ has_empty hs = true) -> are_headers_split hs = true.
Proof.
  intros Hp H. unfold are_headers_split.
  destruct (split_scan (fst split_window_init) (snd split_window_init) hs) eqn:E; [reflexivity|exfalso].
  apply scan_count in E. rewrite Hp in E. apply count_zero_iff in E. cbn [pending] in E.
  destruct E as [E1 E2]. destruct H as [H|H]; congruence.
Qed.

(* ---- closed statements (these fail to check when the source's initial window regresses) *)
Lemma window_primed_holds : window_primed.
Proof. reflexivity. Qed.

Lemma C13_no_early_empty_line_lemma r n :
  no_lf (rs_reason r) -> rs_major r <> 10 -> rs_minor r <> 10 ->
  tx_response_is_valid r = true ->
  has_empty (removelast (response_message r n)) = false.
Proof. intros; apply no_early_empty_line; auto using window_primed_holds. Qed.

Lemma C13_terminal_empty_line_lemma r n :
  no_lf (rs_reason r) -> rs_major r <> 10 -> rs_minor r <> 10 ->
  tx_response_is_valid r = true ->
  (rs_headers r = [] \/ last (rs_headers r) 0 = 10 \/ response_adds_content_length r = true) ->
  count_empty L0 (response_message r n) = 1%nat.
Proof. intros; apply terminal_empty_line; auto using window_primed_holds. Qed.

Lemma C13_detector_complete_lemma hs :
  (starts_empty hs = true \/ has_empty hs = true) -> are_headers_split hs = true.
Proof. apply detector_complete, window_primed_holds. Qed.
