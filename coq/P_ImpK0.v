(* P_ImpK0.v — chunk_header: the store, the limits and the length check in front of the switch (shared by P_ImpKs.v, P_ImpKl.v, compiled in parallel): the hand-written model computes, for every state, every character and every limit
   configuration, exactly what the body of the C++ function computes - the body as translated from clang's AST on this
   run (Gen_Parse.v), under the meaning of statements defined in M_Imp.v. *)
From Via Require Import M_Char M_Parse M_Imp Gen_Parse.
From Coq Require Import List NArith Bool Lia.
Import ListNotations.
Local Open Scope N_scope.
Arguments nlen : simpl never.
Arguments snoc : simpl never.
From Via Require Import P_Imp0.

Definition ck_store (k : chunk_hdr) : store :=
  mk_store (ck_st_index (ck_state k)) [ck_hex k; ck_ext k] [ck_length k; ck_ws k; ck_size k; b2n (ck_size_read k); ck_max k; b2n (ck_valid k); b2n (ck_fail k)].
Definition ck_lim (L : limits) (k : nat) : N := nth k [max_line L; max_ws L] 0.
Definition ck_src (L : limits) : stmt := if strict_crlf L then ck_src_strict else ck_src_lax.

(* the length check in front of the switch, for any rest of the body *)
Lemma run_body_length_check lim c e rest st strs n nums :
  run_body lim c (SSeq (SIf (BCmp CGt (NPreInc 0%nat) (NLim 0%nat)) (SState e) SSkip) rest) (mk_store st strs (n :: nums)) =
  if lim 0%nat <? n + 1 then run_body lim c rest (mk_store e strs (n + 1 :: nums))
  else run_body lim c rest (mk_store st strs (n + 1 :: nums)).
Proof.
  unfold run_body. cbn [exec beval neval cmp_eval get_num set_num s_nums s_strs s_state nth set_nth set_state].
  destruct (lim 0%nat <? n + 1); reflexivity.
Qed.

