(* P_Imp0.v — what the source-tie proofs share: the tactics that evaluate the interpreter of M_Imp.v on a symbolic store.
   (P_Imp.v gathers the per-class files, which are compiled in parallel.) *)
From Via Require Import M_Char M_Parse M_Imp Gen_Parse.
From Coq Require Import List NArith Bool Lia.
Import ListNotations.
Local Open Scope N_scope.
Arguments nlen : simpl never.
Arguments snoc : simpl never.

Ltac flags := repeat match goal with
  | H : context [1 =? 0] |- _ => change (1 =? 0) with false in H
  | H : context [0 =? 0] |- _ => change (0 =? 0) with true in H
  end; cbn [negb andb orb] in *; congruence.

Ltac norm := cbn -[N.ltb N.eqb N.leb N.add N.mul N.sub nlen snoc isupper isblank isdigit isxdigit is_end_of_line is_token tolower size_of_hex digit_val].
Ltac norm_all := cbn -[N.ltb N.eqb N.leb N.add N.mul N.sub nlen snoc isupper isblank isdigit isxdigit is_end_of_line is_token tolower size_of_hex digit_val] in *.

Ltac split_one := match goal with |- context [if ?b then _ else _] => destruct b eqn:? end.

Ltac split_ifs := repeat match goal with |- context [if ?b then _ else _] => destruct b eqn:? end.

