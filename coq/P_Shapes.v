(* P_Shapes.v — the socket adaptors the model transcribes by hand are exactly the ones it was written
   from (fingerprints regenerated from the source on every run by translate/shapes.py). *)
From Via Require Import Gen_Shapes.
From Coq Require Import List NArith.
Import ListNotations.
Local Open Scope N_scope.

Lemma tcp_adaptor_is_the_transcribed_one : shape_tcp_adaptor = [55; 57; 55; 101; 53; 100; 52; 50; 50; 57; 50; 55; 102; 48; 101; 50].
Proof. reflexivity. Qed.

Lemma ssl_tcp_adaptor_is_the_transcribed_one : shape_ssl_tcp_adaptor = [102; 98; 48; 100; 53; 102; 98; 101; 53; 49; 98; 98; 101; 52; 50; 54].
Proof. reflexivity. Qed.
