(* P_C17.v — base64 round trip and the basic-authentication decision. *)
From Via Require Import M_Char M_Router M_Auth.
Require Import ZifyBool ZifyNat ZifyN.
Ltac Zify.zify_post_hook ::= Z.div_mod_to_equations.
Local Open Scope N_scope.

Definition is_byte (c : N) : Prop := c < 256.

(* ---- finite facts about the alphabet -------------------------------------------------- *)
Definition range64 : list N := map N.of_nat (seq 0 64).

Lemma in_range64 i : i < 64 -> In i range64.
Proof.
  intros H. unfold range64. apply in_map_iff. exists (N.to_nat i). split; [apply N2Nat.id|].
  apply in_seq. lia.
Qed.

Definition char_ok (i : N) : bool :=
  match b64_val (b64_char i) with Some j => j =? i | None => false end
  && negb (isspace (b64_char i)) && negb (b64_char i =? 61).

Lemma char_ok_all : forallb char_ok range64 = true.
Proof. vm_compute. reflexivity. Qed.

Lemma char_facts i : i < 64 ->
  b64_val (b64_char i) = Some i /\ isspace (b64_char i) = false /\ b64_char i <> 61.
Proof.
  intros H. pose proof (proj1 (forallb_forall _ _) char_ok_all i (in_range64 i H)) as Hc.
  unfold char_ok in Hc. apply Bool.andb_true_iff in Hc. destruct Hc as [Hc H3].
  apply Bool.andb_true_iff in Hc. destruct Hc as [H1 H2].
  destruct (b64_val (b64_char i)) as [j|]; [|discriminate]. apply N.eqb_eq in H1. subst j.
  split; [reflexivity|]. split; [apply Bool.negb_true_iff, H2|apply N.eqb_neq, Bool.negb_true_iff, H3].
Qed.

(* ---- three-at-a-time induction --------------------------------------------------------- *)
Lemma list_ind3 {A} (P : list A -> Prop) :
  P [] -> (forall a, P [a]) -> (forall a b, P [a; b]) ->
  (forall a b c t, P t -> P (a :: b :: c :: t)) -> forall l, P l.
Proof.
  intros H0 H1 H2 H3. fix IH 1. intros [|a [|b [|c t]]]; [exact H0|apply H1|apply H2|apply H3, IH].
Qed.

Fixpoint pad3 (l : str) : nat :=
  match l with
  | [] => 0 | [_] => 2 | [_; _] => 1 | _ :: _ :: _ :: t => pad3 t
  end.

Lemma num_pad3_pad3 x : num_pad3 x = pad3 x.
Proof.
  unfold num_pad3. induction x as [| | |a b c t IH] using list_ind3; try reflexivity.
  cbn [pad3 length]. rewrite <- IH.
  replace (S (S (S (length t)))) with (length t + 1 * 3)%nat by lia. rewrite Nat.mod_add by lia. reflexivity.
Qed.

Lemma sextets_lt x : Forall is_byte x -> Forall (fun s => s < 64) (enc_sextets x).
Proof.
  unfold is_byte. induction x as [| | |a b c t IH] using list_ind3; intros H; cbn [enc_sextets].
  - constructor.
  - inversion H; subst. repeat constructor; lia.
  - inversion H as [|? ? Ha H']; subst. inversion H'; subst. repeat constructor; lia.
  - inversion H as [|? ? Ha H']; subst. inversion H' as [|? ? Hb H'']; subst. inversion H'' as [|? ? Hc Ht]; subst.
    apply Forall_app. split; [repeat constructor; lia|apply IH, Ht].
Qed.

(* ---- linebreaks vanish under the whitespace filter -------------------------------------- *)
Definition nospace (l : str) : Prop := Forall (fun c => isspace c = false) l.

Lemma filter_linebreaks l : nospace l -> forall k,
  filter (fun c => negb (isspace c)) (insert_linebreaks k l) = l.
Proof.
  induction 1 as [|c t Hc _ IH]; intros k; cbn [insert_linebreaks]; [reflexivity|].
  destruct (Nat.eqb k 76); cbn [filter].
  - change (isspace 10) with true. cbn [negb]. rewrite Hc. cbn [negb]. rewrite IH. reflexivity.
  - rewrite Hc. cbn [negb]. rewrite IH. reflexivity.
Qed.

Lemma filter_nospace l : nospace l -> filter (fun c => negb (isspace c)) l = l.
Proof. induction 1 as [|c t Hc _ IH]; cbn [filter]; [reflexivity|]. rewrite Hc. cbn. rewrite IH. reflexivity. Qed.

Lemma filter_app' {A} (f : A -> bool) a b : filter f (a ++ b) = filter f a ++ filter f b.
Proof. induction a as [|x a IH]; cbn; [reflexivity|]. destruct (f x); cbn; rewrite IH; reflexivity. Qed.

(* ---- the core of the round trip ---------------------------------------------------------- *)
Lemma map_opt_app {A B} (f : A -> option B) a b ra rb :
  map_opt f a = Some ra -> map_opt f b = Some rb -> map_opt f (a ++ b) = Some (ra ++ rb).
Proof.
  revert ra; induction a as [|x a IH]; intros ra Ha Hb; cbn in *.
  - inversion Ha; subst. exact Hb.
  - destruct (f x); [|discriminate]. destruct (map_opt f a) eqn:E; [|discriminate].
    inversion Ha; subst. rewrite (IH l eq_refl Hb). reflexivity.
Qed.

Lemma map_opt_chars l : Forall (fun s => s < 64) l -> map_opt b64_val (map b64_char l) = Some l.
Proof.
  induction 1 as [|s t Hs _ IH]; cbn [map map_opt]; [reflexivity|].
  destruct (char_facts s Hs) as [-> _]. rewrite IH. reflexivity.
Qed.

Lemma map_opt_A n : map_opt b64_val (repeat 65 n) = Some (repeat 0 n).
Proof. induction n; cbn [repeat map_opt]; [reflexivity|]. rewrite IHn. reflexivity. Qed.

Lemma bytes_roundtrip x : Forall is_byte x ->
  bytes_of (enc_sextets x ++ repeat 0 (pad3 x)) = x ++ repeat 0 (pad3 x).
Proof.
  unfold is_byte. induction x as [| | |a b c t IH] using list_ind3; intros H.
  - reflexivity.
  - inversion H; subst. cbn [enc_sextets pad3 repeat app bytes_of]. repeat f_equal; lia.
  - inversion H as [|? ? Ha H']; subst. inversion H'; subst.
    cbn [enc_sextets pad3 repeat app bytes_of]. repeat f_equal; lia.
  - inversion H as [|? ? Ha H']; subst. inversion H' as [|? ? Hb H'']; subst. inversion H'' as [|? ? Hc Ht]; subst.
    cbn [enc_sextets pad3]. rewrite <- app_assoc. cbn [app bytes_of]. rewrite (IH Ht).
    repeat f_equal; lia.
Qed.

Lemma sextets_len4 x : ((length (enc_sextets x) + pad3 x) mod 4 = 0)%nat.
Proof.
  induction x as [| | |a b c t IH] using list_ind3; try reflexivity.
  cbn [enc_sextets pad3]. rewrite app_length. cbn [length].
  replace (4 + length (enc_sextets t) + pad3 t)%nat with (length (enc_sextets t) + pad3 t + 1 * 4)%nat by lia.
  rewrite Nat.mod_add by lia. exact IH.
Qed.

Lemma count_byte_app c a b : count_byte c (a ++ b) = (count_byte c a + count_byte c b)%nat.
Proof. induction a as [|x a IH]; cbn; [reflexivity|]. rewrite IH. lia. Qed.

Lemma count_byte_none c l : Forall (fun x => x <> c) l -> count_byte c l = O.
Proof. induction 1 as [|x t Hx _ IH]; cbn; [reflexivity|]. apply N.eqb_neq in Hx. rewrite Hx, IH. reflexivity. Qed.

Lemma count_byte_repeat c n : count_byte c (repeat c n) = n.
Proof. induction n; cbn; [reflexivity|]. rewrite N.eqb_refl, IHn. reflexivity. Qed.

Lemma map_id_on (f : N -> N) l : Forall (fun x => f x = x) l -> map f l = l.
Proof. induction 1 as [|x t Hx _ IH]; cbn; [reflexivity|]. rewrite Hx, IH. reflexivity. Qed.

Lemma map_repeat {A B} (f : A -> B) x n : map f (repeat x n) = repeat (f x) n.
Proof. induction n; cbn; [reflexivity|]. rewrite IHn. reflexivity. Qed.

Lemma pad_is_61 : PAD_CHARACTER = 61.
Proof. reflexivity. Qed.

Theorem decode_encode x : Forall is_byte x -> b64_decode (b64_encode x) = x.
Proof.
  intros Hx. unfold b64_encode, b64_decode. rewrite num_pad3_pad3, pad_is_61.
  pose proof (sextets_lt x Hx) as Hs.
  set (chars := map b64_char (enc_sextets x)).
  assert (Hchars : Forall (fun c => isspace c = false /\ c <> 61) chars).
  { unfold chars. apply Forall_map. eapply Forall_impl; [|exact Hs]. intros s Hlt.
    destruct (char_facts s Hlt) as [_ [H1 H2]]. split; assumption. }
  assert (Hns : nospace chars) by (eapply Forall_impl; [|exact Hchars]; intros ? [? _]; assumption).
  assert (Hne : Forall (fun c => c <> 61) chars) by (eapply Forall_impl; [|exact Hchars]; intros ? [_ ?]; assumption).
  rewrite filter_app', filter_linebreaks by exact Hns.
  rewrite filter_nospace by (apply Forall_forall; intros c Hc; apply repeat_spec in Hc; subst; reflexivity).
  assert (Hlen : length (chars ++ repeat 61 (pad3 x)) = (length (enc_sextets x) + pad3 x)%nat)
    by (unfold chars; rewrite app_length, map_length, repeat_length; reflexivity).
  rewrite Hlen, sextets_len4. cbn [Nat.sub Nat.modulo repeat]. change ((4 - 0) mod 4)%nat with 0%nat. cbn [repeat].
  rewrite app_nil_r, count_byte_app, count_byte_none, count_byte_repeat by exact Hne. cbn [plus].
  rewrite map_app, map_repeat, N.eqb_refl.
  rewrite map_id_on by (eapply Forall_impl; [|exact Hne]; intros c Hc; apply N.eqb_neq in Hc; rewrite Hc; reflexivity).
  rewrite (map_opt_app _ _ _ (enc_sextets x) (repeat 0 (pad3 x))); [|apply map_opt_chars, Hs|apply map_opt_A].
  rewrite bytes_roundtrip by exact Hx.
  rewrite app_length, repeat_length.
  replace (length x + pad3 x - Nat.min (pad3 x) (length x + pad3 x))%nat with (length x) by lia.
  rewrite firstn_app, Nat.sub_diag, firstn_all. cbn [firstn]. apply app_nil_r.
Qed.

(* ---- basic authentication ---------------------------------------------------------------- *)
Lemma find_char_lt c s i : find_char c s = Some i -> (i < length s)%nat.
Proof.
  revert i; induction s as [|x s IH]; cbn; intros i H; [discriminate|].
  destruct (x =? c); [inversion H; lia|]. destruct (find_char c s) as [j|]; [|discriminate].
  cbn in H. inversion H. specialize (IH j eq_refl). lia.
Qed.

Lemma basic_never_throws users headers : basic_is_valid users headers <> AuthThrow.
Proof.
  unfold basic_is_valid. destruct (assoc hf_LC_AUTHORIZATION headers) as [a|]; [|discriminate].
  destruct (find_sub tok_BASIC a) as [pos|]; [|discriminate].
  destruct (Nat.ltb (length a) (pos + 6)) eqn:E; [discriminate|].
  unfold substr_from at 1. rewrite E.
  destruct (find_char 58 (b64_decode (skipn (pos + 6) a))) as [ue|] eqn:Ef; [|discriminate].
  destruct (assoc _ users); [|discriminate].
  unfold substr_from. apply find_char_lt in Ef.
  destruct (Nat.ltb (length (b64_decode (skipn (pos + 6) a))) (S ue)) eqn:E2; [apply Nat.ltb_lt in E2; lia|discriminate].
Qed.

Lemma find_char_app_first c u p : ~ In c u -> find_char c (u ++ c :: p) = Some (length u).
Proof.
  induction u as [|x u IH]; intros H; cbn.
  - rewrite N.eqb_refl. reflexivity.
  - destruct (x =? c) eqn:E; [apply N.eqb_eq in E; exfalso; apply H; left; exact E|].
    rewrite IH; [reflexivity|]. intros Hu; apply H; right; exact Hu.
Qed.

Lemma str_eqb_refl' a : str_eqb a a = true.
Proof. induction a; cbn; [reflexivity|]. rewrite N.eqb_refl, IHa. reflexivity. Qed.

Lemma str_eqb_true a b : str_eqb a b = true -> a = b.
Proof.
  revert b; induction a as [|x a IH]; intros [|y b]; cbn; try discriminate; [reflexivity|].
  intros H. apply Bool.andb_true_iff in H. destruct H as [H1 H2]. apply N.eqb_eq in H1. subst. f_equal. apply IH, H2.
Qed.

Definition basic_header (u p : str) : str := tok_BASIC ++ [32] ++ b64_encode (u ++ 58 :: p).

Lemma skipn_app_exact' {A} (a b : list A) : skipn (length a) (a ++ b) = b.
Proof. induction a; cbn; auto. Qed.
Lemma firstn_app_exact' {A} (a b : list A) : firstn (length a) (a ++ b) = a.
Proof. induction a; cbn; [reflexivity|f_equal; assumption]. Qed.

(* completeness: the base64 of a registered user:password is accepted *)
Lemma basic_accepts_registered users u p :
  assoc u users = Some p -> ~ In 58 u -> Forall is_byte (u ++ 58 :: p) ->
  basic_is_valid users [(hf_LC_AUTHORIZATION, basic_header u p)] = AuthOk true.
Proof.
  intros Hreg Hcolon Hbytes. unfold basic_is_valid. cbn [assoc]. rewrite str_eqb_refl'.
  unfold basic_header.
  change (find_sub tok_BASIC (tok_BASIC ++ [32] ++ b64_encode (u ++ 58 :: p))) with (Some O). cbv iota beta.
  assert (Hl : Nat.ltb (length (tok_BASIC ++ [32] ++ b64_encode (u ++ 58 :: p))) (0 + 6) = false).
  { apply Nat.ltb_ge. rewrite app_length. cbn. lia. }
  rewrite Hl. unfold substr_from at 1. rewrite Hl.
  change (skipn (0 + 6) (tok_BASIC ++ [32] ++ b64_encode (u ++ 58 :: p))) with (b64_encode (u ++ 58 :: p)).
  rewrite decode_encode by exact Hbytes.
  rewrite find_char_app_first by exact Hcolon. rewrite firstn_app_exact', Hreg.
  unfold substr_from.
  assert (Hl2 : Nat.ltb (length (u ++ 58 :: p)) (S (length u)) = false) by (apply Nat.ltb_ge; rewrite app_length; cbn; lia).
  rewrite Hl2. replace (S (length u)) with (length (u ++ [58])) by (rewrite app_length; cbn; lia).
  replace (u ++ 58 :: p) with ((u ++ [58]) ++ p) by (rewrite <- app_assoc; reflexivity).
  rewrite skipn_app_exact', str_eqb_refl'. reflexivity.
Qed.

Lemma find_char_split c s i : find_char c s = Some i ->
  s = firstn i s ++ c :: skipn (S i) s /\ ~ In c (firstn i s).
Proof.
  revert i; induction s as [|x s IH]; cbn [find_char]; intros i H; [discriminate|].
  destruct (x =? c) eqn:E.
  - inversion H; subst. apply N.eqb_eq in E; subst. cbn. split; [reflexivity|intros []].
  - destruct (find_char c s) as [j|]; [|discriminate]. cbn in H. inversion H; subst.
    destruct (IH j eq_refl) as [H1 H2]. cbn [firstn skipn app]. split; [f_equal; exact H1|].
    intros [Hx|Hx]; [apply N.eqb_neq in E; congruence|exact (H2 Hx)].
Qed.

(* soundness: the handler runs only when the decoded credentials are a registered pair *)
Lemma basic_accepts_only_registered users headers :
  basic_is_valid users headers = AuthOk true ->
  exists a pos u p,
    assoc hf_LC_AUTHORIZATION headers = Some a /\ find_sub tok_BASIC a = Some pos /\
    b64_decode (skipn (pos + 6) a) = u ++ 58 :: p /\ ~ In 58 u /\ assoc u users = Some p.
Proof.
  unfold basic_is_valid. destruct (assoc hf_LC_AUTHORIZATION headers) as [a|] eqn:Eh; [|discriminate].
  destruct (find_sub tok_BASIC a) as [pos|] eqn:Eb; [|discriminate].
  destruct (Nat.ltb (length a) (pos + 6)) eqn:E; [discriminate|].
  unfold substr_from at 1. rewrite E.
  destruct (find_char 58 (b64_decode (skipn (pos + 6) a))) as [ue|] eqn:Ef; [|discriminate].
  destruct (assoc (firstn ue _) users) as [pw|] eqn:Ea; [|discriminate].
  unfold substr_from. destruct (Nat.ltb _ (S ue)); [discriminate|].
  intros H. assert (H1 : str_eqb (skipn (S ue) (b64_decode (skipn (pos + 6) a))) pw = true) by congruence.
  apply str_eqb_true in H1.
  destruct (find_char_split _ _ _ Ef) as [Hs Hn].
  exists a, pos, (firstn ue (b64_decode (skipn (pos + 6) a))), pw.
  split; [reflexivity|]. split; [exact Eb|]. split; [|split; assumption]. rewrite <- H1. exact Hs.
Qed.

Lemma route_decision realm users headers :
  (authenticate_route realm users headers = PRun <-> basic_is_valid users headers = AuthOk true) /\
  (basic_is_valid users headers = AuthOk false ->
     authenticate_route realm users headers = PUnauthorised (basic_challenge realm)) /\
  authenticate_route realm users headers <> PThrow.
Proof.
  unfold authenticate_route. pose proof (basic_never_throws users headers) as Hn.
  destruct (basic_is_valid users headers) as [[|]|]; [| |congruence];
    (split; [split; congruence|split; [congruence|discriminate]]).
Qed.

Lemma challenge_names_realm realm : realm <> [] ->
  basic_challenge realm = tok_BASIC ++ tok_REALM ++ tok_QUOTE ++ realm ++ tok_QUOTE.
Proof. destruct realm; [congruence|reflexivity]. Qed.
