(* M_Parse.v — the receiving side, transcribed from request.hpp, response.hpp, headers.hpp,
   chunk.hpp: request_line, response_line, field_line, message_headers, chunk_header, rx_chunk.
   Every C++ object is an immutable record; parse(iter&, end) is a function
   state -> buffer -> state * rest-of-buffer * result.  Definitions only. *)
From Via Require Export M_Char.
Local Open Scope N_scope.

(* the template parameters *)
Record limits := mk_limits
  { max_uri : N; max_method : N; max_hdr_num : N; max_hdr_len : N; max_line : N; max_ws : N;
    max_status : N; max_reason : N; strict_crlf : bool }.

(* result of one parse() call: the C++ returns `true` for Done and `false` otherwise; callers tell
   More from Fail by `iter != end || fail()` *)
Inductive pres := Done | More | Fail.

Definition snoc (s : str) (c : byte) : str := s ++ [c].
Definition nlen (s : str) : N := N.of_nat (length s).

(* ====================================================================================== *)
(* request_line *)
Inductive rl_st :=
  | R_METHOD | R_URI | R_HTTP_H | R_HTTP_T1 | R_HTTP_T2 | R_HTTP_P | R_HTTP_SLASH | R_HTTP_MAJOR
  | R_HTTP_DOT | R_HTTP_MINOR | R_CR | R_LF | R_VALID | R_ERROR_CRLF | R_ERROR_WS
  | R_ERROR_METHOD_LENGTH | R_ERROR_URI_LENGTH.

Definition rl_st_index (s : rl_st) : nat :=
  match s with
  | R_METHOD => 0 | R_URI => 1 | R_HTTP_H => 2 | R_HTTP_T1 => 3 | R_HTTP_T2 => 4 | R_HTTP_P => 5
  | R_HTTP_SLASH => 6 | R_HTTP_MAJOR => 7 | R_HTTP_DOT => 8 | R_HTTP_MINOR => 9 | R_CR => 10 | R_LF => 11
  | R_VALID => 12 | R_ERROR_CRLF => 13 | R_ERROR_WS => 14 | R_ERROR_METHOD_LENGTH => 15 | R_ERROR_URI_LENGTH => 16
  end%nat.

Record req_line := mk_rl
  { rl_method : str; rl_uri : str; rl_major : byte; rl_minor : byte;
    rl_state : rl_st; rl_ws : N; rl_valid : bool; rl_fail : bool }.

Definition rl_init : req_line := mk_rl [] [] 0 0 R_METHOD 0 false false.

Definition rl_set_state (r : req_line) (s : rl_st) : req_line :=
  mk_rl (rl_method r) (rl_uri r) (rl_major r) (rl_minor r) s (rl_ws r) (rl_valid r) (rl_fail r).
Definition rl_set_ws (r : req_line) (w : N) : req_line :=
  mk_rl (rl_method r) (rl_uri r) (rl_major r) (rl_minor r) (rl_state r) w (rl_valid r) (rl_fail r).
Definition rl_set_fail (r : req_line) (b : bool) : req_line :=
  mk_rl (rl_method r) (rl_uri r) (rl_major r) (rl_minor r) (rl_state r) (rl_ws r) (rl_valid r) b.
Definition rl_set_valid (r : req_line) (b : bool) : req_line :=
  mk_rl (rl_method r) (rl_uri r) (rl_major r) (rl_minor r) (rl_state r) (rl_ws r) b (rl_fail r).
Definition rl_set_method (r : req_line) (m : str) : req_line :=
  mk_rl m (rl_uri r) (rl_major r) (rl_minor r) (rl_state r) (rl_ws r) (rl_valid r) (rl_fail r).

Definition expect_char (r : req_line) (c want : byte) (next : rl_st) : req_line * bool :=
  if c =? want then (rl_set_state r next, true) else (r, false).

(* request_line::parse_char *)
Definition rl_parse_char (L : limits) (r : req_line) (c : byte) : req_line * bool :=
  match rl_state r with
  | R_METHOD =>
      if isupper c then
        let r1 := rl_set_method r (snoc (rl_method r) c) in
        if max_method L <? nlen (rl_method r1) then (rl_set_state r1 R_ERROR_METHOD_LENGTH, false)
        else (r1, true)
      else if isblank c && negb (match rl_method r with [] => true | _ => false end)
      then (rl_set_state (rl_set_ws r 1) R_URI, true)
      else (r, false)
  | R_URI =>
      if is_end_of_line c then (r, false)
      else if isblank c then
        match rl_uri r with
        | _ :: _ => (rl_set_state (rl_set_ws r 1) R_HTTP_H, true)
        | [] =>
            let r1 := rl_set_ws r (rl_ws r + 1) in
            if max_ws L <? rl_ws r1 then (rl_set_state r1 R_ERROR_WS, false) else (r1, true)
        end
      else
        let r1 := mk_rl (rl_method r) (snoc (rl_uri r) c) (rl_major r) (rl_minor r) (rl_state r) (rl_ws r) (rl_valid r) (rl_fail r) in
        if max_uri L <? nlen (rl_uri r1) then (rl_set_state r1 R_ERROR_URI_LENGTH, false) else (r1, true)
  | R_HTTP_H =>
      if isblank c then
        let r1 := rl_set_ws r (rl_ws r + 1) in
        if max_ws L <? rl_ws r1 then (rl_set_state r1 R_ERROR_WS, false) else (r1, true)
      else expect_char r c 72 R_HTTP_T1
  | R_HTTP_T1 => expect_char r c 84 R_HTTP_T2
  | R_HTTP_T2 => expect_char r c 84 R_HTTP_P
  | R_HTTP_P => expect_char r c 80 R_HTTP_SLASH
  | R_HTTP_SLASH => expect_char r c 47 R_HTTP_MAJOR
  | R_HTTP_MAJOR =>
      if isdigit c
      then (mk_rl (rl_method r) (rl_uri r) c (rl_minor r) R_HTTP_DOT (rl_ws r) (rl_valid r) (rl_fail r), true)
      else (r, false)
  | R_HTTP_DOT => expect_char r c 46 R_HTTP_MINOR
  | R_HTTP_MINOR =>
      if isdigit c
      then (mk_rl (rl_method r) (rl_uri r) (rl_major r) c R_CR (rl_ws r) (rl_valid r) (rl_fail r), true)
      else (r, false)
  | R_CR =>
      if c =? 13 then (rl_set_state r R_LF, true)
      else if strict_crlf L then (rl_set_state r R_ERROR_CRLF, false)
      else if c =? 10 then (rl_set_state r R_VALID, true)
      else (rl_set_state r R_ERROR_CRLF, false)
  | R_LF => if c =? 10 then (rl_set_state r R_VALID, true) else (r, false)
  | _ => (r, false)
  end.

Definition rl_done (r : req_line) : bool := match rl_state r with R_VALID => true | _ => false end.

(* request_line::parse: while (iter != end && VALID != state_) { if ((fail_ = !parse_char(c))) return false; }
   valid_ = (VALID == state_); return valid_; *)
Fixpoint rl_parse (L : limits) (r : req_line) (buf : str) : req_line * str * pres :=
  match buf with
  | [] => (rl_set_valid r (rl_done r), [], if rl_done r then Done else More)
  | c :: t =>
      if rl_done r then (rl_set_valid r true, buf, Done)
      else
        let (r1, ok) := rl_parse_char L r c in
        if ok then rl_parse L (rl_set_fail r1 false) t
        else (rl_set_fail r1 true, t, Fail)
  end.

Definition is_http_1_0_or_earlier (ma mi : byte) : bool :=
  (ma =? 48) || ((ma =? 49) && (mi =? 48)).

(* ====================================================================================== *)
(* response_line *)
Inductive sl_st :=
  | S_HTTP_H | S_HTTP_T1 | S_HTTP_T2 | S_HTTP_P | S_HTTP_SLASH | S_HTTP_MAJOR | S_HTTP_DOT | S_HTTP_MINOR
  | S_HTTP_WS | S_STATUS | S_REASON | S_CR | S_LF | S_VALID | S_ERROR_CRLF | S_ERROR_WS
  | S_ERROR_STATUS_VALUE | S_ERROR_REASON_LENGTH.

Definition sl_st_index (s : sl_st) : nat :=
  match s with
  | S_HTTP_H => 0 | S_HTTP_T1 => 1 | S_HTTP_T2 => 2 | S_HTTP_P => 3 | S_HTTP_SLASH => 4 | S_HTTP_MAJOR => 5
  | S_HTTP_DOT => 6 | S_HTTP_MINOR => 7 | S_HTTP_WS => 8 | S_STATUS => 9 | S_REASON => 10 | S_CR => 11
  | S_LF => 12 | S_VALID => 13 | S_ERROR_CRLF => 14 | S_ERROR_WS => 15 | S_ERROR_STATUS_VALUE => 16
  | S_ERROR_REASON_LENGTH => 17
  end%nat.

Record rsp_line := mk_sl
  { sl_status : N; sl_reason : str; sl_major : byte; sl_minor : byte;
    sl_state : sl_st; sl_ws : N; sl_status_read : bool; sl_valid : bool; sl_fail : bool }.

Definition sl_init : rsp_line := mk_sl 0 [] 0 0 S_HTTP_H 0 false false false.

Definition sl_set_state (r : rsp_line) (s : sl_st) : rsp_line :=
  mk_sl (sl_status r) (sl_reason r) (sl_major r) (sl_minor r) s (sl_ws r) (sl_status_read r) (sl_valid r) (sl_fail r).
Definition sl_set_ws (r : rsp_line) (w : N) : rsp_line :=
  mk_sl (sl_status r) (sl_reason r) (sl_major r) (sl_minor r) (sl_state r) w (sl_status_read r) (sl_valid r) (sl_fail r).
Definition sl_set_fail (r : rsp_line) (b : bool) : rsp_line :=
  mk_sl (sl_status r) (sl_reason r) (sl_major r) (sl_minor r) (sl_state r) (sl_ws r) (sl_status_read r) (sl_valid r) b.
Definition sl_set_valid (r : rsp_line) (b : bool) : rsp_line :=
  mk_sl (sl_status r) (sl_reason r) (sl_major r) (sl_minor r) (sl_state r) (sl_ws r) (sl_status_read r) b (sl_fail r).

Definition sl_expect (r : rsp_line) (c want : byte) (next : sl_st) : rsp_line * bool :=
  if c =? want then (sl_set_state r next, true) else (r, false).

(* the CR case, shared by REASON (fall through) and CR *)
Definition sl_cr_case (L : limits) (r : rsp_line) (c : byte) : rsp_line * bool :=
  if c =? 13 then (sl_set_state r S_LF, true)
  else if strict_crlf L then (sl_set_state r S_ERROR_CRLF, false)
  else if c =? 10 then (sl_set_state r S_VALID, true)
  else (sl_set_state r S_ERROR_CRLF, false).

Definition sl_parse_char (L : limits) (r : rsp_line) (c : byte) : rsp_line * bool :=
  match sl_state r with
  | S_HTTP_H =>
      if isblank c then
        let r1 := sl_set_ws r (sl_ws r + 1) in
        if max_ws L <? sl_ws r1 then (sl_set_state r1 S_ERROR_WS, false) else (r1, true)
      else sl_expect r c 72 S_HTTP_T1
  | S_HTTP_T1 => sl_expect r c 84 S_HTTP_T2
  | S_HTTP_T2 => sl_expect r c 84 S_HTTP_P
  | S_HTTP_P => sl_expect r c 80 S_HTTP_SLASH
  | S_HTTP_SLASH => sl_expect r c 47 S_HTTP_MAJOR
  | S_HTTP_MAJOR =>
      if isdigit c
      then (mk_sl (sl_status r) (sl_reason r) c (sl_minor r) S_HTTP_DOT (sl_ws r) (sl_status_read r) (sl_valid r) (sl_fail r), true)
      else (r, false)
  | S_HTTP_DOT => sl_expect r c 46 S_HTTP_MINOR
  | S_HTTP_MINOR =>
      if isdigit c
      then (mk_sl (sl_status r) (sl_reason r) (sl_major r) c S_HTTP_WS (sl_ws r) (sl_status_read r) (sl_valid r) (sl_fail r), true)
      else (r, false)
  | S_HTTP_WS =>
      if isblank c then (sl_set_state (sl_set_ws r 1) S_STATUS, true) else (r, false)
  | S_STATUS =>
      if isdigit c then
        let st := sl_status r * 10 + digit_val c in
        let r1 := mk_sl st (sl_reason r) (sl_major r) (sl_minor r) (sl_state r) (sl_ws r) true (sl_valid r) (sl_fail r) in
        if max_status L <? st then (sl_set_state r1 S_ERROR_STATUS_VALUE, false) else (r1, true)
      else if isblank c then
        if sl_status_read r then (sl_set_state (sl_set_ws r 1) S_REASON, true)
        else
          let r1 := sl_set_ws r (sl_ws r + 1) in
          if max_ws L <? sl_ws r1 then (sl_set_state r1 S_ERROR_WS, false) else (r1, true)
      else (r, false)
  | S_REASON =>
      if negb (is_end_of_line c) then
        if (match sl_reason r with [] => true | _ => false end) && isblank c then
          let r1 := sl_set_ws r (sl_ws r + 1) in
          if max_ws L <? sl_ws r1 then (sl_set_state r1 S_ERROR_WS, false) else (r1, true)
        else
          let r1 := mk_sl (sl_status r) (snoc (sl_reason r) c) (sl_major r) (sl_minor r) (sl_state r) (sl_ws r) (sl_status_read r) (sl_valid r) (sl_fail r) in
          if max_reason L <? nlen (sl_reason r1) then (sl_set_state r1 S_ERROR_REASON_LENGTH, false) else (r1, true)
      else sl_cr_case L r c
  | S_CR => sl_cr_case L r c
  | S_LF => if c =? 10 then (sl_set_state r S_VALID, true) else (r, false)
  | _ => (r, false)
  end.

Definition sl_done (r : rsp_line) : bool := match sl_state r with S_VALID => true | _ => false end.

Fixpoint sl_parse (L : limits) (r : rsp_line) (buf : str) : rsp_line * str * pres :=
  match buf with
  | [] => (sl_set_valid r (sl_done r), [], if sl_done r then Done else More)
  | c :: t =>
      if sl_done r then (sl_set_valid r true, buf, Done)
      else
        let (r1, ok) := sl_parse_char L r c in
        if ok then sl_parse L (sl_set_fail r1 false) t
        else (sl_set_fail r1 true, t, Fail)
  end.

(* ====================================================================================== *)
(* field_line *)
Inductive fl_st := H_NAME | H_VALUE_LS | H_VALUE | H_LF | H_VALID | H_ERROR_LENGTH | H_ERROR_CRLF | H_ERROR_WS.

Definition fl_st_index (s : fl_st) : nat :=
  match s with
  | H_NAME => 0 | H_VALUE_LS => 1 | H_VALUE => 2 | H_LF => 3 | H_VALID => 4 | H_ERROR_LENGTH => 5
  | H_ERROR_CRLF => 6 | H_ERROR_WS => 7
  end%nat.

Record field := mk_fl
  { fl_name : str; fl_value : str; fl_length : N; fl_ws : N; fl_state : fl_st; fl_fail : bool }.

Definition fl_init : field := mk_fl [] [] 0 0 H_NAME false.

Definition fl_set_state (f : field) (s : fl_st) : field :=
  mk_fl (fl_name f) (fl_value f) (fl_length f) (fl_ws f) s (fl_fail f).
Definition fl_set_fail (f : field) (b : bool) : field :=
  mk_fl (fl_name f) (fl_value f) (fl_length f) (fl_ws f) (fl_state f) b.
Definition fl_push_value (f : field) (c : byte) : field :=
  mk_fl (fl_name f) (snoc (fl_value f) c) (fl_length f) (fl_ws f) (fl_state f) (fl_fail f).

(* the VALUE case (also reached by fall through from VALUE_LS) *)
Definition fl_value_case (L : limits) (f : field) (c : byte) : field * bool :=
  if negb (is_end_of_line c) then (fl_push_value f c, true)
  else if c =? 13 then (fl_set_state f H_LF, true)
  else if strict_crlf L then (fl_set_state f H_ERROR_CRLF, false)
  else (fl_set_state f H_VALID, true).

(* field_line::parse_char *)
Definition fl_parse_char (L : limits) (f0 : field) (c : byte) : field * bool :=
  let f1 := mk_fl (fl_name f0) (fl_value f0) (fl_length f0 + 1) (fl_ws f0) (fl_state f0) (fl_fail f0) in
  let f := if max_line L <? fl_length f1 then fl_set_state f1 H_ERROR_LENGTH else f1 in
  match fl_state f with
  | H_NAME =>
      if is_token c && (c <? 128)
      then (mk_fl (snoc (fl_name f) (tolower c)) (fl_value f) (fl_length f) (fl_ws f) (fl_state f) (fl_fail f), true)
      else if (c =? 58) && negb (match fl_name f with [] => true | _ => false end)
      then (fl_set_state f H_VALUE_LS, true)
      else (f, false)
  | H_VALUE_LS =>
      if isblank c then
        let f2 := mk_fl (fl_name f) (fl_value f) (fl_length f) (fl_ws f + 1) (fl_state f) (fl_fail f) in
        if max_ws L <? fl_ws f2 then (fl_set_state f2 H_ERROR_WS, false) else (f2, true)
      else fl_value_case L (fl_set_state f H_VALUE) c
  | H_VALUE => fl_value_case L f c
  | H_LF => if c =? 10 then (fl_set_state f H_VALID, true) else (f, false)
  | _ => (f, false)
  end.

Definition fl_done (f : field) : bool := match fl_state f with H_VALID => true | _ => false end.

(* the look-ahead: a completed line is continued when the next character is a blank *)
Definition fl_continue (f : field) : field :=
  fl_set_state (fl_push_value f 32) H_VALUE_LS.

Definition next_is_blank (buf : str) : bool :=
  match buf with c :: _ => isblank c | [] => false end.

(* the while loop of field_line::parse *)
Fixpoint fl_loop (L : limits) (f : field) (buf : str) : field * str * pres :=
  match buf with
  | [] => (f, [], if fl_done f then Done else More)
  | c :: t =>
      if fl_done f then (f, buf, Done)
      else
        let (f1, ok) := fl_parse_char L f c in
        if ok then
          let f2 := fl_set_fail f1 false in
          if fl_done f2 && next_is_blank t then fl_loop L (fl_continue f2) t
          else fl_loop L f2 t
        else (fl_set_fail f1 true, t, Fail)
  end.

(* field_line::parse *)
Definition fl_parse (L : limits) (f : field) (buf : str) : field * str * pres :=
  if fl_fail f then (f, buf, Fail)
  else if fl_done f && next_is_blank buf then fl_loop L (fl_continue f) buf
  else fl_loop L f buf.

Definition fl_started (f : field) : bool := 0 <? fl_length f.
Definition fl_len (f : field) : N := nlen (fl_name f) + nlen (fl_value f).

(* ====================================================================================== *)
(* message_headers *)
Definition fields := list (str * str).      (* the unordered_map, in insertion order *)

Fixpoint fields_find (name : str) (m : fields) : option str :=
  match m with
  | [] => None
  | (k, v) :: t => if str_eqb k name then Some v else fields_find name t
  end.

(* message_headers::add *)
Fixpoint fields_add (m : fields) (name value : str) : fields :=
  match m with
  | [] => [(name, value)]
  | (k, v) :: t =>
      if str_eqb k name
      then (k, v ++ [if contains tok_COOKIE name then 59 else 44] ++ value) :: t
      else (k, v) :: fields_add t name value
  end.

Record headers := mk_hd
  { hd_fields : fields; hd_field : field; hd_valid : bool; hd_fail : bool; hd_cr : bool; hd_length : N }.

Definition hd_init : headers := mk_hd [] fl_init false false false 0.

Definition hd_set_fail (h : headers) : headers :=
  mk_hd (hd_fields h) (hd_field h) (hd_valid h) true (hd_cr h) (hd_length h).

(* the blank line that ends the block (after the loop) *)
Definition hd_blank_line (h : headers) (buf : str) : headers * str * pres :=
  match buf with
  | [] => (h, [], More)
  | c :: t =>
      (* allow \r\n or just \n *)
      let '(h1, buf1) :=
        if negb (hd_cr h) && (c =? 13)
        then (mk_hd (hd_fields h) (hd_field h) (hd_valid h) (hd_fail h) true (hd_length h), t)
        else (h, buf) in
      match buf1 with
      | [] => (h1, [], More)
      | d :: t1 =>
          if d =? 10
          then (mk_hd (hd_fields h1) (hd_field h1) true (hd_fail h1) (hd_cr h1) (hd_length h1), t1, Done)
          else (hd_set_fail h1, buf1, Fail)
      end
  end.

(* message_headers::parse; fuel = number of loop iterations available (each consumes a byte or ends) *)
Fixpoint hd_loop (fuel : nat) (L : limits) (h : headers) (buf : str) : headers * str * pres :=
  match fuel with
  | O => (hd_set_fail h, buf, Fail)     (* out of fuel: unreachable (hd_loop_fuel_enough, P_Parse.v) *)
  | S fuel' =>
      let enter :=
        negb (hd_cr h) &&
        match buf with
        | [] => false
        | c :: _ => fl_started (hd_field h) || negb (is_end_of_line c)
        end in
      if enter then
        match fl_parse L (hd_field h) buf with
        | (f1, rest, Done) =>
            match rest with
            | [] => (mk_hd (hd_fields h) f1 (hd_valid h) (hd_fail h) (hd_cr h) (hd_length h), [], More)
            | _ :: _ =>
                let len := hd_length h + fl_len f1 in
                let flds := fields_add (hd_fields h) (fl_name f1) (fl_value f1) in
                let h1 := mk_hd flds fl_init (hd_valid h) (hd_fail h) (hd_cr h) len in
                if (max_hdr_len L <? len) || (max_hdr_num L <? N.of_nat (length flds))
                then (hd_set_fail h1, rest, Fail)
                else hd_loop fuel' L h1 rest
            end
        | (f1, rest, r) =>
            (mk_hd (hd_fields h) f1 (hd_valid h) (fl_fail f1) (hd_cr h) (hd_length h), rest,
             if fl_fail f1 then Fail else More)
        end
      else hd_blank_line h buf
  end.

Definition hd_parse (L : limits) (h : headers) (buf : str) : headers * str * pres :=
  if hd_fail h then (h, buf, Fail) else hd_loop (S (S (length buf))) L h buf.

(* the queries used by the receivers *)
Definition hd_find (h : headers) (name : str) : str :=
  match fields_find name (hd_fields h) with Some v => v | None => [] end.

(* content_length(): 0 when absent or empty; None models -1 *)
Definition hd_content_length (h : headers) : option N :=
  match hd_find h hf_LC_CONTENT_LENGTH with
  | [] => Some 0
  | v => from_dec_string v
  end.

Definition hd_is_chunked (h : headers) : bool :=
  match hd_find h hf_LC_TRANSFER_ENCODING with
  | [] => false
  | v => negb (contains tok_IDENTITY (map_lower v))
  end.

Definition hd_close_connection (h : headers) : bool :=
  match hd_find h hf_LC_CONNECTION with
  | [] => false
  | v => contains tok_CLOSE (map_lower v)
  end.

Definition hd_expect_continue (h : headers) : bool :=
  match hd_find h hf_LC_EXPECT with
  | [] => false
  | v => contains tok_CONTINUE (map_lower v)
  end.

(* ====================================================================================== *)
(* chunk_header *)
Inductive ck_st :=
  | K_SIZE_LS | K_SIZE | K_EXTENSION_LS | K_EXTENSION | K_LF | K_VALID
  | K_ERROR_LENGTH | K_ERROR_CRLF | K_ERROR_WS | K_ERROR_SIZE.

Definition ck_st_index (s : ck_st) : nat :=
  match s with
  | K_SIZE_LS => 0 | K_SIZE => 1 | K_EXTENSION_LS => 2 | K_EXTENSION => 3 | K_LF => 4 | K_VALID => 5
  | K_ERROR_LENGTH => 6 | K_ERROR_CRLF => 7 | K_ERROR_WS => 8 | K_ERROR_SIZE => 9
  end%nat.

Record chunk_hdr := mk_ck
  { ck_max : N; ck_size : N; ck_length : N; ck_ws : N; ck_hex : str; ck_ext : str;
    ck_state : ck_st; ck_size_read : bool; ck_valid : bool; ck_fail : bool }.

Definition ck_init (maxsize : N) : chunk_hdr := mk_ck maxsize 0 0 0 [] [] K_SIZE_LS false false false.

Definition ck_set_state (k : chunk_hdr) (s : ck_st) : chunk_hdr :=
  mk_ck (ck_max k) (ck_size k) (ck_length k) (ck_ws k) (ck_hex k) (ck_ext k) s (ck_size_read k) (ck_valid k) (ck_fail k).
Definition ck_set_ws (k : chunk_hdr) (w : N) : chunk_hdr :=
  mk_ck (ck_max k) (ck_size k) (ck_length k) w (ck_hex k) (ck_ext k) (ck_state k) (ck_size_read k) (ck_valid k) (ck_fail k).
Definition ck_set_fail (k : chunk_hdr) (b : bool) : chunk_hdr :=
  mk_ck (ck_max k) (ck_size k) (ck_length k) (ck_ws k) (ck_hex k) (ck_ext k) (ck_state k) (ck_size_read k) (ck_valid k) b.
Definition ck_set_valid (k : chunk_hdr) (b : bool) : chunk_hdr :=
  mk_ck (ck_max k) (ck_size k) (ck_length k) (ck_ws k) (ck_hex k) (ck_ext k) (ck_state k) (ck_size_read k) b (ck_fail k).

(* size_ = from_hex_string(hex_size_): -1 becomes SIZE_MAX *)
Definition size_of_hex (h : str) : N :=
  match from_hex_string h with Some n => n | None => SIZE_MAX end.

(* the SIZE case (also reached by fall through from SIZE_LS) *)
Definition ck_size_case (L : limits) (k : chunk_hdr) (c : byte) : chunk_hdr * bool :=
  if isxdigit c then
    let k1 := mk_ck (ck_max k) (ck_size k) (ck_length k) (ck_ws k) (snoc (ck_hex k) c) (ck_ext k) (ck_state k) (ck_size_read k) (ck_valid k) (ck_fail k) in
    if MAX_SIZE_DIGITS <? nlen (ck_hex k1) then (ck_set_state k1 K_ERROR_SIZE, false) else (k1, true)
  else if is_end_of_line c || (c =? 59) then
    let sz := size_of_hex (ck_hex k) in
    let k1 := mk_ck (ck_max k) sz (ck_length k) (ck_ws k) (ck_hex k) (ck_ext k) (ck_state k) true (ck_valid k) (ck_fail k) in
    if ck_max k <? sz then (ck_set_state k1 K_ERROR_SIZE, false)
    else if c =? 59 then (ck_set_state (ck_set_ws k1 0) K_EXTENSION_LS, true)
    else if c =? 13 then (ck_set_state k1 K_LF, true)
    else if strict_crlf L then (k1, false)
    else (ck_set_state k1 K_VALID, true)
  else (k, false).

(* the EXTENSION case (also reached by fall through from EXTENSION_LS) *)
Definition ck_ext_case (L : limits) (k : chunk_hdr) (c : byte) : chunk_hdr * bool :=
  if negb (is_end_of_line c)
  then (mk_ck (ck_max k) (ck_size k) (ck_length k) (ck_ws k) (ck_hex k) (snoc (ck_ext k) c) (ck_state k) (ck_size_read k) (ck_valid k) (ck_fail k), true)
  else if c =? 13 then (ck_set_state k K_LF, true)
  else if strict_crlf L then (ck_set_state k K_ERROR_CRLF, false)
  else (ck_set_state k K_VALID, true).

Definition ck_parse_char (L : limits) (k0 : chunk_hdr) (c : byte) : chunk_hdr * bool :=
  let k1 := mk_ck (ck_max k0) (ck_size k0) (ck_length k0 + 1) (ck_ws k0) (ck_hex k0) (ck_ext k0) (ck_state k0) (ck_size_read k0) (ck_valid k0) (ck_fail k0) in
  let k := if max_line L <? ck_length k1 then ck_set_state k1 K_ERROR_LENGTH else k1 in
  match ck_state k with
  | K_SIZE_LS =>
      if isblank c then
        let k2 := ck_set_ws k (ck_ws k + 1) in
        if max_ws L <? ck_ws k2 then (ck_set_state k2 K_ERROR_WS, false) else (k2, true)
      else ck_size_case L (ck_set_state k K_SIZE) c
  | K_SIZE => ck_size_case L k c
  | K_EXTENSION_LS =>
      if isblank c then
        let k2 := ck_set_ws k (ck_ws k + 1) in
        if max_ws L <? ck_ws k2 then (k2, false) else (k2, true)
      else ck_ext_case L (ck_set_state k K_EXTENSION) c
  | K_EXTENSION => ck_ext_case L k c
  | K_LF => if c =? 10 then (ck_set_state k K_VALID, true) else (k, false)
  | _ => (k, false)
  end.

Definition ck_done (k : chunk_hdr) : bool := match ck_state k with K_VALID => true | _ => false end.

Fixpoint ck_loop (L : limits) (k : chunk_hdr) (buf : str) : chunk_hdr * str * pres :=
  match buf with
  | [] => (ck_set_valid k (ck_done k), [], if ck_done k then Done else More)
  | c :: t =>
      if ck_done k then (ck_set_valid k true, buf, Done)
      else
        let (k1, ok) := ck_parse_char L k c in
        if ok then ck_loop L (ck_set_fail k1 false) t
        else (ck_set_fail k1 true, t, Fail)
  end.

Definition ck_parse (L : limits) (k : chunk_hdr) (buf : str) : chunk_hdr * str * pres :=
  if ck_fail k then (k, buf, Fail) else ck_loop L k buf.

(* ====================================================================================== *)
(* rx_chunk *)
Record rx_chunk := mk_rc
  { rc_hdr : chunk_hdr; rc_data : str; rc_trailers : headers; rc_valid : bool; rc_cr : bool; rc_fail : bool }.

Definition rc_init (maxsize : N) : rx_chunk := mk_rc (ck_init maxsize) [] hd_init false false false.
Definition rc_clear (k : rx_chunk) : rx_chunk := rc_init (ck_max (rc_hdr k)).

Definition rc_is_last (k : rx_chunk) : bool := ck_size (rc_hdr k) =? 0.
Definition rc_failed (k : rx_chunk) : bool := rc_fail k || ck_fail (rc_hdr k) || hd_fail (rc_trailers k).

(* the CR LF that follows the chunk data *)
Definition rc_data_end (L : limits) (k : rx_chunk) (buf : str) : rx_chunk * str * pres :=
  match buf with
  | [] => (k, [], More)       (* not reached: the caller guarantees a byte *)
  | c :: t =>
      let step1 :=
        if rc_cr k then Some (k, buf)
        else if c =? 13 then Some (mk_rc (rc_hdr k) (rc_data k) (rc_trailers k) (rc_valid k) true (rc_fail k), t)
        else if strict_crlf L then None
        else Some (k, buf) in
      match step1 with
      | None => (mk_rc (rc_hdr k) (rc_data k) (rc_trailers k) (rc_valid k) (rc_cr k) true, buf, Fail)
      | Some (k1, buf1) =>
          match buf1 with
          | [] => (k1, [], More)
          | d :: t1 =>
              if d =? 10
              then (mk_rc (rc_hdr k1) (rc_data k1) (rc_trailers k1) true (rc_cr k1) (rc_fail k1), t1, Done)
              else (mk_rc (rc_hdr k1) (rc_data k1) (rc_trailers k1) (rc_valid k1) (rc_cr k1) true, buf1, Fail)
          end
      end
  end.

(* rx_chunk::parse *)
Definition rc_parse (L : limits) (k : rx_chunk) (buf : str) : rx_chunk * str * pres :=
  if rc_fail k then (k, buf, Fail)
  else
    let '(h1, buf1, r1) :=
      if ck_valid (rc_hdr k) then (rc_hdr k, buf, Done) else ck_parse L (rc_hdr k) buf in
    let k1 := mk_rc h1 (rc_data k) (rc_trailers k) (rc_valid k) (rc_cr k) (rc_fail k) in
    match r1 with
    | Done =>
        if ck_size h1 =? 0 then
          let '(t1, buf2, r2) := hd_parse L (rc_trailers k1) buf1 in
          let k2 := mk_rc h1 (rc_data k1) t1 (rc_valid k1) (rc_cr k1) (rc_fail k1) in
          match r2 with
          | Done => (mk_rc h1 (rc_data k1) t1 true (rc_cr k1) (rc_fail k1), buf2, Done)
          | r => (k2, buf2, r)
          end
        else
          let required := ck_size h1 - nlen (rc_data k1) in       (* never negative: data_.size() <= size_ *)
          let rx_size := nlen buf1 in
          if required <? rx_size then
            let n := N.to_nat required in
            let k2 := mk_rc h1 (rc_data k1 ++ firstn n buf1) (rc_trailers k1) (rc_valid k1) (rc_cr k1) (rc_fail k1) in
            rc_data_end L k2 (skipn n buf1)
          else
            (mk_rc h1 (rc_data k1 ++ buf1) (rc_trailers k1) (rc_valid k1) (rc_cr k1) (rc_fail k1), [], More)
    | r => (k1, buf1, r)
    end.
