(* P_TermC.v — the client's read loop terminates (the counterpart of P_Term.v for response_receiver /
   http_client::receive_handler). *)
From Via Require Import M_Char M_Parse M_Receive P_Parse P_Frag P_FragC P_Term.
From Coq Require Import Lia ZifyBool ZifyNat ZifyN.
Local Open Scope N_scope.
Arguments nlen : simpl never.
Arguments snoc : simpl never.

Lemma sl_parse_len L buf : forall r r1 rest res, sl_parse L r buf = (r1, rest, res) -> (length rest <= length buf)%nat.
Proof.
  induction buf as [|c t IH]; intros r r1 rest res H; cbn [sl_parse] in H.
  - inversion H; subst. lia.
  - destruct (sl_done r); [inversion H; subst; lia|].
    destruct (sl_parse_char L r c) as [r2 ok]. destruct ok.
    + apply IH in H. cbn [length]. lia.
    + inversion H; subst. cbn [length]. lia.
Qed.

Lemma rp_parse_len L q buf q1 rest : hd_valid (rp_headers q) = false ->
  rp_parse L q buf = (q1, rest, Done) -> (length rest < length buf)%nat.
Proof.
  intros Hv. unfold rp_parse.
  destruct (if sl_valid (rp_line q) then (rp_line q, buf, Done) else sl_parse L (rp_line q) buf) as [[l1 b1] r1] eqn:El.
  assert (A : (length b1 <= length buf)%nat).
  { destruct (sl_valid (rp_line q)); [inversion El; subst; lia | exact (sl_parse_len _ _ _ _ _ _ El)]. }
  destruct r1; try (intros H; inversion H; fail).
  rewrite Hv. destruct (hd_parse L (rp_headers q) b1) as [[h1 b2] r2] eqn:Eh.
  destruct (hd_parse_len _ _ _ _ _ _ Eh) as [B C].
  destruct r2; intros H; inversion H; subst. specialize (C eq_refl). lia.
Qed.

Definition cv_inv3 (v : creceiver) : Prop := rp_valid (cv_rsp v) = false -> hd_valid (rp_headers (cv_rsp v)) = false.

Lemma cv_inv3_init cfg : cv_inv3 (cv_init cfg). Proof. intros _. reflexivity. Qed.
Lemma cv_inv3_clear v : cv_inv3 (cv_clear v). Proof. intros _. reflexivity. Qed.

Lemma rp_parse_more_fail_headers L q buf q1 rest r : r <> Done -> rp_parse L q buf = (q1, rest, r) ->
  rp_valid q1 = rp_valid q /\
  (hd_valid (rp_headers q1) = hd_valid (rp_headers q) \/ hd_fail (rp_headers q1) = true).
Proof.
  intros Hr. unfold rp_parse.
  destruct (if sl_valid (rp_line q) then (rp_line q, buf, Done) else sl_parse L (rp_line q) buf) as [[l1 b1] r1].
  destruct r1.
  - destruct (if hd_valid (rp_headers q) then (rp_headers q, b1, Done) else hd_parse L (rp_headers q) b1) as [[h1 b2] r2] eqn:Eh.
    destruct r2; intros H; inversion H; subst; try congruence; cbn [rp_valid rp_headers]; split; try reflexivity.
    + destruct (hd_valid (rp_headers q)) eqn:Ehv; [inversion Eh|]. left. rewrite (hd_parse_more_valid _ _ _ _ _ Eh). exact Ehv.
    + destruct (hd_valid (rp_headers q)); [inversion Eh|]. right. exact (hd_parse_fail _ _ _ _ _ Eh).
  - intros H; inversion H; subst. cbn. split; [reflexivity | left; reflexivity].
  - intros H; inversion H; subst. cbn. split; [reflexivity | left; reflexivity].
Qed.

Definition cstep_ok (v : creceiver) (buf : str) (v1 : creceiver) (rest : str) (r : rx) : Prop :=
  r = RX_INVALID \/ r = RX_UB \/ (length rest < length buf)%nat \/
  (rp_valid (cv_rsp v) = true /\ r = RX_VALID /\ hd_is_chunked (rp_headers (cv_rsp v1)) = false /\ (length rest <= length buf)%nat).

(* the part of creceive after the head is complete, for a buffer b1 *)
Lemma cbody_step cfg v0 q1 b1 v3 rest r : cbody cfg false v0 q1 b1 = (v3, rest, r) -> b1 <> [] ->
  r = RX_INVALID \/ r = RX_UB \/ (length rest < length b1)%nat \/
  (r = RX_VALID /\ hd_is_chunked (rp_headers (cv_rsp v3)) = false /\ (length rest <= length b1)%nat).
Proof.
  unfold cbody. cbv zeta. intros H Hne.
  destruct (hd_is_chunked (rp_headers q1)) eqn:Ech; cbn [negb] in H.
  - cbn [cv_chunk cv_body] in H.
    destruct (rc_parse _ _ b1) as [[k1 b2] r2] eqn:Ep. destruct (rc_parse_len _ _ _ _ _ _ Ep) as [A B].
    assert (Hb : forall x, match r2 with Done => false | _ => nonempty b2 || x end = false -> (length b2 < length b1)%nat).
    { intros x. destruct r2; [intros _; apply B; reflexivity | |];
        (destruct b2; [intros _; destruct b1; [congruence | cbn [length]; lia] | discriminate]). }
    revert H. match goal with |- context [if ?e then _ else _] => destruct e eqn:Ef end; [intros H; inversion H; subst; left; reflexivity|].
    specialize (Hb _ Ef).
    destruct (rc_valid k1); intros H; inversion H; subst; right; right; left; exact Hb.
  - destruct (hd_content_length (rp_headers q1)) as [n|]; [|inversion H; subst; left; reflexivity].
    cbn [cv_body cv_chunk] in H.
    set (ncl := (0 <? nlen b1) && (n =? 0) && negb (nonempty (hd_find (rp_headers q1) hf_LC_CONTENT_LENGTH))) in H.
    set (cl := if ncl then cc_max_body cfg else n) in H.
    set (required := (Z.of_N cl - Z.of_N (nlen (cv_body v0)))%Z) in H.
    revert H. match goal with |- context [if ?e then _ else _] => destruct e eqn:Ebig end; [intros H; inversion H; subst; left; reflexivity|].
    match goal with |- context [if ?e then _ else _] => destruct e eqn:Eub end; [intros H; inversion H; subst; right; left; reflexivity|].
    destruct (required <? Z.of_N (nlen b1))%Z eqn:Elt.
    + cbv iota beta. pose proof (skipn_length (Z.to_nat required) b1) as Hs.
      assert (Hncl : ncl = false) by (destruct ncl; [discriminate | reflexivity]).
      destruct (nlen _ =? n) eqn:Efull.
      * intros H; inversion H; subst. right; right; right. cbn [cv_rsp]. split; [reflexivity | split; [exact Ech | lia]].
      * assert (Hpos : (0 < required)%Z).
        { destruct (Z.eq_dec required 0) as [E0|E0].
          - rewrite E0 in Efull. cbn [Z.to_nat firstn] in Efull. rewrite app_nil_r in Efull.
            unfold required, cl in E0. rewrite Hncl in E0. lia.
          - lia. }
        rewrite nlen_length in Elt. intros H; inversion H; subst. right; right; left. lia.
    + cbv iota beta. destruct (nlen _ =? n); intros H; inversion H; subst; right; right; left;
        (destruct b1; [congruence | cbn [length]; lia]).
Qed.

Lemma cbody_len cfg rp v0 q1 b1 v3 rest r : cbody cfg rp v0 q1 b1 = (v3, rest, r) -> (length rest <= length b1)%nat.
Proof.
  unfold cbody. cbv zeta.
  destruct (negb (hd_is_chunked (rp_headers q1))).
  - destruct (hd_content_length (rp_headers q1)) as [n|]; [|intros H; inversion H; subst; lia].
    match goal with |- context [if ?e then _ else _] => destruct e end; [intros H; inversion H; subst; lia|].
    match goal with |- context [if ?e then _ else _] => destruct e end; [intros H; inversion H; subst; lia|].
    match goal with |- context [if ?e then _ else _] => destruct e end; cbv iota beta;
      repeat match goal with |- context [if ?e then _ else _] => destruct e end; intros H; inversion H; subst;
      try (cbn [length]; lia); rewrite skipn_length; lia.
  - destruct rp; [intros H; inversion H; subst; lia|].
    destruct (rc_parse _ _ b1) as [[k1 b2] r2] eqn:Ep. destruct (rc_parse_len _ _ _ _ _ _ Ep) as [A B].
    repeat match goal with |- context [if ?e then _ else _] => destruct e end; intros H; inversion H; subst; exact A.
Qed.

Lemma cbody_inv3 cfg rp v0 q1 b1 v3 rest r : rp_valid q1 = true -> cbody cfg rp v0 q1 b1 = (v3, rest, r) -> cv_inv3 v3.
Proof.
  intros Hq. unfold cbody. cbv zeta.
  destruct (negb (hd_is_chunked (rp_headers q1))).
  - destruct (hd_content_length (rp_headers q1)) as [n|]; [|intros H; inversion H; subst; apply cv_inv3_clear].
    repeat match goal with |- context [if ?e then _ else _] => destruct e end; intros H; inversion H; subst;
      try apply cv_inv3_clear; intros E; cbn in E; congruence.
  - destruct rp; [intros H; inversion H; subst; intros E; cbn in E; congruence|].
    destruct (rc_parse _ _ b1) as [[k1 b2] r2].
    repeat match goal with |- context [if ?e then _ else _] => destruct e end; intros H; inversion H; subst;
      try apply cv_inv3_clear; intros E; cbn in E; congruence.
Qed.

Theorem creceive_step cfg v buf v1 rest r : cv_inv3 v -> buf <> [] -> creceive cfg v buf = (v1, rest, r) ->
  cstep_ok v buf v1 rest r /\ cv_inv3 v1.
Proof.
  intros Hi Hne. rewrite creceive_unfold.
  destruct (rp_valid (cv_rsp v)) eqn:Ev; cbn [negb].
  - intros H. split; [|exact (cbody_inv3 _ _ _ _ _ _ _ _ Ev H)].
    destruct (cbody_step _ _ _ _ _ _ _ H Hne) as [-> | [-> | [Hlt | [-> [Hch Hle]]]]];
      [left; reflexivity | right; left; reflexivity | right; right; left; exact Hlt|].
    right; right; right. split; [exact Ev | split; [reflexivity | split; [exact Hch | exact Hle]]].
  - destruct (rp_parse (cc_lim cfg) (cv_rsp v) buf) as [[q1 b1] r1] eqn:Ep.
    destruct r1.
    + pose proof (rp_parse_len _ _ _ _ _ (Hi Ev) Ep) as Hlt.
      pose proof (rp_parse_done_valid _ _ _ _ _ Ep) as Hq1.
      intros H. pose proof (cbody_len _ _ _ _ _ _ _ _ H) as Hle.
      split; [right; right; left; lia | exact (cbody_inv3 _ _ _ _ _ _ _ _ Hq1 H)].
    + destruct (rp_parse_more_fail_headers _ _ _ _ _ More ltac:(discriminate) Ep) as [Hq Hh].
      destruct (nonempty b1 || sl_fail (rp_line q1) || hd_fail (rp_headers q1)) eqn:Eb;
        intros H; inversion H; subst; (split; [|try apply cv_inv3_clear]).
      * left; reflexivity.
      * right; right; left. destruct rest; [destruct buf; [congruence | cbn [length]; lia] | discriminate].
      * intros _. cbn [cv_rsp]. destruct Hh as [Hh | Hh]; [rewrite Hh; exact (Hi Ev)|].
        rewrite Hh in Eb. rewrite Bool.orb_true_r in Eb. discriminate.
    + destruct (rp_parse_more_fail_headers _ _ _ _ _ Fail ltac:(discriminate) Ep) as [Hq Hh].
      destruct (nonempty b1 || sl_fail (rp_line q1) || hd_fail (rp_headers q1)) eqn:Eb;
        intros H; inversion H; subst; (split; [|try apply cv_inv3_clear]).
      * left; reflexivity.
      * right; right; left. destruct rest; [destruct buf; [congruence | cbn [length]; lia] | discriminate].
      * intros _. cbn [cv_rsp]. destruct Hh as [Hh | Hh]; [rewrite Hh; exact (Hi Ev)|].
        rewrite Hh in Eb. rewrite Bool.orb_true_r in Eb. discriminate.
Qed.

Lemma cdispatch_inv3 v r : cv_inv3 v -> cv_inv3 (fst (cdispatch v r)).
Proof.
  intros Hi. unfold cdispatch. destruct r; try exact Hi; try apply cv_inv3_clear.
  - destruct (hd_is_chunked (rp_headers (cv_rsp v))); [exact Hi | apply cv_inv3_clear].
  - destruct (rc_is_last (cv_chunk v)); [apply cv_inv3_clear | exact Hi].
Qed.

Definition cmeasure (v : creceiver) (buf : str) : nat := (2 * length buf + (if rp_valid (cv_rsp v) then 1 else 0))%nat.

Theorem crx_loop_terminates cfg : forall fuel v buf, cv_inv3 v -> (cmeasure v buf < fuel)%nat ->
  let '(v', _, calls, oof) := crx_loop fuel cfg v buf in
  oof = false /\ cv_inv3 v' /\ (length calls <= cmeasure v buf)%nat.
Proof.
  induction fuel as [|fuel IH]; intros v buf Hi Hm; [lia|].
  cbn [crx_loop]. destruct buf as [|c t]; [split; [reflexivity | split; [exact Hi | cbn [length]; lia]]|].
  destruct (creceive cfg v (c :: t)) as [[v1 rest] r] eqn:Er.
  destruct (creceive_step cfg v (c :: t) v1 rest r Hi ltac:(discriminate) Er) as [Hs Hi1].
  pose proof (cdispatch_inv3 v1 r Hi1) as Hi2.
  destruct (cdispatch v1 r) as [v2 evs] eqn:Ed. cbn [fst] in Hi2.
  assert (Hstop : forall x : rx * N, (length [x] <= cmeasure v (c :: t))%nat) by (intros x; unfold cmeasure; cbn [length]; lia).
  assert (Hdec : r <> RX_INVALID -> r <> RX_UB -> (cmeasure v2 rest < cmeasure v (c :: t))%nat).
  { intros H1 H2. destruct Hs as [-> | [-> | [Hlt | [Hv [-> [Hch Hle]]]]]]; try congruence.
    - unfold cmeasure. destruct (rp_valid (cv_rsp v2)), (rp_valid (cv_rsp v)); lia.
    - unfold cdispatch in Ed. rewrite Hch in Ed. inversion Ed; subst.
      unfold cmeasure. rewrite Hv. cbn [cv_clear cv_rsp rp_init rp_valid]. lia. }
  destruct r; try (split; [reflexivity | split; [exact Hi2 | apply Hstop]]);
    (specialize (Hdec ltac:(discriminate) ltac:(discriminate));
     specialize (IH v2 rest Hi2 ltac:(lia));
     destruct (crx_loop fuel cfg v2 rest) as [[[v3 evs'] calls] oof];
     destruct IH as [A [B C]]; split; [exact A | split; [exact B | cbn [length]; lia]]).
Qed.

Lemma cmeasure_lt_fuel v buf : (cmeasure v buf < loop_fuel buf)%nat.
Proof. unfold cmeasure, loop_fuel. destruct (rp_valid (cv_rsp v)); lia. Qed.

Theorem cfeed_terminates cfg : forall frags v, cv_inv3 v ->
  let '(v', _, calls, oof) := cfeed cfg v frags in
  oof = false /\ cv_inv3 v' /\ Forall2 (fun c f => (length c <= 2 * length f + 1)%nat) calls frags.
Proof.
  induction frags as [|f t IH]; intros v Hi; cbn [cfeed]; [split; [reflexivity | split; [exact Hi | constructor]]|].
  unfold cread_loop.
  pose proof (crx_loop_terminates cfg (loop_fuel f) v f Hi (cmeasure_lt_fuel v f)) as H1.
  destruct (crx_loop (loop_fuel f) cfg v f) as [[[v1 e1] c1] o1]. destruct H1 as [-> [Hi1 Hc]].
  specialize (IH v1 Hi1). destruct (cfeed cfg v1 t) as [[[v2 e2] c2] o2]. destruct IH as [-> [Hi2 Hf]].
  split; [reflexivity | split; [exact Hi2 | constructor; [|exact Hf]]].
  unfold cmeasure in Hc. destruct (rp_valid (cv_rsp v)); lia.
Qed.

(* ---- fragmentation invariance of the client without any mention of fuel ---- *)
Fixpoint ccuts_fine (cfg : ccfg) (v : creceiver) (frags : list str) : Prop :=
  match frags with
  | [] => True
  | f :: t =>
      let '(v1, e1, c1, _) := cread_loop cfg v f in
      ccuts_fine cfg v1 t /\
      (f = [] \/ t = [] \/ (ends_well c1 /\ no_reject c1 /\ cloop_framed (loop_fuel f) cfg v f = true))
  end.

Lemma ccuts_fine_ok cfg : forall frags v, cv_inv3 v -> ccuts_fine cfg v frags -> ccuts_ok cfg v frags.
Proof.
  induction frags as [|f t IH]; intros v Hi Hc; [exact I|].
  cbn [ccuts_fine ccuts_ok] in *. unfold cread_loop in *.
  pose proof (crx_loop_terminates cfg (loop_fuel f) v f Hi (cmeasure_lt_fuel v f)) as H1.
  destruct (crx_loop (loop_fuel f) cfg v f) as [[[v1 e1] c1] o1]. destruct H1 as [-> [Hi1 _]].
  destruct Hc as [Hct Hcase]. split; [reflexivity | split; [exact (IH v1 Hi1 Hct) | exact Hcase]].
Qed.

Theorem cfeed_is_one_read cfg frags v : cv_ok v -> cv_inv3 v -> ccuts_fine cfg v frags ->
  exists c,
    cread_loop cfg v (concat frags) =
    (fst (fst (fst (cfeed cfg v frags))), snd (fst (fst (cfeed cfg v frags))), c, false).
Proof.
  intros Hok Hi3 Hc.
  destruct (cfeed_is_stream cfg frags v Hok (ccuts_fine_ok cfg frags v Hi3 Hc)) as [N [c HN]].
  unfold cread_loop.
  pose proof (crx_loop_terminates cfg (loop_fuel (concat frags)) v (concat frags) Hi3 (cmeasure_lt_fuel v _)) as H1.
  destruct (crx_loop (loop_fuel (concat frags)) cfg v (concat frags)) as [[[v' e'] c'] o'] eqn:El.
  destruct H1 as [-> _].
  pose proof (crx_loop_more_fuel cfg _ _ _ _ _ _ El N) as H2.
  specialize (HN (loop_fuel (concat frags))). rewrite Nat.add_comm in HN. rewrite HN in H2.
  inversion H2; subst. exists c'. reflexivity.
Qed.
