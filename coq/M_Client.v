(* M_Client.v — http_client over comms::connection as a state machine over an explicit event alphabet,
   with the socket adaptor as a parameter (plain TCP shape or TLS shape) and a scripted application.
   One connection object for the client's whole life: it is closed and connected again on reconnects.
   The environment chooses which pending operation completes next and how.  A send that rewrites the
   transmit buffers while a write is still in flight is marked KUndefined: the model says nothing
   further about such a history (the client-side form of finding F07).  Definitions only. *)
From Via Require Export M_Receive M_Encode M_Server.
Local Open Scope N_scope.

Record cl := mk_cl
  { k_alive : bool;
    k_connected : bool;
    k_transmitting : bool;
    k_disc_pending : bool;
    k_shutdown_sent : bool;
    k_open : bool;
    k_connect_pending : bool;
    k_handshake_pending : bool;
    k_read_pending : bool;
    k_tls_sd_pending : bool;
    k_write : option str;
    k_aborted : list N;
    k_rx : creceiver;
    k_rxbuf : N;
    k_timer : bool;
    k_period : bool;
    k_undefined : bool }.

Definition s_alive (k : cl) (v : bool) : cl := mk_cl v (k_connected k) (k_transmitting k) (k_disc_pending k) (k_shutdown_sent k) (k_open k) (k_connect_pending k) (k_handshake_pending k) (k_read_pending k) (k_tls_sd_pending k) (k_write k) (k_aborted k) (k_rx k) (k_rxbuf k) (k_timer k) (k_period k) (k_undefined k).
Definition s_connected (k : cl) (v : bool) : cl := mk_cl (k_alive k) v (k_transmitting k) (k_disc_pending k) (k_shutdown_sent k) (k_open k) (k_connect_pending k) (k_handshake_pending k) (k_read_pending k) (k_tls_sd_pending k) (k_write k) (k_aborted k) (k_rx k) (k_rxbuf k) (k_timer k) (k_period k) (k_undefined k).
Definition s_transmitting (k : cl) (v : bool) : cl := mk_cl (k_alive k) (k_connected k) v (k_disc_pending k) (k_shutdown_sent k) (k_open k) (k_connect_pending k) (k_handshake_pending k) (k_read_pending k) (k_tls_sd_pending k) (k_write k) (k_aborted k) (k_rx k) (k_rxbuf k) (k_timer k) (k_period k) (k_undefined k).
Definition s_disc_pending (k : cl) (v : bool) : cl := mk_cl (k_alive k) (k_connected k) (k_transmitting k) v (k_shutdown_sent k) (k_open k) (k_connect_pending k) (k_handshake_pending k) (k_read_pending k) (k_tls_sd_pending k) (k_write k) (k_aborted k) (k_rx k) (k_rxbuf k) (k_timer k) (k_period k) (k_undefined k).
Definition s_shutdown_sent (k : cl) (v : bool) : cl := mk_cl (k_alive k) (k_connected k) (k_transmitting k) (k_disc_pending k) v (k_open k) (k_connect_pending k) (k_handshake_pending k) (k_read_pending k) (k_tls_sd_pending k) (k_write k) (k_aborted k) (k_rx k) (k_rxbuf k) (k_timer k) (k_period k) (k_undefined k).
Definition s_open (k : cl) (v : bool) : cl := mk_cl (k_alive k) (k_connected k) (k_transmitting k) (k_disc_pending k) (k_shutdown_sent k) v (k_connect_pending k) (k_handshake_pending k) (k_read_pending k) (k_tls_sd_pending k) (k_write k) (k_aborted k) (k_rx k) (k_rxbuf k) (k_timer k) (k_period k) (k_undefined k).
Definition s_connect_pending (k : cl) (v : bool) : cl := mk_cl (k_alive k) (k_connected k) (k_transmitting k) (k_disc_pending k) (k_shutdown_sent k) (k_open k) v (k_handshake_pending k) (k_read_pending k) (k_tls_sd_pending k) (k_write k) (k_aborted k) (k_rx k) (k_rxbuf k) (k_timer k) (k_period k) (k_undefined k).
Definition s_handshake_pending (k : cl) (v : bool) : cl := mk_cl (k_alive k) (k_connected k) (k_transmitting k) (k_disc_pending k) (k_shutdown_sent k) (k_open k) (k_connect_pending k) v (k_read_pending k) (k_tls_sd_pending k) (k_write k) (k_aborted k) (k_rx k) (k_rxbuf k) (k_timer k) (k_period k) (k_undefined k).
Definition s_read_pending (k : cl) (v : bool) : cl := mk_cl (k_alive k) (k_connected k) (k_transmitting k) (k_disc_pending k) (k_shutdown_sent k) (k_open k) (k_connect_pending k) (k_handshake_pending k) v (k_tls_sd_pending k) (k_write k) (k_aborted k) (k_rx k) (k_rxbuf k) (k_timer k) (k_period k) (k_undefined k).
Definition s_tls_sd_pending (k : cl) (v : bool) : cl := mk_cl (k_alive k) (k_connected k) (k_transmitting k) (k_disc_pending k) (k_shutdown_sent k) (k_open k) (k_connect_pending k) (k_handshake_pending k) (k_read_pending k) v (k_write k) (k_aborted k) (k_rx k) (k_rxbuf k) (k_timer k) (k_period k) (k_undefined k).
Definition s_write (k : cl) (v : option str) : cl := mk_cl (k_alive k) (k_connected k) (k_transmitting k) (k_disc_pending k) (k_shutdown_sent k) (k_open k) (k_connect_pending k) (k_handshake_pending k) (k_read_pending k) (k_tls_sd_pending k) v (k_aborted k) (k_rx k) (k_rxbuf k) (k_timer k) (k_period k) (k_undefined k).
Definition s_aborted (k : cl) (v : list N) : cl := mk_cl (k_alive k) (k_connected k) (k_transmitting k) (k_disc_pending k) (k_shutdown_sent k) (k_open k) (k_connect_pending k) (k_handshake_pending k) (k_read_pending k) (k_tls_sd_pending k) (k_write k) v (k_rx k) (k_rxbuf k) (k_timer k) (k_period k) (k_undefined k).
Definition s_rx (k : cl) (v : creceiver) : cl := mk_cl (k_alive k) (k_connected k) (k_transmitting k) (k_disc_pending k) (k_shutdown_sent k) (k_open k) (k_connect_pending k) (k_handshake_pending k) (k_read_pending k) (k_tls_sd_pending k) (k_write k) (k_aborted k) v (k_rxbuf k) (k_timer k) (k_period k) (k_undefined k).
Definition s_rxbuf (k : cl) (v : N) : cl := mk_cl (k_alive k) (k_connected k) (k_transmitting k) (k_disc_pending k) (k_shutdown_sent k) (k_open k) (k_connect_pending k) (k_handshake_pending k) (k_read_pending k) (k_tls_sd_pending k) (k_write k) (k_aborted k) (k_rx k) v (k_timer k) (k_period k) (k_undefined k).
Definition s_timer (k : cl) (v : bool) : cl := mk_cl (k_alive k) (k_connected k) (k_transmitting k) (k_disc_pending k) (k_shutdown_sent k) (k_open k) (k_connect_pending k) (k_handshake_pending k) (k_read_pending k) (k_tls_sd_pending k) (k_write k) (k_aborted k) (k_rx k) (k_rxbuf k) v (k_period k) (k_undefined k).
Definition s_period (k : cl) (v : bool) : cl := mk_cl (k_alive k) (k_connected k) (k_transmitting k) (k_disc_pending k) (k_shutdown_sent k) (k_open k) (k_connect_pending k) (k_handshake_pending k) (k_read_pending k) (k_tls_sd_pending k) (k_write k) (k_aborted k) (k_rx k) (k_rxbuf k) (k_timer k) v (k_undefined k).
Definition s_undefined (k : cl) (v : bool) : cl := mk_cl (k_alive k) (k_connected k) (k_transmitting k) (k_disc_pending k) (k_shutdown_sent k) (k_open k) (k_connect_pending k) (k_handshake_pending k) (k_read_pending k) (k_tls_sd_pending k) (k_write k) (k_aborted k) (k_rx k) (k_rxbuf k) (k_timer k) (k_period k) v.

Inductive clog :=
  | KMark (e : N)
  | KConnectOp (port : str) | KResolveFailed | KReopen | KConnectCall (ok : bool)
  | KHandshake | KRead | KWrite (bytes : str) | KWire (bytes : str)
  | KShutdown | KTruncated | KCancel | KTlsShutdown | KClose
  | KAbortedC (kind : N)                 (* 0 read 1 write 2 handshake 3 tls shutdown 4 connect *)
  | KConnected | KDisconnected | KSent
  | KResp (status : N) (reason : str) (major minor : byte) (hdrs : fields) (body : str)
  | KChunk (size : N) (ext data : str) (last : bool) (trailers : fields)
  | KInvalid
  | KSendRes (what : N) (ok : bool)      (* 0 send 1 send_body 2 send_chunk 3 last_chunk *)
  | KNo (what : N)                       (* 0 read 1 write 2 handshake 3 shutdown 4 connect 5 late *)
  | KLate (kind : N)
  | KAppDisconnect | KAppClose | KDestroy | KTick
  | KState (c t p s : bool) (rxbuf : N) | KGone
  | KUndefined.

Record copts := mk_copts
  { co_tls : bool; co_inv : bool; co_chunk : bool; co_period : bool; co_reclose : bool; co_port : str; co_cfg : ccfg }.

Inductive cevt :=
  | CeConnect (resolve_fails : bool) | CeConnected (e : errc) | CeHandshake (e : errc)
  | CeRead (bytes : str) | CeReadErr (e : errc) | CeWrite | CeWriteErr (e : errc) | CeTlsShutdown (e : errc)
  | CeAborted | CeLate (kind : N) (e : errc) | CeTick
  | CeSend (ov : N) (method uri hdrs body : str) | CeSendBody (body : str)
  | CeSendChunk (buffers : bool) (data ext : str) | CeLastChunk (ext trailers : str)
  | CeDisconnect | CeClose | CeDestroy.

Definition cl_init (o : copts) : cl :=
  mk_cl true false false false false false false false false false None [] (cv_init (co_cfg o)) 0 false false false.

Fixpoint remove_first (x : N) (l : list N) : list N :=
  match l with [] => [] | y :: t => if N.eqb x y then t else y :: remove_first x t end.

Definition res := (cl * list clog)%type.
Definition andthen (r : res) (f : cl -> res) : res :=
  let '(k, l) := r in let '(k', l') := f k in (k', l ++ l').
Definition say (k : cl) (l : list clog) : res := (k, l).

Section Client.
  Variable o : copts.

  (* ---- the socket ---- *)
  Definition k_cancel (k : cl) (on_close : bool) : cl :=
    let r := if k_read_pending k then [0] else [] in
    let w := match k_write k with Some _ => [1] | None => [] end in
    let n := if on_close && k_connect_pending k then [4] else [] in
    let h := if on_close && k_handshake_pending k then [2] else [] in
    let s := if on_close && k_tls_sd_pending k then [3] else [] in
    let k1 := s_write (s_read_pending k false) None in
    let k2 := if on_close then s_tls_sd_pending (s_handshake_pending (s_connect_pending k1 false) false) false else k1 in
    s_aborted k2 (k_aborted k ++ r ++ w ++ n ++ h ++ s).

  Definition k_close (k : cl) : res :=
    if k_open k then (k_cancel (s_open k false) true, [KClose]) else (k, []).

  Definition k_enable_reception (k : cl) : res := (s_read_pending k true, [KRead]).

  (* the application's disconnected callback; with co_reclose it calls close() on the client from inside the
     callback (not while the client is being destroyed).  The connection is already marked disconnected at
     both call sites, so that close() only stops the timer and closes the (already closed) socket *)
  Definition k_app_disconnected (destroying : bool) (k : cl) : res :=
    if co_reclose o && negb destroying then
      andthen (s_timer (s_period k false) false, [KDisconnected; KAppClose]) k_close
    else (k, [KDisconnected]).

  (* ---- http_client::disconnected_handler ---- *)
  Definition k_disconnected (k : cl) : res :=
    if k_connected k then
      andthen (andthen (k_close (s_connected k false)) (k_app_disconnected false))
        (fun k1 => (if k_period k1 then s_timer k1 true else k1, []))
    else (k, []).

  (* ---- comms::connection ---- *)
  Definition k_write_callback_shutdown (k : cl) : res := k_disconnected k.

  Definition k_shutdown (k : cl) : res :=
    let k1 := s_shutdown_sent k true in
    if co_tls o then
      (s_tls_sd_pending (k_cancel k1 false) true, [KCancel; KTlsShutdown])
    else
      andthen (k1, KShutdown :: match k_write k1 with Some _ => [KTruncated] | None => [] end)
              k_write_callback_shutdown.

  Definition k_signal_error (k : cl) (e : errc) : res :=
    if negb (k_shutdown_sent k) && is_ssl_shutdown (co_tls o) e then k_shutdown k
    else k_disconnected k.

  Definition k_write_callback (k : cl) (e : errc) : res :=
    match e with
    | EC_cancel => (k, [])
    | _ =>
        if k_shutdown_sent k then k_disconnected k
        else match e with
             | EC_ok => if k_disc_pending k then k_shutdown k else (s_transmitting k false, [KSent])
             | _ => k_signal_error k e
             end
    end.

  Definition cevent_log (ev : cevent) : list clog :=
    match ev with
    | CValid s r ma mi h b => [KResp s r ma mi h b]
    | CChunk s e d t l => if co_chunk o then [KChunk s e d l t] else []
    | CInvalid => if co_inv o then [KInvalid] else []
    end.

  Definition k_receive (k : cl) (bytes : str) : res :=
    let '(v, evs, _, _) := cread_loop (co_cfg o) (k_rx k) bytes in
    (s_rxbuf (s_rx k v) (k_rxbuf k + nlen bytes), flat_map cevent_log evs).

  Definition k_read_callback (k : cl) (e : errc) (bytes : str) : res :=
    match e with
    | EC_cancel => (k, [])
    | EC_ok => andthen (k_receive k bytes) (fun k1 => if k_shutdown_sent k1 then (k1, []) else k_enable_reception k1)
    | _ => k_signal_error k e
    end.

  Definition k_handshake_callback (k : cl) (e : errc) : res :=
    match e with
    | EC_cancel => (k, [])
    | EC_ok =>
        let k1 := s_connected k true in
        let k2 := s_rxbuf (s_rx (s_timer k1 false) (cv_clear (k_rx k1))) 0 in
        andthen (k2, [KConnected]) k_enable_reception
    | _ => k_close k
    end.

  Definition k_connect_callback (k : cl) (e : errc) : res :=
    match e with
    | EC_cancel => (k, [])
    | EC_ok => if co_tls o then (s_handshake_pending k true, [KHandshake]) else k_handshake_callback k EC_ok
    | _ => k_close k
    end.

  (* http_client::connect(): returns the result of the call as well *)
  Definition k_do_connect (k : cl) (resolve_fails : bool) : cl * list clog * bool :=
    if k_connected k then (k, [], true)
    else
      (* connection::connect forgets what the previous session left behind *)
      let k := s_shutdown_sent (s_disc_pending (s_transmitting k false) false) false in
      if resolve_fails then (k, [KResolveFailed], false)
      else
      let '(k1, l1) := if k_open k then (k_cancel k true, [KReopen]) else (k, []) in
      (s_connect_pending (s_open k1 true) true, l1 ++ [KConnectOp (co_port o)], true).

  (* ---- sending ---- *)
  Definition host_name : str := [104].     (* "h" *)
  Definition is_scheme_port (p : str) : bool :=
    str_eqb p [104; 116; 116; 112] || str_eqb p [104; 116; 116; 112; 115].
  Definition http_host_name : str := if is_scheme_port (co_port o) then host_name else host_name ++ [58] ++ co_port o.

  (* http_client::send(ConstBuffers) after the transmit buffers were filled in *)
  Definition k_send_buffers (k : cl) (what : N) (touches_tx : bool) (bytes : str) : res :=
    if negb (k_connected k) then (k, [KSendRes what false])
    else
      match k_write k with
      | Some _ =>
          if touches_tx then (s_undefined k true, [KUndefined])
          else (s_rxbuf (s_rx k (cv_clear (k_rx k))) 0, [KSendRes what false])
      | None =>
          let k1 := s_rxbuf (s_rx k (cv_clear (k_rx k))) 0 in
          if k_transmitting k1 then (k1, [KSendRes what false])
          else (s_write (s_transmitting k1 true) (Some bytes), [KWrite bytes; KSendRes what true])
      end.

  Definition request_bytes (ov : N) (m u h b : str) : str :=
    let r := {| tq_method := m; tq_uri := u; tq_major := 49; tq_minor := 49;
                tq_headers := h ++ to_header hf_HEADER_HOST http_host_name |} in
    match ov with
    | 0 => request_message r 0
    | _ => request_message r (nlen b) ++ b
    end.

  (* http_client::close() after the timer was stopped *)
  Definition k_client_close (destroying : bool) (k : cl) : res :=
    if k_connected k then andthen (k_close (s_connected k false)) (k_app_disconnected destroying)
    else k_close k.

  Definition kstate (k : cl) : clog :=
    if k_alive k then KState (k_connected k) (k_transmitting k) (k_disc_pending k) (k_shutdown_sent k) (k_rxbuf k) else KGone.

  Definition mark (e : cevt) : N :=
    match e with
    | CeConnect _ => 0 | CeConnected _ => 1 | CeHandshake _ => 2 | CeRead _ => 3 | CeReadErr _ => 4 | CeWrite => 5
    | CeWriteErr _ => 6 | CeTlsShutdown _ => 7 | CeAborted => 8 | CeTick => 9 | CeSend _ _ _ _ _ => 10 | CeSendBody _ => 11
    | CeSendChunk false _ _ => 12 | CeSendChunk true _ _ => 13 | CeLastChunk _ _ => 14 | CeDisconnect => 15 | CeClose => 16
    | CeDestroy => 17 | CeLate _ _ => 18
    end.

  Definition k_step_alive (k : cl) (e : cevt) : res :=
    match e with
    | CeConnect rf =>
        let k0 := s_period k (co_period o) in
        let '(k1, l1, ok) := k_do_connect k0 rf in (k1, l1 ++ [KConnectCall ok])
    | CeConnected ec =>
        if k_connect_pending k then k_connect_callback (s_connect_pending k false) ec else (k, [KNo 4])
    | CeHandshake ec =>
        if k_handshake_pending k then k_handshake_callback (s_handshake_pending k false) ec else (k, [KNo 2])
    | CeRead bytes =>
        if k_read_pending k then k_read_callback (s_read_pending k false) EC_ok bytes else (k, [KNo 0])
    | CeReadErr ec =>
        if k_read_pending k then k_read_callback (s_read_pending k false) ec [] else (k, [KNo 0])
    | CeWrite =>
        match k_write k with
        | Some b => andthen (s_write k None, [KWire b]) (fun k1 => k_write_callback k1 EC_ok)
        | None => (k, [KNo 1])
        end
    | CeWriteErr ec =>
        match k_write k with
        | Some b => k_write_callback (s_write k None) ec
        | None => (k, [KNo 1])
        end
    | CeTlsShutdown ec =>
        if k_tls_sd_pending k then k_write_callback (s_tls_sd_pending k false) ec else (k, [KNo 3])
    | CeAborted => (s_aborted k [], map KAbortedC (k_aborted k))
    | CeLate kind ec =>
        (* an operation that had completed before it was cancelled: its handler runs with its own result *)
        if existsb (N.eqb kind) (k_aborted k) then
          let k1 := s_aborted k (remove_first kind (k_aborted k)) in
          andthen (k1, [KLate kind])
            (fun k2 => match kind with
                       | 0 => k_read_callback k2 ec []
                       | 1 | 3 => k_write_callback k2 ec
                       | 2 => k_handshake_callback k2 ec
                       | _ => k_connect_callback k2 ec
                       end)
        else (k, [KNo 5])
    | CeTick =>
        if k_timer k then let '(k1, l1, _) := k_do_connect (s_timer k false) false in (k1, KTick :: l1) else (k, [KTick])
    | CeSend ov m u h b => k_send_buffers k 0 true (request_bytes ov m u h b)
    | CeSendBody b => k_send_buffers k 1 true b
    | CeSendChunk _ d x => k_send_buffers k 2 true (chunk_header_string (nlen d) x ++ d ++ CRLF)
    | CeLastChunk x t => k_send_buffers k 3 true (last_chunk_string x t)
    | CeDisconnect => andthen (k, [KAppDisconnect]) k_shutdown
    | CeClose => andthen (s_timer (s_period k false) false, [KAppClose]) (k_client_close false)
    | CeDestroy => andthen (andthen (s_timer (s_period k false) false, [KDestroy]) (k_client_close true)) (fun k1 => (s_alive k1 false, []))
    end.

  Definition k_step_dead (k : cl) (e : cevt) : res :=
    match e with
    | CeConnected _ => (k, [KNo 4]) | CeHandshake _ => (k, [KNo 2]) | CeRead _ | CeReadErr _ => (k, [KNo 0])
    | CeWrite | CeWriteErr _ => (k, [KNo 1]) | CeTlsShutdown _ => (k, [KNo 3])
    | CeAborted => (s_aborted k [], map KAbortedC (k_aborted k))
    | CeLate kind _ => if existsb (N.eqb kind) (k_aborted k) then (s_aborted k (remove_first kind (k_aborted k)), [KLate kind]) else (k, [KNo 5])
    | CeTick => (k, [KTick])
    | CeDestroy => (k, [KDestroy])
    | _ => (k, [])
    end.

  Definition k_step (k : cl) (e : cevt) : res :=
    if k_undefined k then (k, [])
    else
      let '(k1, l) := if k_alive k then k_step_alive k e else k_step_dead k e in
      (k1, KMark (mark e) :: l ++ (if k_undefined k1 then [] else [kstate k1])).

  Fixpoint k_run (k : cl) (es : list cevt) : cl * list clog :=
    match es with
    | [] => (k, [])
    | e :: t => let '(k1, l1) := k_step k e in let '(k2, l2) := k_run k1 t in (k2, l1 ++ l2)
    end.
End Client.
