(* M_Imp.v — a small imperative language: the bodies of the character-level parser functions (parse_char) as clang's
   AST gives them, translated statement by statement by translate/parse.py into Gen_Parse.v, and their meaning.
   A function body works on a store (the data members it touches), one input character and the class's limits. *)
From Via Require Import M_Char M_Parse.
From Coq Require Import List NArith Bool.
Import ListNotations.
Local Open Scope N_scope.

Record store := mk_store { s_state : nat; s_strs : list str; s_nums : list N }.

Definition get_str (s : store) (k : nat) : str := nth k (s_strs s) [].
Definition get_num (s : store) (k : nat) : N := nth k (s_nums s) 0.

Fixpoint set_nth {A} (l : list A) (k : nat) (v : A) : list A :=
  match l, k with
  | [], _ => []
  | _ :: t, O => v :: t
  | x :: t, S k' => x :: set_nth t k' v
  end.

Definition set_str (s : store) (k : nat) (v : str) : store := mk_store (s_state s) (set_nth (s_strs s) k v) (s_nums s).
Definition set_num (s : store) (k : nat) (v : N) : store := mk_store (s_state s) (s_strs s) (set_nth (s_nums s) k v).
Definition set_state (s : store) (v : nat) : store := mk_store v (s_strs s) (s_nums s).

(* bool members are stored as numbers *)
Definition b2n (b : bool) : N := if b then 1 else 0.

(* character predicates the sources call *)
Inductive cpred := PUpper | PBlank | PDigit | PXdigit | PEol | PToken | PCntrl | PAlpha.
Definition cpred_eval (p : cpred) (c : byte) : bool :=
  match p with
  | PUpper => isupper c | PBlank => isblank c | PDigit => isdigit c | PXdigit => isxdigit c
  | PEol => is_end_of_line c | PToken => is_token c | PCntrl => iscntrl c | PAlpha => isalpha c
  end.

(* numeric expressions; PreInc has the side effect of ++member *)
Inductive nexp :=
  | NLit (n : N) | NLim (k : nat)            (* a template parameter of the class: limit number k *)
  | NNum (k : nat) | NSize (k : nat)         (* a numeric member; the size() of a string member *)
  | NPreInc (k : nat)
  | NChar                                    (* the input character *)
  | NLower (e : nexp)                        (* std::tolower *)
  | NFromHex (k : nat)                       (* from_hex_string(member), converted to size_t: -1 becomes SIZE_MAX *)
  | NAdd (a b : nexp) | NSub (a b : nexp) | NMul (a b : nexp).

Inductive cmp := CGt | CLt | CGe | CLe | CEq | CNe.

Inductive bexp :=
  | BPred (p : cpred)                        (* p(c) *)
  | BCharIs (ch : N)                         (* c == 'x' *)
  | BNot (b : bexp) | BAnd (a b : bexp) | BOr (a b : bexp)
  | BEmpty (k : nat)                         (* member.empty() *)
  | BCmp (o : cmp) (a b : nexp)
  | BConst (v : bool)
  | BFlag (k : nat).                         (* a bool member (stored as a number) *)

Inductive stmt :=
  | SSkip
  | SSeq (a b : stmt)
  | SIf (c : bexp) (t e : stmt)
  | SState (v : nat)                         (* state_ = Enum::V *)
  | SNum (k : nat) (e : nexp)                (* member = e *)
  | SPush (k : nat) (e : nexp)               (* member.push_back(e) *)
  | SClear (k : nat)                         (* member.clear() *)
  | SEval (e : nexp)                         (* an expression statement: ++member *)
  | SReturn (v : bool)
  | SBreak
  | SSwitch (body : list (option (option nat) * stmt)).   (* switch (state_): Some (Some k) = case k, Some None = default, None = statement *)

Inductive outcome := ONormal | OBreak | OReturn (v : bool).

Section Exec.
  Variable lim : nat -> N.
  Variable c : byte.

  Fixpoint neval (e : nexp) (s : store) : N * store :=
    match e with
    | NLit n => (n, s)
    | NLim k => (lim k, s)
    | NNum k => (get_num s k, s)
    | NSize k => (nlen (get_str s k), s)
    | NPreInc k => let v := get_num s k + 1 in (v, set_num s k v)
    | NChar => (c, s)
    | NLower a => let '(x, s1) := neval a s in (tolower x, s1)
    | NFromHex k => (size_of_hex (get_str s k), s)
    | NAdd a b => let '(x, s1) := neval a s in let '(y, s2) := neval b s1 in (x + y, s2)
    | NSub a b => let '(x, s1) := neval a s in let '(y, s2) := neval b s1 in (x - y, s2)
    | NMul a b => let '(x, s1) := neval a s in let '(y, s2) := neval b s1 in (x * y, s2)
    end.

  Definition cmp_eval (o : cmp) (x y : N) : bool :=
    match o with CGt => y <? x | CLt => x <? y | CGe => y <=? x | CLe => x <=? y | CEq => x =? y | CNe => negb (x =? y) end.

  Fixpoint beval (b : bexp) (s : store) : bool * store :=
    match b with
    | BPred p => (cpred_eval p c, s)
    | BCharIs ch => (c =? ch, s)
    | BNot a => let '(v, s1) := beval a s in (negb v, s1)
    | BAnd a d => let '(v, s1) := beval a s in if v then beval d s1 else (false, s1)
    | BOr a d => let '(v, s1) := beval a s in if v then (true, s1) else beval d s1
    | BEmpty k => (match get_str s k with [] => true | _ => false end, s)
    | BCmp o a d => let '(x, s1) := neval a s in let '(y, s2) := neval d s1 in (cmp_eval o x y, s2)
    | BConst v => (v, s)
    | BFlag k => (negb (get_num s k =? 0), s)
    end.

  (* run the statements of a switch body from position `from on` *)
  Fixpoint exec (st : stmt) (s : store) {struct st} : outcome * store :=
    match st with
    | SSkip => (ONormal, s)
    | SSeq a b => let '(o, s1) := exec a s in match o with ONormal => exec b s1 | _ => (o, s1) end
    | SIf cnd t e => let '(v, s1) := beval cnd s in if v then exec t s1 else exec e s1
    | SState v => (ONormal, set_state s v)
    | SNum k e => let '(v, s1) := neval e s in (ONormal, set_num s1 k v)
    | SPush k e => let '(v, s1) := neval e s in (ONormal, set_str s1 k (snoc (get_str s1 k) v))
    | SClear k => (ONormal, set_str s k [])
    | SEval e => let '(_, s1) := neval e s in (ONormal, s1)
    | SReturn v => (OReturn v, s)
    | SBreak => (OBreak, s)
    | SSwitch body =>
        let entry := s_state s in
        let matches := existsb (fun p => match fst p with Some (Some k) => Nat.eqb k entry | _ => false end) body in
        let fix go (l : list (option (option nat) * stmt)) (started : bool) (s : store) : outcome * store :=
          match l with
          | [] => (ONormal, s)
          | (lb, x) :: t =>
              let here := match lb with
                          | Some (Some k) => Nat.eqb k entry
                          | Some None => negb matches
                          | None => false
                          end in
              if started || here
              then let '(o, s1) := exec x s in match o with ONormal => go t true s1 | _ => (o, s1) end
              else go t false s
          end in
        let '(o, s1) := go body false s in (match o with OBreak => ONormal | _ => o end, s1)
    end.

  (* a function body ending in `return true` *)
  Definition run_body (body : stmt) (s : store) : store * bool :=
    let '(o, s1) := exec body s in (s1, match o with OReturn v => v | _ => true end).
End Exec.
