(* P_C18.v — sequential refinement of the bucketed map to an ordinary map. *)
From Via Require Import M_HashMap.
Local Open Scope Z_scope.

(* ---- buckets ------------------------------------------------------------------------- *)
Fixpoint sortedb (b : bucket) : Prop :=
  match b with
  | [] => True
  | (k, _) :: t => (forall k' v', In (k', v') t -> k < k') /\ sortedb t
  end.

Lemma b_find_In k b : sortedb b -> forall v, b_find k b = Some v <-> In (k, v) b.
Proof.
  induction b as [|[k' v'] t IH]; cbn [b_find sortedb In]; intros Hs v.
  - split; [discriminate|tauto].
  - destruct Hs as [Hlt Hs]. destruct (k' <? k) eqn:E1.
    + rewrite (IH Hs). split; [tauto|]. intros [H|H]; [inversion H; subst; lia|exact H].
    + destruct (k' =? k) eqn:E2.
      * apply Z.eqb_eq in E2. subst k'. split.
        -- intros H; inversion H; subst. left; reflexivity.
        -- intros [H|H]; [inversion H; reflexivity|]. apply Hlt in H. lia.
      * split; [discriminate|]. intros [H|H]; [inversion H; subst; lia|]. apply Hlt in H. lia.
Qed.

Lemma b_insert_In k v b k' v' :
  In (k', v') (b_insert k v b) -> (k' = k /\ v' = v) \/ In (k', v') b.
Proof.
  induction b as [|[k0 v0] t IH]; cbn [b_insert In].
  - intros [H|[]]; inversion H; auto.
  - destruct (k0 <? k); cbn [In].
    + intros [H|H]; [right; left; exact H|]. destruct (IH H) as [?|?]; [left|right; right]; assumption.
    + destruct (k0 =? k); cbn [In].
      * intros [H|H]; [inversion H; auto|right; right; exact H].
      * intros [H|[H|H]]; [inversion H; auto|right; left; exact H|right; right; exact H].
Qed.

Lemma b_remove_In k b k' v' : In (k', v') (b_remove k b) -> In (k', v') b.
Proof.
  induction b as [|[k0 v0] t IH]; cbn [b_remove In]; [tauto|].
  destruct (k0 <? k); cbn [In].
  - intros [H|H]; [left; exact H|right; apply IH, H].
  - destruct (k0 =? k); cbn [In]; [intros H; right; exact H|tauto].
Qed.

Lemma b_insert_sorted k v b : sortedb b -> sortedb (b_insert k v b).
Proof.
  induction b as [|[k0 v0] t IH]; cbn [b_insert sortedb].
  - intros _. split; [intros ? ? []|exact I].
  - intros [Hlt Hs]. destruct (k0 <? k) eqn:E1; cbn [sortedb].
    + split; [|apply IH, Hs]. intros k' v' H. apply b_insert_In in H. destruct H as [[-> _]|H]; [lia|eapply Hlt, H].
    + destruct (k0 =? k) eqn:E2; cbn [sortedb].
      * apply Z.eqb_eq in E2; subst k0. split; assumption.
      * split; [|split; assumption]. intros k' v' [H|H]; [inversion H; subst; lia|]. apply Hlt in H. lia.
Qed.

Lemma b_remove_sorted k b : sortedb b -> sortedb (b_remove k b).
Proof.
  induction b as [|[k0 v0] t IH]; cbn [b_remove sortedb]; [tauto|].
  intros [Hlt Hs]. destruct (k0 <? k); cbn [sortedb].
  - split; [|apply IH, Hs]. intros k' v' H. eapply Hlt, b_remove_In, H.
  - destruct (k0 =? k); cbn [sortedb]; [exact Hs|split; assumption].
Qed.

Lemma b_find_insert k v b k' : sortedb b ->
  b_find k' (b_insert k v b) = if k' =? k then Some v else b_find k' b.
Proof.
  induction b as [|[k0 v0] t IH]; cbn [b_insert b_find sortedb].
  - intros _. destruct (k' =? k) eqn:E.
    + apply Z.eqb_eq in E; subst. rewrite Z.ltb_irrefl, Z.eqb_refl. reflexivity.
    + destruct (k <? k'); [reflexivity|]. rewrite Z.eqb_sym, E. reflexivity.
  - intros [Hlt Hs]. destruct (k0 <? k) eqn:E1; cbn [b_find].
    + rewrite (IH Hs). destruct (k' =? k) eqn:E; [|reflexivity].
      apply Z.eqb_eq in E; subst. rewrite E1. reflexivity.
    + destruct (k0 =? k) eqn:E2; cbn [b_find].
      * apply Z.eqb_eq in E2; subst k0. destruct (k' =? k) eqn:E.
        -- apply Z.eqb_eq in E; subst. rewrite Z.ltb_irrefl, Z.eqb_refl. reflexivity.
        -- rewrite (Z.eqb_sym k k'), E. reflexivity.
      * destruct (k' =? k) eqn:E.
        -- apply Z.eqb_eq in E; subst. rewrite Z.ltb_irrefl, Z.eqb_refl. reflexivity.
        -- destruct (k <? k') eqn:E3; [reflexivity|].
           rewrite (Z.eqb_sym k k'), E.
           assert (k0 <? k' = false) by lia. assert (k0 =? k' = false) by lia.
           rewrite H, H0. reflexivity.
Qed.

Lemma b_find_remove k b k' : sortedb b ->
  b_find k' (b_remove k b) = if k' =? k then None else b_find k' b.
Proof.
  induction b as [|[k0 v0] t IH]; cbn [b_remove b_find sortedb].
  - intros _. destruct (k' =? k); reflexivity.
  - intros [Hlt Hs]. destruct (k0 <? k) eqn:E1; cbn [b_find].
    + rewrite (IH Hs). destruct (k' =? k) eqn:E; [|reflexivity].
      apply Z.eqb_eq in E; subst. rewrite E1. reflexivity.
    + destruct (k0 =? k) eqn:E2; cbn [b_find].
      * apply Z.eqb_eq in E2; subst k0. destruct (k' =? k) eqn:E.
        -- apply Z.eqb_eq in E; subst.
           destruct (b_find k t) eqn:F; [|reflexivity].
           apply (b_find_In k t Hs) in F. apply Hlt in F. lia.
        -- destruct (k <? k') eqn:E3; [reflexivity|].
           rewrite (Z.eqb_sym k k'), E.
           destruct (b_find k' t) eqn:F; [|reflexivity].
           apply (b_find_In k' t Hs) in F. apply Hlt in F. lia.
      * destruct (k' =? k) eqn:E; [|reflexivity].
        apply Z.eqb_eq in E; subst. rewrite E1, E2. reflexivity.
Qed.

Lemma sortedb_NoDup b : sortedb b -> NoDup (map fst b).
Proof.
  induction b as [|[k v] t IH]; cbn [sortedb map fst]; [constructor|].
  intros [Hlt Hs]. constructor; [|apply IH, Hs].
  intros H. apply in_map_iff in H. destruct H as [[k' v'] [E H]]. cbn in E; subst. apply Hlt in H. lia.
Qed.

(* ---- update_nth ----------------------------------------------------------------------- *)
Lemma update_nth_length {A} i (f : A -> A) l : length (update_nth i f l) = length l.
Proof. revert i; induction l as [|x t IH]; intros [|j]; cbn; auto. Qed.

Lemma nth_update_nth_same {A} i (f : A -> A) l d : (i < length l)%nat ->
  nth i (update_nth i f l) d = f (nth i l d).
Proof. revert i; induction l as [|x t IH]; intros [|j] H; cbn in *; try lia; auto. apply IH. lia. Qed.

Lemma nth_update_nth_other {A} i j (f : A -> A) l d : i <> j ->
  nth j (update_nth i f l) d = nth j l d.
Proof. revert i j; induction l as [|x t IH]; intros [|i] [|j] H; cbn; auto; try congruence. Qed.

(* ---- the map -------------------------------------------------------------------------- *)
Definition abs (m : hmap) (k : Z) : option Z :=
  b_find k (nth (bucket_index m k) (hm_buckets m) []).

Record wf (m : hmap) : Prop := {
  wf_nonempty : (0 < length (hm_buckets m))%nat;
  wf_sorted : forall i, sortedb (nth i (hm_buckets m) []);
  wf_placed : forall i k v, In (k, v) (nth i (hm_buckets m) []) -> bucket_index m k = i
}.

Lemma bucket_index_lt m k : (0 < length (hm_buckets m))%nat -> (bucket_index m k < length (hm_buckets m))%nat.
Proof.
  intros H. unfold bucket_index, nb.
  assert (0 <= hm_hash m k mod Z.of_nat (length (hm_buckets m)) < Z.of_nat (length (hm_buckets m))) by (apply Z.mod_pos_bound; lia).
  lia.
Qed.

Lemma nth_repeat_nil {A} i n : nth i (repeat (@nil A) n) [] = [].
Proof. revert i. induction n; intros [|i]; cbn; auto. Qed.

Lemma nth_map_nil {A B} i (l : list B) : nth i (map (fun _ : B => @nil A) l) [] = [].
Proof. revert i. induction l; intros [|i]; cbn; auto. Qed.

Lemma wf_init h n : (0 < n)%nat -> wf (hm_empty_map h n).
Proof.
  intros Hn. unfold hm_empty_map. constructor; cbn [hm_buckets].
  - rewrite repeat_length. exact Hn.
  - intros i. unfold bucket. rewrite nth_repeat_nil. exact I.
  - intros i k v H. unfold bucket in H. rewrite nth_repeat_nil in H. destruct H.
Qed.

Lemma nth_nil_default {A} i (l : list (list A)) x : In x (nth i l []) -> (i < length l)%nat.
Proof.
  intros H. destruct (Nat.lt_ge_cases i (length l)) as [L|L]; [exact L|].
  rewrite nth_overflow in H by exact L. destruct H.
Qed.

Section SameHash.
  Variable m : hmap.
  Variable f : bucket -> bucket.
  Variable i : nat.
  Let m' := {| hm_hash := hm_hash m; hm_buckets := update_nth i f (hm_buckets m) |}.

  Lemma bucket_index_update k : bucket_index m' k = bucket_index m k.
  Proof. unfold bucket_index, nb, m'. cbn [hm_hash hm_buckets]. rewrite update_nth_length. reflexivity. Qed.
End SameHash.

Lemma wf_update m k (f : bucket -> bucket) :
  wf m ->
  (forall b, sortedb b -> sortedb (f b)) ->
  (forall b k' v', In (k', v') (f b) -> k' = k \/ In (k', v') b) ->
  wf {| hm_hash := hm_hash m; hm_buckets := update_nth (bucket_index m k) f (hm_buckets m) |}.
Proof.
  intros [Hn Hs Hp] Hfs Hfi.
  constructor; cbn [hm_buckets].
  - rewrite update_nth_length. exact Hn.
  - intros i. destruct (Nat.eq_dec (bucket_index m k) i) as [E|E].
    + subst i. rewrite nth_update_nth_same by (apply bucket_index_lt, Hn). apply Hfs, Hs.
    + rewrite nth_update_nth_other by exact E. apply Hs.
  - intros i k' v' H. rewrite bucket_index_update.
    destruct (Nat.eq_dec (bucket_index m k) i) as [E|E].
    + subst i. rewrite nth_update_nth_same in H by (apply bucket_index_lt, Hn).
      apply Hfi in H. destruct H as [->|H]; [reflexivity|]. eapply Hp, H.
    + rewrite nth_update_nth_other in H by exact E. eapply Hp, H.
Qed.

Lemma wf_insert m k v : wf m -> wf (hm_insert m k v).
Proof.
  intros H. apply wf_update; [exact H|apply b_insert_sorted|].
  intros b k' v' Hin. apply b_insert_In in Hin. tauto.
Qed.

Lemma wf_erase m k : wf m -> wf (hm_erase m k).
Proof.
  intros H. apply wf_update; [exact H|apply b_remove_sorted|].
  intros b k' v' Hin. right. eapply b_remove_In, Hin.
Qed.

Lemma wf_clear m : wf m -> wf (hm_clear m).
Proof.
  intros [Hn Hs Hp].
  constructor; cbn [hm_clear hm_buckets].
  - rewrite map_length. exact Hn.
  - intros i. unfold bucket. rewrite nth_map_nil. exact I.
  - intros i k v H. unfold bucket in H. rewrite nth_map_nil in H. destruct H.
Qed.

Definition upd (s : Z -> option Z) (k : Z) (v : option Z) : Z -> option Z :=
  fun k' => if k' =? k then v else s k'.

Lemma abs_update m k (f : bucket -> bucket) (r : option Z) :
  wf m ->
  (forall b k', sortedb b -> b_find k' (f b) = if k' =? k then r else b_find k' b) ->
  forall k', abs {| hm_hash := hm_hash m; hm_buckets := update_nth (bucket_index m k) f (hm_buckets m) |} k'
             = upd (abs m) k r k'.
Proof.
  intros [Hn Hs Hp] Hf k'. unfold abs, upd. rewrite bucket_index_update. cbn [hm_buckets].
  destruct (Nat.eq_dec (bucket_index m k) (bucket_index m k')) as [E|E].
  - rewrite <- E. rewrite nth_update_nth_same by (apply bucket_index_lt, Hn). rewrite Hf by apply Hs.
    reflexivity.
  - rewrite nth_update_nth_other by exact E. destruct (k' =? k) eqn:Ek; [|reflexivity].
    apply Z.eqb_eq in Ek. subst. congruence.
Qed.

Lemma abs_insert m k v : wf m -> forall k', abs (hm_insert m k v) k' = upd (abs m) k (Some v) k'.
Proof. intros H. apply abs_update; [exact H|]. intros b k' Hb. apply b_find_insert, Hb. Qed.

Lemma abs_erase m k : wf m -> forall k', abs (hm_erase m k) k' = upd (abs m) k None k'.
Proof. intros H. apply abs_update; [exact H|]. intros b k' Hb. apply b_find_remove, Hb. Qed.

Lemma abs_clear m : forall k, abs (hm_clear m) k = None.
Proof.
  intros k. unfold abs, hm_clear. cbn [hm_buckets].
  unfold bucket. rewrite nth_map_nil. reflexivity.
Qed.

Lemma abs_In m : wf m -> forall k v, abs m k = Some v <-> In (k, v) (hm_data m).
Proof.
  intros [Hn Hs Hp] k v. unfold abs, hm_data. rewrite b_find_In by apply Hs. split.
  - intros H. apply in_concat. exists (nth (bucket_index m k) (hm_buckets m) []). split; [|exact H].
    apply nth_In, bucket_index_lt, Hn.
  - intros H. apply in_concat in H. destruct H as [b [Hb H]].
    apply (In_nth _ _ []) in Hb. destruct Hb as [i [Hi Eb]]. subst b.
    rewrite (Hp i k v H). exact H.
Qed.

Lemma hm_find_spec m k d : hm_find m k d = match abs m k with Some v => (k, v) | None => d end.
Proof. reflexivity. Qed.

Lemma hm_empty_spec m : wf m -> (hm_empty m = true <-> forall k, abs m k = None).
Proof.
  intros Hwf. unfold hm_empty. rewrite forallb_forall. split.
  - intros H k. destruct (abs m k) eqn:E; [|reflexivity].
    apply (abs_In m Hwf) in E. unfold hm_data in E. apply in_concat in E. destruct E as [b [Hb Hin]].
    specialize (H b Hb). destruct b; [destruct Hin|discriminate].
  - intros H b Hb. destruct b as [|[k v] t]; [reflexivity|exfalso].
    assert (In (k, v) (hm_data m)) by (unfold hm_data; apply in_concat; exists ((k, v) :: t); split; [exact Hb|left; reflexivity]).
    apply (abs_In m Hwf) in H0. rewrite H in H0. discriminate.
Qed.

(* keys of the snapshot are distinct *)
Lemma NoDup_app_intro {A} (a b : list A) :
  NoDup a -> NoDup b -> (forall x, In x a -> In x b -> False) -> NoDup (a ++ b).
Proof.
  induction a as [|x a IH]; cbn; intros Ha Hb Hd; [exact Hb|].
  inversion Ha; subst. constructor.
  - intros H. apply in_app_or in H. destruct H as [H|H]; [contradiction|]. eapply Hd; [left; reflexivity|exact H].
  - apply IH; [assumption|assumption|]. intros y Hy Hy'. eapply Hd; [right; exact Hy|exact Hy'].
Qed.

Lemma NoDup_concat_keys (l : list bucket) :
  (forall i, sortedb (nth i l [])) ->
  (forall i j k v w, In (k, v) (nth i l []) -> In (k, w) (nth j l []) -> i = j) ->
  NoDup (map fst (concat l)).
Proof.
  induction l as [|b t IH]; intros Hs Hd; cbn [concat map]; [constructor|].
  rewrite map_app. apply NoDup_app_intro.
  - apply sortedb_NoDup. apply (Hs O).
  - apply IH.
    + intros i. apply (Hs (S i)).
    + intros i j k v w Hi Hj. assert (S i = S j) by (eapply Hd; [exact Hi|exact Hj]). congruence.
  - intros k Hk Hk'. apply in_map_iff in Hk. destruct Hk as [[k1 v] [E Hk]]. cbn in E; subst k1.
    apply in_map_iff in Hk'. destruct Hk' as [[k2 w] [E Hk']]. cbn in E; subst k2.
    apply in_concat in Hk'. destruct Hk' as [b' [Hb' Hin]].
    apply (In_nth _ _ []) in Hb'. destruct Hb' as [j [Hj Eb]]. subst b'.
    assert (O = S j) by (eapply Hd; [exact Hk|exact Hin]). discriminate.
Qed.

Lemma hm_data_NoDup m : wf m -> NoDup (map fst (hm_data m)).
Proof.
  intros [Hn Hs Hp]. apply NoDup_concat_keys; [exact Hs|].
  intros i j k v w Hi Hj. rewrite <- (Hp i k v Hi). apply (Hp j k w Hj).
Qed.

(* ---- the sequential specification and the refinement ---------------------------------- *)
Inductive spec_step : (Z -> option Z) -> hop -> (Z -> option Z) -> hres -> Prop :=
  | SInsert s k v : spec_step s (OInsert k v) (upd s k (Some v)) RUnit
  | SErase s k : spec_step s (OErase k) (upd s k None) RUnit
  | SFind s k : spec_step s (OFind k) s (RPair (match s k with Some v => (k, v) | None => (0, 0) end))
  | SEmpty s b : (b = true <-> forall k, s k = None) -> spec_step s OEmpty s (RBool b)
  | SData s l : NoDup (map fst l) -> (forall k v, In (k, v) l <-> s k = Some v) -> spec_step s OData s (RList l)
  | SClear s : spec_step s OClear (fun _ => None) RUnit.

Definition R (m : hmap) (s : Z -> option Z) : Prop := forall k, abs m k = s k.

Lemma step_refines m s o : wf m -> R m s ->
  exists s', spec_step s o s' (snd (hm_step m o)) /\ R (fst (hm_step m o)) s' /\ wf (fst (hm_step m o)).
Proof.
  intros Hwf HR. destruct o as [k v|k|k| | |]; cbn [hm_step fst snd].
  - exists (upd s k (Some v)). split; [constructor|split; [|apply wf_insert, Hwf]].
    intros k'. rewrite abs_insert by exact Hwf. unfold upd. rewrite HR. reflexivity.
  - exists (upd s k None). split; [constructor|split; [|apply wf_erase, Hwf]].
    intros k'. rewrite abs_erase by exact Hwf. unfold upd. rewrite HR. reflexivity.
  - exists s. split; [|split; assumption]. rewrite hm_find_spec, HR. constructor.
  - exists s. split; [|split; assumption]. constructor. rewrite (hm_empty_spec m Hwf).
    split; intros H k; [rewrite <- HR|rewrite HR]; apply H.
  - exists s. split; [|split; assumption]. constructor; [apply hm_data_NoDup, Hwf|].
    intros k v. rewrite <- HR. symmetry. apply abs_In, Hwf.
  - exists (fun _ => None). split; [constructor|split; [|apply wf_clear, Hwf]].
    intros k. apply abs_clear.
Qed.

Inductive spec_run : (Z -> option Z) -> list hop -> list hres -> Prop :=
  | SRnil s : spec_run s [] []
  | SRcons s o s' r ops rs : spec_step s o s' r -> spec_run s' ops rs -> spec_run s (o :: ops) (r :: rs).

Lemma run_refines ops : forall m s, wf m -> R m s -> spec_run s ops (hm_run m ops).
Proof.
  induction ops as [|o ops IH]; intros m s Hwf HR; cbn [hm_run]; [constructor|].
  destruct (step_refines m s o Hwf HR) as [s' [Hs [HR' Hwf']]].
  destruct (hm_step m o) as [m' r]. cbn [fst snd] in *. econstructor; [exact Hs|]. apply IH; assumption.
Qed.

Lemma R_init h n : R (hm_empty_map h n) (fun _ => None).
Proof.
  intros k. unfold abs, hm_empty_map. cbn [hm_buckets].
  unfold bucket. rewrite nth_repeat_nil. reflexivity.
Qed.

Lemma C18_seq_refines_lemma h n ops : (0 < n)%nat ->
  spec_run (fun _ => None) ops (hm_run (hm_empty_map h n) ops).
Proof. intros Hn. apply run_refines; [apply wf_init, Hn|apply R_init]. Qed.

(* erase touches nothing but the given key *)
Lemma C18_erase_only_key_lemma m k : wf m -> forall k', k' <> k -> abs (hm_erase m k) k' = abs m k'.
Proof.
  intros H k' Hne. rewrite abs_erase by exact H. unfold upd.
  destruct (k' =? k) eqn:E; [apply Z.eqb_eq in E; contradiction|reflexivity].
Qed.
