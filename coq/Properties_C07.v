(* Properties_C07.v — C07: client-side response reception is faithful and fragmentation-invariant.
   The response line parser does not depend on the partition into reads; header lines, header blocks
   and chunk lines are the parsers of Properties_C01/C02 (shared code); an error in the response head
   is flagged, so it is reported invalid even on the last byte of a read. *)
From Via Require Import M_Char M_Parse M_Receive P_Parse.
From Via Require Import P_Frag P_FragC P_Term P_TermC.
From Via Require Import M_Imp M_Loop M_Hdr M_Msg M_Chunk Gen_Parse P_Imp P_Loop P_Hdr P_Msg P_C06b P_Chunk.
From Via Require Import M_Client P_Client.
From Via Require Import M_Query M_Recv P_C05 P_C06b P_Chunk P_Recv P_RecvC P_RecvC2.
Local Open Scope N_scope.

Theorem C07_status_line_fragments : forall L a r b, sl_valid r = false ->
  sl_parse L r (a ++ b) =
  match sl_parse L r a with
  | (r1, ra, Done) => (r1, ra ++ b, Done)
  | (r1, ra, Fail) => (r1, ra ++ b, Fail)
  | (r1, _, More) => sl_parse L r1 b
  end.
Proof. intros L a r b. exact (sl_parse_app L a r b). Qed.

Theorem C07_status_line_failure_flagged : forall L buf r r1 rest,
  sl_parse L r buf = (r1, rest, Fail) -> sl_fail r1 = true.
Proof. intros L buf. exact (sl_parse_fail L buf). Qed.

Theorem C07_headers_failure_flagged : forall L h buf h1 rest,
  hd_parse L h buf = (h1, rest, Fail) -> hd_fail h1 = true.
Proof. exact hd_parse_fail. Qed.

Theorem C07_field_line_fragments : forall L a f b,
  fl_parse L f (a ++ b) =
  match fl_parse L f a with
  | (f1, ra, r) =>
      match r with
      | Fail => (f1, ra ++ b, Fail)
      | More => fl_parse L f1 b
      | Done => match ra with [] => fl_parse L f1 b | _ => (f1, ra ++ b, Done) end
      end
  end.
Proof. exact fl_parse_app. Qed.

Example C07_example_status_line :
  let L := mk_limits 0 0 65534 9223372036854775807 65534 254 65534 65534 false in
  let a := [72;84;84;80;47;49;46;49;32;50] in          (* "HTTP/1.1 2" *)
  let b := [48;48;32;79;75;13;10] in                    (* "00 OK\r\n"   *)
  sl_status (fst (fst (sl_parse L sl_init (a ++ b)))) = 200 /\
  sl_parse L sl_init (a ++ b) = (let '(r1, _, _) := sl_parse L sl_init a in sl_parse L r1 b).
Proof. vm_compute. split; reflexivity. Qed.

(* ---- the client over its connection ---- *)
(* a connect after any previous session starts from a clean connection (nothing of the old session makes the
   new one stop reading or report a disconnection) *)
Theorem C07_client_connect_starts_clean : forall o k rf, k_connected k = false ->
  let k1 := fst (fst (k_do_connect o k rf)) in
  k_transmitting k1 = false /\ k_disc_pending k1 = false /\ k_shutdown_sent k1 = false.
Proof. exact client_connect_starts_clean. Qed.

(* ---- the response head and the chunk ---- *)
Theorem C07_response_head_fragments : forall L q a b, rp_ok q ->
  rp_parse L q (a ++ b) =
  match rp_parse L q a with
  | (q1, ra, Done) => (q1, ra ++ b, Done)
  | (q1, ra, Fail) => (q1, ra ++ b, Fail)
  | (q1, _, More) => rp_parse L q1 b
  end.
Proof. exact rp_parse_app. Qed.

Theorem C07_chunk_fragments : forall L k a b, rc_ok k ->
  rc_parse L k (a ++ b) =
  match rc_parse L k a with
  | (k1, ra, Done) => (k1, ra ++ b, Done)
  | (k1, ra, Fail) => (k1, ra ++ b, Fail)
  | (k1, _, More) => rc_parse L k1 b
  end.
Proof. exact rc_parse_app. Qed.

(* ---- response_receiver::receive, the client's read loop, a whole response stream ---- *)
(* a call that stops before the end of its buffer does not depend on what follows; a call that ran out of data is
   continued exactly by the next call; a call that delivers a response or a chunk with the last byte of the read
   returns the same when more bytes follow (for responses that say how they are framed: without Content-Length and
   without chunked coding the body is "whatever arrives until the connection closes") *)
Theorem C07_receive_fragments : forall cfg v a b v1 ra r, cv_ok v -> cframed_call cfg v a = true ->
  creceive cfg v a = (v1, ra, r) ->
  (ra <> [] -> creceive cfg v (a ++ b) = (v1, ra ++ b, r)) /\
  (ra = [] -> r = RX_INCOMPLETE -> creceive cfg v (a ++ b) = creceive cfg v1 b) /\
  (ra = [] -> r = RX_VALID \/ r = RX_CHUNK -> creceive cfg v (a ++ b) = (v1, b, r)).
Proof. exact creceive_app. Qed.

(* however a response stream is cut into reads (no rejection before the last read, framed responses, no loop out of
   fuel), the reads deliver to the client application exactly what the stream delivers in a single read, in the same
   order, and leave the receiver in the same state; no bound on the number or sizes of the reads *)
Theorem C07_fragmentation_invariance : forall cfg frags, ccuts_ok cfg (cv_init cfg) frags ->
  exists N c, forall k,
    crx_loop (N + k) cfg (cv_init cfg) (concat frags) =
    (fst (fst (fst (cfeed cfg (cv_init cfg) frags))), snd (fst (fst (cfeed cfg (cv_init cfg) frags))), c, false).
Proof. intros cfg frags H. apply cfeed_is_stream; [exact (cv_ok_init cfg) | exact H]. Qed.

(* the same about cread_loop itself, the loop http_client::receive_handler runs: the client's read loop is proved to
   terminate (P_TermC.v), so no fuel appears (ccuts_fine is ccuts_ok without the "not out of fuel" clause) *)
Theorem C07_fragmentation_invariance_of_the_read_loop : forall cfg frags, ccuts_fine cfg (cv_init cfg) frags ->
  exists c,
    cread_loop cfg (cv_init cfg) (concat frags) =
    (fst (fst (fst (cfeed cfg (cv_init cfg) frags))), snd (fst (fst (cfeed cfg (cv_init cfg) frags))), c, false).
Proof. intros cfg frags H. apply cfeed_is_one_read; [exact (cv_ok_init cfg) | exact (cv_inv3_init cfg) | exact H]. Qed.

(* non-vacuity: a chunked response cut inside the status line, exactly behind the head, inside a chunk and inside the
   trailers satisfies the premise; the reads deliver the head, one chunk and the last chunk *)
Example C07_example_cuts_ok :
  let cfg := mk_ccfg (mk_limits 0 0 65534 9223372036854775807 65534 254 65534 65534 false) 1048576 1048576 in
  let frags := [[72;84;84;80;47;49;46;49;32;50];
                [48;48;32;79;75;13;10;84;114;97;110;115;102;101;114;45;69;110;99;111;100;105;110;103;58;32;99;104;117;110;107;101;100;13;10;13;10];
                [50;13;10;104];
                [105;13;10;48;13;10;84;58];
                [32;118;13;10;13;10]] in
  ccuts_ok cfg (cv_init cfg) frags /\ length (snd (fst (fst (cfeed cfg (cv_init cfg) frags)))) = 3%nat.
Proof.
  split; [|vm_compute; reflexivity].
  cbn [ccuts_ok]. vm_compute.
  repeat match goal with
  | |- _ /\ _ => split
  | |- ?a = ?a => reflexivity
  | |- True => exact I
  | |- _ \/ _ \/ _ =>
      first [ right; left; reflexivity
            | right; right; split;
              [ match goal with |- exists _ _ _, ?L = _ /\ _ => let p := eval vm_compute in (removelast L) in exists p end;
                eexists _, _; split; [reflexivity | first [left; reflexivity | right; left; reflexivity | right; right; reflexivity]]
              | split; [ intros r n Hin; repeat (destruct Hin as [E|Hin]; [inversion E; subst; split; discriminate|]); destruct Hin | reflexivity ] ] ]
  end.
Qed.

Print Assumptions C07_status_line_fragments.
Print Assumptions C07_field_line_fragments.
Print Assumptions C07_client_connect_starts_clean.
Print Assumptions C07_response_head_fragments.
Print Assumptions C07_chunk_fragments.
Print Assumptions C07_receive_fragments.
Print Assumptions C07_fragmentation_invariance.
Print Assumptions C07_fragmentation_invariance_of_the_read_loop.

(* ---- the tie to the source, as a theorem ----
   The character-level parser functions of the model are not only compared with the code on generated inputs: the bodies
   of the C++ functions (parse_char) are translated from clang's AST on every run (translate/parse.py -> Gen_Parse.v, a
   term of the small imperative language of M_Imp.v), and the model function is proved to compute, for EVERY state,
   character and limit configuration (strict and lenient CRLF), exactly what the translated body computes.  A change of
   the source that changes what parse_char does makes this theorem fail. *)
Theorem C07_status_line_model_is_the_source : forall L r c,
  run_body (sl_lim L) c (sl_src L) (sl_store r) = (sl_store (fst (sl_parse_char L r c)), snd (sl_parse_char L r c)).
Proof. exact sl_parse_char_is_the_source. Qed.
Theorem C07_field_line_model_is_the_source : forall L f c,
  run_body (fl_lim L) c (fl_src L) (fl_store f) = (fl_store (fst (fl_parse_char L f c)), snd (fl_parse_char L f c)).
Proof. exact fl_parse_char_is_the_source. Qed.
Print Assumptions C07_status_line_model_is_the_source.
Print Assumptions C07_field_line_model_is_the_source.

(* the loops around parse_char and clear(), translated and proved equal to the model for every state and every input
   (see Properties_C01.v for what the statements say); the chunk-size line of a chunked response *)
Theorem C07_status_line_loop_is_the_source : forall L r buf fuel, (length buf < fuel)%nat ->
  lrun (sl_lim L) (sl_src L) fuel sl_parse_src (sl_store r) buf =
  Some (let '(r', rest, p) := sl_parse L r buf in (is_done p, sl_store r', rest)).
Proof. exact sl_parse_is_the_source. Qed.
Theorem C07_field_line_loop_is_the_source : forall L f buf fuel, (length buf < fuel)%nat ->
  lrun (fl_lim L) (fl_src L) fuel fl_parse_src (fl_store f) buf =
  Some (let '(f', rest, p) := fl_parse L f buf in (is_done p, fl_store f', rest)).
Proof. exact fl_parse_is_the_source. Qed.
Theorem C07_chunk_line_model_is_the_source : forall L k c,
  run_body (ck_lim L) c (ck_src L) (ck_store k) = (ck_store (fst (ck_parse_char L k c)), snd (ck_parse_char L k c)).
Proof. exact ck_parse_char_is_the_source. Qed.
Theorem C07_chunk_line_loop_is_the_source : forall L k buf fuel, (length buf < fuel)%nat ->
  lrun (ck_lim L) (ck_src L) fuel ck_parse_src (ck_store k) buf =
  Some (let '(k', rest, p) := ck_parse L k buf in (is_done p, ck_store k', rest)).
Proof. exact ck_parse_is_the_source. Qed.
Theorem C07_status_line_reset_is_the_source : forall lim c r,
  exec lim c sl_clear_src (sl_store r) = (ONormal, sl_store sl_init).
Proof. exact sl_clear_is_the_source. Qed.
Print Assumptions C07_status_line_loop_is_the_source.
Print Assumptions C07_field_line_loop_is_the_source.
Print Assumptions C07_chunk_line_model_is_the_source.
Print Assumptions C07_chunk_line_loop_is_the_source.
Print Assumptions C07_status_line_reset_is_the_source.

Theorem C07_header_block_is_the_source : forall L h buf fuel, hd_ok h -> (length buf + 2 <= fuel)%nat ->
  hrun (fl_lim L) (hd_lim L) (fl_code_of L) fuel hd_parse_src (hd_store h) buf =
  Some (let '(h', rest, p) := hd_parse L h buf in (is_done p, hd_store h', rest)).
Proof. exact hd_parse_is_the_source. Qed.
Print Assumptions C07_header_block_is_the_source.

(* rx_response::parse(iter, end): status line, then header block, then valid - the model's rp_parse is the translated
   source (see Properties_C01.v for the request side) *)
Theorem C07_response_head_is_the_source : forall L q buf fuel, hd_ok (rp_headers q) -> (length buf + 2 <= fuel)%nat ->
  mrun (sl_lim L) (fl_lim L) (hd_lim L) (sl_code_of L) (hd_code_of L) fuel rs_parse_src (rp_store q) buf =
  Some (let '(q', rest, p) := rp_parse L q buf in (is_done p, rp_store q', rest)).
Proof. exact rp_parse_is_the_source. Qed.
Print Assumptions C07_response_head_is_the_source.

(* rx_chunk::parse of a chunked response: the model's rc_parse is the translated source (see Properties_C01.v) *)
Theorem C07_chunk_is_the_source : forall L k buf fuel,
  rc_inv L k -> hd_ok (rc_trailers k) -> small (ck_max (rc_hdr k)) -> (length buf + 2 <= fuel)%nat ->
  crun (ck_lim L) (fl_lim L) (hd_lim L) (kc_of L) (hd_code_of L) fuel (rc_src L) (rc_store k) buf =
  Some (let '(k', rest, p) := rc_parse L k buf in (is_done p, rc_store k', rest)).
Proof. exact rc_parse_is_the_source. Qed.
Print Assumptions C07_chunk_is_the_source.

Theorem C07_response_reset_is_the_source : forall L fuel q inp,
  mexec (sl_lim L) (fl_lim L) (hd_lim L) (sl_code_of L) (hd_code_of L) fuel rs_clear_src (mk_mst (rp_store q) inp) =
  Some (LNormal, mk_mst (rp_store rp_init) inp).
Proof. exact rp_clear_is_the_source. Qed.
Print Assumptions C07_response_reset_is_the_source.

(* ---- response_receiver::receive itself ----
   The whole function - head, Content-Length body (a body without a length up to max_body_size_), chunked branch - and
   clear() are translated from clang's AST on every run (terms of M_Recv.v whose calls run the translated functions of
   the layers below), and the model's creceive, about which the theorems of this file speak, is proved to return what
   the translated body returns - Rx value, receiver afterwards, input left unread - for every receiver whose parts
   satisfy the invariants the connection keeps (cbody_inv: P_RecvC2; rc_inv, hd_ok), limits below 2^63, every input on
   which the loop calls it (non-empty once the head is complete) and every sufficient fuel. *)
Theorem C07_receive_is_the_source : forall cfg c buf fuel,
  cbody_inv cfg c -> (rp_valid (cv_rsp c) = true -> buf <> []) ->
  hd_ok (rp_headers (cv_rsp c)) -> rc_inv (cc_lim cfg) (cv_chunk c) -> hd_ok (rc_trailers (cv_chunk c)) ->
  small (ck_max (rc_hdr (cv_chunk c))) -> small (cc_max_body cfg) -> small (nlen (cv_body c)) ->
  (length buf + 2 <= fuel)%nat ->
  rrun (sl_lim (cc_lim cfg)) (fl_lim (cc_lim cfg)) (hd_lim (cc_lim cfg)) (ck_lim (cc_lim cfg)) (ccode_of (cc_lim cfg))
       (cc_max_body cfg) false false cv_clear_src fuel cv_receive_src (cv_store c) buf =
  (let '(c', rest, r) := creceive cfg c buf in
   match rx_of r with Some x => Some (x, cv_store c', rest) | None => None end).
Proof.
  intros cfg c buf fuel Hbi Hne. pose proof (creceive_safe cfg c buf Hbi Hne) as [_ Hub].
  exact (creceive_is_the_source cfg c buf fuel Hub).
Qed.
(* the premise about the body collected so far is an invariant of the client's read loop: over every sequence of reads no
   call of creceive reaches the model's undefined case (the loop calls receive only on a non-empty buffer) *)
Theorem C07_client_calls_never_undefined : forall cfg frags v, cbody_inv cfg v ->
  let '(v', _, calls, _) := cfeed cfg v frags in cbody_inv cfg v' /\ Forall calls_ok calls.
Proof. intros cfg frags v. exact (cfeed_safe cfg frags v). Qed.
Example C07_client_invariant_initially : forall cfg, cbody_inv cfg (cv_init cfg).
Proof. exact cbody_inv_init. Qed.
(* the translated function really runs: a complete response with a body of three bytes, one byte more in the buffer *)
Example C07_receive_source_example :
  let cfg := mk_ccfg (mk_limits 8190 8 100 65534 1024 8 65534 65534 false) 1048576 1048576 in
  match rrun (sl_lim (cc_lim cfg)) (fl_lim (cc_lim cfg)) (hd_lim (cc_lim cfg)) (ck_lim (cc_lim cfg)) (ccode_of (cc_lim cfg))
             (cc_max_body cfg) false false cv_clear_src 80 cv_receive_src (cv_store (cv_init cfg))
             [72;84;84;80;47;49;46;49;32;50;48;48;32;79;75;13;10;67;111;110;116;101;110;116;45;76;101;110;103;116;104;58;32;51;13;10;13;10;97;98;99;72] with
  | Some (VX_VALID, st, rest) => rs_body st = [97;98;99] /\ rest = [72]
  | _ => False
  end.
Proof. vm_compute. split; reflexivity. Qed.
Print Assumptions C07_receive_is_the_source.
Print Assumptions C07_client_calls_never_undefined.
