(* Properties_C07.v — C07: client-side response reception is faithful and fragmentation-invariant.
   The response line parser does not depend on the partition into reads; header lines, header blocks
   and chunk lines are the parsers of Properties_C01/C02 (shared code); an error in the response head
   is flagged, so it is reported invalid even on the last byte of a read. *)
From Via Require Import M_Char M_Parse M_Receive P_Parse.
From Via Require Import P_Frag.
From Via Require Import M_Client P_Client.
Local Open Scope N_scope.

Theorem C07_status_line_fragments : forall L a r b, sl_valid r = false ->
  sl_parse L r (a ++ b) =
  match sl_parse L r a with
  | (r1, ra, Done) => (r1, ra ++ b, Done)
  | (r1, ra, Fail) => (r1, ra ++ b, Fail)
  | (r1, _, More) => sl_parse L r1 b
  end.
Proof. intros L a r b. exact (sl_parse_app L a r b). Qed.

Theorem C07_status_line_failure_flagged : forall L buf r r1 rest,
  sl_parse L r buf = (r1, rest, Fail) -> sl_fail r1 = true.
Proof. intros L buf. exact (sl_parse_fail L buf). Qed.

Theorem C07_headers_failure_flagged : forall L h buf h1 rest,
  hd_parse L h buf = (h1, rest, Fail) -> hd_fail h1 = true.
Proof. exact hd_parse_fail. Qed.

Theorem C07_field_line_fragments : forall L a f b,
  fl_parse L f (a ++ b) =
  match fl_parse L f a with
  | (f1, ra, r) =>
      match r with
      | Fail => (f1, ra ++ b, Fail)
      | More => fl_parse L f1 b
      | Done => match ra with [] => fl_parse L f1 b | _ => (f1, ra ++ b, Done) end
      end
  end.
Proof. exact fl_parse_app. Qed.

Example C07_example_status_line :
  let L := mk_limits 0 0 65534 9223372036854775807 65534 254 65534 65534 false in
  let a := [72;84;84;80;47;49;46;49;32;50] in          (* "HTTP/1.1 2" *)
  let b := [48;48;32;79;75;13;10] in                    (* "00 OK\r\n"   *)
  sl_status (fst (fst (sl_parse L sl_init (a ++ b)))) = 200 /\
  sl_parse L sl_init (a ++ b) = (let '(r1, _, _) := sl_parse L sl_init a in sl_parse L r1 b).
Proof. vm_compute. split; reflexivity. Qed.

(* ---- the client over its connection ---- *)
(* a connect after any previous session starts from a clean connection (nothing of the old session makes the
   new one stop reading or report a disconnection) *)
Theorem C07_client_connect_starts_clean : forall o k rf, k_connected k = false ->
  let k1 := fst (fst (k_do_connect o k rf)) in
  k_transmitting k1 = false /\ k_disc_pending k1 = false /\ k_shutdown_sent k1 = false.
Proof. exact client_connect_starts_clean. Qed.

(* ---- the response head and the chunk ---- *)
Theorem C07_response_head_fragments : forall L q a b, rp_ok q ->
  rp_parse L q (a ++ b) =
  match rp_parse L q a with
  | (q1, ra, Done) => (q1, ra ++ b, Done)
  | (q1, ra, Fail) => (q1, ra ++ b, Fail)
  | (q1, _, More) => rp_parse L q1 b
  end.
Proof. exact rp_parse_app. Qed.

Theorem C07_chunk_fragments : forall L k a b, rc_ok k ->
  rc_parse L k (a ++ b) =
  match rc_parse L k a with
  | (k1, ra, Done) => (k1, ra ++ b, Done)
  | (k1, ra, Fail) => (k1, ra ++ b, Fail)
  | (k1, _, More) => rc_parse L k1 b
  end.
Proof. exact rc_parse_app. Qed.

Print Assumptions C07_status_line_fragments.
Print Assumptions C07_field_line_fragments.
Print Assumptions C07_client_connect_starts_clean.
Print Assumptions C07_response_head_fragments.
Print Assumptions C07_chunk_fragments.
